(* Omen.v -- executable Gallina model of the OMEN (Markov) guess generator of
   /repo/lib_guesser/omen: guess_structure.py (GuessStructure), optimizer.py
   (Optimizer), markov_cracker.py (MarkovCracker).  Definitions only.

   The tables are functions (ipf = grammar['ip'][l], cpf = grammar['cp'][p][l]
   with [] for an absent key, lnf = grammar['ln'][l]); the files enter through
   OmenSpec.ip_at / cp_at / ln_at or the indexed table below ([cp_fast]), proved
   equal to [cp_at] in OmenProofs.v.

   In-place mutation of the parse tree becomes a functional state; the memo
   table of the Optimizer is an explicit finite map threaded through every call
   (the Optimizer copies on store and on lookup, i.e. value semantics). *)
From Coq Require Import List Arith Bool NArith ZArith.
From Pcfg Require Import OmenSpec.
Import ListNotations.

(* ------------------------------------------------------------------ *)
(* Optimizer: tmto_lookup[length][ip_ngram][target_level]               *)

Definition ckey := (nat * ostr * Z)%type.
Definition ckey_eqb (a b : ckey) : bool :=
  match a, b with
  | (k1, p1, l1), (k2, p2, l2) => Nat.eqb k1 k2 && Z.eqb l1 l2 && ostr_eqb p1 p2
  end.

(* stored value: Some t (a parse tree) or None ("no completion exists").
   Representation: per ip_ngram the list of ((length, level), value) entries,
   newest first (a later update for the same key shadows the older one, as the
   dict assignment does). *)
Definition cbucket := list ((nat * Z) * option tree).
Definition cache := list (ostr * cbucket).
Definition cempty : cache := [].

Fixpoint bucket_lookup (b : cbucket) (k : nat) (l : Z) : option (option tree) :=
  match b with
  | [] => None
  | ((k', l'), v) :: r => if Nat.eqb k' k && Z.eqb l' l then Some v else bucket_lookup r k l
  end.

(* Optimizer.lookup: None = KeyError (not cached), Some v = cached value v *)
Fixpoint clookup (c : cache) (key : ckey) : option (option tree) :=
  match c with
  | [] => None
  | (p', b) :: r =>
      match key with (k, p, l) => if ostr_eqb p' p then bucket_lookup b k l else clookup r key end
  end.

(* Optimizer.update *)
Fixpoint cupdate (c : cache) (key : ckey) (v : option tree) : cache :=
  match key with (k, p, l) =>
    match c with
    | [] => [(p, [((k, l), v)])]
    | (p', b) :: r => if ostr_eqb p' p then (p', ((k, l), v) :: b) :: r else (p', b) :: cupdate r key v
    end
  end.

(* all entries (for comparing with the implementation's dictionary) *)
Definition cache_entries (c : cache) : list (ckey * option tree) :=
  flat_map (fun pb => map (fun e => ((fst (fst e), fst pb, snd (fst e)), snd e)) (snd pb)) c.

(* first success of a state-threading search over a list *)
Fixpoint first_st {X S R} (f : S -> X -> option R * S) (s : S) (xs : list X) : option R * S :=
  match xs with
  | [] => (None, s)
  | x :: r =>
      match f s x with
      | (Some y, s') => (Some y, s')
      | (None, s') => first_st f s' r
      end
  end.

(* the choices that follow choice (L, i) at a position with prefix p: the
   remaining indices of level L, then every lower level from index 0
   (GuessStructure.next_guess: inner while over last_item[2], then
   _find_cp(last_item[0], depth_level-1, 0) until level 0; a level without
   entries has no index to try, which is what _find_cp skips) *)
Definition later_choices (cpf : ostr -> nat -> list N) (p : ostr) (L i : nat) : list (nat * (nat * N)) :=
  map (pair L) (skipn (S i) (indexed (cpf p L))) ++
  flat_map (fun L' => map (pair L') (indexed (cpf p L')))
           (match L with 0 => [] | S m => down_from m end).

Section Model.
  Variable ipf : nat -> list ostr.
  Variable cpf : ostr -> nat -> list N.
  Variable lnf : nat -> list nat.
  Variable maxl : nat.           (* grammar['max_level'] *)
  Variable optmax : nat.         (* Optimizer.max_length (4 in PcfgGrammar) *)
  Variable ffo_extra : nat.      (* _find_first_object scans range(0, max_level + ffo_extra):
                                    0 as coded (gen/Consts_gen.v: omen_first_object_extra) *)

  (* ---------------- GuessStructure._find_cp ---------------- *)
  (* highest level L with bottom <= L <= min top maxl that has an entry for p.
     ("ip not in self.cp" = no level has an entry.)  Returns the level; the
     list itself is cpf p L. *)
  Fixpoint scan_down (p : ostr) (n : nat) (bottom : Z) : option nat :=
    if (Z.of_nat n <? bottom)%Z then None
    else if negb (is_nil (cpf p n)) then Some n
    else match n with 0 => None | S m => scan_down p m bottom end.

  Definition find_cp (p : ostr) (top bottom : Z) : option nat :=
    if (top <? 0)%Z then None else scan_down p (Nat.min (Z.to_nat top) maxl) bottom.

  (* ---------------- GuessStructure._fill_out_parse_tree ---------------- *)
  (* length == 1: _find_cp(ip, target, target), index 0, never cached.
     length  > 1: lookup (if length <= max_length); else levels from
     min target maxl down to 0 (empty levels are skipped by _find_cp), indices
     in order, recursive fill with the remaining budget; the first success or
     the final failure is stored under (length, ip, target). *)
  Fixpoint fill (k : nat) (c : cache) (p : ostr) (lvl : Z) : option tree * cache :=
    match k with
    | 0 => (None, c)
    | S k' =>
        match k' with
        | 0 =>
            match find_cp p lvl lvl with
            | None => (None, c)
            | Some L => (Some [(p, L, 0)], c)
            end
        | S _ =>
            let cached := if Nat.leb k optmax then clookup c (k, p, lvl) else None in
            match cached with
            | Some r => (r, c)
            | None =>
                let '(r, c') :=
                  first_st (fun c1 L =>
                    first_st (fun c2 ic =>
                      let '(r2, c3) := fill k' c2 (shift p (snd ic)) (lvl - Z.of_nat L) in
                      (option_map (cons (p, L, fst ic)) r2, c3))
                      c1 (indexed (cpf p L)))
                    c (levels_down maxl lvl) in
                (r, if Nat.leb k optmax then cupdate c' (k, p, lvl) r else c')
            end
        end
    end.

  (* ---------------- GuessStructure.next_guess ---------------- *)
  (* one candidate at the current depth: new_ip = element[0][0:-1] + char,
     _fill_out_parse_tree(new_ip, req_length, req_level - depth_level) *)
  Definition try_choice (rest : list row) (p elem_p : ostr) (m : nat) (B : Z)
             (c : cache) (ch : nat * (nat * N)) : option tree * cache :=
    let L := fst ch in
    let new_ip := removelast elem_p ++ [snd (snd ch)] in
    let '(r, c') := fill m c new_ip (B - Z.of_nat L) in
    (option_map (fun new => rev rest ++ (p, L, fst (snd ch)) :: new) r, c').

  (* the while-loop over depths.  st = the parse tree reversed (head = last
     item), elem = the element popped last, m = req_length, B = req_level. *)
  Fixpoint gs_backtrack (c : cache) (st : list row) (elem : row) (m : nat) (B : Z)
    : option tree * cache :=
    match st with
    | [] => (None, c)
    | (p, L, i) :: rest =>
        match first_st (try_choice rest p (row_prefix elem) m B) c (later_choices cpf p L i) with
        | (Some t, c') => (Some t, c')
        | (None, c') =>
            gs_backtrack c' rest (p, L, i) (S m)
              (match rest with [] => B | r :: _ => B + Z.of_nat (row_level r) end)%Z
        end
    end.

  (* parameters of a GuessStructure: ip, cp_length, target_level; state: parse tree.
     Result: the new parse tree (None: no guess left, parse_tree is empty again) *)
  Definition gs_next (c : cache) (ip : ostr) (k : nat) (target : Z) (t : tree)
    : option tree * cache :=
    match rev t with
    | [] => fill k c ip target
    | (p, L, i) :: rest =>
        if Nat.ltb (S i) (length (cpf p L)) then (Some (rev ((p, L, S i) :: rest)), c)
        else match rest with
             | [] => (None, c)
             | r :: _ => gs_backtrack c rest (p, L, i) 1 (Z.of_nat L + Z.of_nat (row_level r))%Z
             end
    end.

  Definition format_guess (ip : ostr) (t : tree) : ostr := ip ++ tree_chars cpf t.

  (* ---------------- MarkovCracker ---------------- *)
  (* _find_first_object: for level in range(0, max_level [+ ffo_extra]): first
     non-empty; None = the constructor raises *)
  Definition find_first_object {X} (tbl : nat -> list X) : option nat :=
    find (fun l => negb (is_nil (tbl l))) (seq 0 (maxl + ffo_extra)).

  Record mc_state := mk_mc {
    mc_target  : Z;              (* target_level *)
    mc_started : bool;           (* cur_guess is not None *)
    mc_len     : nat * nat;      (* cur_len = [level, index] *)
    mc_ip      : nat * nat;      (* cur_ip  = [level, index] *)
    mc_tree    : tree;           (* cur_guess.parse_tree *)
    mc_first   : bool            (* cur_guess.first_guess (never changed by the code) *)
  }.

  Definition mc_new (T : Z) : mc_state := mk_mc T false (0, 0) (0, 0) [] true.

  (* the constructor arguments of the current GuessStructure *)
  Definition cur_ipstr (st : mc_state) : ostr := nth (snd (mc_ip st)) (ipf (fst (mc_ip st))) [].
  Definition cur_k (st : mc_state) : nat := nth (snd (mc_len st)) (lnf (fst (mc_len st))) 0.
  Definition cur_target (st : mc_state) : Z :=
    (mc_target st - Z.of_nat (fst (mc_len st)) - Z.of_nat (fst (mc_ip st)))%Z.

  (* the cursor advance shared by _increase_ip_for_target (bound =
     working_target) and _increase_len_for_target (bound = target_level):
     d = max_level - level levels remain above *)
  Fixpoint inc_cursor {X} (tbl : nat -> list X) (d level index : nat) (bound : Z) : option (nat * nat) :=
    if Nat.ltb index (length (tbl level)) then Some (level, index)
    else match d with
         | 0 => None                                   (* level + 1 > max_level *)
         | S d' => if (bound <? Z.of_nat (S level))%Z then None
                   else inc_cursor tbl d' (S level) 0 bound
         end.

  Definition increase {X} (tbl : nat -> list X) (cur : nat * nat) (bound : Z) : option (nat * nat) :=
    if Nat.ltb maxl (fst cur) then None
    else inc_cursor tbl (maxl - fst cur) (fst cur) (S (snd cur)) bound.

  Inductive mc_out := Guess (s : ostr) | Done | OutOfFuel.

  (* the `while guess is None` loop of next_guess *)
  Fixpoint mc_loop (fuel : nat) (start_ip : nat) (c : cache) (st : mc_state)
           (r : option tree) : mc_out * mc_state * cache :=
    match r with
    | Some t => (Guess (format_guess (cur_ipstr st) t),
                 mk_mc (mc_target st) true (mc_len st) (mc_ip st) t (mc_first st), c)
    | None =>
        match fuel with
        | 0 => (OutOfFuel, st, c)
        | S fuel' =>
            match increase ipf (mc_ip st) (mc_target st - Z.of_nat (fst (mc_len st)))%Z with
            | Some ipc =>
                let st' := mk_mc (mc_target st) true (mc_len st) ipc [] true in
                let '(r', c') := gs_next c (cur_ipstr st') (cur_k st') (cur_target st') [] in
                mc_loop fuel' start_ip c' st' r'
            | None =>
                match increase lnf (mc_len st) (mc_target st) with
                | Some lc =>
                    let st' := mk_mc (mc_target st) true lc (start_ip, 0) [] true in
                    let '(r', c') := gs_next c (cur_ipstr st') (cur_k st') (cur_target st') [] in
                    mc_loop fuel' start_ip c' st' r'
                | None =>
                    (Done, mk_mc (mc_target st) false (mc_len st) (mc_ip st) [] true, c)
                end
            end
        end
    end.

  (* MarkovCracker.next_guess.  (start_ip, start_len) are what the constructor
     computed with _find_first_object. *)
  Definition mc_next (fuel : nat) (starts : nat * nat) (c : cache) (st : mc_state)
    : mc_out * mc_state * cache :=
    let st0 := if mc_started st then st
               else mk_mc (mc_target st) true (snd starts, 0) (fst starts, 0) [] true in
    let '(r, c') := gs_next c (cur_ipstr st0) (cur_k st0) (cur_target st0) (mc_tree st0) in
    mc_loop fuel (fst starts) c' st0 r.

  Definition mc_starts : option (nat * nat) :=
    match find_first_object ipf, find_first_object lnf with
    | Some a, Some b => Some (a, b)
    | _, _ => None
    end.

  (* call next_guess up to n times, stop at the first non-guess; returns the
     guesses, the last outcome (Done expected), final state and cache *)
  Fixpoint mc_run (n fuel : nat) (starts : nat * nat) (c : cache) (st : mc_state)
    : list ostr * mc_out * mc_state * cache :=
    match n with
    | 0 => ([], Guess [], st, c)
    | S n' =>
        match mc_next fuel starts c st with
        | (Guess s, st', c') =>
            let '(l, o, st'', c'') := mc_run n' fuel starts c' st' in (s :: l, o, st'', c'')
        | (o, st', c') => ([], o, st', c')
        end
    end.

  (* number of cursor positions: enough fuel for any single next_guess *)
  Definition table_size {X} (tbl : nat -> list X) : nat :=
    list_sum (map (fun l => length (tbl l)) (seq 0 (S maxl))).
  Definition mc_fuel : nat := S (table_size lnf * S (table_size ipf)).

  (* a whole level with a new MarkovCracker: None = the constructor raised *)
  Definition enumerate (n : nat) (c : cache) (T : Z) : option (list ostr * mc_out * mc_state * cache) :=
    match mc_starts with
    | None => None
    | Some starts => Some (mc_run n mc_fuel starts c (mc_new T))
    end.

  (* ---------------- save_session / load_session ---------------- *)
  (* pickle of target_level, cur_ip, cur_len, parse_tree, first_guess *)
  Definition saved := (Z * (nat * nat) * (nat * nat) * tree * bool)%type.
  Definition mc_save (st : mc_state) : saved :=
    (mc_target st, mc_ip st, mc_len st, mc_tree st, mc_first st).
  (* load_session on MarkovCracker(grammar, 1, optimizer): a GuessStructure is
     built from the cursors, then parse_tree and first_guess are overwritten *)
  Definition mc_load (s : saved) : mc_state :=
    match s with (T, ipc, lc, t, fg) => mk_mc T true lc ipc t fg end.
End Model.

(* ------------------------------------------------------------------ *)
(* Session level (cracking_session.py / pcfg_grammar.py), as far as the OMEN
   restore needs it: the .sav option guessing_info/omen_guess_number and the
   .omn file.  [cleared] says whether the code ever removes the option again
   (gen/Consts_gen.v: omen_number_cleared; as coded it never does). *)
Record sess_save := mk_save {
  sv_number : option nat;        (* omen_guess_number in the save config *)
  sv_omn    : option saved       (* content of <session>.omn *)
}.
Definition sess_empty : sess_save := mk_save None None.

(* a quit: omen_generate_guesses pickles the state and sets omen_exit when the
   quit is seen inside a Markov level; _save_session then sets the option.  A
   quit outside a Markov level leaves both as they are. *)
Definition sess_quit (cfg : sess_save) (omen_exit : bool) (num : nat) (state : saved) : sess_save :=
  if omen_exit then mk_save (Some num) (Some state) else cfg.

(* run(load_session=True): has_option(omen_guess_number) -> restore_omen from
   the .omn, which runs the restored level until it is exhausted or a quit is
   seen after one of its guesses ([omen_exit] = the flag restore_omen leaves:
   true iff the quit check after a guess fired; a quit flag raised while the
   exhausting next_guess call is searching leaves it false although
   should_exit is true).  Afterwards, as coded with the R7 repair:
   `if not self.pcfg.omen_exit: remove_option(omen_guess_number)`.
   Returns the restored generator state (None: no OMEN restore) and the save
   config the resumed session continues with. *)
Definition sess_restore (cleared : bool) (cfg : sess_save) (omen_exit : bool) : option saved * sess_save :=
  match sv_number cfg with
  | Some _ => (sv_omn cfg, if cleared && negb omen_exit then mk_save None (sv_omn cfg) else cfg)
  | None => (None, cfg)
  end.

(* the main loop after a pre-terminal: pop; None -> return WITHOUT saving;
   otherwise the quit check saves.  true = the session state was saved. *)
Definition loop_saves (next_pop_exists quit : bool) : bool := next_pop_exists && quit.

(* ------------------------------------------------------------------ *)
(* An indexed representation of CP.level, built in one pass over the lines
   (prefix -> level -> characters); [cp_fast G] is what the correspondence
   runs, [cp_fast_ok] (OmenProofs.v) proves it equal to [cp_at G]. *)
Definition cp_index := list (ostr * list (nat * list N)).

Fixpoint lvl_insert (l : nat) (ch : N) (m : list (nat * list N)) : list (nat * list N) :=
  match m with
  | [] => [(l, [ch])]
  | (l', cs) :: r => if Nat.eqb l' l then (l', ch :: cs) :: r else (l', cs) :: lvl_insert l ch r
  end.

Fixpoint idx_insert (p : ostr) (l : nat) (ch : N) (t : cp_index) : cp_index :=
  match t with
  | [] => [(p, [(l, [ch])])]
  | (p', m) :: r => if ostr_eqb p' p then (p', lvl_insert l ch m) :: r else (p', m) :: idx_insert p l ch r
  end.

Fixpoint lvl_lookup (l : nat) (m : list (nat * list N)) : list N :=
  match m with
  | [] => []
  | (l', cs) :: r => if Nat.eqb l' l then cs else lvl_lookup l r
  end.

Fixpoint idx_lookup (t : cp_index) (p : ostr) (l : nat) : list N :=
  match t with
  | [] => []
  | (p', m) :: r => if ostr_eqb p' p then lvl_lookup l m else idx_lookup r p l
  end.

Definition build_cp (lines : list (nat * ostr)) : cp_index :=
  fold_right (fun e t =>
    match snd e with
    | [] => t
    | _ => idx_insert (removelast (snd e)) (fst e) (last (snd e) 0%N) t
    end) [] lines.

Definition cp_fast (G : omen) : ostr -> nat -> list N := idx_lookup (build_cp (og_cp G)).
