(* Small facts tying the boolean recognisers evaluated on every generated case
   to the hypotheses of the theorems, and the binary64 corollaries. *)
From Coq Require Import List Arith Bool Lia Sorting.Permutation Sorting.Sorted Floats.
From Pcfg Require Import ProbAlg F64 Next NextSpec NextProofs.
Import ListNotations.

Section Facts.
Context {A : palg}.

Lemma descb_desc (l : list (P A)) : descb l = true -> desc l.
Proof.
  induction l as [|a r IH]; simpl; auto.
  rewrite andb_true_iff. intros [H1 H2]. split; auto.
  destruct r; auto.
Qed.

Lemma wf_groupsb_ok (l : list (P A)) : wf_groupsb l = true -> wf_groups l.
Proof.
  unfold wf_groupsb, wf_groups. rewrite !andb_true_iff, negb_true_iff, Nat.eqb_neq.
  intros [[H1 H2] H3]. repeat split.
  - intros ->. apply H1. reflexivity.
  - apply Forall_forall. apply forallb_forall. exact H2.
  - apply descb_desc, H3.
Qed.

Lemma wfb_wf (rs : ruleset A) : wfb rs = true -> wf rs.
Proof.
  unfold wfb, wf. intros H. apply Forall_forall. intros b Hb.
  rewrite forallb_forall in H. specialize (H b Hb).
  rewrite andb_true_iff in H. destruct H as [H1 H2]. split; auto.
  apply Forall_forall. intros v Hv. apply wf_groupsb_ok.
  rewrite forallb_forall in H2. apply H2, Hv.
Qed.

(* any two queues meeting the contract emit the same pre-terminals *)
Lemma queue_independent (rs : ruleset A) pop1 pop2 :
  wf rs -> pop_ok_okb pop1 -> pop_ok_okb pop2 ->
  Permutation (emitted (run pop1 rs (total rs) (start rs)))
              (emitted (run pop2 rs (total rs) (start rs))).
Proof.
  intros Hwf H1 H2.
  destruct (C02_exactly_once_okb rs Hwf pop1 H1) as [P1 _].
  destruct (C02_exactly_once_okb rs Hwf pop2 H2) as [P2 _].
  eapply Permutation_trans; [exact P1|]. apply Permutation_sym. exact P2.
Qed.
End Facts.

(* a ruleset exercising the corner cases named by the properties: two base
   structures (one repeating a type), a duplicate base line, a one-group
   variable, an exact tie, a 1.0 entry, a subnormal and a zero *)
Definition demo_rs : ruleset F64 :=
  @Build_ruleset F64
    [[0x1p-1; 0x1p-2; 0x1p-2]; [1]; [0x1p-1; 0x1.999999999999ap-4; 0x0.0000000000001p-1022; 0]]%float
    [@Build_bstruct F64 0x1p-1%float [0; 2; 0]; @Build_bstruct F64 0x1p-2%float [1; 2];
     @Build_bstruct F64 0x1p-2%float [1; 2]].

Example demo_wf : wf demo_rs.
Proof. apply wfb_wf. vm_compute. reflexivity. Qed.

Example demo_total : total demo_rs = 44.
Proof. vm_compute. reflexivity. Qed.
