(* Proofs about the session / keyboard-thread model of Session.v (C12), the
   --limit function (C09) and PRINCE-LING --size (C17).

   FINDINGS ABOUT THE MODEL (Session.v is left untouched):

   (F1) The requested C12_prefix "forall polls sch pts, out is a prefix of
        full_stream pts" is FALSE for polls_flag = false: when 'q' arrives during
        a Markov level the OMEN loop stops that level itself (it reads
        should_exit directly), but the main loop only looks at is_alive(); as
        long as the thread has not yet returned the main loop pops the next
        pre-terminal and emits it.  The output is then [1;4;5] for a stream
        [1;2;3;4;5]: guesses 2 and 3 are skipped - NOT a prefix.
        See C12_prefix_refuted.  What is proved instead:
          C12_prefix_partial : polls = true  \/  no EvQuitFlag in the schedule
                               -> prefix                          (closest true statement)
          C12_shape          : for every variant and schedule, out is made of
                               the contributions, in order, of an initial segment
                               of pts, every plain pre-terminal contributing all
                               its guesses and every Markov level a prefix of its
                               guesses (never reordered / altered / duplicated).
   (F2) The naive C12_quit_boundary "out o = full_stream before" is false for
        both variants (a Markov level of [before] may have been cut short):
        C12_quit_boundary_naive_refuted.  The precise formulation proved is
        C12_quit_boundary (both variants), its sharpening for the repaired loop
        C12_quit_boundary_polling (only the LAST pre-terminal of [before] can be
        cut and it is the one recorded in omen_saved), and the [cut_after]
        formulation C12_quit_boundary_cut_after (polls = true, NoDup pids).
        The [cut_after] formulation is false for polls = false because
        omen_saved is overwritten by a later Markov level:
        C12_cut_after_refuted_not_polling.
   (F3) finished = true does NOT imply out = full_stream pts, for both variants:
        if the quit flag is raised inside the LAST Markov level, the level is cut
        short, the queue is then empty and the loop ends "normally" with
        saved_at = None (only omen_saved tells).  See C12_finished_not_complete.
        (This is a faithful reading of the code: the pop finds the queue empty
        before the quit check is reached.)
   (F4) emit_markov reports Some j also when the flag is seen at the last guess
        of a level (j = length (guesses p)): the level is then complete although
        recorded as interrupted.  Hence "1 <= j <= length", not "<". *)
From Coq Require Import List Arith Bool Lia.
From Pcfg Require Import Session.
Import ListNotations.

(* ------------------------------------------------------------------ *)
(* S5  C09: --limit                                                    *)
(* ------------------------------------------------------------------ *)

Lemma C09_limit_none : forall pts, limited pts None = concat pts.
Proof. induction pts; simpl; congruence. Qed.

Lemma C09_limit_zero : forall pts, limited pts (Some 0) = concat pts.
Proof. induction pts; simpl; congruence. Qed.

Lemma limited_some : forall pts n, n >= 1 -> limited pts (Some n) = firstn n (concat pts).
Proof.
  induction pts as [|gs rest IH]; intros n Hn.
  - simpl. now rewrite firstn_nil.
  - destruct n as [|k]; [lia|].
    cbn [limited concat].
    rewrite firstn_app.
    destruct (Nat.leb (S k) (length (firstn (S k) gs))) eqn:E.
    + apply Nat.leb_le in E. rewrite firstn_length in E.
      replace (S k - length gs) with 0 by lia. rewrite firstn_O, app_nil_r. reflexivity.
    + apply Nat.leb_gt in E. rewrite firstn_length in E.
      assert (length gs < S k) by lia.
      rewrite (firstn_all2 gs) by lia. rewrite IH by lia. reflexivity.
Qed.

Theorem C09_limit_exact : forall pts n, n >= 1 ->
  limited pts (Some n) = firstn n (concat pts) /\
  length (limited pts (Some n)) = Nat.min n (length (concat pts)).
Proof.
  intros pts n Hn. rewrite limited_some by assumption. split; [reflexivity|].
  apply firstn_length.
Qed.

(* pre-terminals with zero guesses in the middle do not stop the loop *)
Example C09_limit_empty_groups :
  limited [[1;2]; []; []; [3;4;5]; [6]] (Some 4) = [1;2;3;4].
Proof. vm_compute. reflexivity. Qed.

(* ------------------------------------------------------------------ *)
(* S6  C17: PRINCE-LING --size                                         *)
(* ------------------------------------------------------------------ *)

Lemma prince_none : forall b pts g, prince b pts g None = concat pts.
Proof. induction pts as [|gs rest IH]; intros g; simpl; [reflexivity|]. now rewrite IH. Qed.

Lemma prince_true_gen : forall pts g n,
  prince true pts g (Some n) = firstn (n - g) (concat pts).
Proof.
  induction pts as [|gs rest IH]; intros g n.
  - simpl. now rewrite firstn_nil.
  - cbn [prince concat].
    destruct (Nat.ltb g n) eqn:E.
    + apply Nat.ltb_lt in E.
      rewrite IH, firstn_app, firstn_length. f_equal. f_equal. lia.
    + apply Nat.ltb_ge in E. replace (n - g) with 0 by lia. reflexivity.
Qed.

Theorem C17_size_exact : forall pts n, prince true pts 0 (Some n) = firstn n (concat pts).
Proof. intros. rewrite prince_true_gen. now rewrite Nat.sub_0_r. Qed.

Theorem C17_size_none : forall b pts, prince b pts 0 None = concat pts.
Proof. intros. apply prince_none. Qed.

Example C17_refuted_overshoot :
  prince false [[1;2;3];[4;5;6]] 0 (Some 4) = [1;2;3;4;5;6] /\
  length (prince false [[1;2;3];[4;5;6]] 0 (Some 4)) = 6 /\ 6 > 4 /\
  prince true [[1;2;3];[4;5;6]] 0 (Some 4) = [1;2;3;4].
Proof. vm_compute. repeat split; lia. Qed.

(* whole groups are emitted while the running count is below n: the result is
   the SHORTEST prefix of groups whose total (plus what was generated before)
   reaches n, or all the groups when n is never reached *)
Lemma prince_false_gen : forall pts g n,
  exists k, k <= length pts /\
    prince false pts g (Some n) = concat (firstn k pts) /\
    (k = length pts \/ g + length (concat (firstn k pts)) >= n) /\
    (forall k', k' < k -> g + length (concat (firstn k' pts)) < n).
Proof.
  induction pts as [|gs rest IH]; intros g n.
  - exists 0. simpl. repeat split; auto. intros; lia.
  - cbn [prince].
    destruct (Nat.ltb g n) eqn:E.
    + apply Nat.ltb_lt in E.
      destruct (IH (g + length gs) n) as (k & Hk & Heq & Hstop & Hmin).
      exists (S k). cbn [firstn concat length]. rewrite app_length. repeat split.
      * lia.
      * now rewrite Heq.
      * destruct Hstop; [left|right]; lia.
      * intros k' Hk'. destruct k' as [|k'']; cbn [firstn concat length].
        -- lia.
        -- rewrite app_length. specialize (Hmin k''). lia.
    + apply Nat.ltb_ge in E. exists 0. cbn [firstn concat length].
      repeat split; try lia.
Qed.

Theorem C17_size_whole_groups : forall pts n,
  exists k, k <= length pts /\
    prince false pts 0 (Some n) = concat (firstn k pts) /\
    (k = length pts \/ length (concat (firstn k pts)) >= n) /\
    (forall k', k' < k -> length (concat (firstn k' pts)) < n).
Proof.
  intros pts n. destruct (prince_false_gen pts 0 n) as (k & H1 & H2 & H3 & H4).
  exists k. repeat split; auto.
Qed.

(* consequence: never fewer than requested (when available), and a prefix of the stream *)
Corollary C17_size_false_at_least : forall pts n,
  length (prince false pts 0 (Some n)) >= Nat.min n (length (concat pts)) /\
  exists rest, concat pts = prince false pts 0 (Some n) ++ rest.
Proof.
  intros pts n. destruct (C17_size_whole_groups pts n) as (k & Hk & Heq & Hstop & _).
  rewrite Heq. split.
  - destruct Hstop as [-> | H]; [rewrite firstn_all|]; lia.
  - exists (concat (skipn k pts)). rewrite <- concat_app, firstn_skipn. reflexivity.
Qed.

(* ------------------------------------------------------------------ *)
(* S4 / S7  concrete schedules                                         *)
(* ------------------------------------------------------------------ *)

Definition plainp (i : nat) (gs : list nat) : pterm := {| pid := i; markov := false; guesses := gs |}.
Definition markovp (i : nat) (gs : list nat) : pterm := {| pid := i; markov := true; guesses := gs |}.

(* events [es] just before step [t0], nothing otherwise *)
Definition at_step (t0 : nat) (es : list ev) (sch : schedule) : schedule :=
  fun t => if Nat.eqb t t0 then es else sch t.

(* stdin at EOF: the thread dies before the first pop.  The code as found
   (is_alive test) stops at once, saving the session, with no guess emitted and
   no quit requested; the repaired loop is not disturbed. *)
Example C12_refuted_liveness_polling :
  let pts := [plainp 0 [1;2]; plainp 1 [3]] in
  let sch := at_step 0 [EvThreadEnds] quiet in
  (forall t, ~ In EvQuitFlag (sch t)) /\
  run_session false sch pts =
    {| out := []; saved_at := Some 0; omen_saved := None; finished := false |} /\
  run_session true sch pts =
    {| out := [1;2;3]; saved_at := None; omen_saved := None; finished := true |} /\
  out (run_session true sch pts) = full_stream pts.
Proof.
  cbv zeta. split; [|vm_compute; auto].
  intros t. unfold at_step, quiet. destruct (Nat.eqb t 0); simpl; intuition discriminate.
Qed.

(* 'q' read during the first Markov level (step 2 = its second guess), the thread
   only returns before step 8 (two pre-terminals later).  Steps:
     0 pop M10, 1 g1, 2 g2 [flag] -> level cut after 2 guesses
     3 pop P11 (is_alive: continue), 4 g4, 5 g5
     6 pop M12 (is_alive: continue), 7 g6 -> cut after its 1st guess, omen_saved OVERWRITTEN
     8 pop P13 [thread ended] -> stop.
   Guess 3 is lost, guesses 4 5 6 come after the gap; the save records level 12
   only.  The repaired loop stops at step 3. *)
Definition window_pts : list pterm :=
  [markovp 10 [1;2;3]; plainp 11 [4;5]; markovp 12 [6;7;8]; plainp 13 [9]].
Definition window_sch : schedule := at_step 2 [EvQuitFlag] (at_step 8 [EvThreadEnds] quiet).

Example C12_refuted_window :
  run_session false window_sch window_pts =
    {| out := [1;2;4;5;6]; saved_at := Some 13; omen_saved := Some (12, 1); finished := false |} /\
  run_session true window_sch window_pts =
    {| out := [1;2]; saved_at := Some 11; omen_saved := Some (10, 2); finished := false |}.
Proof. vm_compute. auto. Qed.

(* F1: not a prefix of the full stream *)
Example C12_prefix_refuted :
  ~ (forall polls sch pts, exists rest, full_stream pts = out (run_session polls sch pts) ++ rest).
Proof.
  intros H. destruct (H false window_sch window_pts) as [rest Hr].
  vm_compute in Hr. discriminate.
Qed.

(* S7: status request while the first plain pre-terminal is printed, 'q' in the
   middle of the Markov level (before its 2nd guess), thread returns later *)
Example C12_example_polling :
  let pts := [plainp 0 [1;2]; markovp 1 [3;4;5;6]; plainp 2 [7;8]] in
  let sch := at_step 1 [EvStatus] (at_step 5 [EvHelp; EvQuitFlag] (at_step 7 [EvThreadEnds] quiet)) in
  run_session true sch pts =
    {| out := [1;2;3;4]; saved_at := Some 2; omen_saved := Some (1, 2); finished := false |}.
Proof. vm_compute. reflexivity. Qed.

(* F3: quit inside the last Markov level: the queue is empty at the next pop *)
Example C12_finished_not_complete :
  let pts := [plainp 0 [1;2]; markovp 1 [3;4;5;6]] in
  let sch := at_step 4 [EvQuitFlag; EvThreadEnds] quiet in
  forall polls, run_session polls sch pts =
    {| out := [1;2;3]; saved_at := None; omen_saved := Some (1, 1); finished := true |}.
Proof. intros pts sch [|]; vm_compute; reflexivity. Qed.

(* ------------------------------------------------------------------ *)
(* the helper thread and the flag                                      *)
(* ------------------------------------------------------------------ *)

Lemma h_step_no_quit : forall h e, e <> EvQuitFlag -> should_exit (h_step h e) = should_exit h.
Proof. intros [a s] e He. unfold h_step; destruct a, e; simpl; congruence. Qed.

Lemma h_steps_no_quit : forall es h,
  ~ In EvQuitFlag es -> should_exit (h_steps h es) = should_exit h.
Proof.
  unfold h_steps. induction es as [|e es IH]; intros h Hn; simpl; [reflexivity|].
  rewrite IH by (intro; apply Hn; now right).
  apply h_step_no_quit. intros ->. apply Hn. now left.
Qed.

(* the flag is never lowered *)
Lemma h_step_mono : forall h e, should_exit h = true -> should_exit (h_step h e) = true.
Proof. intros [a s] e H. unfold h_step; destruct a, e; simpl in *; congruence. Qed.

Lemma h_steps_mono : forall es h, should_exit h = true -> should_exit (h_steps h es) = true.
Proof.
  unfold h_steps. induction es as [|e es IH]; intros h H; simpl; [assumption|].
  apply IH. now apply h_step_mono.
Qed.

(* ------------------------------------------------------------------ *)
(* one Markov level / one plain pre-terminal                           *)
(* ------------------------------------------------------------------ *)

Lemma emit_markov_spec : forall sch gs t h j0 o t' i h',
  emit_markov sch t h gs j0 = (o, t', i, h') ->
  match i with
  | None => o = gs
  | Some j => j0 < j /\ j <= j0 + length gs /\ o = firstn (j - j0) gs /\ should_exit h' = true
  end.
Proof.
  induction gs as [|g r IH]; intros t h j0 o t' i h' H.
  - simpl in H. inversion H; subst. reflexivity.
  - cbn [emit_markov] in H.
    destruct (should_exit (h_steps h (sch t))) eqn:E.
    + inversion H; subst. simpl length. replace (S j0 - j0) with 1 by lia.
      repeat split; try lia. assumption.
    + destruct (emit_markov sch (S t) (h_steps h (sch t)) r (S j0)) as [[[o1 t1] i1] h1] eqn:E2.
      inversion H; subst. apply IH in E2. destruct i as [j|].
      * destruct E2 as (A & B & C & D). simpl length. repeat split; try lia; [|assumption].
        replace (j - j0) with (S (j - S j0)) by lia. simpl. now rewrite C.
      * now subst.
Qed.

Lemma emit_markov_noexit : forall sch, (forall t, ~ In EvQuitFlag (sch t)) ->
  forall gs t h j0, should_exit h = false ->
  exists t' h', emit_markov sch t h gs j0 = (gs, t', None, h') /\ should_exit h' = false.
Proof.
  intros sch Hs. induction gs as [|g r IH]; intros t h j0 Hh.
  - exists t, h. split; [reflexivity|assumption].
  - cbn [emit_markov].
    assert (E : should_exit (h_steps h (sch t)) = false) by (rewrite h_steps_no_quit; auto).
    rewrite E. destruct (IH (S t) _ (S j0) E) as (t' & h' & Heq & Hh').
    rewrite Heq. exists t', h'. split; [reflexivity|assumption].
Qed.

Lemma emit_plain_noexit : forall sch, (forall t, ~ In EvQuitFlag (sch t)) ->
  forall gs t h, should_exit h = false -> should_exit (snd (emit_plain sch t h gs)) = false.
Proof.
  intros sch Hs. induction gs as [|g r IH]; intros t h Hh; simpl; [assumption|].
  apply IH. rewrite h_steps_no_quit; auto.
Qed.

(* ------------------------------------------------------------------ *)
(* S1  C12: no quit request => the schedule is irrelevant              *)
(* ------------------------------------------------------------------ *)

Lemma loop_true_noexit : forall sch, (forall t, ~ In EvQuitFlag (sch t)) ->
  forall pts t h acc om, should_exit h = false ->
  loop true sch t h pts acc om =
    {| out := acc ++ full_stream pts; saved_at := None; omen_saved := om; finished := true |}.
Proof.
  intros sch Hs. induction pts as [|p rest IH]; intros t h acc om Hh.
  - simpl. now rewrite app_nil_r.
  - cbn [loop].
    assert (E : should_exit (h_steps h (sch t)) = false) by (rewrite h_steps_no_quit; auto).
    cbn [quit_seen]. rewrite E.
    unfold full_stream. cbn [flat_map]. fold (full_stream rest). rewrite app_assoc.
    destruct (markov p).
    + destruct (emit_markov_noexit sch Hs (guesses p) (S t) _ 0 E) as (t' & h' & Heq & Hh').
      rewrite Heq. now apply IH.
    + destruct (emit_plain sch (S t) (h_steps h (sch t)) (guesses p)) as [t' h2] eqn:E2.
      apply IH. pose proof (emit_plain_noexit sch Hs (guesses p) (S t) _ E) as H.
      now rewrite E2 in H.
Qed.

Lemma quiet_no_quit : forall t, ~ In EvQuitFlag (quiet t).
Proof. intros t H. exact H. Qed.

Theorem C12_schedule_independent : forall sch pts,
  (forall t, ~ In EvQuitFlag (sch t)) ->
  run_session true sch pts = run_session true quiet pts /\
  out (run_session true sch pts) = full_stream pts /\
  finished (run_session true sch pts) = true /\
  saved_at (run_session true sch pts) = None /\
  omen_saved (run_session true sch pts) = None.
Proof.
  intros sch pts Hs. unfold run_session.
  rewrite (loop_true_noexit sch Hs) by reflexivity.
  rewrite (loop_true_noexit quiet quiet_no_quit) by reflexivity.
  simpl. auto.
Qed.

(* ------------------------------------------------------------------ *)
(* S2  C12: the output is never reordered or altered                   *)
(* ------------------------------------------------------------------ *)

(* repaired loop, flag already raised: stop at the next pop *)
Lemma loop_true_exit : forall sch t h p rest acc om, should_exit h = true ->
  loop true sch t h (p :: rest) acc om =
    {| out := acc; saved_at := Some (pid p); omen_saved := om; finished := false |}.
Proof.
  intros. cbn [loop quit_seen]. now rewrite h_steps_mono.
Qed.

Lemma loop_true_exit_out : forall sch t h pts acc om, should_exit h = true ->
  out (loop true sch t h pts acc om) = acc.
Proof.
  intros sch t h [|p rest] acc om H; [reflexivity|]. now rewrite loop_true_exit.
Qed.

Lemma loop_true_prefix : forall sch pts t h acc om,
  exists rest, acc ++ full_stream pts = out (loop true sch t h pts acc om) ++ rest.
Proof.
  intros sch. induction pts as [|p rest IH]; intros t h acc om.
  - exists []. reflexivity.
  - cbn [loop]. set (h1 := h_steps h (sch t)).
    destruct (quit_seen true h1).
    + exists (full_stream (p :: rest)). reflexivity.
    + unfold full_stream. cbn [flat_map]. fold (full_stream rest). rewrite app_assoc.
      destruct (markov p).
      * destruct (emit_markov sch (S t) h1 (guesses p) 0) as [[[o t'] i] h2] eqn:E.
        pose proof (emit_markov_spec _ _ _ _ _ _ _ _ _ E) as S. destruct i as [j|].
        -- destruct S as (_ & _ & Ho & Hx). rewrite loop_true_exit_out by assumption.
           exists (skipn (j - 0) (guesses p) ++ full_stream rest).
           rewrite Ho, <- !app_assoc. f_equal. now rewrite app_assoc, firstn_skipn.
        -- subst o. apply IH.
      * destruct (emit_plain sch (S t) h1 (guesses p)) as [t' h2]. apply IH.
Qed.

Lemma loop_noquit_prefix : forall polls sch, (forall t, ~ In EvQuitFlag (sch t)) ->
  forall pts t h acc om, should_exit h = false ->
  exists rest, acc ++ full_stream pts = out (loop polls sch t h pts acc om) ++ rest.
Proof.
  intros polls sch Hs. induction pts as [|p rest IH]; intros t h acc om Hh.
  - exists []. reflexivity.
  - cbn [loop].
    assert (E : should_exit (h_steps h (sch t)) = false) by (rewrite h_steps_no_quit; auto).
    destruct (quit_seen polls (h_steps h (sch t))).
    + exists (full_stream (p :: rest)). reflexivity.
    + unfold full_stream. cbn [flat_map]. fold (full_stream rest). rewrite app_assoc.
      destruct (markov p).
      * destruct (emit_markov_noexit sch Hs (guesses p) (S t) _ 0 E) as (t' & h' & Heq & Hh').
        rewrite Heq. now apply IH.
      * destruct (emit_plain sch (S t) (h_steps h (sch t)) (guesses p)) as [t' h2] eqn:E2.
        apply IH. pose proof (emit_plain_noexit sch Hs (guesses p) (S t) _ E) as H.
        now rewrite E2 in H.
Qed.

(* closest true statement to C12_prefix (see finding F1 and C12_prefix_refuted) *)
Theorem C12_prefix_partial : forall polls sch pts,
  polls = true \/ (forall t, ~ In EvQuitFlag (sch t)) ->
  exists rest, full_stream pts = out (run_session polls sch pts) ++ rest.
Proof.
  intros polls sch pts [-> | Hs]; unfold run_session.
  - apply (loop_true_prefix sch pts 0 h0 [] None).
  - apply (loop_noquit_prefix polls sch Hs pts 0 h0 [] None). reflexivity.
Qed.

(* what holds for every variant and every schedule: the output consists of the
   contributions, in pop order, of the pre-terminals; a plain pre-terminal
   contributes all its guesses, a Markov level a prefix of its guesses *)
Inductive partial_stream : list pterm -> list nat -> Prop :=
  | ps_nil : partial_stream [] []
  | ps_plain : forall p ps o, markov p = false ->
      partial_stream ps o -> partial_stream (p :: ps) (guesses p ++ o)
  | ps_markov : forall p ps o k, markov p = true ->
      partial_stream ps o -> partial_stream (p :: ps) (firstn k (guesses p) ++ o).

Lemma ps_full_head : forall p ps o, partial_stream ps o -> partial_stream (p :: ps) (guesses p ++ o).
Proof.
  intros p ps o H. destruct (markov p) eqn:M.
  - rewrite <- (firstn_all (guesses p)). now apply ps_markov.
  - now apply ps_plain.
Qed.

Lemma ps_full : forall ps, partial_stream ps (full_stream ps).
Proof.
  induction ps as [|p ps IH]; [constructor|].
  unfold full_stream. cbn [flat_map]. now apply ps_full_head.
Qed.

Lemma loop_shape : forall polls sch pts t h acc om,
  exists before after o', pts = before ++ after /\ partial_stream before o' /\
    out (loop polls sch t h pts acc om) = acc ++ o'.
Proof.
  intros polls sch. induction pts as [|p rest IH]; intros t h acc om.
  - exists [], [], []. repeat split; [constructor | simpl; now rewrite app_nil_r].
  - cbn [loop]. set (h1 := h_steps h (sch t)).
    destruct (quit_seen polls h1).
    + exists [], (p :: rest), []. repeat split; [constructor | simpl; now rewrite app_nil_r].
    + destruct (markov p) eqn:M.
      * destruct (emit_markov sch (S t) h1 (guesses p) 0) as [[[o t'] i] h2] eqn:E.
        pose proof (emit_markov_spec _ _ _ _ _ _ _ _ _ E) as S.
        match goal with |- context [loop polls sch t' h2 rest (acc ++ o) ?om'] =>
          destruct (IH t' h2 (acc ++ o) om') as (b & a & o' & Hp & Hps & Hout) end.
        exists (p :: b), a, (o ++ o'). rewrite Hout, Hp, app_assoc.
        repeat split. destruct i as [j|].
        -- destruct S as (_ & _ & -> & _). now apply ps_markov.
        -- subst o. now apply ps_full_head.
      * destruct (emit_plain sch (S t) h1 (guesses p)) as [t' h2].
        destruct (IH t' h2 (acc ++ guesses p) om) as (b & a & o' & Hp & Hps & Hout).
        exists (p :: b), a, (guesses p ++ o'). rewrite Hout, Hp, app_assoc.
        repeat split. now apply ps_plain.
Qed.

Theorem C12_shape : forall polls sch pts,
  exists before after, pts = before ++ after /\
    partial_stream before (out (run_session polls sch pts)).
Proof.
  intros polls sch pts. unfold run_session.
  destruct (loop_shape polls sch pts 0 h0 [] None) as (b & a & o' & Hp & Hps & Hout).
  exists b, a. split; [assumption|]. now rewrite Hout.
Qed.

(* ------------------------------------------------------------------ *)
(* S3  C12: an early stop happens at a pre-terminal boundary           *)
(* ------------------------------------------------------------------ *)

(* Formulation.  If the session did not run to exhaustion then it stopped at
   the pop/check of some pre-terminal p (pts = before ++ p :: after), the
   session is saved with p's probability (so p is regenerated on restore),
   nothing of p or of [after] was emitted, and
     - either no Markov level was interrupted (omen_saved = None) and every
       pre-terminal of [before] was emitted completely,
     - or omen_saved = Some (pid m, j) where m is a Markov member of [before]
       (before = b1 ++ m :: b2), m contributed exactly its first j guesses
       (1 <= j <= length), everything popped after m (b2) was emitted
       completely, and what precedes m (b1) contributed a [partial_stream]:
       plain pre-terminals completely, earlier Markov levels a prefix.
   For the repaired loop (polls_flag = true) the second case is sharper
   (C12_quit_boundary_polling): b2 = [] and b1 was emitted completely, i.e. the
   only possibly incomplete pre-terminal is the last one popped and it is the
   one recorded in omen_saved. *)
Definition boundary_general (acc : list nat) (om0 : option (nat * nat))
           (before : list pterm) (o : outcome) : Prop :=
  (omen_saved o = om0 /\ out o = acc ++ full_stream before) \/
  (exists b1 m b2 o1 j,
      before = b1 ++ m :: b2 /\ markov m = true /\
      omen_saved o = Some (pid m, j) /\ 1 <= j <= length (guesses m) /\
      partial_stream b1 o1 /\
      out o = acc ++ o1 ++ firstn j (guesses m) ++ full_stream b2).

Lemma loop_boundary : forall polls sch pts t h acc om0 o,
  o = loop polls sch t h pts acc om0 -> finished o = false ->
  exists before p after, pts = before ++ p :: after /\ saved_at o = Some (pid p) /\
    boundary_general acc om0 before o.
Proof.
  intros polls sch. induction pts as [|p rest IH]; intros t h acc om0 o Ho Hf.
  - subst o. discriminate.
  - cbn [loop] in Ho. set (h1 := h_steps h (sch t)) in Ho.
    destruct (quit_seen polls h1).
    + subst o. exists [], p, rest. repeat split. left. split; [reflexivity|].
      simpl. now rewrite app_nil_r.
    + destruct (markov p) eqn:M.
      * destruct (emit_markov sch (S t) h1 (guesses p) 0) as [[[oo t'] i] h2] eqn:E.
        pose proof (emit_markov_spec _ _ _ _ _ _ _ _ _ E) as S.
        destruct (IH _ _ _ _ o Ho Hf) as (before & q & after & Hpts & Hsav & Hb).
        exists (p :: before), q, after.
        split; [simpl; now rewrite Hpts|]. split; [assumption|].
        destruct i as [j|].
        -- destruct S as (Hj1 & Hj2 & Hoo & _). rewrite Nat.sub_0_r in Hoo. right.
           destruct Hb as [[Hom Hout] | (b1 & m & b2 & o1 & j' & Hbe & Hm & Hom & Hj & Hps & Hout)].
           ++ exists [], p, before, [], j. repeat split; auto; try lia; [constructor|].
              rewrite Hout, Hoo. simpl. now rewrite <- app_assoc.
           ++ exists (p :: b1), m, b2, (oo ++ o1), j'. repeat split; auto; try lia.
              ** simpl. now rewrite Hbe.
              ** rewrite Hoo. now apply ps_markov.
              ** rewrite Hout. now rewrite <- !app_assoc.
        -- subst oo.
           destruct Hb as [[Hom Hout] | (b1 & m & b2 & o1 & j' & Hbe & Hm & Hom & Hj & Hps & Hout)].
           ++ left. split; [assumption|]. rewrite Hout. unfold full_stream. simpl.
              now rewrite <- app_assoc.
           ++ right. exists (p :: b1), m, b2, (guesses p ++ o1), j'. repeat split; auto; try lia.
              ** simpl. now rewrite Hbe.
              ** now apply ps_full_head.
              ** rewrite Hout. now rewrite <- !app_assoc.
      * destruct (emit_plain sch (S t) h1 (guesses p)) as [t' h2].
        destruct (IH _ _ _ _ o Ho Hf) as (before & q & after & Hpts & Hsav & Hb).
        exists (p :: before), q, after.
        split; [simpl; now rewrite Hpts|]. split; [assumption|].
        destruct Hb as [[Hom Hout] | (b1 & m & b2 & o1 & j' & Hbe & Hm & Hom & Hj & Hps & Hout)].
        -- left. split; [assumption|]. rewrite Hout. unfold full_stream. simpl.
           now rewrite <- app_assoc.
        -- right. exists (p :: b1), m, b2, (guesses p ++ o1), j'. repeat split; auto; try lia.
           ** simpl. now rewrite Hbe.
           ** now apply ps_plain.
           ** rewrite Hout. now rewrite <- !app_assoc.
Qed.

Theorem C12_quit_boundary : forall polls sch pts o,
  o = run_session polls sch pts -> finished o = false ->
  exists before p after, pts = before ++ p :: after /\ saved_at o = Some (pid p) /\
    ( (omen_saved o = None /\ out o = full_stream before) \/
      (exists b1 m b2 o1 j,
          before = b1 ++ m :: b2 /\ markov m = true /\
          omen_saved o = Some (pid m, j) /\ 1 <= j <= length (guesses m) /\
          partial_stream b1 o1 /\
          out o = o1 ++ firstn j (guesses m) ++ full_stream b2) ).
Proof.
  intros polls sch pts o Ho Hf. unfold run_session in Ho.
  destruct (loop_boundary _ _ _ _ _ _ _ _ Ho Hf) as (before & p & after & Hpts & Hsav & Hb).
  exists before, p, after. split; [assumption|]. split; [assumption|]. exact Hb.
Qed.

(* the repaired loop: only the last popped pre-terminal can be incomplete *)
Definition boundary_polling (acc : list nat) (om0 : option (nat * nat))
           (before : list pterm) (o : outcome) : Prop :=
  (omen_saved o = om0 /\ out o = acc ++ full_stream before) \/
  (exists b1 m j,
      before = b1 ++ [m] /\ markov m = true /\
      omen_saved o = Some (pid m, j) /\ 1 <= j <= length (guesses m) /\
      out o = acc ++ full_stream b1 ++ firstn j (guesses m)).

Lemma loop_boundary_polling : forall sch pts t h acc om0 o,
  o = loop true sch t h pts acc om0 -> finished o = false ->
  exists before p after, pts = before ++ p :: after /\ saved_at o = Some (pid p) /\
    boundary_polling acc om0 before o.
Proof.
  intros sch. induction pts as [|p rest IH]; intros t h acc om0 o Ho Hf.
  - subst o. discriminate.
  - cbn [loop] in Ho. set (h1 := h_steps h (sch t)) in Ho.
    destruct (quit_seen true h1).
    + subst o. exists [], p, rest. repeat split. left. split; [reflexivity|].
      simpl. now rewrite app_nil_r.
    + destruct (markov p) eqn:M.
      * destruct (emit_markov sch (S t) h1 (guesses p) 0) as [[[oo t'] i] h2] eqn:E.
        pose proof (emit_markov_spec _ _ _ _ _ _ _ _ _ E) as S.
        destruct i as [j|].
        -- destruct S as (Hj1 & Hj2 & Hoo & Hx). rewrite Nat.sub_0_r in Hoo.
           destruct rest as [|p' rest'].
           ++ subst o. discriminate.
           ++ rewrite loop_true_exit in Ho by assumption. subst o.
              exists [p], p', rest'. repeat split. right.
              exists [], p, j. repeat split; auto; try lia. simpl. now rewrite Hoo.
        -- subst oo.
           destruct (IH _ _ _ _ o Ho Hf) as (before & q & after & Hpts & Hsav & Hb).
           exists (p :: before), q, after.
           split; [simpl; now rewrite Hpts|]. split; [assumption|].
           destruct Hb as [[Hom Hout] | (b1 & m & j' & Hbe & Hm & Hom & Hj & Hout)].
           ++ left. split; [assumption|]. rewrite Hout. unfold full_stream. simpl.
              now rewrite <- app_assoc.
           ++ right. exists (p :: b1), m, j'. repeat split; auto; try lia.
              ** simpl. now rewrite Hbe.
              ** rewrite Hout. unfold full_stream. simpl. now rewrite <- !app_assoc.
      * destruct (emit_plain sch (S t) h1 (guesses p)) as [t' h2].
        destruct (IH _ _ _ _ o Ho Hf) as (before & q & after & Hpts & Hsav & Hb).
        exists (p :: before), q, after.
        split; [simpl; now rewrite Hpts|]. split; [assumption|].
        destruct Hb as [[Hom Hout] | (b1 & m & j' & Hbe & Hm & Hom & Hj & Hout)].
        -- left. split; [assumption|]. rewrite Hout. unfold full_stream. simpl.
           now rewrite <- app_assoc.
        -- right. exists (p :: b1), m, j'. repeat split; auto; try lia.
           ** simpl. now rewrite Hbe.
           ** rewrite Hout. unfold full_stream. simpl. now rewrite <- !app_assoc.
Qed.

Theorem C12_quit_boundary_polling : forall sch pts o,
  o = run_session true sch pts -> finished o = false ->
  exists before p after, pts = before ++ p :: after /\ saved_at o = Some (pid p) /\
    ( (omen_saved o = None /\ out o = full_stream before) \/
      (exists b1 m j,
          before = b1 ++ [m] /\ markov m = true /\
          omen_saved o = Some (pid m, j) /\ 1 <= j <= length (guesses m) /\
          out o = full_stream b1 ++ firstn j (guesses m)) ).
Proof.
  intros sch pts o Ho Hf. unfold run_session in Ho.
  destruct (loop_boundary_polling _ _ _ _ _ _ _ Ho Hf) as (before & p & after & Hpts & Hsav & Hb).
  exists before, p, after. split; [assumption|]. split; [assumption|]. exact Hb.
Qed.

(* F3 made precise for the repaired loop: when the loop ends by exhaustion the
   stream is complete unless the flag was raised inside the LAST Markov level *)
Lemma loop_finished_polling : forall sch pts t h acc om0 o,
  o = loop true sch t h pts acc om0 -> finished o = true ->
  saved_at o = None /\
  ( (omen_saved o = om0 /\ out o = acc ++ full_stream pts) \/
    (exists b1 m j, pts = b1 ++ [m] /\ markov m = true /\
        omen_saved o = Some (pid m, j) /\ 1 <= j <= length (guesses m) /\
        out o = acc ++ full_stream b1 ++ firstn j (guesses m)) ).
Proof.
  intros sch. induction pts as [|p rest IH]; intros t h acc om0 o Ho Hf.
  - subst o. split; [reflexivity|]. left. split; [reflexivity|]. simpl. now rewrite app_nil_r.
  - cbn [loop] in Ho. set (h1 := h_steps h (sch t)) in Ho.
    destruct (quit_seen true h1).
    + subst o. discriminate.
    + destruct (markov p) eqn:M.
      * destruct (emit_markov sch (S t) h1 (guesses p) 0) as [[[oo t'] i] h2] eqn:E.
        pose proof (emit_markov_spec _ _ _ _ _ _ _ _ _ E) as S.
        destruct i as [j|].
        -- destruct S as (Hj1 & Hj2 & Hoo & Hx). rewrite Nat.sub_0_r in Hoo.
           destruct rest as [|p' rest'].
           ++ subst o. split; [reflexivity|]. right.
              exists [], p, j. repeat split; auto; try lia. simpl. now rewrite Hoo.
           ++ rewrite loop_true_exit in Ho by assumption. subst o. discriminate.
        -- subst oo. destruct (IH _ _ _ _ o Ho Hf) as (Hsav & Hb). split; [assumption|].
           destruct Hb as [[Hom Hout] | (b1 & m & j' & Hbe & Hm & Hom & Hj & Hout)].
           ++ left. split; [assumption|]. rewrite Hout. unfold full_stream. simpl.
              now rewrite <- app_assoc.
           ++ right. exists (p :: b1), m, j'. repeat split; auto; try lia.
              ** simpl. now rewrite Hbe.
              ** rewrite Hout. unfold full_stream. simpl. now rewrite <- !app_assoc.
      * destruct (emit_plain sch (S t) h1 (guesses p)) as [t' h2].
        destruct (IH _ _ _ _ o Ho Hf) as (Hsav & Hb). split; [assumption|].
        destruct Hb as [[Hom Hout] | (b1 & m & j' & Hbe & Hm & Hom & Hj & Hout)].
        -- left. split; [assumption|]. rewrite Hout. unfold full_stream. simpl.
           now rewrite <- app_assoc.
        -- right. exists (p :: b1), m, j'. repeat split; auto; try lia.
           ** simpl. now rewrite Hbe.
           ** rewrite Hout. unfold full_stream. simpl. now rewrite <- !app_assoc.
Qed.

Theorem C12_finished_polling : forall sch pts o,
  o = run_session true sch pts -> finished o = true ->
  saved_at o = None /\
  ( (omen_saved o = None /\ out o = full_stream pts) \/
    (exists b1 m j, pts = b1 ++ [m] /\ markov m = true /\
        omen_saved o = Some (pid m, j) /\ 1 <= j <= length (guesses m) /\
        out o = full_stream b1 ++ firstn j (guesses m)) ).
Proof.
  intros sch pts o Ho Hf. unfold run_session in Ho.
  exact (loop_finished_polling _ _ _ _ _ _ _ Ho Hf).
Qed.

(* the [cut_after] formulation: what each pre-terminal of [before] contributed
   is determined by the saved OMEN position alone (pids identify pre-terminals) *)
Definition cut_after (om : option (nat * nat)) (p : pterm) : list nat :=
  match om with
  | Some (q, j) => if Nat.eqb (pid p) q then firstn j (guesses p) else guesses p
  | None => guesses p
  end.

Lemma flat_map_ext_in : forall (A B : Type) (f g : A -> list B) l,
  (forall a, In a l -> f a = g a) -> flat_map f l = flat_map g l.
Proof.
  induction l as [|a l IH]; intros H; simpl; [reflexivity|].
  rewrite H by now left. rewrite IH; [reflexivity|]. intros; apply H; now right.
Qed.

Lemma NoDup_app_l : forall (A : Type) (l l' : list A), NoDup (l ++ l') -> NoDup l.
Proof.
  induction l as [|a l IH]; intros l' H; [constructor|].
  simpl in H. inversion H; subst. constructor.
  - intro Hin. apply H2. apply in_or_app. now left.
  - eapply IH; eauto.
Qed.

Theorem C12_quit_boundary_cut_after : forall sch pts o,
  NoDup (map pid pts) ->
  o = run_session true sch pts -> finished o = false ->
  exists before p after, pts = before ++ p :: after /\ saved_at o = Some (pid p) /\
    out o = flat_map (cut_after (omen_saved o)) before /\
    (forall q j, omen_saved o = Some (q, j) ->
       exists b1 m, before = b1 ++ [m] /\ pid m = q /\ markov m = true /\
                    1 <= j <= length (guesses m)).
Proof.
  intros sch pts o Hnd Ho Hf.
  destruct (C12_quit_boundary_polling sch pts o Ho Hf)
    as (before & p & after & Hpts & Hsav & Hb).
  exists before, p, after. split; [assumption|]. split; [assumption|].
  destruct Hb as [[Hom Hout] | (b1 & m & j & Hbe & Hm & Hom & Hj & Hout)].
  - rewrite Hom, Hout. split; [reflexivity|]. intros; discriminate.
  - rewrite Hom, Hout, Hbe. split.
    + rewrite flat_map_app. f_equal.
      * apply flat_map_ext_in. intros x Hx. unfold cut_after.
        destruct (Nat.eqb (pid x) (pid m)) eqn:E; [|reflexivity].
        apply Nat.eqb_eq in E. exfalso.
        rewrite Hpts, Hbe, !map_app in Hnd. apply NoDup_app_l in Hnd.
        apply NoDup_remove_2 in Hnd. apply Hnd. rewrite app_nil_r, <- E.
        now apply in_map.
      * simpl. now rewrite Nat.eqb_refl, app_nil_r.
    + intros q j' Heq. inversion Heq; subst. exists b1, m. repeat split; auto; lia.
Qed.

(* F2: refutations of the naive statements *)
Example C12_quit_boundary_naive_refuted :
  ~ (forall polls sch pts o, o = run_session polls sch pts -> finished o = false ->
       exists before p after, pts = before ++ p :: after /\ saved_at o = Some (pid p) /\
         out o = full_stream before).
Proof.
  intros H.
  destruct (H true (at_step 5 [EvQuitFlag] quiet)
              [plainp 0 [1;2]; markovp 1 [3;4;5;6]; plainp 2 [7;8]] _ eq_refl eq_refl)
    as (before & p & after & Hpts & _ & Hout).
  vm_compute in Hout.
  destruct before as [|x1 [|x2 [|x3 before]]]; simpl in Hpts; inversion Hpts; subst;
    try (vm_compute in Hout; discriminate).
  all: try (destruct before; discriminate).
Qed.

(* for the code as found omen_saved is overwritten, so it does not determine
   what the earlier Markov level contributed *)
Example C12_cut_after_refuted_not_polling :
  let o := run_session false window_sch window_pts in
  window_pts = firstn 3 window_pts ++ plainp 13 [9] :: [] /\
  NoDup (map pid window_pts) /\
  finished o = false /\ saved_at o = Some 13 /\ omen_saved o = Some (12, 1) /\
  out o = [1;2;4;5;6] /\
  flat_map (cut_after (omen_saved o)) (firstn 3 window_pts) = [1;2;3;4;5;6].
Proof.
  cbv zeta. repeat split; try (vm_compute; reflexivity).
  vm_compute. repeat constructor; simpl; intuition discriminate.
Qed.

Print Assumptions C12_schedule_independent.
Print Assumptions C12_prefix_partial.
Print Assumptions C12_prefix_refuted.
Print Assumptions C12_shape.
Print Assumptions C12_quit_boundary.
Print Assumptions C12_quit_boundary_polling.
Print Assumptions C12_quit_boundary_cut_after.
Print Assumptions C12_finished_polling.
Print Assumptions C09_limit_exact.
Print Assumptions C17_size_exact.
Print Assumptions C17_size_whole_groups.
