(* Runtime of the generated scorer (gen/Scorer_gen.v, written on every run by
   harness/translate_scorer.py from the Python text of
     lib_scorer/pcfg_password_scorer.py   PCFGPasswordScorer.parse).
   The translator emits lets, ifs, tuples, record projections and the
   combinators below, so that the generated text is a line-by-line image of the
   Python.  Definitions only; the lemmas are in ScorerGenProofs.v.

   Conventions (see the translator's docstring):
   * A statement sequence is a value of [out R A]: it falls through with the
     variables that are live afterwards ([Norm]), executes `return r` ([Retn]) or
     raises ([Exc]).  `s1; s2` is [bind].  The function as a whole is [run_fn] of
     its body: [Ok r] / [Raise e].
   * Exceptions are values.  [KeyError] is what a subscript of a dict raises on
     a missing key (the only exception the source catches); [OtherError] stands
     for whatever a detector raises (IndexError / ValueError / RecursionError:
     the model's PErr), never caught.
   * `try: body / except KeyError: handler` is [try_keyerror]: the handler runs
     in the state before the try statement, from which the translator has removed
     every variable the body assigns (it refuses a later read of one that the
     handler does not assign again).
   * `for x in l: body` is [for_each]: a fold whose state is the tuple of the
     variables the body assigns that exist before the loop.
   * Probabilities are an abstract type P with the operations of Scorer.v
     (pmul: `*`; p0: `0` and `0.0`; p1: `1.0`; pltb / pleb / peqb: float `<` `<=`
     `==`, of which the model has pltb only); ints are Z;
     strings are code point lists; a character of a string is its code point.
   * The scorer object is the record [scorer_obj]: the tables grammar_io loaded
     (dicts keyed by length whose values are Counters; Counters), the
     multi-word detector's state, the cut-off, the OMEN scorer as an oracle.
   * The detectors of lib_trainer are oracles (record [detectors]): given the
     section list they return the section list they leave behind (they edit
     their argument in place) with what they return; [None] = an exception.
     [model_detectors] instantiates them with the models of Detect.v /
     Segment.v exactly as Segment.parse chains them. *)
From Coq Require Import List ZArith NArith Bool.
From Pcfg Require Import Str Multiword Detect Segment Scorer.
Import ListNotations.
Open Scope Z_scope.

(* ---------------------------------------------------------------- control *)

Inductive exn := KeyError | OtherError.

Inductive out (R A : Type) : Type :=
| Norm (a : A)
| Retn (r : R)
| Exc (e : exn).
Arguments Norm {R A} a.
Arguments Retn {R A} r.
Arguments Exc {R A} e.

Definition bind {R A B : Type} (m : out R A) (k : A -> out R B) : out R B :=
  match m with
  | Norm a => k a
  | Retn r => Retn r
  | Exc e => Exc e
  end.

(* try: body / except KeyError: handler *)
Definition try_keyerror {R A : Type} (body handler : out R A) : out R A :=
  match body with
  | Exc KeyError => handler
  | o => o
  end.

(* for x in l: body *)
Fixpoint for_each {R X St : Type} (l : list X) (body : X -> St -> out R St) (s : St) : out R St :=
  match l with
  | [] => Norm s
  | x :: r => bind (body x s) (for_each r body)
  end.

(* the call of an oracle that may raise *)
Definition call {R A : Type} (o : option A) : out R A :=
  match o with
  | Some a => Norm a
  | None => Exc OtherError
  end.

(* what the caller of the function sees *)
Inductive res (R : Type) : Type :=
| Ok (r : R)
| Raise (e : exn).
Arguments Ok {R} r.
Arguments Raise {R} e.

(* a function body: every path ends in `return` or an exception *)
Definition run_fn {R : Type} (m : out R Empty_set) : res R :=
  match m with
  | Norm a => match a with end
  | Retn r => Ok r
  | Exc e => Raise e
  end.

(* ---------------------------------------------------------------- values *)

(* zip(a, b) is [combine]; zip(a, b, c): *)
Fixpoint zip3 {A B C : Type} (a : list A) (b : list B) (c : list C) : list (A * B * C) :=
  match a, b, c with
  | x :: a', y :: b', z :: c' => (x, y, z) :: zip3 a' b' c'
  | _, _, _ => []
  end.

(* x[1] of a section in a condition: None is false, a label (a non-empty
   string) is true *)
Definition label_truth (o : option label) : bool :=
  match o with
  | Some _ => true
  | None => false
  end.

(* x[1][0]: the first character of a label ('K4' 'E' 'W' 'Y1' 'X1' 'A5' 'D3'
   'O2').  On None Python raises TypeError; the translator accepts x[1][0]
   only to the right of `x[1] and`, the value chosen here is never looked at *)
Definition label_char0 (o : option label) : N :=
  match o with
  | Some (LK _) => 75
  | Some LE => 69
  | Some LW => 87
  | Some LY => 89
  | Some LX => 88
  | Some (LA _) => 65
  | Some (LD _) => 68
  | Some (LO _) => 79
  | None => 0
  end%N.

(* ---------------------------------------------------------------- the scorer object *)

(* self.omen: OmenScorer.parse is an oracle here (it is translated and tied to
   its model separately: translate_omen_level.py, property C11) *)
Record omen_obj := {
  omen_parse : str -> Z;
  max_omen_level : Z
}.

Record scorer_obj (P : Type) := {
  count_keyboard : list (Z * entries P);
  count_years : entries P;
  count_context_sensitive : entries P;
  count_alpha : list (Z * entries P);
  count_alpha_masks : list (Z * entries P);
  count_digits : list (Z * entries P);
  count_other : list (Z * entries P);
  count_base_structures : list (list label * P);
  multiword_detector : mwmap;
  limit : P;
  omen : omen_obj
}.
Arguments count_keyboard {P} s.
Arguments count_years {P} s.
Arguments count_context_sensitive {P} s.
Arguments count_alpha {P} s.
Arguments count_alpha_masks {P} s.
Arguments count_digits {P} s.
Arguments count_other {P} s.
Arguments count_base_structures {P} s.
Arguments multiword_detector {P} s.
Arguments limit {P} s.
Arguments omen {P} s.

(* the tables as the hand-written model takes them *)
Definition rs_of {P : Type} (self : scorer_obj P) : ruleset P :=
  {| r_bases := count_base_structures self;
     r_alpha := count_alpha self;
     r_masks := count_alpha_masks self;
     r_digits := count_digits self;
     r_other := count_other self;
     r_keyboard := count_keyboard self;
     r_years := count_years self;
     r_context := count_context_sensitive self |}.

Section Lookup.
Variable P : Type.
Variable p0 : P.

(* d[n] for a dict keyed by length: KeyError on a missing key *)
Definition getitem_len {R : Type} (t : list (Z * entries P)) (n : Z) : out R (entries P) :=
  match by_len P t n with
  | Some e => Norm e
  | None => Exc KeyError
  end.

(* c[k] for a Counter: 0 on a missing key *)
Definition getitem_counter (c : entries P) (k : str) : P := counter_get P p0 c k.

(* count_base_structures[b]: a Counter keyed by base structures *)
Definition getitem_bases (b : list (list label * P)) (k : list label) : P :=
  match base_get P b k with
  | Some v => v
  | None => p0
  end.
End Lookup.
Arguments getitem_len {P R} t n.
Arguments getitem_counter {P} p0 c k.
Arguments getitem_bases {P} p0 b k.

(* ---------------------------------------------------------------- the detectors *)

(* f(section_list, ...) -> (the section list afterwards, what f returns);
   detect_keyboard_walk and base_structure_creation do not edit an argument *)
Record detectors := {
  d_detect_keyboard_walk : str -> option (list section * list str * unit);
  d_email_detection : list section -> option (list section * (list str * list str));
  d_website_detection : list section -> option (list section * (list str * list str * list (option str)));
  d_year_detection : list section -> option (list section * list str);
  d_context_sensitive_detection : list section -> option (list section * list str);
  d_alpha_detection : list section -> mwmap -> option (list section * (list str * list str));
  d_digit_detection : list section -> option (list section * list str);
  d_other_detection : list section -> option (list section * list str);
  d_base_structure_creation : list section -> option (bool * list label)
}.

Section Model.
Variables isalpha isdigit isupper : N -> bool.
Variable lower_c : N -> str.
Variable aligned : bool.
Variable kbs : list board.
Variable fp_words : list str.
Variable min_run : Z.
Variable tlds : list str.
Variable year_prefixes : list str.
Variable context_strings : list str.
Variables mw_threshold mw_min_len mw_max_len : Z.

(* the oracles as Segment.parse has them (third value of
   detect_keyboard_walk, the detected keyboards, is not modelled: unit) *)
Definition model_detectors : detectors := {|
  d_detect_keyboard_walk := fun pw =>
    match detect_keyboard_walk isalpha isdigit lower_c kbs fp_words min_run (length pw) pw with
    | None => None
    | Some (sl, walks) => Some (sl, walks, tt)
    end;
  d_email_detection := fun sl =>
    match drive_all (detect_email lower_c aligned tlds) false sl with
    | None => None
    | Some (sl', f) => Some (sl', (map fst f, map snd f))
    end;
  d_website_detection := fun sl =>
    match drive_all (detect_website isalpha lower_c aligned tlds) false sl with
    | None => None
    | Some (sl', f) => Some (sl', (map (fun x => fst (fst x)) f, map (fun x => snd (fst x)) f, map snd f))
    end;
  d_year_detection := fun sl => drive_all (detect_year isdigit year_prefixes) true sl;
  d_context_sensitive_detection := fun sl => drive_all (detect_context isdigit context_strings) true sl;
  d_alpha_detection := fun sl m =>
    match drive_all (detect_alpha isalpha isupper lower_c aligned
                       (mwparse lower_c mw_threshold mw_min_len mw_max_len m)) false sl with
    | None => None
    | Some (sl', f) => Some (sl', (flat_map fst f, flat_map snd f))
    end;
  d_digit_detection := fun sl => drive_all (detect_digits isdigit) false sl;
  d_other_detection := fun sl => Some (other_detection sl);
  d_base_structure_creation := base_structure
|}.
End Model.

(* ---------------------------------------------------------------- the whole result *)
(* What parse() returns, in terms of the hand-written model: the four values
   from the sections and found lists of the segmentation ([parse_result]; the
   letter p / o of the classification cut-off is left open: [b]), and what
   Scorer.score keeps of them ([view]: the category as e / w / other and the
   probability).  The theorems of ScorerGenProofs.v are stated with these. *)
Section Result.
Variable P : Type.
Variable pmul : P -> P -> P.
Variables p0 p1 : P.
Variable upper_c : N -> str.

Definition s_e : str := [101%N].
Definition s_w : str := [119%N].
Definition s_o : str := [111%N].
Definition s_p : str := [112%N].

(* everything parse() returns, from the sections and found lists of the
   segmentation: (password, category, probability, omen_score); b: did the
   classification cut-off (PCFG limit / OMEN level) say "password" *)
Definition parse_result (b : bool) (self : scorer_obj P) (s : str) (r : parsed) : str * str * P * Z :=
  let o := omen_parse (omen self) s in
  if nonempty (p_emails r) then (s, s_e, p0, o)
  else if nonempty (p_urls r) then (s, s_w, p0, o)
  else if negb (p_supported r) then (s, s_o, p0, o)
  else let p := if negb (rebuild_ok upper_c r) then p0 else product P pmul p0 p1 (rs_of self) r in
       (s, (if b then s_p else s_o), p, o).

(* x is that result for some outcome of the cut-off test *)
Definition is_result (self : scorer_obj P) (s : str) (r : parsed) (x : res (str * str * P * Z)) : Prop :=
  exists b : bool, x = Ok (parse_result b self s r).

Definition cat_of_str (c : str) : category :=
  if str_eqb c s_e then CatE else if str_eqb c s_w then CatW else CatOther.
Definition view (t : str * str * P * Z) : category * P :=
  let '(_, c, p, _) := t in (cat_of_str c, p).
Definition res_map {X Y : Type} (f : X -> Y) (r : res X) : res Y :=
  match r with Ok x => Ok (f x) | Raise e => Raise e end.
Definition lift {X : Type} (o : option X) : res X :=
  match o with Some x => Ok x | None => Raise OtherError end.

End Result.
