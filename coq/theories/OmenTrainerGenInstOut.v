(* The writer's side of C11 / C18 over the TRANSLATED save_omen_rules_to_disk: what is on disk after it
   returned True; its probability loop is the model's omen_prob, so C18_prob holds for what it puts into
   pcfg_omen_prob.txt.  Depends on the translation of omen_file_output.py only (not on smoothing.py /
   alphabet_lookup.py / alphabet_generator.py). *)
From Coq Require Import List Arith Bool NArith ZArith Floats Uint63 Lia.
From Pcfg Require Import KernelRt OmenSpec OmenLevel OmenKeyspace OmenLevelProofs OmenKeyspaceProofs
     OmenTrainer OmenTrainerRt OmenTrainerRtProofs OmenTrainerGenProofsOut.
From PcfgGen Require Import OmenTrainerOut_gen.
Import ListNotations.

(* ------------------------------------------------------------------ *)
(* what is on disk after the translated writer returned True            *)

Lemma path_join_inj d a b : path_join d a = path_join d b -> a = b.
Proof. unfold path_join. intro H. apply app_inv_head in H. inversion H. reflexivity. Qed.

Lemma fs_get_put_same fs p t : fs_get (fs_put fs p t) p = Some t.
Proof. apply (afind_aset_same ostr_eqb ostr_eqb_eq). Qed.

Lemma fs_get_put_other fs p q t : p <> q -> fs_get (fs_put fs p t) q = fs_get fs q.
Proof. intro H. apply (afind_aset_other ostr_eqb ostr_eqb_eq). exact H. Qed.

(* the oracle for _save_config only touches the file it is asked to write *)
Definition config_frame (sc : ostr -> ostr -> pinfo -> fsys -> option fsys) : Prop :=
  forall d f pi fs fs', sc d f pi fs = Some fs' -> forall q, q <> path_join d f -> fs_get fs' q = fs_get fs q.

Ltac neq_path := let H := fresh "H" in intro H; apply path_join_inj in H; discriminate H.
Ltac fs_solve :=
  repeat first [ rewrite fs_get_put_same; reflexivity
               | rewrite fs_get_put_other by neq_path ].

Theorem save_rules_files : forall repr sc T ks lc nvalid base pi fs fs',
  config_frame sc ->
  save_rules repr sc T ks lc nvalid base pi fs = TOk (true, fs') ->
  let dir := path_join base n_Omen in
  fs_get fs' (path_join dir n_IP) = Some (level_text (write_ip T)) /\
  fs_get fs' (path_join dir n_EP) = Some (level_text (write_ep T)) /\
  fs_get fs' (path_join dir n_CP) = Some (level_text (write_cp T)) /\
  fs_get fs' (path_join dir n_LN) = Some (ln_text (OmenLevel.write_ln T)) /\
  fs_get fs' (path_join dir n_alphabet) = Some (alphabet_text (pi_alphabet pi)) /\
  fs_get fs' (path_join dir n_keyspace) = Some (zz_text (rev (most_common_by Z.ltb ks))) /\
  fs_get fs' (path_join dir n_pws_per_level) = Some (zz_text (most_common_by Z.ltb lc)) /\
  exists prob, prob_counter ks lc nvalid = TOk prob /\
    fs_get fs' (path_join dir n_prob) = Some (zf_text repr (most_common_by PrimFloat.ltb prob)).
Proof.
  intros repr sc T ks lc nvalid base pi fs fs' Hfr. unfold save_rules. cbv zeta.
  set (dir := path_join base n_Omen). cbn [put_files fold_left fst snd].
  match goal with |- context [sc ?d ?f ?p ?s] => destruct (sc d f p s) as [fs2|] eqn:Esc end; [|discriminate].
  destruct (prob_counter ks lc nvalid) as [prob|] eqn:Ep; simpl; [|discriminate].
  intro H. inversion H. clear H.
  assert (Hold : forall q, q <> path_join dir n_config -> fs_get fs2 q = fs_get _ q) by (intros q Hq; eapply Hfr; eassumption).
  repeat split; try (exists prob; split; [reflexivity|]); fs_solve;
    rewrite Hold by neq_path; fs_solve.
Qed.

(* ------------------------------------------------------------------ *)
(* the probabilities: the loop of the writer is the model's omen_prob    *)

Lemma zfloat_of_nat n : zfloat (Z.of_nat n) = float_of_N (N.of_nat n).
Proof.
  unfold zfloat, float_of_N. replace (Z.of_nat n <? 0)%Z with false by (symmetry; apply Z.ltb_ge; lia).
  rewrite nat_N_Z. reflexivity.
Qed.

Lemma zfloat_of_N n : zfloat (Z.of_N n) = float_of_N n.
Proof.
  unfold zfloat, float_of_N. replace (Z.of_N n <? 0)%Z with false by (symmetry; apply Z.ltb_ge; lia). reflexivity.
Qed.

Definition zcounter_of (l : list (nat * N)) : list (Z * Z) := map (fun e => (Z.of_nat (fst e), Z.of_N (snd e))) l.
Definition zprob_of (l : list (nat * float)) : list (Z * float) := map (fun e => (Z.of_nat (fst e), snd e)) l.

Theorem prob_counter_is_omen_prob : forall (cnt : nat -> nat) (lc : list (Z * Z)) nvalid ksl,
  nvalid <> 0 -> NoDup (map fst ksl) -> (forall l, zcount lc (Z.of_nat l) = Z.of_nat (cnt l)) ->
  prob_counter (zcounter_of ksl) lc (Z.of_nat nvalid) = TOk (zprob_of (omen_prob cnt nvalid ksl)).
Proof.
  intros cnt lc nvalid ksl Hnv Hnd Hcnt. unfold prob_counter.
  assert (G : forall todo acc, NoDup (map fst todo) ->
            (forall e, In e todo -> ~ In (Z.of_nat (fst e)) (map fst acc)) ->
            tfoldM (fun acc e =>
                      if (snd e =? 0)%Z then TOk acc
                      else q <~ int_truediv (zcount lc (fst e)) (Z.of_nat nvalid) ;;
                           TOk (aset Z.eqb (fst e) (PrimFloat.div q (zfloat (snd e))) acc))
                   (zcounter_of todo) acc = TOk (acc ++ zprob_of (omen_prob cnt nvalid todo))).
  { induction todo as [|[l k] todo IH]; intros acc Hn Hfresh.
    - simpl. rewrite app_nil_r. reflexivity.
    - inversion Hn as [|? ? Hl Hn']; subst.
      unfold zcounter_of. cbn [map tfoldM fst snd]. fold (zcounter_of todo). cbn [omen_prob flat_map fst snd].
      replace (Z.of_N k =? 0)%Z with (N.eqb k 0) by (destruct k; reflexivity).
      destruct (N.eqb k 0) eqn:Ek.
      + cbn [tbind app]. apply IH; [exact Hn' | intros e He; apply Hfresh; right; exact He].
      + assert (Hdiv : forall a, int_truediv a (Z.of_nat nvalid) = TOk (PrimFloat.div (zfloat a) (zfloat (Z.of_nat nvalid)))).
        { intro a. unfold int_truediv. replace (Z.of_nat nvalid =? 0)%Z with false by (symmetry; apply Z.eqb_neq; lia). reflexivity. }
        rewrite (Hdiv (zcount lc (Z.of_nat l))). cbn [tbind]. rewrite Hcnt, !zfloat_of_nat, zfloat_of_N.
        rewrite aset_absent by (apply (afind_none_notin Z.eqb Z.eqb_eq); apply (Hfresh (l, k)); left; reflexivity).
        rewrite IH; [| exact Hn' |].
        * unfold zprob_of. cbn [app map fst snd]. rewrite <- app_assoc. reflexivity.
        * intros e He. rewrite map_app, in_app_iff. simpl. intros [H|[H|[]]].
          -- apply (Hfresh e); [right; exact He | exact H].
          -- apply Hl. apply Nat2Z.inj in H. rewrite H. apply in_map. exact He. }
  rewrite (G ksl [] Hnd) by (intros; simpl; tauto). reflexivity.
Qed.

(* the levels calc_omen_keyspace lists are pairwise different (the Counter it returns is a dict) *)
Lemma ks_done_nodup T max_level maxks s l c :
  NoDup (map fst (ks_done (calc_keyspace T max_level maxks s l c))).
Proof.
  unfold calc_keyspace.
  assert (G : forall levels st, NoDup (map fst (ks_done st) ++ levels) ->
            NoDup (map fst (ks_done (fold_left (ks_step_level T maxks s l) levels st)))).
  { induction levels as [|x levels IH]; intros st H; simpl.
    - rewrite app_nil_r in H. exact H.
    - apply IH. unfold ks_step_level. destruct (ks_stopped st).
      + apply NoDup_remove_1 in H. exact H.
      + simpl. destruct (lv_touched _); simpl.
        * rewrite map_app. simpl. rewrite <- app_assoc. exact H.
        * apply NoDup_remove_1 in H. exact H. }
  apply G. simpl. apply seq_NoDup.
Qed.

Section Prob.
Variable repr : float -> ostr.
Variable sc : ostr -> ostr -> pinfo -> fsys -> option fsys.

(* C18_prob for the translated writer: the probabilities it writes to pcfg_omen_prob.txt for the
   Counter calc_omen_keyspace returned are (training passwords the generator emits at the level / N)
   / the number of strings of the level *)
Theorem gen_prob_translated :
  forall A T, ttab_of A = Some T -> wf_ttab T -> levels_le guesser_max_level T ->
  forall c, reachable T c -> forall max_level maxks pws nvalid lc base pi fs fs',
  let st := calc_keyspace T max_level maxks false false c in
  nvalid <> 0 -> config_frame sc ->
  (forall l, zcount lc (Z.of_nat l) = Z.of_nat (count_at (levels_count T pws) (Some l))) ->
  py_save_omen_rules_to_disk repr sc A (zcounter_of (ks_done st)) lc (Z.of_nat nvalid) base pi fs = TOk (true, fs') ->
  exists prob,
    fs_get fs' (path_join (path_join base n_Omen) n_prob) = Some (zf_text repr (most_common_by PrimFloat.ltb (zprob_of prob))) /\
    forall L p, In (L, p) prob -> (forall v, In (L, v) (ks_done st) -> (v <= maxks)%N) ->
      let members := level_strings (gview T) (Z.of_nat L) in
      p = PrimFloat.div
            (PrimFloat.div (float_of_N (N.of_nat (length (filter (fun pw => existsb (ostr_eqb pw) members) pws))))
                           (float_of_N (N.of_nat nvalid)))
            (float_of_N (N.of_nat (length members))).
Proof.
  intros A T HT Hwf Hle c Hc max_level maxks pws nvalid lc base pi fs fs' st Hnv Hfr Hlc H.
  rewrite (gen_save_omen_rules_eq repr sc A T _ _ _ _ _ _ HT) in H.
  destruct (save_rules_files _ _ _ _ _ _ _ _ _ _ Hfr H) as (_ & _ & _ & _ & _ & _ & _ & prob & Hp & Hf).
  rewrite (prob_counter_is_omen_prob (fun l => count_at (levels_count T pws) (Some l)) lc nvalid (ks_done st) Hnv
             (ks_done_nodup _ _ _ _ _ _) Hlc) in Hp.
  inversion Hp. subst prob. eexists. split; [exact Hf|].
  intros L p Hin Hv. exact (ol_prob T Hwf Hle c Hc max_level maxks pws nvalid L p Hin Hv).
Qed.

End Prob.

(* omen_levels_count of pass 3 as the Counter the writer gets: key -1 for "cannot be generated" *)
Definition zlevel (o : option nat) : Z := match o with Some n => Z.of_nat n | None => (-1)%Z end.
Definition zlevels_count (c : list (option nat * nat)) : list (Z * Z) :=
  map (fun e => (zlevel (fst e), Z.of_nat (snd e))) c.

Lemma zcount_zlevels_count c l : zcount (zlevels_count c) (Z.of_nat l) = Z.of_nat (count_at c (Some l)).
Proof.
  unfold zcount, count_at, zlevels_count. induction c as [|[k n] c IH]; [reflexivity|].
  cbn [map afind find fst snd]. destruct k as [m|]; cbn [zlevel olevel_eqb].
  - destruct (Nat.eqb m l) eqn:E.
    + apply Nat.eqb_eq in E. subst. rewrite Z.eqb_refl. reflexivity.
    + replace (Z.of_nat m =? Z.of_nat l)%Z with false by (symmetry; apply Z.eqb_neq; apply Nat.eqb_neq in E; lia). exact IH.
  - replace (-1 =? Z.of_nat l)%Z with false by (symmetry; apply Z.eqb_neq; lia). exact IH.
Qed.

(* C18_prob for the translated writer, with the Counters as run_trainer.py passes them *)
Theorem gen_prob_translated_run :
  forall repr sc A T, ttab_of A = Some T -> wf_ttab T -> levels_le guesser_max_level T ->
  forall c, reachable T c -> forall max_level maxks pws nvalid base pi fs fs',
  let st := calc_keyspace T max_level maxks false false c in
  nvalid <> 0 -> config_frame sc ->
  py_save_omen_rules_to_disk repr sc A (zcounter_of (ks_done st)) (zlevels_count (levels_count T pws)) (Z.of_nat nvalid) base pi fs
    = TOk (true, fs') ->
  exists prob,
    fs_get fs' (path_join (path_join base n_Omen) n_prob) = Some (zf_text repr (most_common_by PrimFloat.ltb (zprob_of prob))) /\
    forall L p, In (L, p) prob -> (forall v, In (L, v) (ks_done st) -> (v <= maxks)%N) ->
      let members := level_strings (gview T) (Z.of_nat L) in
      p = PrimFloat.div
            (PrimFloat.div (float_of_N (N.of_nat (length (filter (fun pw => existsb (ostr_eqb pw) members) pws))))
                           (float_of_N (N.of_nat nvalid)))
            (float_of_N (N.of_nat (length members))).
Proof.
  intros repr sc A T HT Hwf Hle c Hc max_level maxks pws nvalid base pi fs fs' st Hnv Hfr H.
  eapply gen_prob_translated; eauto. intro l. apply zcount_zlevels_count.
Qed.

(* an oracle for _save_config that writes some text to the file it is asked to write satisfies the frame condition *)
Lemma config_frame_put (text : pinfo -> ostr) : config_frame (fun d f pi fs => Some (fs_put fs (path_join d f) (text pi))).
Proof.
  intros d f pi fs fs' H q Hq. inversion H. apply fs_get_put_other. congruence.
Qed.

(* the hypotheses of gen_prob_translated_run are satisfiable: a smoothed object with the table view T_r9
   (the witness table of C18), the Counter calc_omen_keyspace returns for it, pass 3 over four passwords *)
Definition A_r9 : alookup :=
  mk_alookup [97; 98]%N 2 4 2
    [([97]%N, mk_gentry 3 1 3 [(98%N, NLevel 0 3)] (Some 0%Z) (Some 0%Z));
     ([98]%N, mk_gentry 1 3 1 [(97%N, NLevel 0 1)] (Some 10%Z) (Some 0%Z))]
    4 4 4 [NLevel 10 0; NLevel 1 2; NLevel 10 1; NLevel 0 1].

Example gen_prob_example :
  ttab_of A_r9 = Some T_r9 /\ wf_ttab T_r9 /\ levels_le guesser_max_level T_r9 /\ reachable T_r9 [] /\
  config_frame (fun d f _ fs => Some (fs_put fs (path_join d f) [])) /\
  let pws := [[97; 98]; [97; 98; 97]; [98; 97; 98; 97]; [99; 99]]%N in
  let st := calc_keyspace T_r9 18 10000000000 false false [] in
  exists fs',
    py_save_omen_rules_to_disk (fun _ => [63]%N) (fun d f _ fs => Some (fs_put fs (path_join d f) []))
      A_r9 (zcounter_of (ks_done st)) (zlevels_count (levels_count T_r9 pws)) 4 [100]%N (mk_pinfo [] 2 [97; 98]%N) [] = TOk (true, fs') /\
    zlevels_count (levels_count T_r9 pws) = [(1, 1); (10, 2); (-1, 1)]%Z /\
    fs_get fs' (path_join (path_join [100]%N n_Omen) n_keyspace) <> None /\
    exists prob, prob_counter (zcounter_of (ks_done st)) (zlevels_count (levels_count T_r9 pws)) 4 = TOk prob /\ length prob = 3.
Proof.
  split; [reflexivity|]. split; [apply T_r9_wf|]. split; [apply T_r9_wf|]. split; [constructor|].
  split; [apply (config_frame_put (fun _ => []))|].
  vm_compute. eexists. split; [reflexivity|]. split; [reflexivity|]. split; [discriminate|]. eexists. split; reflexivity.
Qed.
