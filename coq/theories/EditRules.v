(* Model of edit_rules.py: check_regex (109-131), edit_terminal_set (133-154),
   edit_length (156-193), edit_rules (195-216).  Strings are lists of code
   points; Python's `re.search` for the user's regexes is a parameter. *)
From Coq Require Import List Arith Bool NArith Lia.
Import ListNotations.

Definition str := list N.

Definition is_upper (c : N) : bool := N.leb 65 c && N.leb c 90.
Definition is_digit (c : N) : bool := N.leb 48 c && N.leb c 57.

(* re.findall('[A-Z][0-9]{0,3}', s): leftmost, greedy, non-overlapping *)
Fixpoint take_digits (k : nat) (s : str) : str * str :=
  match k, s with
  | S k', c :: r => if is_digit c then let '(d, rest) := take_digits k' r in (c :: d, rest) else ([], s)
  | _, _ => ([], s)
  end.

Fixpoint tokens_fuel (fuel : nat) (s : str) : list str :=
  match fuel with
  | O => []
  | S f =>
    match s with
    | [] => []
    | c :: r => if is_upper c
                then let '(d, rest) := take_digits 3 r in (c :: d) :: tokens_fuel f rest
                else tokens_fuel f r
    end
  end.
Definition tokens (s : str) : list str := tokens_fuel (length s) s.

(* int() of a digit string; None = ValueError (empty string) *)
Definition digit_val (c : N) : nat := N.to_nat (c - 48).
Definition int_of (d : str) : option nat :=
  match d with
  | [] => None
  | _ => Some (fold_left (fun a c => 10 * a + digit_val c) d 0)
  end.

Definition chr (n : N) := n.
(* label length as edit_length counts it: A D O K X -> the number, Y -> 4, anything else 0 *)
Definition label_len (t : str) : option nat :=
  match t with
  | [] => Some 0
  | c :: d =>
      if N.eqb c 65 || N.eqb c 68 || N.eqb c 79 || N.eqb c 75 || N.eqb c 88 then int_of d
      else if N.eqb c 89 then Some 4 else Some 0
  end.

Fixpoint total_len (ts : list str) : option nat :=
  match ts with
  | [] => Some 0
  | t :: r => match label_len t, total_len r with Some a, Some b => Some (a + b) | _, _ => None end
  end.

(* the three branches of edit_length: zero-length structures are always kept,
   max = 0 means unbounded *)
Definition length_keeps (mn mx total : nat) : bool :=
  (Nat.eqb total 0 && Nat.leb total mx) ||
  (Nat.leb mn total && Nat.eqb mx 0) ||
  (Nat.leb mn total && Nat.leb total mx).

(* a line: the text before the first TAB, the text after it (already stripped) *)
Record gline := { gstruct : str; gprob : str }.

Definition TAB : N := 9%N.
Definition whole (l : gline) : str := gstruct l ++ [TAB] ++ gprob l.

Inductive res (X : Type) := Ok (x : X) | Raise.
Arguments Ok {X} x.
Arguments Raise {X}.

(* edit_length on one line: None = dropped, Some = rewritten line *)
Definition edit_length_line (mn mx : nat) (l : gline) : res (option gline) :=
  match tokens (whole l) with
  | [] => Ok None                                   (* "invalid structure ... Skipping" *)
  | ts => match total_len ts with
          | None => Raise                           (* int('') -> ValueError *)
          | Some n => if length_keeps mn mx n
                      then Ok (Some {| gstruct := concat ts; gprob := gprob l |}) else Ok None
          end
  end.

Definition set_keeps (set : list str) (ts : list str) : bool :=
  forallb (fun t => match t with c :: _ => existsb (fun s => match s with [x] => N.eqb x c | _ => false end) set
                              | [] => true end) ts.

Definition edit_set_line (set : list str) (l : gline) : option gline :=
  match tokens (whole l) with
  | [] => None
  | ts => if set_keeps set ts then Some {| gstruct := concat ts; gprob := gprob l |} else None
  end.

Section Regex.
Context (re_search : str -> str -> bool).

Definition regex_keeps (rs : list str) (l : gline) : bool := forallb (fun r => re_search r (gstruct l)) rs.

Record config := { min_length : nat; max_length : nat; terminal_set : option (list str); regexes : list str }.

Fixpoint map_res {X Y} (f : X -> res (option Y)) (l : list X) : res (list Y) :=
  match l with
  | [] => Ok []
  | x :: r => match f x, map_res f r with
              | Ok (Some y), Ok ys => Ok (y :: ys)
              | Ok None, Ok ys => Ok ys
              | _, _ => Raise
              end
  end.

Definition opt_filter {X} (f : X -> option X) (l : list X) : list X :=
  flat_map (fun x => match f x with Some y => [y] | None => [] end) l.

(* edit_rules: the three passes in order, each only when requested *)
Definition edit (c : config) (ls : list gline) : res (list gline) :=
  let r1 := if negb (Nat.eqb (min_length c) 0) || negb (Nat.eqb (max_length c) 0)
            then map_res (edit_length_line (min_length c) (max_length c)) ls else Ok ls in
  match r1 with
  | Raise => Raise
  | Ok l1 =>
      let l2 := match terminal_set c with Some s => opt_filter (edit_set_line s) l1 | None => l1 end in
      Ok (match regexes c with [] => l2 | rs => filter (regex_keeps rs) l2 end)
  end.

(* ---------------- specification ---------------- *)

(* a line as the trainer writes it: the structure is exactly the concatenation
   of its labels and the probability text contains no upper-case letter *)
Definition well_formed (l : gline) : Prop :=
  tokens (whole l) <> [] /\ concat (tokens (whole l)) = gstruct l /\ tokens (whole l) = tokens (gstruct l).

Definition keep (c : config) (l : gline) : bool :=
  (if negb (Nat.eqb (min_length c) 0) || negb (Nat.eqb (max_length c) 0)
   then match total_len (tokens (gstruct l)) with Some n => length_keeps (min_length c) (max_length c) n | None => false end
   else true) &&
  (match terminal_set c with Some s => set_keeps s (tokens (gstruct l)) | None => true end) &&
  (match regexes c with [] => true | rs => regex_keeps rs l end).

Lemma gline_eta l : {| gstruct := gstruct l; gprob := gprob l |} = l.
Proof. destruct l; reflexivity. Qed.

Lemma edit_length_wf mn mx ls :
  Forall well_formed ls -> Forall (fun l => total_len (tokens (gstruct l)) <> None) ls ->
  map_res (edit_length_line mn mx) ls =
  Ok (filter (fun l => match total_len (tokens (gstruct l)) with Some n => length_keeps mn mx n | None => false end) ls).
Proof.
  induction ls as [|l r IH]; intros Hwf Hint; simpl; auto.
  inversion Hwf as [|? ? (H1 & H2 & H3) Hr]; subst. inversion Hint as [|? ? Hi Hir]; subst.
  rewrite (IH Hr Hir). unfold edit_length_line.
  destruct (tokens (whole l)) as [|t ts] eqn:Et; [contradiction|].
  rewrite <- H3. destruct (total_len (t :: ts)) as [n|] eqn:En; [|rewrite <- H3 in Hi; contradiction].
  destruct (length_keeps mn mx n); auto. rewrite H2, gline_eta. reflexivity.
Qed.

Lemma edit_set_wf s ls :
  Forall well_formed ls ->
  opt_filter (edit_set_line s) ls = filter (fun l => set_keeps s (tokens (gstruct l))) ls.
Proof.
  induction ls as [|l r IH]; intros Hwf; simpl; auto.
  inversion Hwf as [|? ? (H1 & H2 & H3) Hr]; subst. rewrite (IH Hr). unfold edit_set_line.
  destruct (tokens (whole l)) as [|t ts] eqn:Et; [contradiction|].
  rewrite <- H3. destruct (set_keeps s (t :: ts)); auto. rewrite H2, gline_eta. reflexivity.
Qed.

Lemma filter_filter {X} (f g : X -> bool) l : filter g (filter f l) = filter (fun x => f x && g x) l.
Proof. induction l as [|x r IH]; simpl; auto. destruct (f x); simpl; [destruct (g x); simpl; rewrite IH; auto|auto]. Qed.

Lemma filter_true {X} (l : list X) : filter (fun _ => true) l = l.
Proof. induction l; simpl; congruence. Qed.

Lemma Forall_filter {X} (P : X -> Prop) f l : Forall P l -> Forall P (filter f l).
Proof. induction 1; simpl; auto. destruct (f x); auto. Qed.

(* C20: the edited list is exactly the original list filtered by [keep]: order,
   structure text and probability text of the survivors unchanged *)
Theorem edit_is_filter c ls :
  Forall well_formed ls -> Forall (fun l => total_len (tokens (gstruct l)) <> None) ls ->
  edit c ls = Ok (filter (keep c) ls).
Proof.
  intros Hwf Hint. unfold edit, keep.
  destruct (negb (Nat.eqb (min_length c) 0) || negb (Nat.eqb (max_length c) 0)) eqn:El.
  - rewrite (edit_length_wf _ _ ls Hwf Hint). f_equal.
    set (f1 := fun l : gline => match total_len (tokens (gstruct l)) with Some n => length_keeps (min_length c) (max_length c) n | None => false end).
    assert (Hwf1 : Forall well_formed (filter f1 ls)) by (apply Forall_filter; auto).
    destruct (terminal_set c) as [s|].
    + rewrite (edit_set_wf s _ Hwf1). destruct (regexes c) as [|r0 rs].
      * rewrite filter_filter. apply filter_ext. intros a. now rewrite andb_true_r.
      * rewrite !filter_filter. apply filter_ext. intros a. unfold f1. now rewrite andb_assoc.
    + destruct (regexes c) as [|r0 rs].
      * apply filter_ext. intros a. now rewrite !andb_true_r.
      * rewrite filter_filter. apply filter_ext. intros a. now rewrite andb_true_r.
  - f_equal. destruct (terminal_set c) as [s|].
    + rewrite (edit_set_wf s _ Hwf). destruct (regexes c) as [|r0 rs].
      * apply filter_ext. intros a. now rewrite andb_true_r.
      * rewrite filter_filter. apply filter_ext. intros a. reflexivity.
    + destruct (regexes c) as [|r0 rs].
      * symmetry. apply filter_true.
      * apply filter_ext. intros a. reflexivity.
Qed.

(* the length promise at the level of labels: a kept structure with bounds has
   its label length within them, or is zero-length (Markov) *)
Theorem kept_length_bounds c l n :
  keep c l = true -> max_length c <> 0 -> total_len (tokens (gstruct l)) = Some n ->
  n = 0 \/ (min_length c <= n /\ n <= max_length c).
Proof.
  unfold keep. intros H Hmx Hn. rewrite Hn in H.
  assert (E : negb (Nat.eqb (min_length c) 0) || negb (Nat.eqb (max_length c) 0) = true).
  { apply orb_true_iff. right. apply negb_true_iff. apply Nat.eqb_neq. exact Hmx. }
  rewrite E in H. apply andb_true_iff in H. destruct H as [H _]. apply andb_true_iff in H. destruct H as [H _].
  unfold length_keeps in H. rewrite !orb_true_iff, !andb_true_iff in H.
  destruct H as [[[H _]|[_ H]]|[H1 H2]].
  - left. now apply Nat.eqb_eq.
  - apply Nat.eqb_eq in H. contradiction.
  - right. split; [now apply Nat.leb_le|now apply Nat.leb_le].
Qed.

End Regex.
