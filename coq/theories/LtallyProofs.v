(* LtallyProofs.v - the length-indexed counters of the trainer
   (_update_counter_len_indexed: counter[len(item)][item] += 1): the dict keys
   are the lengths in first-occurrence order and each inner Counter is the
   tally of the items of that length. *)
From Coq Require Import String Ascii.
From Coq Require Import List NArith ZArith Bool Lia.
From Pcfg Require Import TextFile Counters CountersProofs.
Import ListNotations.

Fixpoint nodup_first_N (l : list N) : list N :=
  match l with
  | [] => []
  | x :: r => x :: filter (fun y => negb (N.eqb x y)) (nodup_first_N r)
  end.

Definition slen (k : str) : N := N.of_nat (length k).
Definition len_is (n : N) (k : str) : bool := N.eqb (slen k) n.

(* ================================================================ 1. snoc *)

Lemma ltally_snoc : forall l x, ltally (l ++ [x]) = lincr (slen x) x (ltally l).
Proof. intros l x. unfold ltally. rewrite fold_left_app. reflexivity. Qed.

(* ================================================================ nodup_first_N *)

Lemma existsb_Neqb_in : forall x l, existsb (N.eqb x) l = true <-> In x l.
Proof.
  intros x l. rewrite existsb_exists. split.
  - intros [y [Hy E]]. apply N.eqb_eq in E. subst. exact Hy.
  - intro H. exists x. split; [exact H|apply N.eqb_refl].
Qed.

Lemma existsb_Neqb_notin : forall x l, existsb (N.eqb x) l = false <-> ~ In x l.
Proof.
  intros x l. split.
  - intros H Hin. apply existsb_Neqb_in in Hin. congruence.
  - intro H. destruct (existsb (N.eqb x) l) eqn:E; [|reflexivity].
    apply existsb_Neqb_in in E. contradiction.
Qed.

Lemma nodup_first_N_in : forall l x, In x (nodup_first_N l) <-> In x l.
Proof.
  induction l as [|a l IH]; intro x; simpl.
  - tauto.
  - rewrite filter_In, IH. split.
    + intros [H|[H _]]; auto.
    + intros [H|H]; auto.
      destruct (N.eqb a x) eqn:E.
      * apply N.eqb_eq in E. auto.
      * right. split; [exact H|reflexivity].
Qed.

Lemma nodup_first_N_nodup : forall l, NoDup (nodup_first_N l).
Proof.
  induction l as [|a l IH]; simpl.
  - constructor.
  - constructor.
    + intro H. apply filter_In in H. destruct H as [_ H].
      rewrite N.eqb_refl in H. discriminate.
    + apply NoDup_filter. exact IH.
Qed.

Lemma nodup_first_N_snoc : forall l x,
  nodup_first_N (l ++ [x]) =
  if existsb (N.eqb x) l then nodup_first_N l else nodup_first_N l ++ [x].
Proof.
  induction l as [|a l IH]; intro x; simpl.
  - reflexivity.
  - rewrite IH. destruct (N.eqb x a) eqn:E; simpl.
    + apply N.eqb_eq in E. subst a.
      destruct (existsb (N.eqb x) l); [reflexivity|].
      rewrite filter_app. simpl. rewrite N.eqb_refl. simpl.
      rewrite app_nil_r. reflexivity.
    + destruct (existsb (N.eqb x) l); [reflexivity|].
      rewrite filter_app. simpl. rewrite (N.eqb_sym a x), E. simpl. reflexivity.
Qed.

(* ================================================================ lincr on distinct keys *)

Lemma lincr_notin : forall n k (g : N -> list (str * N)) u, ~ In n u ->
  lincr n k (map (fun m => (m, g m)) u) = map (fun m => (m, g m)) u ++ [(n, [(k, 1%N)])].
Proof.
  intros n k g u. induction u as [|a u IH]; simpl; intro H.
  - reflexivity.
  - destruct (N.eqb a n) eqn:E.
    + apply N.eqb_eq in E. subst. tauto.
    + rewrite IH by tauto. reflexivity.
Qed.

Lemma lincr_in : forall n k (g : N -> list (str * N)) u, NoDup u -> In n u ->
  lincr n k (map (fun m => (m, g m)) u) =
  map (fun m => (m, if N.eqb m n then incr k (g m) else g m)) u.
Proof.
  intros n k g u Hd. induction Hd as [|a u Hn Hd IH]; simpl; intro H.
  - contradiction.
  - destruct (N.eqb a n) eqn:E.
    + apply N.eqb_eq in E. subst a. f_equal.
      apply map_ext_in. intros m Hm.
      destruct (N.eqb m n) eqn:E2; [|reflexivity].
      apply N.eqb_eq in E2. subst. contradiction.
    + f_equal. apply IH. destruct H as [H|H]; [|exact H].
      subst. rewrite N.eqb_refl in E. discriminate.
Qed.

(* ================================================================ filter by length *)

Lemma filter_len_is_snoc : forall n l x,
  filter (len_is n) (l ++ [x]) =
  filter (len_is n) l ++ (if N.eqb (slen x) n then [x] else []).
Proof.
  intros n l x. rewrite filter_app. simpl. unfold len_is at 2.
  destruct (N.eqb (slen x) n); reflexivity.
Qed.

Lemma filter_len_is_nil : forall n l, ~ In n (map slen l) -> filter (len_is n) l = [].
Proof.
  intros n l. induction l as [|a l IH]; simpl; intro H.
  - reflexivity.
  - unfold len_is at 1. destruct (N.eqb (slen a) n) eqn:E.
    + apply N.eqb_eq in E. tauto.
    + apply IH. tauto.
Qed.

(* ================================================================ 2. specification *)

Theorem ltally_spec : forall l,
  ltally l = map (fun n => (n, tally (filter (len_is n) l))) (nodup_first_N (map slen l)).
Proof.
  induction l as [|x l IH] using rev_ind.
  - reflexivity.
  - rewrite ltally_snoc, IH, map_app. change (map slen [x]) with [slen x]. rewrite nodup_first_N_snoc.
    destruct (existsb (N.eqb (slen x)) (map slen l)) eqn:E.
    + apply existsb_Neqb_in in E.
      rewrite (lincr_in (slen x) x (fun n => tally (filter (len_is n) l))).
      * apply map_ext. intro m. rewrite filter_len_is_snoc, (N.eqb_sym m (slen x)).
        destruct (N.eqb (slen x) m).
        -- rewrite tally_snoc. reflexivity.
        -- rewrite app_nil_r. reflexivity.
      * apply nodup_first_N_nodup.
      * apply nodup_first_N_in. exact E.
    + apply existsb_Neqb_notin in E.
      rewrite (lincr_notin (slen x) x (fun n => tally (filter (len_is n) l)))
        by (rewrite nodup_first_N_in; exact E).
      rewrite map_app. simpl. f_equal.
      * apply map_ext_in. intros m Hm. rewrite filter_len_is_snoc.
        destruct (N.eqb (slen x) m) eqn:E2.
        -- apply N.eqb_eq in E2. subst m.
           apply (proj1 (nodup_first_N_in _ _)) in Hm. contradiction.
        -- rewrite app_nil_r. reflexivity.
      * rewrite filter_len_is_snoc, N.eqb_refl, filter_len_is_nil by exact E.
        reflexivity.
Qed.

(* ================================================================ 3. corollaries *)

Lemma ltally_keys : forall l, map fst (ltally l) = nodup_first_N (map slen l).
Proof. intro l. rewrite ltally_spec, map_map. simpl. apply map_id. Qed.

Theorem ltally_keys_nodup : forall l, NoDup (map fst (ltally l)).
Proof. intro l. rewrite ltally_keys. apply nodup_first_N_nodup. Qed.

Theorem ltally_entry : forall l n c, In (n, c) (ltally l) ->
  c = tally (filter (len_is n) l) /\ c <> [].
Proof.
  intros l n c H. rewrite ltally_spec in H. apply in_map_iff in H.
  destruct H as [m [E Hin]]. inversion E; subst. split; [reflexivity|].
  apply (proj1 (nodup_first_N_in _ _)) in Hin. apply in_map_iff in Hin.
  destruct Hin as [k [Ek Hk]].
  assert (Hf : In k (filter (len_is n) l)).
  { apply filter_In. split; [exact Hk|]. unfold len_is. rewrite Ek. apply N.eqb_refl. }
  apply (proj2 (tally_keys_in _ _)) in Hf. intro Hnil. rewrite Hnil in Hf. exact Hf.
Qed.

Theorem ltally_item_present : forall l k, In k l ->
  exists c, In (slen k, c) (ltally l) /\ In k (map fst c).
Proof.
  intros l k Hk. exists (tally (filter (len_is (slen k)) l)). split.
  - rewrite ltally_spec. apply in_map_iff. exists (slen k). split; [reflexivity|].
    apply nodup_first_N_in. apply in_map. exact Hk.
  - apply tally_keys_in. apply filter_In. split; [exact Hk|].
    unfold len_is. apply N.eqb_refl.
Qed.

Theorem ltally_items_have_length : forall l n c k,
  In (n, c) (ltally l) -> In k (map fst c) -> In k l /\ slen k = n.
Proof.
  intros l n c k H Hk. apply ltally_entry in H. destruct H as [H _]. subst c.
  apply (proj1 (tally_keys_in _ _)) in Hk. apply filter_In in Hk. destruct Hk as [Hl E].
  split; [exact Hl|]. unfold len_is in E. apply N.eqb_eq in E. exact E.
Qed.

(* ================================================================ 4. example *)

Example ltally_demo :
  ltally [[97;98]; [49]; [99;100]; [97;98]]%N =
  [(2, [([97;98], 2); ([99;100], 1)]); (1, [([49], 1)])]%N.
Proof. vm_compute. reflexivity. Qed.
