(* Loader2GrammarFacts.v - C04's group-probability clause through the translated _load_terminals
   (Loader2GrammarGenProofs.load_terminals_eq: the translated function IS Loader2Model.terminals):
     - a list read from a file is what the translated _load_from_file builds (whose groups hold values
       of one probability: LoaderGenProofs.source_groups_same_prob);
     - under --skip_case every capitalisation list is ONE group, the all-lower mask, probability 1.0;
     - grammar['M'] holds one group per OMEN level, with the probability of the group the level stood in. *)
From Coq Require Import List Arith ZArith NArith Bool Lia Floats.
From Pcfg Require Import TextFile LoaderRt LoaderGenProofs Loader2Rt Loader2RtProofs Loader2Model Loader2GrammarGenProofs.
From PcfgGen Require Import Loader_gen Loader2Grammar_gen.
Import ListNotations.

Section Facts.
Context (fo : fops) {C SS : Type} (W : world fo C SS).
Notation val := (pyval (F fo) C SS).

(* ---- a terminal list that comes from a file *)
Theorem multi_step_file base dir name enc file (g g' : list (val * val)) :
  multi_step fo W base dir name enc file g = inl g' ->
  exists its, w_load_from_file W [] (w_path_join W [base; dir; file]) enc = Done (its, true) /\
              g' = dput (VStr (name ++ stem file)) (val_of_items its) g.
Proof.
  unfold multi_step. destruct (w_load_from_file W [] (w_path_join W [base; dir; file]) enc) as [[its [|]]|e]; intros H;
    try discriminate H. inversion H. now exists its.
Qed.

Lemma multi_step_stop base dir name enc file (g : list (val * val)) v :
  multi_step fo W base dir name enc file g = inr v -> forall g', v <> XDone (VDict g', VBool true).
Proof.
  unfold multi_step. destruct (w_load_from_file W [] (w_path_join W [base; dir; file]) enc) as [[its [|]]|e]; intros H g' Hc;
    inversion H as [Hv]; rewrite <- Hv in Hc; inversion Hc.
Qed.

(* every key _load_from_multiple_files has written holds the groups of its file *)
Theorem multi_files_lists base dir name enc files (g g' : list (val * val)) :
  multi_files fo W base dir name enc files g = XDone (VDict g', VBool true) ->
  forall file, In file files ->
  exists file' its, In file' files /\ stem file' = stem file /\
    w_load_from_file W [] (w_path_join W [base; dir; file']) enc = Done (its, true) /\
    dfind (VStr (name ++ stem file)) g' = Some (val_of_items its).
Proof.
  revert g. induction files as [|f r IH]; intros g H file Hin; [contradiction|].
  cbn [multi_files] in H. destruct (multi_step fo W base dir name enc f g) as [g1|v] eqn:Es.
  2:{ exfalso. exact (multi_step_stop _ _ _ _ _ _ _ Es g' H). }
  destruct (multi_step_file _ _ _ _ _ _ _ Es) as (its & Hl & ->).
  (* is the key written again by a later file? *)
  destruct (existsb (fun f' => str_eqb (stem f') (stem file)) r) eqn:Ex.
  - apply existsb_exists in Ex. destruct Ex as (f' & Hf' & Hs). apply str_eqb_eq in Hs.
    destruct (IH _ H f' Hf') as (f2 & its2 & Hin2 & Hst & Hl2 & Hd). exists f2, its2.
    split; [now right|]. split; [congruence|]. split; [exact Hl2|]. now rewrite <- Hs.
  - destruct Hin as [->|Hin].
    + exists file, its. split; [now left|]. split; [reflexivity|]. split; [exact Hl|].
      assert (K : forall r0 g0 g1, multi_files fo W base dir name enc r0 g0 = XDone (VDict g1, VBool true) ->
                  existsb (fun f' => str_eqb (stem f') (stem file)) r0 = false ->
                  dfind (VStr (name ++ stem file)) g1 = dfind (VStr (name ++ stem file)) g0).
      { clear. induction r0 as [|f0 r0 IH0]; intros g0 g1 H0 Hx; cbn [multi_files] in H0; [now inversion H0|].
        cbn [existsb] in Hx. apply orb_false_elim in Hx. destruct Hx as [Hx1 Hx2].
        destruct (multi_step fo W base dir name enc f0 g0) as [g2|v] eqn:E0.
        - destruct (multi_step_file _ _ _ _ _ _ _ E0) as (i0 & _ & ->). rewrite (IH0 _ _ H0 Hx2).
          apply dfind_dput_other. cbn [key_eqb]. apply str_eqb_neq. intros Heq. apply app_inv_head in Heq.
          rewrite Heq, str_eqb_refl in Hx1. discriminate.
        - exfalso. exact (multi_step_stop _ _ _ _ _ _ _ E0 g1 H0). }
      rewrite (K r _ g' H Ex). now apply dfind_dput_same.
    + exfalso. assert (existsb (fun f' => str_eqb (stem f') (stem file)) r = true); [|congruence].
      apply existsb_exists. exists file. split; [exact Hin | apply str_eqb_refl].
Qed.

(* ---- --skip_case: one group of probability 1.0 per capitalisation file *)
Theorem caps_files_groups name files (g g' : list (val * val)) :
  caps_files fo W name files g = XDone g' ->
  forall file, In file files ->
  exists n, w_pint W (stem file) = Some n /\
            dfind (VStr (name ++ stem file)) g' = Some (val_of_items [lower_group fo n]) /\
            it_prob (lower_group fo n) = f_one fo /\ it_values (lower_group fo n) = [rt_repeat k_L n].
Proof.
  revert g. induction files as [|f r IH]; intros g H file Hin; [contradiction|].
  cbn [caps_files] in H. destruct (w_pint W (stem f)) as [n|] eqn:En; [|discriminate H].
  destruct (existsb (fun f' => str_eqb (stem f') (stem file)) r) eqn:Ex.
  - apply existsb_exists in Ex. destruct Ex as (f' & Hf' & Hs). apply str_eqb_eq in Hs.
    destruct (IH _ H f' Hf') as (n' & Hn' & Hd & Hp & Hv). exists n'. rewrite <- Hs. repeat split; assumption.
  - destruct Hin as [->|Hin].
    + exists n. split; [exact En|]. split; [|split; reflexivity].
      assert (K : forall r0 g0 g1, caps_files fo W name r0 g0 = XDone g1 ->
                  existsb (fun f' => str_eqb (stem f') (stem file)) r0 = false ->
                  dfind (VStr (name ++ stem file)) g1 = dfind (VStr (name ++ stem file)) g0).
      { clear. induction r0 as [|f0 r0 IH0]; intros g0 g1 H0 Hx; cbn [caps_files] in H0; [now inversion H0|].
        cbn [existsb] in Hx. apply orb_false_elim in Hx. destruct Hx as [Hx1 Hx2].
        destruct (w_pint W (stem f0)) as [n0|]; [|discriminate H0]. rewrite (IH0 _ _ H0 Hx2).
        apply dfind_dput_other. cbn [key_eqb]. apply str_eqb_neq. intros Heq. apply app_inv_head in Heq.
        rewrite Heq, str_eqb_refl in Hx1. discriminate. }
      rewrite (K r _ g' H Ex). now apply dfind_dput_same.
    + exfalso. assert (existsb (fun f' => str_eqb (stem f') (stem file)) r = true); [|congruence].
      apply existsb_exists. exists file. split; [exact Hin | apply str_eqb_refl].
Qed.

(* ---- grammar['M']: every level its own group, nothing lost, the probability of its old group *)
Theorem split_levels_groups (its : list (rt_item (F fo))) :
  flat_map it_values (split_levels fo its) = flat_map it_values its /\
  (forall it, In it (split_levels fo its) -> exists v it0, it_values it = [v] /\ In it0 its /\ In v (it_values it0) /\
                                                       it_prob it = it_prob it0).
Proof.
  unfold split_levels. split.
  - induction its as [|it r IH]; cbn [flat_map]; [reflexivity|]. rewrite flat_map_app, IH. f_equal.
    induction (it_values it) as [|v vs IHv]; cbn [map flat_map it_values]; [reflexivity|]. cbn [app]. now rewrite IHv.
  - intros it Hin. apply in_flat_map in Hin. destruct Hin as (it0 & Hi0 & Hin). apply in_map_iff in Hin.
    destruct Hin as (v & <- & Hv). exists v, it0. cbn [it_values it_prob]. repeat split; assumption.
Qed.

End Facts.

(* ---- with the translated _load_from_file of gen/Loader_gen.v as the reader of a file (binary64): the
   values of a group of a terminal list stood in the file with the probability of the group *)
Theorem terminal_list_same_prob :
  forall {C SS : Type} (W : world F64ops C SS)
         (ws : N -> bool) (pfloat : pstr -> option float) (encb : N -> bool) (reason : pstr)
         (copen : pstr -> pstr -> option pstr -> option (list pstr))
         base dir name enc file (g g' : list (pyval float C SS * pyval float C SS)) lines,
  w_load_from_file W = py_load_from_file F64ops ws pfloat (enc_of encb reason) copen ->
  copen (w_path_join W [base; dir; file]) enc (Some surrogateescape) = Some lines ->
  multi_step F64ops W base dir name enc file g = inl g' ->
  exists gs its,
    g' = dput (VStr (name ++ stem file)) (val_of_items gs) g /\
    guesser_items ws pfloat encb (onfail_of_reason reason) lines false = Some its /\
    (forall it v, In it gs -> In v (it_values it) -> exists q, In (v, q) its /\ same_prob q (it_prob it)) /\
    (forall v q, In (v, q) its -> exists it, In it gs /\ In v (it_values it) /\ same_prob q (it_prob it)).
Proof.
  intros C SS W ws pfloat encb reason copen base dir name enc file g g' lines HW Ho Hs.
  destruct (multi_step_file F64ops W _ _ _ _ _ _ _ Hs) as (gs & Hl & ->). rewrite HW in Hl.
  destruct (source_groups_same_prob ws pfloat encb reason copen _ _ lines gs Ho Hl) as (its & Hi & H1 & H2).
  exists gs, its. repeat split; assumption.
Qed.

(* ---- the hypotheses are satisfiable and the translated _load_terminals runs: a configuration with one alpha
   file and two capitalisation files, under --skip_case *)
Definition gx_fo : fops :=
  {| F := Z; f_one := 1%Z; f_mone := (-1)%Z; f_zero := 0%Z; f_eqb := Z.eqb; f_sub := Z.sub; f_div := Z.div;
     f_iszero := Z.eqb 0%Z |}.
Definition gx_files (sec : pstr) : list pstr :=
  if str_eqb sec k_BASE_A then [[49; 46; 116; 120; 116]%N]
  else if str_eqb sec k_CAPITALIZATION then [[49; 46; 116; 120; 116]; [50; 46; 116; 120; 116]]%N
  else [].
Definition gx_name (sec : pstr) : pstr :=
  if str_eqb sec k_BASE_A then [65%N] else if str_eqb sec k_CAPITALIZATION then [67%N] else [88%N].
(* every file holds two values of probability 1 and one of probability 0 *)
Definition gx_load (_ : list (rt_item (F gx_fo))) (_ _ : pstr) : outcome (list (rt_item (F gx_fo)) * bool) :=
  Done ([{| it_values := [[97%N]; [98%N]]; it_prob := 1%Z |}; {| it_values := [[99%N]]; it_prob := 0%Z |}], true).
(* a section is its name; `filenames` is the section name itself, which the json oracle maps to the list *)
Definition gx_world : world gx_fo unit pstr :=
  {| w_cfg := {| cp_read_file := fun _ => XDone tt; cp_read := fun _ => XDone tt;
                 cp_get := fun _ _ _ => XDone [117; 116; 102; 45; 56]%N;
                 cp_section := fun _ sec => XDone sec;
                 cp_sect_get := fun sec k => if str_eqb k k_filenames then XDone (Some sec)
                                             else if str_eqb k k_name then XDone (Some (gx_name sec))
                                             else XDone (Some sec);
                 cp_json := fun sec => XDone (VList (map VStr (gx_files sec))) |};
     w_ws := fun c => N.eqb c 32; w_pfloat := fun _ => None;
     w_pint := fun s => match s with [c] => Some (Z.of_N c - 48)%Z | _ => None end;
     w_path_join := fun l => TextFile.join 47%N l;
     w_codecs_open := fun _ _ _ => XFail (XBase EIO); w_open := fun _ _ _ => XFail (XBase EIO);
     w_load_from_file := gx_load;
     w_scorer_load_from_file := fun d _ _ => Done (d, true);
     w_load_base_structures := fun l _ _ _ => Done (l, true) |}.

Definition gx_view : cfg_view :=
  let v := fun sec => (sec, gx_name sec, gx_files sec) in
  {| cv_A := v k_BASE_A; cv_CAP := v k_CAPITALIZATION; cv_D := v k_BASE_D; cv_O := v k_BASE_O;
     cv_K := v k_BASE_K; cv_Y := v k_BASE_Y; cv_X := v k_BASE_X |}.

Example load_terminals_example :
  cfg_view_ok gx_fo gx_world tt gx_view /\
  exists G, py_load_terminals gx_fo gx_world (VDict [(VStr k_encoding, VStr [117; 116; 102; 45; 56]%N)]) (VDict [])
              (VStr []) (VCfg tt) (VBool true) = XDone (VDict G, VBool true) /\
    (* the alpha list of 1.txt: the two groups of the file *)
    dfind (VStr [65; 49]%N) G = Some (val_of_items [{| it_values := [[97%N]; [98%N]]; it_prob := 1%Z |};
                                                     {| it_values := [[99%N]]; it_prob := 0%Z |}]) /\
    (* C1, C2: one all-lower group of probability 1.0 each *)
    dfind (VStr [67; 49]%N) G = Some (val_of_items [lower_group gx_fo 1]) /\
    dfind (VStr [67; 50]%N) G = Some (val_of_items [lower_group gx_fo 2]) /\
    (* M: the three levels of the file, each its own group *)
    dfind (VStr k_M) G = Some (val_of_items [{| it_values := [[97%N]]; it_prob := 1%Z |};
                                             {| it_values := [[98%N]]; it_prob := 1%Z |};
                                             {| it_values := [[99%N]]; it_prob := 0%Z |}]).
Proof.
  split.
  - unfold cfg_view_ok, section_ok, sect_wf. repeat split; eexists; (split; [reflexivity|]);
      (split; [reflexivity|]); (split; [reflexivity|]); eexists; split; reflexivity.
  - eexists. split; [vm_compute; reflexivity|]. vm_compute. repeat split.
Qed.
