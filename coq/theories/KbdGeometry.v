(* C05, keyboard segments: "adjacent keys" as PHYSICAL adjacency - the tables.

   The two keyboards, written down independently of the source: an ANSI keyboard with US
   QWERTY and Russian JCUKEN legends (both shift states), every key one unit wide, the rows
   starting (left edge, in quarter key widths) at 0 (the key left of 1), 6, 7 and 9.  Two
   different keys are adjacent when they are side by side in one row or in neighbouring rows
   with overlapping spans.  (The same tables: harness/kbd_geometry.py; the check has Coq
   evaluate phys_walk on the strings the harness judged, phys_case_ok.)  Nothing here
   depends on /repo; KbdGeometryProofs.v relates it to the layouts of the source. *)
From Coq Require Import List ZArith NArith Bool.
From Pcfg Require Import Str.
Import ListNotations.
Open Scope Z_scope.

(* rows from the key left of 1: (unshifted legends, shifted legends) *)
Definition phys_layout := list (str * str).
Definition row_x0 : list Z := [0; 6; 7; 9].

Definition phys_qwerty : phys_layout :=
  [ ([96; 49; 50; 51; 52; 53; 54; 55; 56; 57; 48; 45; 61]%N, [126; 33; 64; 35; 36; 37; 94; 38; 42; 40; 41; 95; 43]%N);
    ([113; 119; 101; 114; 116; 121; 117; 105; 111; 112; 91; 93; 92]%N, [81; 87; 69; 82; 84; 89; 85; 73; 79; 80; 123; 125; 124]%N);
    ([97; 115; 100; 102; 103; 104; 106; 107; 108; 59; 39]%N, [65; 83; 68; 70; 71; 72; 74; 75; 76; 58; 34]%N);
    ([122; 120; 99; 118; 98; 110; 109; 44; 46; 47]%N, [90; 88; 67; 86; 66; 78; 77; 60; 62; 63]%N) ].

Definition phys_jcuken : phys_layout :=
  [ ([1105; 49; 50; 51; 52; 53; 54; 55; 56; 57; 48; 45; 61]%N, [1025; 33; 34; 8470; 59; 37; 58; 63; 42; 40; 41; 95; 43]%N);
    ([1081; 1094; 1091; 1082; 1077; 1085; 1075; 1096; 1097; 1079; 1093; 1098; 92]%N,
     [1049; 1062; 1059; 1050; 1045; 1053; 1043; 1064; 1065; 1047; 1061; 1066; 47]%N);
    ([1092; 1099; 1074; 1072; 1087; 1088; 1086; 1083; 1076; 1078; 1101]%N,
     [1060; 1067; 1042; 1040; 1055; 1056; 1054; 1051; 1044; 1046; 1069]%N);
    ([1103; 1095; 1089; 1084; 1080; 1090; 1100; 1073; 1102; 46]%N, [1071; 1063; 1057; 1052; 1048; 1058; 1068; 1041; 1070; 44]%N) ].

(* in the search order of the source: qwerty, jcuken *)
Definition phys_layouts : list phys_layout := [phys_qwerty; phys_jcuken].

(* the positions (row, left edge) of the keys that carry the legend c *)
Fixpoint pos_in (c : N) (r : str) (row x : Z) : list (Z * Z) :=
  match r with
  | [] => []
  | k :: r' => (if N.eqb k c then [(row, x)] else []) ++ pos_in c r' row (x + 4)
  end.

Fixpoint phys_pos_rows (c : N) (rows : phys_layout) (x0s : list Z) (row : Z) : list (Z * Z) :=
  match rows, x0s with
  | (p, s) :: rs, x0 :: xs => pos_in c p row x0 ++ pos_in c s row x0 ++ phys_pos_rows c rs xs (row + 1)
  | _, _ => []
  end.

Definition phys_pos (pl : phys_layout) (c : N) : list (Z * Z) := phys_pos_rows c pl row_x0 0.

Definition pos_adjacent (a b : Z * Z) : bool :=
  let (r1, x1) := a in
  let (r2, x2) := b in
  if r1 =? r2 then Z.abs (x1 - x2) =? 4
  else if Z.abs (r1 - r2) =? 1 then Z.abs (x1 - x2) <? 4
  else false.

Definition phys_adjacent (pl : phys_layout) (c d : N) : bool :=
  existsb (fun a => existsb (pos_adjacent a) (phys_pos pl d)) (phys_pos pl c).

Definition is_key (pl : phys_layout) (c : N) : bool := nonempty (phys_pos pl c).

Fixpoint phys_walk (pl : phys_layout) (t : str) : bool :=
  match t with
  | [] => true
  | c :: r =>
      match r with
      | [] => is_key pl c
      | d :: _ => phys_adjacent pl c d && phys_walk pl r
      end
  end.

(* not vacuous: 1qaz and its image on the Russian keyboard are walks, 2edc is not, nor is
   its image 2увс *)
Example phys_walk_examples :
  phys_walk phys_qwerty [49; 113; 97; 122]%N = true /\
  phys_walk phys_jcuken [49; 1081; 1092; 1103]%N = true /\
  phys_walk phys_qwerty [50; 101; 100; 99]%N = false /\
  phys_walk phys_jcuken [50; 1091; 1074; 1089]%N = false /\
  phys_walk phys_jcuken [1105; 49; 1081; 1092]%N = true.
Proof. vm_compute. repeat split. Qed.

(* ---- correspondence with harness/kbd_geometry.py: per layout, is the string a walk *)
Fixpoint bools_eqb (a b : list bool) : bool :=
  match a, b with
  | [], [] => true
  | x :: a', y :: b' => Bool.eqb x y && bools_eqb a' b'
  | _, _ => false
  end.

Definition phys_case_ok (x : str * list bool) : bool :=
  bools_eqb (map (fun pl => phys_walk pl (fst x)) phys_layouts) (snd x).
