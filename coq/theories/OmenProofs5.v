(* OmenProofs5.v -- the theorems of C10 / C15 in the form Props/C10.v and
   Props/C15.v export: about an OMEN model G as the guesser loads it, with the
   model run on the indexed CP table (cp_fast G) exactly as the correspondence
   check runs it. *)
From Coq Require Import List Arith Bool NArith ZArith Lia.
From Pcfg Require Import OmenSpec Omen OmenProofs OmenProofs2 OmenProofs3 OmenProofs4.
Import ListNotations.

(* ------------------------------------------------------------------ *)
(* successor in the canonical list, stated on the list itself           *)
Section Successor.
  Variable cpf : ostr -> nat -> list N.
  Variable maxl optmax : nat.
  Notation compl := (completions_f cpf maxl).

  Lemma rem_of_split : forall k p lvl xs t ys,
    compl k p lvl = xs ++ t :: ys -> rem cpf maxl k lvl t = ys.
  Proof.
    intros k p lvl xs t ys E.
    assert (Hin : In t (compl k p lvl)) by (rewrite E; apply in_or_app; right; left; reflexivity).
    destruct (rem_spec cpf maxl _ _ _ _ Hin) as [pre Hp].
    exact (NoDup_split_unique (compl k p lvl) pre (rem cpf maxl k lvl t) xs ys t (NoDup_compl cpf maxl k p lvl) Hp E).
  Qed.

  (* GuessStructure.next_guess maps every element of the canonical list to the
     next one and the last one to None, whatever the (sound) cache holds *)
  Theorem gs_next_is_successor : forall c ip k target xs t t' ys,
    1 <= k -> cache_ok cpf maxl c ->
    compl k ip target = xs ++ t :: t' :: ys ->
    fst (gs_next cpf maxl optmax c ip k target t) = Some t'.
  Proof.
    intros c ip k target xs t t' ys Hk Hc E.
    assert (Hin : In t (compl k ip target)) by (rewrite E; apply in_or_app; right; left; reflexivity).
    assert (Hne : t <> []).
    { intro H. apply (compl_length cpf maxl) in Hin. subst t. simpl in Hin. lia. }
    rewrite (proj1 (gs_next_spec cpf maxl optmax c ip k target t Hc Hin Hne)).
    rewrite (rem_of_split _ _ _ _ _ _ E). reflexivity.
  Qed.

  Theorem gs_next_last_is_none : forall c ip k target xs t,
    1 <= k -> cache_ok cpf maxl c ->
    compl k ip target = xs ++ [t] ->
    fst (gs_next cpf maxl optmax c ip k target t) = None.
  Proof.
    intros c ip k target xs t Hk Hc E.
    assert (Hin : In t (compl k ip target)) by (rewrite E; apply in_or_app; right; left; reflexivity).
    assert (Hne : t <> []).
    { intro H. apply (compl_length cpf maxl) in Hin. subst t. simpl in Hin. lia. }
    rewrite (proj1 (gs_next_spec cpf maxl optmax c ip k target t Hc Hin Hne)).
    rewrite (rem_of_split _ _ _ _ _ _ E). reflexivity.
  Qed.

  Theorem gs_first_is_head : forall c ip k target,
    1 <= k -> cache_ok cpf maxl c ->
    fst (gs_next cpf maxl optmax c ip k target []) = hd_error (compl k ip target).
  Proof. intros. apply gs_first_spec; assumption. Qed.
End Successor.

(* ------------------------------------------------------------------ *)
(* facts about the tables of a model G                                  *)
Lemma ln_from_pos : forall ngram ls len l k, 1 <= len -> In k (ln_from ngram len ls l) -> 1 <= k.
Proof.
  intros ngram ls. induction ls as [|x r IH]; intros len l k Hlen H; simpl in H; [destruct H|].
  apply in_app_or in H. destruct H as [H|H].
  - destruct (Nat.leb ngram len && Nat.eqb x l) eqn:E; [|destruct H].
    apply andb_true_iff in E. destruct E as [E _]. apply Nat.leb_le in E.
    destruct H as [H|[]]. subst k. lia.
  - apply (IH (S len) l k); [lia | exact H].
Qed.

Lemma ln_at_pos : forall G l k, In k (ln_at G l) -> 1 <= k.
Proof. intros G l k H. unfold ln_at in H. apply (ln_from_pos (og_ngram G) (og_ln G) 1 l k); [lia | exact H]. Qed.

Lemma ffo_exists : forall {X} maxl extra (tbl : nat -> list X),
  (exists l, l < maxl + extra /\ tbl l <> []) -> exists s, find_first_object maxl extra tbl = Some s.
Proof.
  intros X maxl extra tbl [l [Hl Hne]]. unfold find_first_object.
  destruct (find (fun l0 => negb (is_nil (tbl l0))) (seq 0 (maxl + extra))) eqn:E; [eexists; reflexivity|].
  exfalso. pose proof (find_none _ _ E l) as H. simpl in H.
  assert (In l (seq 0 (maxl + extra))) as Hin by (apply in_seq; lia).
  apply H in Hin. destruct (tbl l); [congruence | discriminate].
Qed.

Lemma first_below_max_starts : forall G extra,
  first_below_max G ->
  exists starts, mc_starts (ip_at G) (ln_at G) (og_max_level G) extra = Some starts.
Proof.
  intros G extra [[l1 [H1 H1']] [l2 [H2 H2']]]. unfold mc_starts.
  destruct (ffo_exists (og_max_level G) extra (ip_at G)) as [a Ha]; [exists l1; split; [lia | exact H1']|].
  destruct (ffo_exists (og_max_level G) extra (ln_at G)) as [b Hb]; [exists l2; split; [lia | exact H2']|].
  rewrite Ha, Hb. eexists. reflexivity.
Qed.

Lemma level_strings_fast : forall G T,
  level_strings_f (ip_at G) (cp_fast G) (ln_at G) (og_max_level G) T = level_strings G T.
Proof. intros G T. unfold level_strings. apply level_strings_f_ext. apply cp_fast_ok. Qed.

(* ------------------------------------------------------------------ *)
Section Exact.
  Variable G : omen.
  Variable optmax extra : nat.
  Hypothesis extra_le : extra <= 1.

  Notation ipf := (ip_at G).
  Notation cpf := (cp_fast G).
  Notation lnf := (ln_at G).
  Notation maxl := (og_max_level G).
  Notation enum := (enumerate ipf cpf lnf maxl optmax extra).

  (* n calls of next_guess on a new cracker give the first n strings of the
     level's list; the outcome is never "out of fuel" *)
  Theorem enumerate_prefix : forall T c n starts,
    cache_ok cpf maxl c ->
    mc_starts ipf lnf maxl extra = Some starts ->
    exists st' c',
      enum n c T = Some (firstn n (level_strings G T), run_status n (level_strings G T), st', c') /\
      cache_ok cpf maxl c'.
  Proof.
    intros T c n [s_ip s_len] Hc Hs. unfold enumerate. rewrite Hs.
    unfold mc_starts in Hs.
    destruct (find_first_object maxl extra ipf) as [a|] eqn:Ea; [|discriminate].
    destruct (find_first_object maxl extra lnf) as [b|] eqn:Eb; [|discriminate].
    inversion Hs; subst a b.
    pose proof (mc_run_spec ipf cpf lnf maxl optmax extra (ln_at_pos G) extra_le T s_ip s_len Ea Eb
                            n c (mc_new T) (level_strings_f ipf cpf lnf maxl T)
                            (or_introl (conj eq_refl (conj eq_refl eq_refl))) Hc) as H.
    cbv zeta in H. destruct H as (H1 & H2 & H3 & _).
    destruct (mc_run ipf cpf lnf maxl optmax n (mc_fuel ipf lnf maxl) (s_ip, s_len) c (mc_new T)) as [[[l o] st'] c'].
    cbn [fst snd] in *. exists st', c'. rewrite level_strings_fast in *. subst l o. split; [reflexivity | exact H3].
  Qed.

  (* C10: the generator emits exactly the level's list, in order, then None *)
  Theorem enumerate_exact : forall T c starts,
    cache_ok cpf maxl c ->
    mc_starts ipf lnf maxl extra = Some starts ->
    exists st' c',
      enum (S (length (level_strings G T))) c T = Some (level_strings G T, Done, st', c') /\
      cache_ok cpf maxl c'.
  Proof.
    intros T c starts Hc Hs.
    destruct (enumerate_prefix T c (S (length (level_strings G T))) starts Hc Hs) as (st' & c' & H1 & H2).
    exists st', c'. split; [|exact H2]. rewrite H1. rewrite firstn_all2 by lia.
    unfold run_status. replace (Nat.leb (S (length (level_strings G T))) (length (level_strings G T))) with false
      by (symmetry; apply Nat.leb_gt; lia). reflexivity.
  Qed.

  (* the second sentence of C10: no dependence on the cache history *)
  Theorem enumerate_cache_independent : forall T c1 c2 n starts,
    cache_ok cpf maxl c1 -> cache_ok cpf maxl c2 ->
    mc_starts ipf lnf maxl extra = Some starts ->
    option_map (fun r => fst (fst r)) (enum n c1 T) = option_map (fun r => fst (fst r)) (enum n c2 T).
  Proof.
    intros T c1 c2 n starts H1 H2 Hs.
    destruct (enumerate_prefix T c1 n starts H1 Hs) as (s1 & d1 & E1 & _).
    destruct (enumerate_prefix T c2 n starts H2 Hs) as (s2 & d2 & E2 & _).
    rewrite E1, E2. reflexivity.
  Qed.

  (* C15: state after the (j+1)-th guess, saved, loaded into a new cracker and
     run with ANY sound cache (in particular the empty one of the new process):
     exactly the remaining strings, then None *)
  Theorem continuation : forall T c c2 j starts l o st c1,
    cache_ok cpf maxl c -> cache_ok cpf maxl c2 ->
    mc_starts ipf lnf maxl extra = Some starts ->
    j < length (level_strings G T) ->
    enum (S j) c T = Some (l, o, st, c1) ->
    l = firstn (S j) (level_strings G T) /\
    mc_load (mc_save st) = st /\
    exists st' c',
      mc_run ipf cpf lnf maxl optmax (S (length (skipn (S j) (level_strings G T)))) (mc_fuel ipf lnf maxl)
             starts c2 (mc_load (mc_save st)) =
      (skipn (S j) (level_strings G T), Done, st', c').
  Proof.
    intros T c c2 j [s_ip s_len] l o st c1 Hc Hc2 Hs Hj He. unfold enumerate in He. rewrite Hs in He.
    unfold mc_starts in Hs.
    destruct (find_first_object maxl extra ipf) as [a|] eqn:Ea; [|discriminate].
    destruct (find_first_object maxl extra lnf) as [b|] eqn:Eb; [|discriminate].
    inversion Hs; subst a b.
    pose proof (mc_run_spec ipf cpf lnf maxl optmax extra (ln_at_pos G) extra_le T s_ip s_len Ea Eb
                            (S j) c (mc_new T) (level_strings_f ipf cpf lnf maxl T)
                            (or_introl (conj eq_refl (conj eq_refl eq_refl))) Hc) as H.
    cbv zeta in H.
    assert (He' : mc_run ipf cpf lnf maxl optmax (S j) (mc_fuel ipf lnf maxl) (s_ip, s_len) c (mc_new T) = (l, o, st, c1))
      by (injection He; auto).
    rewrite He' in H. cbn [fst snd] in H.
    rewrite level_strings_fast in H. destruct H as (H1 & _ & _ & H4).
    specialize (H4 ltac:(lia)). destruct H4 as [Hinv Hrem].
    split; [exact H1|].
    assert (Hload : mc_load (mc_save st) = st).
    { destruct Hinv as (_ & Hst & _). destruct st; simpl in *. subst. reflexivity. }
    split; [exact Hload|]. rewrite Hload.
    pose proof (mc_run_spec ipf cpf lnf maxl optmax extra (ln_at_pos G) extra_le T s_ip s_len Ea Eb
                            (S (length (skipn (S j) (level_strings G T)))) c2 st (skipn (S j) (level_strings G T))
                            (or_intror (conj Hinv Hrem)) Hc2) as H.
    cbv zeta in H. destruct H as (K1 & K2 & _ & _).
    destruct (mc_run ipf cpf lnf maxl optmax (S (length (skipn (S j) (level_strings G T)))) (mc_fuel ipf lnf maxl)
                     (s_ip, s_len) c2 st) as [[[l2 o2] st2] c2'].
    cbn [fst snd] in *. exists st2, c2'. subst l2 o2. rewrite firstn_all2 by lia.
    unfold run_status. replace (Nat.leb (S (length (skipn (S j) (level_strings G T)))) (length (skipn (S j) (level_strings G T))))
      with false by (symmetry; apply Nat.leb_gt; lia). reflexivity.
  Qed.
End Exact.

(* ------------------------------------------------------------------ *)
(* session level                                                        *)
Theorem state_roundtrip : forall st : mc_state, mc_started st = true -> mc_load (mc_save st) = st.
Proof. intros [T s l i t f] H; simpl in *; subst; reflexivity. Qed.

(* with the R7 repair (option removed unless the quit check fired inside the
   restored level): once the restored level has run to its end -- also when the
   quit flag was raised during its exhausting next_guess call -- a later save
   and resume do not restore it again, whatever happens in that later session *)
Theorem no_replay_when_cleared : forall cfg n s oe,
  fst (sess_restore true (sess_quit (snd (sess_restore true cfg false)) false n s) oe) = None.
Proof. intros [[k|] o] n s oe; reflexivity. Qed.

(* a second quit seen after a guess of the restored level: the next session
   restores the NEW position *)
Theorem requit_inside_restores_new : forall n1 s1 n s oe,
  fst (sess_restore true (sess_quit (snd (sess_restore true (sess_quit sess_empty true n1 s1) true)) true n s) oe) = Some s.
Proof. reflexivity. Qed.

(* as first coded (never removed): the stale state is restored again *)
Theorem stale_replay_when_not_cleared : forall n1 s1 n2 s2 oe oe',
  fst (sess_restore false (sess_quit (snd (sess_restore false (sess_quit sess_empty true n1 s1) oe)) false n2 s2) oe') = Some s1.
Proof. reflexivity. Qed.

(* a quit seen inside the last pre-terminal is never saved *)
Theorem last_preterminal_not_saved : loop_saves false true = false.
Proof. reflexivity. Qed.

(* ------------------------------------------------------------------ *)
(* witnesses and examples (literal parameters only; the Props files
   instantiate them with the constants extracted from the source)       *)

(* R17: every initial n-gram at level m = max_level.  "aa" has level m (length
   cost 0, IP cost m, transition cost 0), but _find_first_object, scanning
   range(0, max_level), finds nothing and the constructor raises. *)
Definition G17 (m : nat) : omen :=
  mk_omen 2 m [(m, [97%N])] [(0, [97%N; 97%N])] [0; 0].

Theorem first_object_refuted : forall e m optmax, e = 0 -> m = 10 ->
  enumerate (ip_at (G17 m)) (cp_fast (G17 m)) (ln_at (G17 m)) m optmax e 1 cempty 10%Z = None /\
  level_strings (G17 m) 10%Z = [[97%N; 97%N]] /\
  wf_tablesb (G17 m) = true.
Proof. intros e m optmax -> ->. repeat split. Qed.

(* with the scan extended to max_level the same model is enumerated *)
Theorem first_object_fixed : forall optmax,
  match enumerate (ip_at (G17 10)) (cp_fast (G17 10)) (ln_at (G17 10)) 10 optmax 1 5 cempty 10%Z with
  | Some (l, Done, _, _) => l = [[97%N; 97%N]]
  | _ => False
  end.
Proof. intro optmax. vm_compute. reflexivity. Qed.

(* a non-trivial instance on which every hypothesis of the theorems holds:
   ngram 2, alphabet {a,b}; level 2 needs backtracking across depth *)
Definition Gex (m : nat) : omen :=
  mk_omen 2 m [(0, [97%N]); (1, [98%N])]
    [(0, [97%N; 97%N]); (1, [97%N; 98%N]); (0, [98%N; 97%N]); (2, [98%N; 98%N])] [1; 0; 0; 1].

Lemma nodupb_sound : forall l, nodupb l = true -> NoDup l.
Proof.
  induction l as [|x r IH]; simpl; intro H; [constructor|].
  apply andb_true_iff in H. destruct H as [H1 H2]. constructor; [|apply IH; exact H2].
  intro Hin. apply negb_true_iff in H1.
  assert (existsb (ostr_eqb x) r = true) as E; [|congruence].
  apply existsb_exists. exists x. split; [exact Hin | apply ostr_eqb_refl].
Qed.

(* the boolean test the correspondence evaluates on every generated model *)
Lemma wf_tablesb_sound : forall G, wf_tablesb G = true -> wf_tables G.
Proof.
  intros G H. unfold wf_tablesb in H. repeat rewrite andb_true_iff in H.
  destruct H as [[[[[H1 H2] H3] H4] H5] H6]. unfold wf_tables.
  split; [apply Nat.leb_le; exact H1|].
  split; [apply nodupb_sound; exact H2|].
  split; [apply nodupb_sound; exact H3|].
  rewrite forallb_forall in H4, H5, H6.
  split; [|split].
  - intros l s Hin. specialize (H4 _ Hin). simpl in H4. apply andb_true_iff in H4. destruct H4 as [Ha Hb].
    apply Nat.eqb_eq in Ha. apply Nat.leb_le in Hb. split; assumption.
  - intros l s Hin. specialize (H5 _ Hin). simpl in H5. apply andb_true_iff in H5. destruct H5 as [Ha Hb].
    apply Nat.eqb_eq in Ha. apply Nat.leb_le in Hb. split; assumption.
  - intros l Hin. apply Nat.leb_le. apply H6. exact Hin.
Qed.

Lemma Gex_wf : wf_tables (Gex 10).
Proof. apply wf_tablesb_sound. vm_compute. reflexivity. Qed.

Lemma Gex_first_below_max : first_below_max (Gex 10).
Proof. split; exists 0; (split; [simpl; lia | vm_compute; discriminate]). Qed.

Example Gex_level2 :
  level_strings (Gex 10) 2%Z =
  [[98;97;98]; [97;98;97;97]; [97;97;98;97]; [97;97;97;98]; [98;97;97;97]]%N /\
  match enumerate (ip_at (Gex 10)) (cp_fast (Gex 10)) (ln_at (Gex 10)) 10 4 0 20 cempty 2%Z with
  | Some (l, Done, _, _) => l = level_strings (Gex 10) 2%Z
  | _ => False
  end.
Proof. split; vm_compute; reflexivity. Qed.

(* the hypotheses of [continuation] on a non-trivial instance: level 2 of Gex cut after its 2nd guess *)
Example Gex_continuation :
  mc_starts (ip_at (Gex 10)) (ln_at (Gex 10)) 10 0 = Some (0, 0) /\
  1 < length (level_strings (Gex 10) 2%Z) /\
  match enumerate (ip_at (Gex 10)) (cp_fast (Gex 10)) (ln_at (Gex 10)) 10 4 0 2 cempty 2%Z with
  | Some (l, _, st, _) =>
      l = firstn 2 (level_strings (Gex 10) 2%Z) /\
      mc_save st = (2%Z, (0, 0), (1, 0), [([97%N], 1, 0); ([98%N], 0, 0); ([97%N], 0, 0)], true) /\
      fst (fst (fst (mc_run (ip_at (Gex 10)) (cp_fast (Gex 10)) (ln_at (Gex 10)) 10 4 10
                            (mc_fuel (ip_at (Gex 10)) (ln_at (Gex 10)) 10) (0, 0) cempty (mc_load (mc_save st)))))
      = skipn 2 (level_strings (Gex 10) 2%Z)
  | None => False
  end.
Proof. split; [reflexivity|]. split; [vm_compute; repeat constructor|]. vm_compute. repeat split; reflexivity. Qed.
