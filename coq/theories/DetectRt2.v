(* Runtime of the generated detectors, second part (gen/DetectMw_gen.v,
   gen/DetectEmail_gen.v, gen/DetectWeb_gen.v, gen/DetectKbd_gen.v, written on
   every run by harness/translate_detect2.py from the Python source of the
   multi-word detector and of the e-mail / website / keyboard-walk detectors).
   It extends DetectRt.v (same conventions: statements are terms of type [ctl],
   operations that can raise are in continuation-passing style).  Definitions
   only; the lemmas are in DetectGenProofsMw.v etc.

   The nested-dict trie of MultiWordDetector (`self.lookup`):
   * a node is a Python dict whose keys are single characters (children) and
     the 5-character string "count"; it is the value [TNode cnt kids], cnt =
     the value of the "count" entry (None = no such key), kids = the other
     entries in insertion order (the code never iterates over a node, so the
     order is not observable).
   * a variable that points INTO the trie (`index = self.lookup`,
     `index = index[letter]`) is a cursor: the path (list of keys) from the
     root to the node it designates.  The translator accepts one cursor
     variable per function, created from `self.lookup` and moved by
     `x = x[key]` only; every dict of the trie is created by a literal `{}`
     that is stored exactly once, so the trie is a tree and a path designates
     the same object as the Python reference for as long as the node is not
     detached, which only a store through an ANCESTOR cursor could do (there
     is none).  Operations through a cursor are operations on the trie at that
     path.
   * a KeyError is the result None of [t_step] / [t_get_count]. *)
From Coq Require Import List ZArith NArith Bool.
From Pcfg Require Import Str Multiword Detect DetectRt.
Import ListNotations.
Open Scope Z_scope.

(* ---- the trie *)
Inductive trie := TNode (cnt : option Z) (kids : list (N * trie)).

Definition t_empty : trie := TNode None [].            (* {} *)
Definition t_cnt (t : trie) : option Z := match t with TNode c _ => c end.
Definition t_kids (t : trie) : list (N * trie) := match t with TNode _ k => k end.

Fixpoint kid_get (c : N) (l : list (N * trie)) : option trie :=
  match l with
  | [] => None
  | (k, v) :: r => if N.eqb k c then Some v else kid_get c r
  end.

(* d[c] = v: replaces the value of an existing key, else a new last entry *)
Fixpoint kid_set (c : N) (v : trie) (l : list (N * trie)) : list (N * trie) :=
  match l with
  | [] => [(c, v)]
  | (k, v0) :: r => if N.eqb k c then (k, v) :: r else (k, v0) :: kid_set c v r
  end.

(* the node at the end of a path *)
Fixpoint t_at (t : trie) (p : str) : option trie :=
  match p with
  | [] => Some t
  | c :: r => match kid_get c (t_kids t) with Some n => t_at n r | None => None end
  end.

(* the trie with f applied to the node at the end of a path (unchanged when
   there is no such node) *)
Fixpoint t_upd (p : str) (f : trie -> trie) (t : trie) : trie :=
  match p with
  | [] => f t
  | c :: r =>
      match kid_get c (t_kids t) with
      | Some n => TNode (t_cnt t) (kid_set c (t_upd r f n) (t_kids t))
      | None => t
      end
  end.

Definition cursor := str.
Definition c_root : cursor := [].                       (* index = self.lookup *)

(* the "count" entry of the node a cursor designates; None = no such key *)
Definition t_count_at (t : trie) (p : cursor) : option Z :=
  match t_at t p with Some n => t_cnt n | None => None end.

(* letter in index *)
Definition t_has (t : trie) (p : cursor) (c : N) : bool :=
  match t_at t (p ++ [c]) with Some _ => true | None => false end.
(* index[letter] = {} *)
Definition t_new (t : trie) (p : cursor) (c : N) : trie :=
  t_upd p (fun n => TNode (t_cnt n) (kid_set c t_empty (t_kids n))) t.
(* index = index[letter]; None = KeyError *)
Definition t_step (t : trie) (p : cursor) (c : N) : option cursor :=
  if t_has t p c then Some (p ++ [c]) else None.
(* index = index[key] for a key that is a string (the lower-casing of one
   character): the keys of a node are single characters and "count"; a key of
   another length is a KeyError (a lower-casing of one character has at most
   three characters, so it is never "count") *)
Definition t_step_s (t : trie) (p : cursor) (k : str) : option cursor :=
  match k with [c] => t_step t p c | _ => None end.
(* "count" in index *)
Definition t_has_count (t : trie) (p : cursor) : bool :=
  match t_count_at t p with Some _ => true | None => false end.
(* index["count"]; None = KeyError *)
Definition t_get_count (t : trie) (p : cursor) : option Z := t_count_at t p.
(* index["count"] = v *)
Definition t_set_count (t : trie) (p : cursor) (v : Z) : trie :=
  t_upd p (fun n => TNode (Some v) (t_kids n)) t.

(* ---- try: ... except KeyError: ...
   The translator accepts in the body of such a `try` only operations whose
   exception is a KeyError (subscripts of a trie cursor) besides operations
   that cannot raise, and no `while` loop or recursive call, so that [Raise]
   in the body can only be a KeyError *)
Definition try_keyerror {R L St : Type} (body handler : ctl R L St) : ctl R L St :=
  match body with Raise => handler | c => c end.

(* ---- range(start, stop, -1) / range(start, stop) as the list of its values *)
Definition range_down (start stop : Z) : list Z :=
  map (fun i => start - Z.of_nat i) (seq 0 (Z.to_nat (start - stop))).
Definition range_up (start stop : Z) : list Z :=
  map (fun i => start + Z.of_nat i) (seq 0 (Z.to_nat (stop - start))).

(* l.insert(i, x): the index is clipped like a slice bound *)
Definition linsert {X : Type} (l : list X) (i : Z) (x : X) : list X := lins l i i [x].

(* a recursive call / a call of a function with fuel that ran out *)
Definition is_some {X : Type} (o : option X) : bool := match o with Some _ => true | None => false end.

(* ---- the keyboard-walk detector: layouts, records, dicts keyed by the layout name *)

(* what _get_us_keyboard() / _get_jcuken_keyboard() return: {'name': ..., 'row1': [...],
   's_row1': [...], ..., 's_row4': [...]}; the rows (lists of one-character strings) in
   the order row1, s_row1, row2, s_row2, row3, s_row3, row4, s_row4 *)
Record pyboard := { b_name : str; b_rows : list str }.
(* board['row1'] ... board['s_row4'] *)
Definition brow (b : pyboard) (i : nat) : str := nth i (b_rows b) [].

(* a dict whose keys are strings (layout names), in insertion order *)
Definition dict (V : Type) := list (str * V).
Fixpoint d_get {V : Type} (d : dict V) (k : str) : option V :=        (* d[k]; None = KeyError *)
  match d with
  | [] => None
  | (k0, v) :: r => if str_eqb k0 k then Some v else d_get r k
  end.
Fixpoint d_set {V : Type} (d : dict V) (k : str) (v : V) : dict V :=   (* d[k] = v *)
  match d with
  | [] => [(k, v)]
  | (k0, v0) :: r => if str_eqb k0 k then (k0, v) :: r else (k0, v0) :: d_set r k v
  end.
Definition d_has {V : Type} (d : dict V) (k : str) : bool := is_some (d_get d k).   (* k in d *)
Definition d_keys {V : Type} (d : dict V) : list str := map fst d.     (* list(d), for k in d *)
Fixpoint d_pop {V : Type} (d : dict V) (k : str) : dict V :=           (* d.pop(k, None) *)
  match d with
  | [] => []
  | (k0, v0) :: r => if str_eqb k0 k then r else (k0, v0) :: d_pop r k
  end.

(* row.index(char); None = ValueError *)
Definition row_index (c : N) (row : str) : option Z := index_of c row 0.

(* l.pop(): the list without its last element and that element; None = IndexError *)
Definition lpop {X : Type} (l : list X) : option (list X * X) :=
  match rev l with
  | [] => None
  | x :: r => Some (rev r, x)
  end.
