(* CountersProofs.v - theorems about Counters.v: tallies, most_common,
   calculate_probabilities, the coverage arithmetic, E/W exclusion and the
   names of the files save_indexed_counters writes. *)
From Coq Require Import String Ascii.
From Coq Require Import List NArith ZArith QArith Bool Lia Permutation Sorted.
From Pcfg Require Import TextFile Counters.
Import ListNotations.

(* ================================================================ A. strings and tallies *)

Lemma str_eqb_eq : forall a b : str, str_eqb a b = true <-> a = b.
Proof.
  induction a as [|x a IH]; destruct b as [|y b]; simpl; split; intro H;
    try reflexivity; try discriminate.
  - apply andb_true_iff in H. destruct H as [H1 H2].
    apply N.eqb_eq in H1. apply IH in H2. subst. reflexivity.
  - inversion H; subst. apply andb_true_iff. split.
    + apply N.eqb_refl.
    + apply IH. reflexivity.
Qed.

Lemma str_eqb_refl : forall a, str_eqb a a = true.
Proof. intro a. apply str_eqb_eq. reflexivity. Qed.

Lemma str_eqb_neq : forall a b : str, str_eqb a b = false <-> a <> b.
Proof.
  intros a b. split.
  - intros H E. apply str_eqb_eq in E. congruence.
  - intro H. destruct (str_eqb a b) eqn:E; [|reflexivity].
    apply str_eqb_eq in E. contradiction.
Qed.

Lemma str_eqb_sym : forall a b : str, str_eqb a b = str_eqb b a.
Proof.
  intros a b. destruct (str_eqb a b) eqn:E.
  - apply str_eqb_eq in E. subst. symmetry. apply str_eqb_refl.
  - symmetry. apply str_eqb_neq. apply str_eqb_neq in E. congruence.
Qed.

Lemma existsb_str_eqb_in : forall x l, existsb (str_eqb x) l = true <-> In x l.
Proof.
  intros x l. rewrite existsb_exists. split.
  - intros [y [Hy E]]. apply str_eqb_eq in E. subst. exact Hy.
  - intro H. exists x. split; [exact H|apply str_eqb_refl].
Qed.

Lemma existsb_str_eqb_notin : forall x l, existsb (str_eqb x) l = false <-> ~ In x l.
Proof.
  intros x l. split.
  - intros H Hin. apply existsb_str_eqb_in in Hin. congruence.
  - intro H. destruct (existsb (str_eqb x) l) eqn:E; [|reflexivity].
    apply existsb_str_eqb_in in E. contradiction.
Qed.

Theorem tally_snoc : forall l x, tally (l ++ [x]) = incr x (tally l).
Proof. intros l x. unfold tally. rewrite fold_left_app. reflexivity. Qed.

(* ---- nodup_first *)

Lemma nodup_first_in : forall l x, In x (nodup_first l) <-> In x l.
Proof.
  induction l as [|a l IH]; intro x; simpl.
  - tauto.
  - rewrite filter_In, IH. split.
    + intros [H|[H _]]; auto.
    + intros [H|H]; auto.
      destruct (str_eqb a x) eqn:E.
      * apply str_eqb_eq in E. auto.
      * right. split; [exact H|reflexivity].
Qed.

Lemma NoDup_filter : forall {A} (f : A -> bool) l, NoDup l -> NoDup (filter f l).
Proof.
  intros A f l H. induction H as [|a l Hn Hd IH]; simpl.
  - constructor.
  - destruct (f a); [|exact IH].
    constructor; [|exact IH]. intro Hin. apply filter_In in Hin. tauto.
Qed.

Lemma nodup_first_nodup : forall l, NoDup (nodup_first l).
Proof.
  induction l as [|a l IH]; simpl.
  - constructor.
  - constructor.
    + intro H. apply filter_In in H. destruct H as [_ H].
      rewrite str_eqb_refl in H. discriminate.
    + apply NoDup_filter. exact IH.
Qed.

Lemma nodup_first_snoc : forall l x,
  nodup_first (l ++ [x]) =
  if existsb (str_eqb x) l then nodup_first l else nodup_first l ++ [x].
Proof.
  induction l as [|a l IH]; intro x; simpl.
  - reflexivity.
  - rewrite IH. destruct (str_eqb x a) eqn:E; simpl.
    + apply str_eqb_eq in E. subst a.
      destruct (existsb (str_eqb x) l); [reflexivity|].
      rewrite filter_app. simpl. rewrite str_eqb_refl. simpl.
      rewrite app_nil_r. reflexivity.
    + destruct (existsb (str_eqb x) l); [reflexivity|].
      rewrite filter_app. simpl. rewrite (str_eqb_sym a x), E. simpl. reflexivity.
Qed.

(* ---- count_str *)

Lemma count_str_snoc : forall k l x,
  count_str k (l ++ [x]) = (count_str k l + if str_eqb k x then 1 else 0)%nat.
Proof.
  intros k l x. unfold count_str. rewrite filter_app, app_length. simpl.
  destruct (str_eqb k x); reflexivity.
Qed.

Lemma count_str_notin : forall k l, ~ In k l -> count_str k l = 0%nat.
Proof.
  intros k l. unfold count_str. induction l as [|a l IH]; simpl; intro H.
  - reflexivity.
  - destruct (str_eqb k a) eqn:E.
    + apply str_eqb_eq in E. subst. tauto.
    + apply IH. tauto.
Qed.

Lemma count_str_in : forall k l, In k l -> (0 < count_str k l)%nat.
Proof.
  intros k l. unfold count_str. induction l as [|a l IH]; simpl; intro H.
  - contradiction.
  - destruct (str_eqb k a) eqn:E; simpl.
    + lia.
    + apply IH. destruct H as [H|H]; [|exact H].
      subst. rewrite str_eqb_refl in E. discriminate.
Qed.

(* ---- incr on a list with distinct keys *)

Lemma incr_notin : forall x (g : str -> N) u, ~ In x u ->
  incr x (map (fun k => (k, g k)) u) = map (fun k => (k, g k)) u ++ [(x, 1%N)].
Proof.
  intros x g u. induction u as [|a u IH]; simpl; intro H.
  - reflexivity.
  - destruct (str_eqb x a) eqn:E.
    + apply str_eqb_eq in E. subst. tauto.
    + rewrite IH by tauto. reflexivity.
Qed.

Lemma incr_in : forall x (g : str -> N) u, NoDup u -> In x u ->
  incr x (map (fun k => (k, g k)) u) =
  map (fun k => (k, if str_eqb x k then (g k + 1)%N else g k)) u.
Proof.
  intros x g u Hd. induction Hd as [|a u Hn Hd IH]; simpl; intro H.
  - contradiction.
  - destruct (str_eqb x a) eqn:E.
    + apply str_eqb_eq in E. subst a. f_equal.
      apply map_ext_in. intros k Hk.
      destruct (str_eqb x k) eqn:E2; [|reflexivity].
      apply str_eqb_eq in E2. subst. contradiction.
    + f_equal. apply IH. destruct H as [H|H]; [|exact H].
      subst. rewrite str_eqb_refl in E. discriminate.
Qed.

Theorem tally_spec : forall l,
  tally l = map (fun k => (k, N.of_nat (count_str k l))) (nodup_first l).
Proof.
  induction l as [|x l IH] using rev_ind.
  - reflexivity.
  - rewrite tally_snoc, IH, nodup_first_snoc.
    destruct (existsb (str_eqb x) l) eqn:E.
    + apply existsb_str_eqb_in in E.
      rewrite incr_in.
      * apply map_ext. intro k. rewrite count_str_snoc, (str_eqb_sym k x).
        destruct (str_eqb x k); f_equal; lia.
      * apply nodup_first_nodup.
      * apply nodup_first_in. exact E.
    + apply existsb_str_eqb_notin in E.
      rewrite incr_notin by (rewrite nodup_first_in; exact E).
      rewrite map_app. simpl. f_equal.
      * apply map_ext_in. intros k Hk. rewrite count_str_snoc.
        destruct (str_eqb k x) eqn:E2.
        -- apply str_eqb_eq in E2. subst. apply (proj1 (nodup_first_in _ _)) in Hk. contradiction.
        -- f_equal. f_equal. lia.
      * rewrite count_str_snoc, str_eqb_refl, count_str_notin by exact E. reflexivity.
Qed.

Lemma tally_keys : forall l, map fst (tally l) = nodup_first l.
Proof.
  intro l. rewrite tally_spec, map_map. simpl. apply map_id.
Qed.

Theorem tally_keys_nodup : forall l, NoDup (map fst (tally l)).
Proof. intro l. rewrite tally_keys. apply nodup_first_nodup. Qed.

Theorem tally_keys_in : forall l k, In k (map fst (tally l)) <-> In k l.
Proof. intros l k. rewrite tally_keys. apply nodup_first_in. Qed.

Theorem tally_count : forall l k n, In (k, n) (tally l) ->
  n = N.of_nat (count_str k l) /\ (0 < n)%N.
Proof.
  intros l k n H. rewrite tally_spec in H. apply in_map_iff in H.
  destruct H as [k' [E Hin]]. inversion E; subst. split; [reflexivity|].
  apply (proj1 (nodup_first_in _ _)) in Hin. apply count_str_in in Hin. lia.
Qed.

(* ================================================================ B. most_common *)

Lemma ins_desc_perm : forall (O : numops) (x : str * num O) (l : counter O),
  Permutation (ins_desc x l) (x :: l).
Proof.
  intros O x l. induction l as [|y r IH]; simpl.
  - apply Permutation_refl.
  - destruct (nltb O (snd x) (snd y)).
    + eapply Permutation_trans; [apply perm_skip; exact IH|apply perm_swap].
    + apply Permutation_refl.
Qed.

Theorem most_common_perm : forall (O : numops) (c : counter O), Permutation (most_common c) c.
Proof.
  intros O c. induction c as [|x c IH]; simpl.
  - constructor.
  - eapply Permutation_trans; [apply ins_desc_perm|]. apply perm_skip. exact IH.
Qed.

Lemma ins_desc_filter : forall (O : numops) (P : num O -> bool) (x : str * num O) (l : counter O),
  (forall a b, nltb O a b = true -> P a = true -> P b = false) ->
  filter (fun kv => P (snd kv)) (ins_desc x l) = filter (fun kv => P (snd kv)) (x :: l).
Proof.
  intros O P x l HP. induction l as [|y r IH].
  - reflexivity.
  - simpl ins_desc. destruct (nltb O (snd x) (snd y)) eqn:E; [|reflexivity].
    simpl in *. destruct (P (snd x)) eqn:Px.
    + rewrite (HP _ _ E Px). exact IH.
    + rewrite IH. reflexivity.
Qed.

Theorem most_common_stable : forall (O : numops) (P : num O -> bool) (c : counter O),
  (forall a b, nltb O a b = true -> P a = true -> P b = false) ->
  filter (fun kv => P (snd kv)) (most_common c) = filter (fun kv => P (snd kv)) c.
Proof.
  intros O P c HP. induction c as [|x c IH].
  - reflexivity.
  - simpl most_common. rewrite ins_desc_filter by exact HP.
    simpl. rewrite IH. reflexivity.
Qed.

Lemma ins_desc_sorted_Q : forall (x : str * Q) (l : list (str * Q)),
  StronglySorted (fun a b : str * Q => (snd b <= snd a)%Q) l ->
  StronglySorted (fun a b : str * Q => (snd b <= snd a)%Q) (@ins_desc QNum x l).
Proof.
  intros x l H. induction H as [|y r Hs IH Hf].
  - simpl. constructor; constructor.
  - simpl ins_desc. simpl nltb.
    match goal with |- context [Qle_bool ?a ?b] => destruct (Qle_bool a b) eqn:E end; simpl.
    + apply Qle_bool_iff in E. constructor.
      * constructor; assumption.
      * constructor; [exact E|].
        eapply Forall_impl; [|exact Hf]. simpl. intros a Ha.
        eapply Qle_trans; eassumption.
    + assert (Hlt : (snd x < snd y)%Q).
      { apply Qnot_le_lt. intro Hle. apply Qle_bool_iff in Hle. congruence. }
      constructor; [exact IH|].
      apply Forall_forall. intros z Hz.
      apply (Permutation_in _ (ins_desc_perm QNum x r)) in Hz.
      destruct Hz as [Hz|Hz].
      * subst z. apply Qlt_le_weak. exact Hlt.
      * rewrite Forall_forall in Hf. apply Hf. exact Hz.
Qed.

Theorem most_common_sorted_Q : forall c : counter QNum,
  StronglySorted (fun a b => (snd b <= snd a)%Q) (most_common c).
Proof.
  induction c as [|x c IH]; simpl.
  - constructor.
  - apply ins_desc_sorted_Q. exact IH.
Qed.

Theorem most_common_keys : forall (O : numops) (c : counter O),
  Permutation (map fst (most_common c)) (map fst c).
Proof. intros O c. apply Permutation_map. apply most_common_perm. Qed.

(* ================================================================ C. calc_probs *)

Theorem calc_probs_eq : forall (O : numops) (c : counter O),
  calc_probs c = map (fun kv => (fst kv, ndiv O (snd kv) (total c))) (most_common c).
Proof. reflexivity. Qed.

Lemma calc_probs_keys : forall (O : numops) (c : counter O),
  map fst (calc_probs c) = map fst (most_common c).
Proof.
  intros O c. rewrite calc_probs_eq, map_map. apply map_ext. reflexivity.
Qed.

Theorem calc_probs_keys_nodup : forall (O : numops) (c : counter O),
  NoDup (map fst c) -> NoDup (map fst (calc_probs c)).
Proof.
  intros O c H. rewrite calc_probs_keys.
  eapply Permutation_NoDup; [|exact H]. apply Permutation_sym. apply most_common_keys.
Qed.

Theorem calc_probs_keys_in : forall (O : numops) (c : counter O) k,
  In k (map fst (calc_probs c)) <-> In k (map fst c).
Proof.
  intros O c k. rewrite calc_probs_keys. split; apply Permutation_in.
  - apply most_common_keys.
  - apply Permutation_sym. apply most_common_keys.
Qed.

Theorem calc_probs_value : forall (O : numops) (c : counter O) k p,
  In (k, p) (calc_probs c) -> exists n, In (k, n) c /\ p = ndiv O n (total c).
Proof.
  intros O c k p H. rewrite calc_probs_eq in H. apply in_map_iff in H.
  destruct H as [[k' n] [E Hin]]. simpl in E. inversion E; subst.
  exists n. split; [|reflexivity].
  eapply Permutation_in; [apply most_common_perm|exact Hin].
Qed.

Lemma calc_probs_value_conv : forall (O : numops) (c : counter O) k n,
  In (k, n) c -> In (k, ndiv O n (total c)) (calc_probs c).
Proof.
  intros O c k n H. rewrite calc_probs_eq.
  apply in_map_iff. exists (k, n). split; [reflexivity|].
  eapply Permutation_in; [apply Permutation_sym; apply most_common_perm|exact H].
Qed.

Definition qsum (l : list Q) : Q := fold_right Qplus 0%Q l.

Lemma fold_left_Qplus : forall (l : list Q) (a : Q),
  (fold_left Qplus l a == a + qsum l)%Q.
Proof.
  induction l as [|x l IH]; intro a; simpl.
  - ring.
  - rewrite IH. ring.
Qed.

Theorem total_Q_qsum : forall c : counter QNum, (total c == qsum (map snd c))%Q.
Proof.
  intro c. unfold total. simpl. rewrite fold_left_Qplus. ring.
Qed.

Lemma qsum_perm : forall l l' : list Q, Permutation l l' -> (qsum l == qsum l')%Q.
Proof.
  intros l l' H. induction H; simpl.
  - reflexivity.
  - rewrite IHPermutation. reflexivity.
  - ring.
  - rewrite IHPermutation1. exact IHPermutation2.
Qed.

Lemma qsum_app : forall l l' : list Q, (qsum (l ++ l') == qsum l + qsum l')%Q.
Proof.
  induction l as [|x l IH]; intro l'; simpl.
  - ring.
  - rewrite IH. ring.
Qed.

Lemma qsum_div : forall (l : list Q) (t : Q),
  (qsum (map (fun x => x / t) l) == qsum l / t)%Q.
Proof.
  intros l t. induction l as [|x l IH]; simpl.
  - unfold Qdiv. ring.
  - rewrite IH. unfold Qdiv. ring.
Qed.

Theorem calc_probs_sum_one_Q : forall c : counter QNum,
  ~ (total c == 0)%Q -> (qsum (map snd (calc_probs c)) == 1)%Q.
Proof.
  intros c Ht. rewrite calc_probs_eq, map_map. simpl.
  rewrite <- (map_map snd (fun x : Q => (x / total c)%Q)).
  rewrite qsum_div.
  rewrite (qsum_perm _ _ (Permutation_map snd (most_common_perm QNum c))).
  rewrite <- total_Q_qsum. field. exact Ht.
Qed.

Lemma StronglySorted_map : forall {A B} (R : A -> A -> Prop) (S : B -> B -> Prop) (f : A -> B) l,
  (forall a b, R a b -> S (f a) (f b)) ->
  StronglySorted R l -> StronglySorted S (map f l).
Proof.
  intros A B R S f l HRS H. induction H as [|a l Hs IH Hf]; simpl.
  - constructor.
  - constructor; [exact IH|].
    apply Forall_forall. intros y Hy. apply in_map_iff in Hy.
    destruct Hy as [b [E Hb]]. subst y. apply HRS.
    rewrite Forall_forall in Hf. apply Hf. exact Hb.
Qed.

Theorem calc_probs_sorted_Q : forall c : counter QNum, (0 < total c)%Q ->
  StronglySorted (fun a b => (snd b <= snd a)%Q) (calc_probs c).
Proof.
  intros c Ht. rewrite calc_probs_eq.
  eapply StronglySorted_map; [|apply most_common_sorted_Q].
  simpl. intros a b Hab. unfold Qdiv.
  apply Qmult_le_compat_r; [exact Hab|].
  apply Qlt_le_weak. apply Qinv_lt_0_compat. exact Ht.
Qed.

(* the counts of a tally sum to the length *)
Definition nsum (c : list (str * N)) : N := fold_right N.add 0%N (map snd c).

Lemma nsum_incr : forall x c, nsum (incr x c) = (nsum c + 1)%N.
Proof.
  intros x c. unfold nsum. induction c as [|[k n] c IH]; simpl.
  - reflexivity.
  - destruct (str_eqb x k); simpl.
    + lia.
    + rewrite IH. lia.
Qed.

Lemma nsum_tally : forall l, nsum (tally l) = N.of_nat (length l).
Proof.
  induction l as [|x l IH] using rev_ind.
  - reflexivity.
  - rewrite tally_snoc, nsum_incr, IH, app_length. simpl. lia.
Qed.

Lemma total_of_counts_Q : forall c : list (str * N),
  (total (@of_counts QNum c) == inject_Z (Z.of_N (nsum c)))%Q.
Proof.
  intro c. rewrite total_Q_qsum. unfold nsum, of_counts.
  induction c as [|[k n] c IH]; simpl.
  - reflexivity.
  - rewrite IH. rewrite N2Z.inj_add, inject_Z_plus. reflexivity.
Qed.

Lemma total_tally_Q : forall l : list str,
  (total (@of_counts QNum (tally l)) == inject_Z (Z.of_nat (length l)))%Q.
Proof.
  intro l. rewrite total_of_counts_Q, nsum_tally, nat_N_Z. reflexivity.
Qed.

Theorem tally_probability_Q : forall (l : list str) k p, l <> [] ->
  In (k, p) (calc_probs (@of_counts QNum (tally l))) ->
  (p == inject_Z (Z.of_nat (count_str k l)) / inject_Z (Z.of_nat (length l)))%Q.
Proof.
  intros l k p _ H. apply calc_probs_value in H. destruct H as [n [Hin Hp]].
  unfold of_counts in Hin. apply in_map_iff in Hin.
  destruct Hin as [[k' m] [E Hin]]. simpl in E. inversion E; subst k' n. clear E.
  apply tally_count in Hin. destruct Hin as [Hm _]. subst m.
  subst p. simpl ndiv. rewrite total_tally_Q, nat_N_Z. reflexivity.
Qed.

(* ================================================================ D. coverage arithmetic *)

Theorem with_markov_cov_one : forall (cov : Q) n (c : counter QNum),
  (cov == 1)%Q -> @with_markov QNum cov n c = c.
Proof.
  intros cov n c H. unfold with_markov. simpl.
  apply Qeq_bool_iff in H. rewrite H. reflexivity.
Qed.

Lemma Qeq_bool_false : forall a b : Q, ~ (a == b)%Q -> Qeq_bool a b = false.
Proof.
  intros a b H. destruct (Qeq_bool a b) eqn:E; [|reflexivity].
  apply Qeq_bool_iff in E. contradiction.
Qed.

Theorem with_markov_cov_zero : forall (cov : Q) n (c : counter QNum),
  (cov == 0)%Q -> @with_markov QNum cov n c = [(M_key, 1%Q)].
Proof.
  intros cov n c H. unfold with_markov. simpl.
  rewrite Qeq_bool_false.
  - apply Qeq_bool_iff in H. rewrite H. reflexivity.
  - intro E. rewrite H in E. discriminate E.
Qed.

Theorem with_markov_other : forall (cov : Q) n (c : counter QNum),
  ~ (cov == 1)%Q -> ~ (cov == 0)%Q ->
  @with_markov QNum cov n c = dict_set M_key (inject_Z (Z.of_N n) / cov - inject_Z (Z.of_N n))%Q c
  /\ (inject_Z (Z.of_N n) / cov - inject_Z (Z.of_N n) == inject_Z (Z.of_N n) * (1 / cov - 1))%Q.
Proof.
  intros cov n c H1 H0. split.
  - unfold with_markov. simpl.
    rewrite (Qeq_bool_false _ _ H1), (Qeq_bool_false _ _ H0). reflexivity.
  - unfold Qdiv. ring.
Qed.

Lemma dict_set_absent : forall {V} k (v : V) d,
  ~ In k (map fst d) -> dict_set k v d = d ++ [(k, v)].
Proof.
  intros V k v d. induction d as [|[k' v'] d IH]; simpl; intro H.
  - reflexivity.
  - destruct (str_eqb k k') eqn:E.
    + apply str_eqb_eq in E. subst. tauto.
    + rewrite IH by tauto. reflexivity.
Qed.

Lemma total_Q_snoc : forall (c : counter QNum) k (m : Q),
  (total (c ++ [(k, m)]) == total c + m)%Q.
Proof.
  intros c k m. rewrite !total_Q_qsum, map_app, qsum_app. simpl. ring.
Qed.

Theorem markov_probability_Q : forall (cov : Q) n (c : counter QNum),
  (0 < cov)%Q -> (cov < 1)%Q -> (0 < n)%N -> ~ In M_key (map fst c) ->
  (total c == inject_Z (Z.of_N n))%Q ->
  exists p, In (M_key, p) (calc_probs (@with_markov QNum cov n c)) /\ (p == 1 - cov)%Q.
Proof.
  intros cov n c H0 H1 Hn Hnot Ht.
  assert (Hc1 : ~ (cov == 1)%Q).
  { intro E. rewrite E in H1. exact (Qlt_irrefl _ H1). }
  assert (Hc0 : ~ (cov == 0)%Q).
  { intro E. rewrite E in H0. exact (Qlt_irrefl _ H0). }
  assert (Hn0 : ~ (inject_Z (Z.of_N n) == 0)%Q).
  { unfold Qeq. simpl. lia. }
  destruct (with_markov_other cov n c Hc1 Hc0) as [Hw _]. rewrite Hw. clear Hw.
  rewrite dict_set_absent by exact Hnot.
  eexists. split.
  - apply calc_probs_value_conv. apply in_or_app. right. left. reflexivity.
  - simpl ndiv. rewrite total_Q_snoc, Ht. field. split; [assumption|].
    intro E. apply Hn0. rewrite <- E. ring.
Qed.

(* ================================================================ E. base structures *)

Lemma count_structs_snoc : forall pws ls,
  count_structs (pws ++ [ls]) = count_one (count_structs pws) ls.
Proof. intros pws ls. unfold count_structs. rewrite fold_left_app. reflexivity. Qed.

Theorem count_structs_raw_is_tally : forall pws,
  sc_raw (count_structs pws) = tally (map structure pws).
Proof.
  induction pws as [|ls pws IH] using rev_ind.
  - reflexivity.
  - rewrite count_structs_snoc, map_app. simpl. rewrite tally_snoc, IH. reflexivity.
Qed.

Theorem count_structs_base_is_tally : forall pws,
  sc_base (count_structs pws) = tally (map structure (filter supported pws)).
Proof.
  induction pws as [|ls pws IH] using rev_ind.
  - reflexivity.
  - rewrite count_structs_snoc, filter_app. simpl.
    destruct (supported ls); simpl.
    + rewrite map_app. simpl. rewrite tally_snoc, IH. reflexivity.
    + rewrite app_nil_r. exact IH.
Qed.

Theorem count_structs_prince_is_tally : forall pws,
  sc_prince (count_structs pws) = tally (List.concat pws).
Proof.
  induction pws as [|ls pws IH] using rev_ind.
  - reflexivity.
  - rewrite count_structs_snoc, concat_app. simpl. rewrite app_nil_r, IH.
    unfold tally. rewrite fold_left_app. reflexivity.
Qed.

Theorem count_structs_base : forall pws s,
  In s (map fst (sc_base (count_structs pws))) ->
  exists ls, In ls pws /\ supported ls = true /\ s = structure ls.
Proof.
  intros pws s H. rewrite count_structs_base_is_tally in H.
  apply (proj1 (tally_keys_in _ _)) in H. apply in_map_iff in H.
  destruct H as [ls [E Hin]]. apply filter_In in Hin. destruct Hin as [Hin Hs].
  exists ls. auto.
Qed.

Theorem count_structs_base_all : forall pws ls,
  In ls pws -> supported ls = true ->
  In (structure ls) (map fst (sc_base (count_structs pws))).
Proof.
  intros pws ls Hin Hs. rewrite count_structs_base_is_tally.
  apply (proj2 (tally_keys_in _ _)). apply in_map. apply filter_In. auto.
Qed.

Theorem count_structs_raw_all : forall pws ls,
  In ls pws -> In (structure ls) (map fst (sc_raw (count_structs pws))).
Proof.
  intros pws ls Hin. rewrite count_structs_raw_is_tally.
  apply (proj2 (tally_keys_in _ _)). apply in_map. exact Hin.
Qed.

Definition wf_label (l : str) : bool :=
  match l with
  | c :: ds => forallb (fun d => (48 <=? d)%N && (d <=? 57)%N) ds
  | [] => false
  end.

Lemma label_no_EW : forall l x,
  wf_label l = true -> unsupported_label l = false -> In x l -> x <> 69%N /\ x <> 87%N.
Proof.
  intros l x Hw Hu Hin. destruct l as [|c ds]; [contradiction|].
  simpl in Hw, Hu. apply orb_false_iff in Hu. destruct Hu as [H87 H69].
  apply N.eqb_neq in H87. apply N.eqb_neq in H69.
  destruct Hin as [Hin|Hin].
  - subst x. split; assumption.
  - rewrite forallb_forall in Hw. specialize (Hw x Hin).
    apply andb_true_iff in Hw. destruct Hw as [Ha Hb].
    apply N.leb_le in Ha. apply N.leb_le in Hb. lia.
Qed.

Lemma supported_structure_chars : forall ls x,
  forallb wf_label ls = true -> supported ls = true -> In x (structure ls) ->
  x <> 69%N /\ x <> 87%N.
Proof.
  unfold structure, supported.
  induction ls as [|l ls IH]; intros x Hw Hs Hin; simpl in *.
  - contradiction.
  - apply andb_true_iff in Hw. destruct Hw as [Hw1 Hw2].
    apply andb_true_iff in Hs. destruct Hs as [Hs1 Hs2].
    apply negb_true_iff in Hs1.
    apply in_app_or in Hin. destruct Hin as [Hin|Hin].
    + eapply label_no_EW; eassumption.
    + apply IH; assumption.
Qed.

Theorem supported_no_EW : forall ls,
  forallb wf_label ls = true -> supported ls = true ->
  ~ In 69%N (structure ls) /\ ~ In 87%N (structure ls).
Proof.
  intros ls Hw Hs. split; intro Hin;
    destruct (supported_structure_chars ls _ Hw Hs Hin) as [A B]; congruence.
Qed.

Theorem unsupported_has_EW : forall ls,
  supported ls = false -> In 69%N (structure ls) \/ In 87%N (structure ls).
Proof.
  unfold structure, supported.
  induction ls as [|l ls IH]; simpl; intro H.
  - discriminate.
  - apply andb_false_iff in H. destruct H as [H|H].
    + apply negb_false_iff in H. destruct l as [|c ds]; [discriminate|].
      simpl in H. apply orb_true_iff in H. destruct H as [H|H]; apply N.eqb_eq in H; subst c.
      * right. left. reflexivity.
      * left. left. reflexivity.
    + destruct (IH H) as [A|A]; [left|right]; apply in_or_app; right; exact A.
Qed.

(* ================================================================ F. files *)

Theorem save_indexed_names : forall (O : numops) old (cs : list (str * counter O)),
  map fst (save_indexed old cs) = filename_list cs.
Proof.
  intros O old cs. unfold save_indexed, filename_list. rewrite map_map. reflexivity.
Qed.

Theorem save_indexed_wipes : forall (O : numops) old old' (cs : list (str * counter O)),
  save_indexed old cs = save_indexed old' cs.
Proof. reflexivity. Qed.

Lemma file_name_inj : forall a b, file_name a = file_name b -> a = b.
Proof. intros a b H. unfold file_name in H. eapply app_inv_tail. exact H. Qed.

Lemma NoDup_map_inj : forall {A B} (f : A -> B) l,
  (forall a b, f a = f b -> a = b) -> NoDup l -> NoDup (map f l).
Proof.
  intros A B f l Hf H. induction H as [|a l Hn Hd IH]; simpl.
  - constructor.
  - constructor; [|exact IH]. intro Hin. apply in_map_iff in Hin.
    destruct Hin as [b [E Hb]]. apply Hf in E. subst. contradiction.
Qed.

Theorem save_indexed_names_nodup : forall (O : numops) old (cs : list (str * counter O)),
  NoDup (map fst cs) -> NoDup (map fst (save_indexed old cs)).
Proof.
  intros O old cs H. rewrite save_indexed_names. unfold filename_list.
  rewrite <- (map_map fst file_name). apply NoDup_map_inj; [apply file_name_inj|exact H].
Qed.

(* ================================================================ examples *)

(* five items, "A1" and "D2" tie with two occurrences each, "O1" once *)
Definition ex_items : list str :=
  [[65;49]; [68;50]; [65;49]; [79;49]; [68;50]]%N.

Example ex_tally : tally ex_items = [([65;49], 2); ([68;50], 2); ([79;49], 1)]%N.
Proof. vm_compute. reflexivity. Qed.

(* the tie keeps insertion order, the probabilities are 2/5, 2/5, 1/5 and sum to 1 *)
Example ex_calc_probs :
  map fst (calc_probs (@of_counts QNum (tally ex_items))) = [[65;49]; [68;50]; [79;49]]%N
  /\ forallb (fun pq => Qeq_bool (fst pq) (snd pq))
       (combine (map snd (calc_probs (@of_counts QNum (tally ex_items))))
                [2 # 5; 2 # 5; 1 # 5]%Q) = true
  /\ Qeq_bool (qsum (map snd (calc_probs (@of_counts QNum (tally ex_items))))) 1 = true.
Proof. vm_compute. repeat split; reflexivity. Qed.

(* the hypotheses of tally_probability_Q / calc_probs_sum_one_Q /
   calc_probs_sorted_Q hold on the instance *)
Example ex_hyps :
  ex_items <> []
  /\ ~ (total (@of_counts QNum (tally ex_items)) == 0)%Q
  /\ (0 < total (@of_counts QNum (tally ex_items)))%Q.
Proof.
  split; [discriminate|]. split; vm_compute; [discriminate|reflexivity].
Qed.

(* the hypotheses of markov_probability_Q hold with coverage 3/5 on the same
   counter; the M entry (pseudo-count 10/3, so it sorts first) then has
   probability 2/5 = 1 - 3/5 *)
Example ex_markov :
  (0 < 3 # 5)%Q /\ (3 # 5 < 1)%Q /\ (0 < 5)%N
  /\ ~ In M_key (map fst (@of_counts QNum (tally ex_items)))
  /\ (total (@of_counts QNum (tally ex_items)) == inject_Z (Z.of_N 5))%Q
  /\ exists p, In (M_key, p) (calc_probs (@with_markov QNum (3 # 5)%Q 5%N (@of_counts QNum (tally ex_items))))
               /\ Qeq_bool p (2 # 5) = true.
Proof.
  split; [reflexivity|]. split; [reflexivity|]. split; [reflexivity|].
  split.
  { apply existsb_str_eqb_notin. vm_compute. reflexivity. }
  split; [vm_compute; reflexivity|].
  eexists. split.
  - vm_compute. left. reflexivity.
  - vm_compute. reflexivity.
Qed.

(* the hypothesis of most_common_stable is satisfiable: the class "count == 2" *)
Example ex_stable_hyp :
  forall a b : Q, nltb QNum a b = true ->
    Qeq_bool a 2 = true -> Qeq_bool b 2 = false.
Proof.
  simpl. intros a b Hlt Ha. apply Qeq_bool_iff in Ha.
  apply Qeq_bool_false. intro Hb.
  apply negb_true_iff in Hlt.
  assert (Hle : (b <= a)%Q) by (rewrite Ha, Hb; apply Qle_refl).
  apply Qle_bool_iff in Hle. congruence.
Qed.
