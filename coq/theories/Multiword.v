(* Executable model of lib_trainer/detection_rules/multiword_detector.py
   (class MultiWordDetector: train, _get_count, _identify_multi, parse).
   Definitions only.

   The nested-dict trie `self.lookup` is modelled by the finite map it
   represents: word (the letters on the path from the root) |-> the value of
   the "count" entry of the node, absent = the node or its "count" entry does
   not exist.  Keys of the trie are single characters (the loop variable of
   `for letter in password`), the key "count" has five characters and so can
   never be confused with a letter. *)
From Coq Require Import List ZArith NArith Bool.
From Pcfg Require Import Str.
Import ListNotations.
Open Scope Z_scope.

Definition mwmap := list (str * Z).

Fixpoint mw_lookup (m : mwmap) (w : str) : option Z :=
  match m with
  | [] => None
  | (k, v) :: r => if str_eqb k w then Some v else mw_lookup r w
  end.

Fixpoint mw_set (m : mwmap) (w : str) (v : Z) : mwmap :=
  match m with
  | [] => [(w, v)]
  | (k, v0) :: r => if str_eqb k w then (k, v) :: r else (k, v0) :: mw_set r w v
  end.

Section Multiword.
Variable isalpha : N -> bool.
Variable lower_c : N -> str.          (* str.lower() of one character *)
Variables threshold min_len max_len : Z.

Definition lower (s : str) : str := flat_map lower_c s.

(* closing a run in train(): `if run_len >= self.min_len:` count it *)
Definition mw_bump (m : mwmap) (set_threshold : bool) (rrun : str) : mwmap :=
  if min_len <=? len rrun then
    let w := rev rrun in
    match mw_lookup m w with
    | None => mw_set m w (if set_threshold then threshold else 1)
    | Some v => mw_set m w (v + 1)
    end
  else m.

(* the `for letter in password` loop; rrun = letters of the current run, reversed *)
Fixpoint mw_train_loop (m : mwmap) (set_threshold : bool) (pw : str) (rrun : str) : mwmap :=
  match pw with
  | [] => if nonempty rrun then mw_bump m set_threshold rrun else m
  | c :: r =>
      if isalpha c then mw_train_loop m set_threshold r (c :: rrun)
      else if nonempty rrun then mw_train_loop (mw_bump m set_threshold rrun) set_threshold r []
      else mw_train_loop m set_threshold r []
  end.

Definition mw_train (m : mwmap) (set_threshold : bool) (pw : str) : mwmap :=
  if len pw <? min_len then m
  else if max_len <? len pw then m
  else mw_train_loop m set_threshold (lower pw) [].

(* _get_count: walks the trie with `value.lower()` of every character; a
   lower() of length <> 1 can never be a key of the trie (KeyError -> 0) *)
Fixpoint lower_keys (w : str) : option str :=
  match w with
  | [] => Some []
  | c :: r =>
      match lower_c c, lower_keys r with
      | [x], Some r' => Some (x :: r')
      | _, _ => None
      end
  end.

Definition mw_count (m : mwmap) (w : str) : Z :=
  match lower_keys w with
  | Some k => match mw_lookup m k with Some v => v | None => 0 end
  | None => 0
  end.

(* _identify_multi.  Outer fuel = recursion depth (the recursive call is on a
   strictly shorter suffix when min_len >= 1); None = fuel exhausted
   (RecursionError), Some None = Python's None.
   mw_loop is `for index in range(max_index, min_len - 1, -1)` with [rec] the
   recursive call; n = iterations left. *)
Fixpoint mw_loop (rec : str -> option (option (list str))) (m : mwmap) (s : str) (n : nat) (index : Z)
  : option (option (list str)) :=
  match n with
  | O => Some None
  | S n' =>
      if threshold <=? mw_count m (slice s 0 index) then
        if threshold <=? mw_count m (sfrom s index) then
          Some (Some [slice s 0 index; sfrom s index])
        else
          match rec (sfrom s index) with
          | None => None
          | Some (Some (x :: res)) => Some (Some (slice s 0 index :: x :: res))
          | Some _ => mw_loop rec m s n' (index - 1)
          end
      else mw_loop rec m s n' (index - 1)
  end.

Fixpoint mw_identify (fuel : nat) (m : mwmap) (s : str) : option (option (list str)) :=
  match fuel with
  | O => None
  | S f =>
      let max_index := len s - min_len in
      mw_loop (mw_identify f m) m s (Z.to_nat (max_index - (min_len - 1))) max_index
  end.

(* parse: (If_Parsed, words); None = fuel exhausted *)
Definition mw_parse (m : mwmap) (s : str) : option (bool * list str) :=
  if len s <? min_len then Some (false, [s])
  else if max_len <=? len s then Some (false, [s])
  else if threshold <=? mw_count m s then Some (true, [s])
  else if len s <? min_len * 2 then Some (false, [s])
  else match mw_identify (S (length s)) m s with
       | None => None
       | Some (Some (x :: res)) => Some (true, x :: res)
       | Some _ => Some (false, [s])
       end.

End Multiword.
