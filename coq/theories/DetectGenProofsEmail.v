(* The generated e-mail detector (gen/DetectEmail_gen.v: the translation of the Python
   text of detect_email / email_detection, redone on every run) equals the hand-written
   model of Detect.v (detect_email with the length-preserving lower-casing, driven by
   Detect.drive) that email_split_ok and the C05 pipeline theorems are about, on all
   sections / section lists, for the oracle lower_c and the TLD list any values. *)
From Coq Require Import List ZArith NArith Bool Lia.
From Pcfg Require Import Str Multiword Detect DetectRt DetectRt2 DetectProofsStr DetectProofsDrive DetectGenProofs.
From PcfgGen Require Import DetectEmail_gen.
Import ListNotations.
Open Scope Z_scope.

(* the model's result for what the generated detect_email returns, as email_detection
   reads it: `if email:`, then the parsing is spliced in and both values are recorded *)
Definition dres_email (r : option (pv * option str * option str)) : dres (str * str) :=
  match r with
  | None => DErr
  | Some (p, None, _) => DNo
  | Some (p, Some f, pr) =>
      if nonempty f then match p, pr with PList l, Some q => DYes l (f, q) | _, _ => DErr end else DNo
  end.

(* one case analysis on the innermost boolean atom of the first `if` of the goal *)
Ltac if_step :=
  cbn [negb bind run append extend app fst snd nonempty];
  match goal with |- context [if ?c then _ else _] => bool_atom c ltac:(fun a => destruct a eqn:?) end;
  cbn [negb bind run append extend app fst snd nonempty].

Section Email.
Variable lower_c : N -> str.
Variable tlds : list str.

Lemma email_go_never_err : forall tl s ws, email_go s ws tl <> DErr.
Proof.
  induction tl as [|tld tl IH]; intros s ws; cbn [email_go]; [discriminate|]. cbv zeta.
  destruct (find ws tld =? -1); [apply IH|].
  destruct (find _ [c_at] =? -1); [apply IH|].
  destruct (nonempty _); discriminate.
Qed.

Lemma detect_email_never_err s : detect_email lower_c true tlds s <> DErr.
Proof.
  unfold detect_email. destruct (negb _); [discriminate|]. destruct (negb _); [discriminate|]. apply email_go_never_err.
Qed.

Theorem py_detect_email_eq (sec : section) :
  dres_email (py_detect_email lower_c tlds sec) = detect_email lower_c true tlds (fst sec).
Proof.
  unfold py_detect_email, detect_email, working, lower_aligned, for_each. cbv zeta.
  (* the working string *)
  match goal with |- dres_email (run (bind ?c _)) = _ =>
    replace c with (Next (R := pv * option str * option str) (L := Empty_set)
                      (if len (lower lower_c (fst sec)) =? len (fst sec) then lower lower_c (fst sec)
                       else map (lower1 lower_c) (fst sec)))
      by (destruct (len (lower lower_c (fst sec)) =? len (fst sec)); cbn [negb]; [|rewrite join_lower1]; reflexivity)
  end.
  cbn [bind].
  set (ws := if len (lower lower_c (fst sec)) =? len (fst sec) then _ else _).
  change [c_dot] with [46%N]. 
  destruct (contains ws [46%N]); cbn [negb bind run dres_email]; [|reflexivity].
  change [c_at] with [64%N].
  destruct (contains ws [64%N]); cbn [negb bind run dres_email]; [|reflexivity].
  change [64%N] with [c_at].
  match goal with |- context [for_from 0 ?l _ ?b] => set (body := b) end.
  generalize 0 as pos. induction tlds as [|tld tl IH]; intros pos; cbn [for_from email_go]; [reflexivity|].
  unfold body at 1. cbv beta zeta.
  repeat if_step; try apply IH; cbn [dres_email run]; repeat if_step; reflexivity || congruence.
Qed.

(* email_detection: the loop `while index < len(section_list)` against Detect.drive; what it
   returns is the final section list, the e-mails and the providers found *)
Theorem py_email_detection_eq (sl : list section) :
  py_email_detection lower_c tlds sl =
  match drive_all (detect_email lower_c true tlds) false sl with
  | None => None
  | Some (out, fs) => Some (out, map fst fs, map (fun f => Some (snd f)) fs)
  end.
Proof.
  unfold py_email_detection, drive_all. cbv zeta.
  match goal with |- context [while_ _ _ ?c ?b] => set (wcond := c); set (wbody := b) end.
  pose proof (driver_sim (str * str) (list str * list (option str)) _ _ Empty_set (detect_email lower_c true tlds) false
                (fun a f => (fst a ++ [fst f], snd a ++ [Some (snd f)]))
                (fun '(idx, sl, el, pl) => (sl : list section, (el : list str, pl : list (option str)), idx : Z)) wcond wbody) as H.
  match type of H with ?A -> ?B -> _ => assert (Hc : A); [|assert (Hb : B)] end.
  { unfold wcond. intros [[[idx sl0] el] pl] ? ? ? E. injection E as E1 E2 E3. subst. reflexivity. }
  { unfold wbody. intros [[[idx sl0] el] pl] done x rest acc Hg. cbn in Hg. injection Hg as E1 E2 E3. subst sl0 acc idx.
    unfold goes_on. cbv beta iota zeta. unfold sub_l. rewrite !lget_mid.
    destruct x as [s [l|]]; cbn [snd fst is_none bind]; [goes_on_now|].
    pose proof (py_detect_email_eq (s, None)) as E. cbn [fst] in E.
    pose proof (detect_email_never_err s) as Hne. rewrite <- E in Hne |- *. clear E.
    destruct (py_detect_email lower_c tlds (s, None)) as [[[pvv [[|c f]|]] pr]|];
      cbn [dres_email nonempty call truthy] in Hne |- *; [goes_on_now| |goes_on_now|reflexivity].
    rewrite ldel_mid. destruct pvv as [x|l]; cbn [call pv_list bind]; [reflexivity|].
    destruct pr as [q|]; [|now elim Hne]. rewrite lins_mid. goes_on_now. }
  specialize (H Hc Hb (drive_fuel sl) sl [] (0, sl, [], []) ([], []) eq_refl).
  destruct (drive (detect_email lower_c true tlds) false (drive_fuel sl) sl) as [[out fs]|].
  - destruct H as (st' & i & -> & Hg). destruct st' as [[[idx sl'] el] pl]. cbn [bind run app].
    assert (Hf : forall fs a b, fold_left (fun (a : list str * list (option str)) (f : str * str) =>
                                             (fst a ++ [fst f], snd a ++ [Some (snd f)])) fs (a, b) =
                                (a ++ map fst fs, b ++ map (fun f => Some (snd f)) fs)).
    { clear. induction fs as [|f fs IH]; intros a b; cbn [fold_left map fst snd]; [now rewrite !app_nil_r|].
      rewrite IH, <- !app_assoc. reflexivity. }
    rewrite Hf in Hg. injection Hg as E1 E2 E3 E4. subst. reflexivity.
  - now rewrite H.
Qed.

End Email.
