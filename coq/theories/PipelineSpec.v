(* PipelineSpec.v - closed forms and computable side conditions of the pipeline
   model (Pipeline.v).  Definitions only (used by the theorems of
   Pipeline*Proofs and evaluated by the correspondence of C03):

     term_counters   the terminal counters by the variable name the guesser gives them
     base_counter / base_file / loaded_bases
                     Grammar/grammar.txt and the base structures kept with skip_brute
     no_zero_div     the loader does not divide by zero (P(M) <> 1)
     f64_arith_ok    the computable sanity check of the binary64 arithmetic that
                     C03_reproduced_F64 assumes of a training run *)
From Coq Require Import List NArith ZArith Bool Floats.
From Pcfg Require Import ProbAlg F64 TextFile Counters CountersF64 Loader Expand Pipeline.
Import ListNotations.

Definition lnamed (letter : N) (d : list (N * list (TextFile.str * N))) : list (TextFile.str * list (TextFile.str * N)) :=
  map (fun lc => (letter :: dec_of_N (fst lc), snd lc)) d.

(* in the order _load_terminals reads them: A, C, D, O, K, Y, X *)
Definition term_counters (P : pcounters) : list (TextFile.str * list (TextFile.str * N)) :=
  lnamed 65 (pc_alpha P) ++ lnamed 67 (pc_masks P) ++ lnamed 68 (pc_digits P) ++ lnamed 79 (pc_other P) ++
  lnamed 75 (pc_keyboard P) ++ [([89; 49]%N, pc_years P)] ++ [([88; 49]%N, pc_context P)].

(* the tokens of a structure string (Loader.tokenize), [] when it does not tokenize *)
Definition toks (isalpha : N -> bool) (s : Expand.str) : list Expand.str :=
  match Loader.tokenize isalpha s with Some t => t | None => [] end.

Definition nonM {T : Type} (isalpha : N -> bool) (l : Expand.str * T) : bool :=
  negb (Loader.has_M (toks isalpha (fst l))).

(* the divisor of _load_base_structures with skip_brute: 1 - P(M) when there
   is a Markov line, 1 otherwise *)
Definition skip_total {T : Type} (one : T) (psub : T -> T -> T) (ls : list (Expand.str * T)) : T :=
  match Loader.scan_M ls with Some pm => psub one pm | None => one end.

Section Spec.
Context {A : palg}.
Variable R : parith A.

(* count_base_structures after the Markov pseudo-count, and the lines of Grammar/grammar.txt *)
Definition base_counter (t : trained A) : counter (ops_of R) :=
  @with_markov (ops_of R) (t_cov t) (t_n t) (@of_counts (ops_of R) (sc_base (pc_structs (t_counters t)))).
Definition base_file (t : trained A) : counter (ops_of R) := calc_probs (base_counter t).

Variable E : env.

(* the base structures the guesser keeps, in file order *)
Definition loaded_bases (t : trained A) : list (P A * list TextFile.str) :=
  map (fun l => (a_div R (snd l) (skip_total (a_one R) (a_sub R) (base_file t)),
                 Loader.insert_caps (toks (e_isalpha E) (fst l))))
      (filter (nonM (e_isalpha E)) (base_file t)).

(* the loader does not divide by zero: P(M) is not 1 *)
Definition no_zero_div (t : trained A) : Prop :=
  a_eqb R (skip_total (a_one R) (a_sub R) (base_file t)) (a_zero R) = false.
End Spec.

Definition nilb {X} (l : list X) : bool := match l with [] => true | _ => false end.

(* binary64: coverage is not 0; every terminal counter and the base-structure
   counter meet the hypotheses of CountersF64.calc_probs_F64_wf (finite counts
   not above their finite positive total); P(M) <> 1; the rescaled base
   probabilities are finite and non-negative *)
Definition f64_arith_ok (E : env) (tr : trained F64) : bool :=
  negb (PrimFloat.eqb (t_cov tr) 0%float) &&
  forallb (fun nc => nilb (snd nc) || f64_wf_hyps (@of_counts FNum (snd nc))) (term_counters (t_counters tr)) &&
  f64_wf_hyps (base_counter RF tr) &&
  negb (PrimFloat.eqb (skip_total (1%float : P F64) PrimFloat.sub (base_file RF tr)) 0%float) &&
  forallb (fun b : P F64 * list TextFile.str => okbF (fst b)) (loaded_bases RF E tr).
