(* OmenCorr.v -- correspondence helpers for C10 / C15: the harness writes an
   OMEN model (the lines of the files), what the real loader built from it and
   what the real MarkovCracker emitted; these functions compare with the model
   (everything here is evaluated by vm_compute). *)
From Coq Require Import List Arith Bool NArith ZArith.
From Pcfg Require Import OmenSpec Omen.
From PcfgGen Require Import Consts_gen.
Import ListNotations.

Fixpoint olist_eqb {X} (e : X -> X -> bool) (a b : list X) : bool :=
  match a, b with
  | [], [] => true
  | x :: a', y :: b' => e x y && olist_eqb e a' b'
  | _, _ => false
  end.

Definition strs_eqb : list ostr -> list ostr -> bool := olist_eqb ostr_eqb.

Definition row_eqb (a b : row) : bool :=
  ostr_eqb (row_prefix a) (row_prefix b) && Nat.eqb (row_level a) (row_level b) &&
  Nat.eqb (row_index a) (row_index b).
Definition tree_eqb : tree -> tree -> bool := olist_eqb row_eqb.
Definition otree_eqb (a b : option tree) : bool :=
  match a, b with
  | None, None => true
  | Some x, Some y => tree_eqb x y
  | _, _ => false
  end.

Definition ofailing {X} (f : X -> bool) (l : list X) : list nat :=
  map fst (filter (fun kx => negb (f (snd kx))) (combine (seq 0 (length l)) l)).

(* ---------------- the loader ---------------- *)
(* ip per level 0..max, ln per level 0..max, cp entries (prefix, level, chars) *)
Definition check_loader (G : omen) (ip : list (list ostr)) (ln : list (list nat))
           (cp : list (ostr * nat * ostr)) : bool :=
  let cf := cp_fast G in
  Nat.eqb (length ip) (S (og_max_level G)) && Nat.eqb (length ln) (S (og_max_level G)) &&
  forallb (fun li => strs_eqb (ip_at G (fst li)) (snd li)) (indexed ip) &&
  forallb (fun li => olist_eqb Nat.eqb (ln_at G (fst li)) (snd li)) (indexed ln) &&
  forallb (fun e => match e with (p, l, cs) => ostr_eqb (cp_at G p l) cs && ostr_eqb (cf p l) cs
                                               && negb (is_nil cs) end) cp &&
  (* every line is accounted for *)
  Nat.eqb (list_sum (map (fun e => length (snd e)) cp))
          (length (filter (fun e => negb (is_nil (snd e))) (og_cp G))) &&
  Nat.eqb (list_sum (map (@length _) ip)) (length (og_ip G)).

(* ---------------- the generator ---------------- *)
Section Run.
  Variable G : omen.
  Variable cpf : ostr -> nat -> list N.

  Definition m_enumerate (n : nat) (c : cache) (T : Z) :=
    enumerate (ip_at G) cpf (ln_at G) (og_max_level G) omen_optimizer_max_length
              omen_first_object_extra n c T.

  (* one observed level: target, what next_guess returned (complete = the list
     ended with None; otherwise it was cut by the harness and is a prefix) *)
  Definition lvl_obs := (Z * list ostr * bool)%type.

  Definition is_done (o : mc_out) : bool := match o with Done => true | _ => false end.

  (* returns (ok, cache after) *)
  Definition check_level (c : cache) (o : lvl_obs) : bool * cache :=
    match o with
    | (T, out, complete) =>
        let n := if complete then S (length out) else length out in
        match m_enumerate n c T with
        | None => (false, c)
        | Some (l, fin, _, c') =>
            (strs_eqb l out && (if complete then is_done fin else true), c')
        end
    end.

  (* the levels in the order the implementation ran them on ONE Optimizer *)
  Fixpoint check_shared (c : cache) (os : list lvl_obs) : bool * cache :=
    match os with
    | [] => (true, c)
    | o :: r =>
        let '(b, c') := check_level c o in
        let '(b', c'') := check_shared c' r in (b && b', c'')
    end.

  (* a new Optimizer for every level *)
  Definition check_fresh (os : list lvl_obs) : bool :=
    forallb (fun o => fst (check_level cempty o)) os.

  (* the final content of the Optimizer: (length, prefix, level, value) *)
  Definition centry := (nat * ostr * Z * option tree)%type.
  Definition cache_agrees (c : cache) (es : list centry) : bool :=
    forallb (fun e => match e with (k, p, l, v) =>
               match clookup c (k, p, l) with Some v' => otree_eqb v v' | None => false end end) es &&
    forallb (fun kv => existsb (fun e => match e with (k, p, l, _) => ckey_eqb (fst kv) (k, p, l) end) es) (cache_entries c).
End Run.

(* one generated model: the constructor raised, or the levels run; [es] the
   Optimizer content after the shared run (checked when check_cache) *)
Record omen_case := mk_case {
  oc_G : omen;
  oc_ip : list (list ostr);
  oc_ln : list (list nat);
  oc_cp : list (ostr * nat * ostr);
  oc_raised : bool;
  oc_levels : list (Z * list ostr * bool);
  oc_check_cache : bool;
  oc_entries : list (nat * ostr * Z * option tree)
}.

Definition check_case (k : omen_case) : bool :=
  let G := oc_G k in
  let cpf := cp_fast G in
  wf_tablesb G && check_loader G (oc_ip k) (oc_ln k) (oc_cp k) &&
  if oc_raised k then
    match m_enumerate G cpf 1 cempty 0%Z with None => true | Some _ => false end
  else
    let '(b, c) := check_shared G cpf cempty (oc_levels k) in
    b && check_fresh G cpf (oc_levels k) &&
    (if oc_check_cache k then cache_agrees c (oc_entries k) else true).

(* ---------------- C15: continuation from a saved state ---------------- *)
(* state after the j-th guess of a level (a new cracker, empty cache), saved and
   loaded, then run on with an EMPTY cache: must give [rest] and then None *)
Definition check_resume_case (G : omen) (T : Z) (j : nat) (saved_st : saved) (rest : list ostr) : bool :=
  let cpf := cp_fast G in
  match m_enumerate G cpf (S j) cempty T with
  | None => false
  | Some (l, _, st, _) =>
      Nat.eqb (length l) (S j) &&
      (* what save_session pickled is the model's state *)
      (match mc_save st, saved_st with
       | (T1, ip1, ln1, t1, f1), (T2, ip2, ln2, t2, f2) =>
           Z.eqb T1 T2 && Nat.eqb (fst ip1) (fst ip2) && Nat.eqb (snd ip1) (snd ip2) &&
           Nat.eqb (fst ln1) (fst ln2) && Nat.eqb (snd ln1) (snd ln2) && tree_eqb t1 t2 && Bool.eqb f1 f2
       end) &&
      match mc_starts (ip_at G) (ln_at G) (og_max_level G) omen_first_object_extra with
      | None => false
      | Some starts =>
          let '(l2, fin, _, _) :=
            mc_run (ip_at G) cpf (ln_at G) (og_max_level G) omen_optimizer_max_length
                   (S (length rest)) (mc_fuel (ip_at G) (ln_at G) (og_max_level G)) starts cempty
                   (mc_load saved_st) in
          strs_eqb l2 rest && is_done fin
      end
  end.

(* the generator restored from a pickled state, run on with an empty cache:
   emits [rest] and then None *)
Definition continue_ok (G : omen) (s : saved) (rest : list ostr) : bool :=
  let cpf := cp_fast G in
  match mc_starts (ip_at G) (ln_at G) (og_max_level G) omen_first_object_extra with
  | None => false
  | Some starts =>
      let '(l2, fin, _, _) :=
        mc_run (ip_at G) cpf (ln_at G) (og_max_level G) omen_optimizer_max_length
               (S (length rest)) (mc_fuel (ip_at G) (ln_at G) (og_max_level G)) starts cempty (mc_load s) in
      strs_eqb l2 rest && is_done fin
  end.

(* C15, two quit/resume cycles through the session-level model: first quit
   after a guess of the level (state1 pickled), resume; in the second session
   [omen_exit2] says whether the quit was seen after a guess of the restored
   level (state2 pickled then); false covers a quit outside any Markov level
   AND a quit flag raised during the exhausting next_guess call of the
   restored level.  [third] = what restore_omen emitted in the third run, None
   when the third run did not restore a level *)
Definition check_two_cycle (G : omen) (state1 : saved) (omen_exit2 : bool) (state2 : saved)
           (third : option (list ostr)) : bool :=
  let cfg1 := sess_quit sess_empty true 0 state1 in
  let cfg1' := snd (sess_restore omen_number_cleared cfg1 omen_exit2) in
  let cfg2 := sess_quit cfg1' omen_exit2 0 state2 in
  match fst (sess_restore omen_number_cleared cfg2 false), third with
  | None, None => true
  | Some s, Some out => continue_ok G s out
  | _, _ => false
  end.
