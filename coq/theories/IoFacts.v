(* IoFacts.v - the theorems of C06 / C07 / C19 in the form Props/*.v re-export:
   the generic theorems of TextFileProofs / CountersProofs / CollapseProofs /
   ReaderProofs instantiated with the code point classes probed from the running
   interpreter and the constants extracted from the source (gen/Consts_gen.v),
   with the finite side conditions on those regenerated lists discharged by
   computation here (so they are re-checked by the kernel on every run). *)
From Coq Require Import String Ascii.
From Coq Require Import List NArith ZArith QArith Bool Floats Lia Permutation Sorted.
From Pcfg Require Import ProbAlg F64 TextFile Counters Reader IoCorr.
From Pcfg Require Import TextFileProofs IoFloatFacts CountersProofs CollapseProofs ReaderProofs.
From PcfgGen Require Import Consts_gen.
Import ListNotations.
Open Scope N_scope.

(* ================================================================ side conditions on the probed classes *)

Definition digits10 : list N := [48; 49; 50; 51; 52; 53; 54; 55; 56; 57].

Definition classes_ok : bool :=
  LB LF && LB CR && negb (LB TAB) && WS LF &&
  forallb (fun c => negb (LB c) && negb (WS c)) float_chars &&
  forallb (fun c => negb (LB c) && negb (WS c) && negb (IWS c) &&
                    match digit_val DZ c with Some d => N.eqb d (c - 48) | None => false end) digits10 &&
  none_of LB hex_alphabet && negb (LB SP) && forallb WS [SP; TAB].

(* holds for the interpreter that is running the check *)
Lemma classes_ok_true : classes_ok = true.
Proof. vm_compute. reflexivity. Qed.

Ltac split_classes H :=
  pose proof classes_ok_true as H; unfold classes_ok in H;
  repeat (apply andb_true_iff in H; let H' := fresh H in destruct H as [H H']).

Lemma LB_LF : LB LF = true. Proof. reflexivity. Qed.
Lemma LB_CR : LB CR = true. Proof. reflexivity. Qed.
Lemma WS_LF : WS LF = true. Proof. reflexivity. Qed.
Lemma LB_TAB : LB TAB = false. Proof. reflexivity. Qed.

Lemma float_chars_LB : forall c, float_char c = true -> LB c = false.
Proof.
  assert (A : forallb (fun c => negb (LB c)) float_chars = true) by reflexivity.
  rewrite forallb_forall in A. intros c H. unfold float_char, memN in H. apply existsb_exists in H.
  destruct H as [x [Hx E]]. apply N.eqb_eq in E. subst x. specialize (A c Hx). destruct (LB c); [discriminate | reflexivity].
Qed.

Lemma float_chars_WS : forall c, float_char c = true -> WS c = false.
Proof.
  assert (A : forallb (fun c => negb (WS c)) float_chars = true) by reflexivity.
  rewrite forallb_forall in A. intros c H. unfold float_char, memN in H. apply existsb_exists in H.
  destruct H as [x [Hx E]]. apply N.eqb_eq in E. subst x. specialize (A c Hx). destruct (WS c); [discriminate | reflexivity].
Qed.

Lemma ascii_digit_in : forall c, ascii_digit c = true -> In c digits10.
Proof.
  intros c H. unfold ascii_digit in H. apply andb_true_iff in H. destruct H as [H1 H2]. apply N.leb_le in H1, H2.
  assert (E : c = 48 \/ c = 49 \/ c = 50 \/ c = 51 \/ c = 52 \/ c = 53 \/ c = 54 \/ c = 55 \/ c = 56 \/ c = 57) by lia.
  unfold digits10. simpl. intuition.
Qed.

Lemma digit_facts : forall c, ascii_digit c = true ->
  LB c = false /\ WS c = false /\ IWS c = false /\ digit_val DZ c = Some (c - 48).
Proof.
  assert (A : forallb (fun c => negb (LB c) && negb (WS c) && negb (IWS c) &&
                                match digit_val DZ c with Some d => N.eqb d (c - 48) | None => false end) digits10 = true)
    by (vm_compute; reflexivity).
  rewrite forallb_forall in A. intros c H. specialize (A c (ascii_digit_in c H)).
  repeat (apply andb_true_iff in A; destruct A as [A ?]).
  destruct (digit_val DZ c) as [d|]; [|discriminate].
  match goal with H : N.eqb d _ = true |- _ => apply N.eqb_eq in H; subst d end.
  repeat split; match goal with H : negb ?x = true |- ?x = false => destruct x; [discriminate | reflexivity] end.
Qed.

Lemma digit_LB c : ascii_digit c = true -> LB c = false. Proof. intro H. apply (digit_facts c H). Qed.
Lemma digit_WS c : ascii_digit c = true -> WS c = false. Proof. intro H. apply (digit_facts c H). Qed.
Lemma digit_IWS c : ascii_digit c = true -> IWS c = false. Proof. intro H. apply (digit_facts c H). Qed.
Lemma digit_DZ c : ascii_digit c = true -> digit_val DZ c = Some (c - 48). Proof. intro H. apply (digit_facts c H). Qed.

Lemma hex_alphabet_LB : none_of LB hex_alphabet = true. Proof. reflexivity. Qed.

(* ================================================================ C07 *)

(* a value the line format can carry: no TAB, no code point the line iteration splits on *)
Definition safe (v : str) : bool := safe_value LB v.

(* the guesser's loader returns what the trainer wrote, grouped by equal probability *)
Theorem roundtrip_guesser_inst :
  forall (repr : float -> str) (pfloat : str -> option float) (encb : N -> bool) (onfail : enc_fail)
         (l : list (str * float)),
    Forall (fun it => safe (fst it) = true /\ float_ok repr pfloat (snd it)) l ->
    Forall (fun it => forallb encb (write_line repr it) = true) l ->
    Forall (fun it => okbF (snd it) = true) l ->
    load_guesser LB WS pfloat encb onfail (write_file repr l) = Some (group_by_prob l)
    /\ flat_map gvals (group_by_prob l) = map fst l.
Proof.
  intros repr pfloat encb onfail l H He Hok. split.
  - apply (roundtrip_guesser LB WS repr pfloat encb onfail LB_LF WS_LF LB_TAB float_chars_LB float_chars_WS); try assumption.
    destruct l as [|[v p] r]; [exact I|]. inversion Hok; subst. apply okb_not_minus_one. assumption.
  - apply group_by_prob_values.
Qed.

Theorem roundtrip_scorer_inst :
  forall (repr : float -> str) (pfloat : str -> option float) (encb : N -> bool) (onfail : enc_fail)
         (l : list (str * float)),
    Forall (fun it => safe (fst it) = true /\ float_ok repr pfloat (snd it)) l ->
    Forall (fun it => forallb encb (write_line repr it) = true) l ->
    NoDup (map fst l) ->
    load_scorer LB WS pfloat encb onfail (write_file repr l) = (true, l).
Proof.
  intros. apply (roundtrip_scorer LB WS repr pfloat encb onfail LB_LF WS_LF LB_TAB float_chars_LB float_chars_WS); assumption.
Qed.

Definition level_item_ok (it : Z * str) : Prop := (0 <= fst it <= 10)%Z /\ safe (snd it) = true.

Theorem roundtrip_omen_guesser_inst : forall l : list (Z * str), Forall level_item_ok l ->
  omen_guesser_items LB IWS DZ (write_levels l) = Some l.
Proof.
  intros l H. apply (roundtrip_omen_guesser LB IWS DZ LB_LF LB_CR LB_TAB digit_LB digit_DZ digit_IWS). exact H.
Qed.

(* whichever way OmenScorer opens the file, provided it decodes it with the
   encoding it was written in (the model starts from the text) *)
Theorem roundtrip_omen_scorer_inst : forall l : list (Z * str), Forall level_item_ok l ->
  omen_scorer_items omen_scorer_codecs_open LB IWS DZ (write_levels l) = Some l.
Proof.
  intros l H. apply (roundtrip_omen_scorer LB IWS DZ LB_LF LB_CR LB_TAB digit_LB digit_DZ digit_IWS). exact H.
Qed.

Theorem roundtrip_alphabet_inst : forall a : list str, Forall (fun c => safe c = true) a ->
  load_alphabet LB (write_alphabet a) = a.
Proof. intros a H. apply (roundtrip_alphabet LB LB_LF LB_CR). exact H. Qed.

(* check_valid keeps every value on disk safe - PROVIDED it rejects TAB and
   every code point the line iteration splits on *)
Definition linebreaks_rejected : bool :=
  forallb (fun c => memN c check_valid_rejected) (TAB :: py_linebreaks).

Definition accepted (p : str) : bool := check_valid check_valid_rejected check_valid_rejects_empty p.

Theorem accepted_values_safe : linebreaks_rejected = true ->
  forall p pre s post, accepted p = true -> p = pre ++ s ++ post -> safe s = true.
Proof.
  intros HR p pre s post Hacc Hp. unfold safe, safe_value, none_of. apply forallb_forall. intros c Hc.
  unfold accepted, check_valid in Hacc. apply andb_true_iff in Hacc. destruct Hacc as [_ Hall].
  rewrite forallb_forall in Hall.
  assert (Hin : In c p) by (subst p; apply in_or_app; right; apply in_or_app; left; assumption).
  specialize (Hall c Hin).
  unfold linebreaks_rejected in HR. rewrite forallb_forall in HR.
  destruct (LB c) eqn:E1.
  - exfalso. unfold LB, memN in E1. apply existsb_exists in E1. destruct E1 as [x [Hx E]]. apply N.eqb_eq in E. subst x.
    rewrite (HR c (or_intror Hx)) in Hall. discriminate.
  - destruct (N.eqb TAB c) eqn:E2; [|reflexivity].
    exfalso. apply N.eqb_eq in E2. subst c. rewrite (HR TAB (or_introl eq_refl)) in Hall. discriminate.
Qed.

(* the rejected set of the trainer as published (C0 controls, U+0085, U+2028) *)
Definition rejected_2021 : list N := map N.of_nat (seq 0 32) ++ [133; 8232].

Definition rp1 (_ : float) : str := [48; 46; 53].
Definition pf1 (s : str) : option float := if str_eqb s [48; 46; 53] then Some 0.5%float else None.

(* U+2029 is accepted by that check_valid, the line iteration splits on it, and
   a value holding it is lost by the guesser (skip-next-line recovery), fails the
   scorer's load and fails the OMEN loader *)
Theorem refuted_2029 :
  check_valid rejected_2021 true [97; 98; 99; 8233] = true /\ LB 8233 = true /\
  load_guesser LB WS pf1 (fun _ => true) EncSkip (write_file rp1 [([8233], 0.5%float)]) = Some [] /\
  fst (load_scorer LB WS pf1 (fun _ => true) EncSkip (write_file rp1 [([8233], 0.5%float)])) = false /\
  omen_guesser_items LB IWS DZ (write_levels [(3%Z, [97; 98; 8233])]) = None.
Proof. vm_compute. repeat split; reflexivity. Qed.

(* names in config.ini = names of the files written, per section *)
Theorem config_lists_exact : forall (O : numops) (P : pcounters) sens (cov : num O) n sec names,
  In (sec, names) (config_lists O P) ->
  exists dir files, In (sec, dir) config_dirs /\ In (dir, files) (save_pcfg_data O P sens cov n) /\
                    map fst files = names.
Proof.
  intros O P sens cov n sec names H. unfold config_lists in H. simpl in H.
  repeat (destruct H as [H|H]; [inversion H; subst; clear H|]); try contradiction.
  - exists (str_of_string "Alpha"), (save_indexed [] (lkeys (pc_alpha P))). split; [simpl; tauto|]. split; [simpl; tauto|]. apply save_indexed_names.
  - exists (str_of_string "Digits"), (save_indexed [] (lkeys (pc_digits P))). split; [simpl; tauto|]. split; [simpl; tauto|]. apply save_indexed_names.
  - exists (str_of_string "Other"), (save_indexed [] (lkeys (pc_other P))). split; [simpl; tauto|]. split; [simpl; tauto|]. apply save_indexed_names.
  - exists (str_of_string "Keyboard"), (save_indexed [] (lkeys (pc_keyboard P))). split; [simpl; tauto|]. split; [simpl; tauto|]. apply save_indexed_names.
  - exists (str_of_string "Context"), (save_indexed [] [(str_of_string "1", @of_counts O (pc_context P))]).
    split; [simpl; tauto|]. split; [simpl; tauto|]. reflexivity.
  - exists (str_of_string "Years"), (save_indexed [] [(str_of_string "1", @of_counts O (pc_years P))]).
    split; [simpl; tauto|]. split; [simpl; tauto|]. reflexivity.
  - exists (str_of_string "Capitalization"), (save_indexed [] (lkeys (pc_masks P))). split; [simpl; tauto|]. split; [simpl; tauto|]. apply save_indexed_names.
Qed.

(* ================================================================ C19 *)

(* side conditions on the reader's line-break class (regenerated) *)
Definition reader_classes_ok : bool :=
  LBR LF && none_of LBR hex_alphabet && negb (LBR SP) && negb (LBR TAB) && forallb (fun c => negb (LBR c)) digits10.

Lemma reader_classes_ok_true : reader_classes_ok = true.
Proof. vm_compute. reflexivity. Qed.

Lemma LBR_LF : LBR LF = true. Proof. reflexivity. Qed.
Lemma hex_alphabet_LBR : none_of LBR hex_alphabet = true. Proof. reflexivity. Qed.
Lemma digit_LBR c : ascii_digit c = true -> LBR c = false.
Proof.
  assert (A : forallb (fun c => negb (LBR c)) digits10 = true) by reflexivity.
  rewrite forallb_forall in A. intro H. specialize (A c (ascii_digit_in c H)). destruct (LBR c); [discriminate | reflexivity].
Qed.

Definition cfgR (dec : list N -> option str) (encb : N -> bool) (prefix : bool) : rcfg :=
  {| r_lb := LBR; r_ws := WS; r_iws := IWS; r_dz := DZ;
     r_rej := check_valid_rejected; r_rej_empty := check_valid_rejects_empty;
     r_dec := dec; r_encb := encb; r_prefix := prefix |}.

Definition result (ps : list str) (n : Z) : rout := {| out := ps; npw := n; nerr := 0 |}.

Lemma rout_eq a b : out a = out b -> npw a = npw b -> nerr a = nerr b -> a = b.
Proof. destruct a, b. simpl. intros; subst; reflexivity. Qed.

Lemma read_single C body p n : r_lb C LF = true -> no_lb C body ->
  read_line C (body ++ [LF]) = Yield p n -> (0 <= n)%Z ->
  read_text C (body ++ [LF]) = result (repeat p (Z.to_nat n)) n.
Proof.
  intros HLF Hb Hr Hn.
  destruct (read_text_denotes C HLF [(body, (p, n))]) as (E1 & E2 & E3).
  { constructor; [|constructor]. split; assumption. }
  simpl in E1, E2, E3. rewrite app_nil_r in *.
  apply rout_eq; simpl; rewrite ?E1, ?E2, ?E3; try rewrite app_nil_r; try reflexivity. lia.
Qed.

(* check_valid rejects TAB, CR, LF and every code point on which the reader's
   line iteration splits (side condition on the regenerated constants) *)
Definition reader_linebreaks_rejected : bool :=
  forallb (fun c => memN c check_valid_rejected) (TAB :: CR :: LF :: reader_linebreaks).

Lemma accepted_not_rejected p c : accepted p = true -> In c p -> memN c check_valid_rejected = false.
Proof.
  intros Hacc Hin. unfold accepted, check_valid in Hacc. apply andb_true_iff in Hacc. destruct Hacc as [_ Hall].
  rewrite forallb_forall in Hall. specialize (Hall c Hin). destruct (memN c check_valid_rejected); [discriminate | reflexivity].
Qed.

Lemma accepted_no_reader_break : reader_linebreaks_rejected = true -> forall p, accepted p = true ->
  none_of LBR p = true /\ none_of is_crlf p = true.
Proof.
  intros HR p Hacc. unfold reader_linebreaks_rejected in HR. rewrite forallb_forall in HR.
  split; unfold none_of; apply forallb_forall; intros c Hc; pose proof (accepted_not_rejected p c Hacc Hc) as Hn.
  - destruct (LBR c) eqn:E; [|reflexivity]. exfalso.
    unfold LBR, memN in E. apply existsb_exists in E. destruct E as [x [Hx E]]. apply N.eqb_eq in E. subst x.
    rewrite (HR c) in Hn; [discriminate|]. right. right. right. exact Hx.
  - unfold is_crlf. destruct (N.eqb c CR) eqn:E1.
    + apply N.eqb_eq in E1. subst c. rewrite (HR CR) in Hn; [discriminate | right; left; reflexivity].
    + destruct (N.eqb c LF) eqn:E2; [|reflexivity].
      apply N.eqb_eq in E2. subst c. rewrite (HR LF) in Hn; [discriminate | right; right; left; reflexivity].
Qed.

(* $HEX[...] *)
Theorem hex_inst : forall dec encb (enc : str -> list N) p,
  dec (enc p) = Some p -> forallb is_byte (enc p) = true ->
  forallb encb p = true -> accepted p = true ->
  read_text (cfgR dec encb false) (hex_line enc p) = result [p] 1.
Proof.
  intros dec encb enc p Hd Hb He Hv.
  replace (hex_line enc p) with (hex_body (enc p) ++ [LF])
    by (unfold hex_line, hex_body; rewrite <- !app_assoc; reflexivity).
  apply (read_single (cfgR dec encb false) (hex_body (enc p)) p 1 LBR_LF).
  - change (none_of LBR (hex_body (enc p)) = true). apply hex_body_none; [exact hex_alphabet_LBR | assumption].
  - apply read_line_body; try reflexivity; try assumption.
    + apply hex_body_no_crlf. assumption.
    + rewrite unhex_hex by assumption. exact Hd.
  - lia.
Qed.

(* a plain line: needs the password free of code points the line iteration splits on *)
Theorem plain_inst : reader_linebreaks_rejected = true -> forall dec encb p,
  accepted p = true -> is_hex_shaped p = false -> forallb encb p = true ->
  read_text (cfgR dec encb false) (plain_line p) = result [p] 1.
Proof.
  intros HR dec encb p Hv Hh He.
  destruct (accepted_no_reader_break HR p Hv) as [Hn Hc].
  apply (read_single (cfgR dec encb false) p p 1 LBR_LF Hn); [|lia].
  apply read_line_body; try reflexivity; try assumption.
  apply unhex_plain. assumption.
Qed.

(* a count-prefixed line: blanks, decimal digits, one space, then the payload
   in plain or in hex form *)
Definition blanks (pad : str) : Prop :=
  forallb WS pad = true /\ none_of LBR pad = true /\ none_of is_crlf pad = true.

Theorem prefix_plain_inst : reader_linebreaks_rejected = true -> forall dec encb pad ds p,
  blanks pad -> ds <> [] -> forallb ascii_digit ds = true ->
  accepted p = true -> is_hex_shaped p = false -> forallb encb p = true ->
  read_text (cfgR dec encb true) (count_line pad ds p ++ [LF]) =
    result (repeat p (N.to_nat (digits_value ds))) (Z.of_N (digits_value ds)).
Proof.
  intros HR dec encb pad ds p (Hw & Hl & Hpc) Hne Hd Hv Hh He.
  destruct (accepted_no_reader_break HR p Hv) as [Hn Hc].
  set (C := cfgR dec encb true).
  assert (Hbody : no_lb C (count_line pad ds p)).
  { change (none_of LBR (count_line pad ds p) = true). unfold count_line.
    rewrite !none_of_app, none_of_cons, Hl, Hn. rewrite (digits_none LBR ds digit_LBR Hd). reflexivity. }
  replace (repeat p (N.to_nat (digits_value ds))) with (repeat p (Z.to_nat (Z.of_N (digits_value ds))))
    by (f_equal; lia).
  apply (read_single C (count_line pad ds p) p _ LBR_LF Hbody); [|lia].
  apply (read_line_count C digit_WS digit_DZ digit_IWS); try reflexivity; try assumption.
  apply unhex_plain. assumption.
Qed.

Theorem prefix_hex_inst : forall dec encb (enc : str -> list N) pad ds p,
  blanks pad -> ds <> [] -> forallb ascii_digit ds = true ->
  dec (enc p) = Some p -> forallb is_byte (enc p) = true -> forallb encb p = true -> accepted p = true ->
  read_text (cfgR dec encb true) (count_line pad ds (hex_body (enc p)) ++ [LF]) =
    result (repeat p (N.to_nat (digits_value ds))) (Z.of_N (digits_value ds)).
Proof.
  intros dec encb enc pad ds p (Hw & Hl & Hpc) Hne Hd Hdec Hb He Hv.
  set (C := cfgR dec encb true).
  assert (Hn : none_of LBR (hex_body (enc p)) = true) by (apply hex_body_none; [exact hex_alphabet_LBR | assumption]).
  assert (Hbody : no_lb C (count_line pad ds (hex_body (enc p)))).
  { change (none_of LBR (count_line pad ds (hex_body (enc p))) = true). unfold count_line.
    rewrite !none_of_app, none_of_cons, Hl, Hn. rewrite (digits_none LBR ds digit_LBR Hd). reflexivity. }
  replace (repeat p (N.to_nat (digits_value ds))) with (repeat p (Z.to_nat (Z.of_N (digits_value ds))))
    by (f_equal; lia).
  apply (read_single C _ p _ LBR_LF Hbody); [|lia].
  apply (read_line_count C digit_WS digit_DZ digit_IWS); try reflexivity; try assumption.
  - apply hex_body_no_crlf. assumption.
  - unfold C. rewrite unhex_hex by assumption. exact Hdec.
Qed.

(* what is skipped and what is counted (lines as the file object delivers them) *)
Theorem skips_inst : forall dec encb,
  let C := cfgR dec encb false in
  (* nothing refused by check_valid or unencodable is ever yielded *)
  (forall line p n, read_line C line = Yield p n -> accepted p = true /\ forallb encb p = true) /\
  (* blank lines *)
  (check_valid_rejects_empty = true -> read_line C [LF] = Skip /\ read_line C [CR; LF] = Skip) /\
  (* a rejected character (TAB, control characters, ...) anywhere in the line *)
  (forall body c, none_of is_crlf body = true -> is_hex_shaped body = false -> In c body ->
                  memN c check_valid_rejected = true ->
                  read_line C (body ++ [LF]) = if forallb encb body then Skip else SkipErr 1) /\
  (* undecodable bytes *)
  (forall body, none_of is_crlf body = true -> is_hex_shaped body = false -> forallb encb body = false ->
                read_line C (body ++ [LF]) = SkipErr 1) /\
  (* $HEX payload that is not hex or does not decode *)
  (forall body, none_of is_crlf body = true -> is_hex_shaped body = true ->
                (fromhex (hex_payload body) = None \/ exists b, fromhex (hex_payload body) = Some b /\ dec b = None) ->
                read_line C (body ++ [LF]) = SkipErr 1) /\
  (* the counters are the line-wise sums: no state survives a line, reading never aborts *)
  (forall ls, out (read_lines C ls) = flat_map (fun l => line_out (read_line C l)) ls /\
              npw (read_lines C ls) = zsum (map (fun l => line_count (read_line C l)) ls) /\
              nerr (read_lines C ls) = zsum (map (fun l => line_err (read_line C l)) ls)).
Proof.
  intros dec encb C.
  split; [|split; [|split; [|split; [|split]]]].
  - intros line p n H. exact (yielded_is_valid C line p n H).
  - intro Hr. split.
    + apply (skip_blank C [LF]); try reflexivity; assumption.
    + apply (skip_blank C [CR; LF]); try reflexivity; assumption.
  - intros body c Hb Hh Hin Hr. apply (skip_rejected C body c [LF]); try reflexivity; assumption.
  - intros body Hb Hh Hn. apply (skip_undecodable C body [LF]); try reflexivity; assumption.
  - intros body Hb Hh Hbad. apply (skip_bad_hex C body [LF]); try reflexivity; assumption.
  - intro ls. apply (read_lines_spec C ls).
Qed.

(* the three training passes construct the same reader over the same file *)
Definition three_passes (C : rcfg) (text : str) : rout * rout * rout :=
  (read_text C text, read_text C text, read_text C text).

Theorem three_passes_inst : forall dec encb prefix text,
  let C := cfgR dec encb prefix in
  let '(p1, p2, p3) := three_passes C text in
  out p1 = out p2 /\ out p2 = out p3 /\
  ((forall l, In l (lines_keep LBR text) -> (0 <= line_count (read_line C l))%Z) ->
   npw p1 = Z.of_nat (length (out p2)) /\ npw p1 = Z.of_nat (length (out p3))).
Proof.
  intros dec encb prefix text C. simpl. split; [reflexivity|]. split; [reflexivity|]. intro H.
  split; apply (count_is_length C); assumption.
Qed.

(* a reader that iterates the file through codecs (LB) does NOT skip a line
   with a control character entirely when that character is one the codec
   splits lines on: the tail becomes a password of its own *)
Definition codecs_reader (rej : list N) : rcfg :=
  {| r_lb := LB; r_ws := WS; r_iws := IWS; r_dz := DZ; r_rej := rej; r_rej_empty := true;
     r_dec := fun _ => None; r_encb := fun _ => true; r_prefix := false |}.

Theorem refuted_tail_after_linebreak :
  memN 11 rejected_2021 = true /\
  out (read_text (codecs_reader rejected_2021) [97; 98; 11; 99; 100; 10]) = [[99; 100]] /\
  out (read_text (codecs_reader (8233 :: rejected_2021)) [97; 98; 8233; 99; 100; 10]) = [[99; 100]].
Proof. vm_compute. repeat split; reflexivity. Qed.

(* with the published check_valid, a password holding U+2029 is accepted and the
   plain line holding it reads as two passwords *)
Theorem refuted_plain_2029 :
  check_valid rejected_2021 true [97; 98; 8233; 99; 100] = true /\
  out (read_text (codecs_reader rejected_2021) (plain_line [97; 98; 8233; 99; 100])) = [[97; 98; 8233]; [99; 100]].
Proof. vm_compute. split; reflexivity. Qed.

(* ================================================================ C06 *)

Lemma Q_class_stable : forall (q a b : Q), nltb QNum a b = true -> Qeq_bool a q = true -> Qeq_bool b q = false.
Proof.
  simpl. intros q a b Hlt Ha. apply Qeq_bool_iff in Ha.
  destruct (Qeq_bool b q) eqn:E; [|reflexivity]. apply Qeq_bool_iff in E.
  apply negb_true_iff in Hlt. assert (Hle : Qle_bool b a = true).
  { apply Qle_bool_iff. rewrite Ha, E. apply Qle_refl. }
  rewrite Hle in Hlt. discriminate.
Qed.

Theorem each_once_sorted : forall items : list str, items <> [] ->
  let c := @of_counts QNum (tally items) in
  let file := calc_probs c in
  file = map (fun kv => (fst kv, (snd kv / total c)%Q)) (most_common c) /\
  Permutation (most_common c) c /\
  NoDup (map fst file) /\
  (forall v, In v (map fst file) <-> In v items) /\
  (forall v p, In (v, p) file ->
     (p == inject_Z (Z.of_nat (count_str v items)) / inject_Z (Z.of_nat (length items)))%Q) /\
  StronglySorted (fun a b => (snd b <= snd a)%Q) file /\
  (forall q : Q, filter (fun kv => Qeq_bool (snd kv) q) (most_common c) = filter (fun kv => Qeq_bool (snd kv) q) c) /\
  map fst c = nodup_first items.
Proof.
  intros items Hne c file.
  assert (Hkeys : map fst c = map fst (tally items)).
  { unfold c, of_counts. rewrite map_map. reflexivity. }
  split; [reflexivity|]. split; [apply most_common_perm|].
  split; [apply calc_probs_keys_nodup; rewrite Hkeys; apply tally_keys_nodup|].
  split.
  { assert (Hin : forall v, In v (map fst c) <-> In v items) by (intro v; rewrite Hkeys; apply tally_keys_in).
    intro v. split; intro H.
    - apply Hin. apply (proj1 (calc_probs_keys_in QNum c v)). exact H.
    - apply (proj2 (calc_probs_keys_in QNum c v)). apply Hin. exact H. }
  split; [intros v p H; apply (tally_probability_Q items v p Hne H)|].
  split.
  { apply calc_probs_sorted_Q. unfold c. rewrite total_tally_Q.
    destruct items as [|x r]; [contradiction|]. simpl length.
    change 0%Q with (inject_Z 0). rewrite <- Zlt_Qlt. lia. }
  split.
  { intro q. apply (most_common_stable QNum (fun x => Qeq_bool x q) c). intros a b. apply Q_class_stable. }
  rewrite Hkeys. apply tally_keys.
Qed.

Theorem sum_one_Q :
  (forall c : counter QNum, ~ (total c == 0)%Q -> (qsum (map snd (calc_probs c)) == 1)%Q) /\
  (forall items : list str, items <> [] -> (qsum (map snd (calc_probs (@of_counts QNum (tally items)))) == 1)%Q).
Proof.
  split; [exact calc_probs_sum_one_Q|].
  intros items Hne. apply calc_probs_sum_one_Q. rewrite total_tally_Q.
  destruct items as [|x r]; [contradiction|]. simpl length. intro E.
  unfold Qeq in E. simpl in E. lia.
Qed.

Theorem markov_count : forall (cov : Q) (n : N) (c : counter QNum),
  ((cov == 1)%Q -> @with_markov QNum cov n c = c) /\
  ((cov == 0)%Q -> @with_markov QNum cov n c = [(M_key, 1%Q)]) /\
  (~ (cov == 1)%Q -> ~ (cov == 0)%Q ->
     @with_markov QNum cov n c = dict_set M_key (inject_Z (Z.of_N n) / cov - inject_Z (Z.of_N n))%Q c /\
     (inject_Z (Z.of_N n) / cov - inject_Z (Z.of_N n) == inject_Z (Z.of_N n) * (1 / cov - 1))%Q /\
     (~ In M_key (map fst c) ->
        @with_markov QNum cov n c = c ++ [(M_key, (inject_Z (Z.of_N n) / cov - inject_Z (Z.of_N n))%Q)])) /\
  ((0 < cov)%Q -> (cov < 1)%Q -> (0 < n)%N -> ~ In M_key (map fst c) -> (total c == inject_Z (Z.of_N n))%Q ->
     exists p, In (M_key, p) (calc_probs (@with_markov QNum cov n c)) /\ (p == 1 - cov)%Q).
Proof.
  intros cov n c.
  split; [apply with_markov_cov_one|]. split; [apply with_markov_cov_zero|]. split.
  - intros H1 H0. destruct (with_markov_other cov n c H1 H0) as [E1 E2].
    split; [exact E1|]. split; [exact E2|].
    intro Hn. rewrite E1. apply dict_set_absent. exact Hn.
  - apply markov_probability_Q.
Qed.

Theorem unsupported_only_raw : forall pws : list (list str),
  (forall s, In s (map fst (sc_base (count_structs pws))) ->
     exists ls, In ls pws /\ supported ls = true /\ s = structure ls) /\
  (forall ls, In ls pws -> supported ls = true -> In (structure ls) (map fst (sc_base (count_structs pws)))) /\
  (forall ls, In ls pws -> In (structure ls) (map fst (sc_raw (count_structs pws)))) /\
  (Forall (fun ls => forallb wf_label ls = true) pws ->
     forall s, In s (map fst (sc_base (count_structs pws))) -> ~ In 69 s /\ ~ In 87 s) /\
  (forall ls, In ls pws -> supported ls = false -> In 69 (structure ls) \/ In 87 (structure ls)) /\
  sc_base (count_structs pws) = tally (map structure (filter supported pws)) /\
  sc_raw (count_structs pws) = tally (map structure pws) /\
  sc_prince (count_structs pws) = tally (List.concat pws).
Proof.
  intro pws.
  split; [apply count_structs_base|]. split; [apply count_structs_base_all|]. split; [apply count_structs_raw_all|].
  split.
  { intros H s H0. destruct (count_structs_base pws s H0) as [ls [Hin [Hs E]]]. subst s.
    rewrite Forall_forall in H. apply (supported_no_EW ls (H ls Hin) Hs). }
  split; [intros ls _ Hs; apply unsupported_has_EW; exact Hs|].
  split; [apply count_structs_base_is_tally|]. split; [apply count_structs_raw_is_tally|].
  apply count_structs_prince_is_tally.
Qed.

(* one training run: the files and the config lists are functions of the
   counters (themselves tallies of the password sequence's segmentation) and
   the options; the uuid is the only other input and reaches only config.ini;
   what the rule folders held before is irrelevant (they are wiped) *)
Record run_output (O : numops) := {
  ro_files : list (str * folder O);
  ro_lists : list (str * list str);
  ro_uuid : str;
}.

Definition run_model (O : numops) (P : pcounters) sens (cov : num O) (n : N) (uuid : str) : run_output O :=
  {| ro_files := save_pcfg_data O P sens cov n; ro_lists := config_lists O P; ro_uuid := uuid |}.

Theorem deterministic : forall (O : numops) P sens (cov : num O) n u1 u2,
  ro_files O (run_model O P sens cov n u1) = ro_files O (run_model O P sens cov n u2) /\
  ro_lists O (run_model O P sens cov n u1) = ro_lists O (run_model O P sens cov n u2) /\
  (forall old old' (cs : list (str * counter O)), save_indexed old cs = save_indexed old' cs).
Proof. intros. split; [reflexivity|]. split; [reflexivity|]. intros. apply save_indexed_wipes. Qed.
