(* Runtime of the generated priority-queue object (gen/Queue_gen.v, written on
   every run by harness/translate_queue.py from the Python source of
   lib_guesser/priority_queue.py: class QueueItem, class PcfgQueue, and of
   PcfgGrammar.restore_prob_order in lib_guesser/pcfg_grammar.py).  It extends
   KernelRt.v (loops as folds with Continue / Return, `extend` for the record of
   save_function calls) by what the queue object needs.  Definitions only; the
   lemmas are in QueueProofs.v / QueueGenProofs.v.

   Conventions of the translation (see the translator's docstring):
   * The PcfgQueue object is the record [pcfg_queue]: one field per data
     attribute (p_queue, max_probability, min_probability, max_queue_size).  A
     method that changes the object is a function from the object to the new
     object; `self.f = e` is [set_f self e].  `self.pcfg` is the ruleset
     parameter [rs] of the generated function.
   * QueueItem(x) wraps a parse-tree item in an object whose only attribute is
     pt_item: the wrapper is the identity ([QueueItem], [unwrap]).
   * heapq is NOT translated: the heap is the list of its elements and
     `heapq.heappush(h, x)` / `heapq.heappop(h)` are the parameters [push] / [pop]
     of the generated functions.  The theorems hold for EVERY push / pop that
     meet the contract [push_ok] / [heap_ok lt] (lt = the generated __lt__):
     push adds the element, pop removes an element no remaining element is
     __lt__-smaller than.  heappop of an empty heap (IndexError) is not
     modelled: the continuation gets the undefined value [d].
   * A float literal is [flit x] for a parameter flit : float -> P (the identity
     for binary64); an int literal stored in an attribute is a binary natural N.
   * configparser: a config object is the association list of the values that
     were set, newest first; `cfg.set(s, k, str(p))` / `cfg.getfloat(s, k)` are
     [cfg_set] / [cfg_getfloat], the stored value being the float whose text is
     stored ([py_str] is the identity: float(str(p)) = p is a CPython guarantee
     that is trusted and exercised by the correspondence of C08).  A missing
     option (NoOptionError) is the undefined value.
   * A bound method handed to a callee as a callback (self.insert_queue given to
     restore_prob_order) is applied to the recorded sequence of the callee's
     calls, in order ([with_callback]): the callee has no other access to the
     object, so running the calls after it returns is the same. *)
From Coq Require Import String.
From Coq Require Import List Arith Bool NArith Sorting.Permutation.
From Pcfg Require Import ProbAlg Next KernelRt.
Import ListNotations.

Section QueueRt.
Context {A : palg}.
Notation P := (ProbAlg.P A).
Notation item := (Next.item A).

(* ---- QueueItem ---- *)
Definition qitem : Type := item.
Definition QueueItem (x : item) : qitem := x.
Definition unwrap (q : qitem) : item := q.

(* ---- the heap: heapq over a Python list ---- *)
Definition heap : Type := list qitem.

Definition heappush (push : heap -> qitem -> heap) (h : heap) (x : qitem) : heap := push h x.

Definition heappop {R : Type} (pop : heap -> option (qitem * heap)) (d : qitem) (h : heap)
           (k : qitem -> heap -> R) : R :=
  match pop h with
  | Some (x, r) => k x r
  | None => k d h
  end.

(* the contract of heapq, for an arbitrary __lt__ *)
Definition push_ok (push : heap -> qitem -> heap) : Prop :=
  forall h x, Permutation (push h x) (x :: h).

Definition heap_ok (lt : qitem -> qitem -> bool) (pop : heap -> option (qitem * heap)) : Prop :=
  (forall h, pop h = None <-> h = []) /\
  (forall h x r, Forall (fun y => okb (iprob y) = true) h -> pop h = Some (x, r) ->
     Permutation h (x :: r) /\ Forall (fun y => lt y x = false) r).

(* ---- the PcfgQueue object ---- *)
Record pcfg_queue := {
  p_queue : heap;
  max_probability : P;
  min_probability : P;
  max_queue_size : N
}.

Definition set_p_queue (s : pcfg_queue) (v : heap) : pcfg_queue :=
  {| p_queue := v; max_probability := max_probability s; min_probability := min_probability s;
     max_queue_size := max_queue_size s |}.
Definition set_max_probability (s : pcfg_queue) (v : P) : pcfg_queue :=
  {| p_queue := p_queue s; max_probability := v; min_probability := min_probability s;
     max_queue_size := max_queue_size s |}.
Definition set_min_probability (s : pcfg_queue) (v : P) : pcfg_queue :=
  {| p_queue := p_queue s; max_probability := max_probability s; min_probability := v;
     max_queue_size := max_queue_size s |}.
Definition set_max_queue_size (s : pcfg_queue) (v : N) : pcfg_queue :=
  {| p_queue := p_queue s; max_probability := max_probability s; min_probability := min_probability s;
     max_queue_size := v |}.

(* the object __init__ starts from: no attribute is set yet.  The translator
   checks that __init__ sets every attribute before it is read and before it
   returns, so the values below are never observed; d is an undefined value. *)
Definition new_object (d : P) : pcfg_queue :=
  {| p_queue := []; max_probability := d; min_probability := d; max_queue_size := 0%N |}.

(* ---- configparser ---- *)
Definition config : Type := list (string * string * P).

Definition cfg_set (c : config) (s k : string) (v : P) : config := (s, k, v) :: c.

Fixpoint cfg_getfloat (d : P) (c : config) (s k : string) : P :=
  match c with
  | [] => d
  | (s', k', v) :: r => if (String.eqb s s' && String.eqb k k')%bool then v else cfg_getfloat d r s k
  end.

Definition py_str (p : P) : P := p.

(* ---- a bound method of the object used as a callback ---- *)
Definition with_callback {R X S : Type} (res : R * list X) (f : S -> X -> S) (s : S) : R * S :=
  (fst res, fold_left f (snd res) s).

End QueueRt.

Arguments qitem : clear implicits.
Arguments heap : clear implicits.
Arguments pcfg_queue : clear implicits.
Arguments config : clear implicits.
