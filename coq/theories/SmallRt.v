(* Runtime of the generated small kernels (gen/Small_*_gen.v, written on every
   run by harness/translate_small.py from the Python text of
     lib_guesser/pcfg_grammar.py        random_walk
     lib_trainer/calculate_probabilities.py   calculate_probabilities
     edit_rules.py                      check_regex, edit_terminal_set, edit_length).
   The translator emits lets, ifs, tuples, calls of the model's oracles and the
   combinators below, so that the generated text is a line-by-line image of the
   Python.  Definitions only; the lemmas are in SmallGenProofs.v.

   Conventions (see the translator's docstring):
   * Python ints are naturals (a subtraction is truncated: [e - 1] at e = 0 is 0
     where Python has -1; the translator documents where that can matter).
   * Python lists are Coq lists; `l[i] = x` on a fresh local list is
     [KernelRt.set_nth], `l.append(x)` is [KernelRt.append], `l[i]` is the total
     [KernelRt.sub d l i] with [d] an "undefined" value the generated section is
     parameterised by (Python raises IndexError there).
   * A for loop is a fold over the iterated list whose body says, per iteration,
     [Cont s] (next iteration with loop-carried variables s; also `continue`),
     [Brk s] (`break`) or [Ret r] (the enclosing function returns r).  The
     `else:` block of the loop is the state transformer [orelse], run when the
     list is exhausted without `break`; what follows the loop is the
     continuation [k].  A loop without `else:` has [orelse = fun st => st]. *)
From Coq Require Import List Arith NArith Bool.
From Pcfg Require Import KernelRt.
Import ListNotations.

Inductive ctl3 (R St : Type) : Type :=
| Cont (s : St)
| Brk (s : St)
| Ret (r : R).
Arguments Cont {R St} s.
Arguments Brk {R St} s.
Arguments Ret {R St} r.

Section Loops.
Context {X R St : Type}.

(* the loop proper: i is the position of the head of l in the iterated list *)
Fixpoint loop_from (i : nat) (l : list X) (body : nat -> X -> St -> ctl3 R St) (s : St)
         (kelse kbrk : St -> R) : R :=
  match l with
  | [] => kelse s
  | x :: r =>
      match body i x s with
      | Cont s' => loop_from (S i) r body s' kelse kbrk
      | Brk s' => kbrk s'
      | Ret v => v
      end
  end.

(* for x in l: body  [else: orelse] *)
Definition for_each (l : list X) (body : X -> St -> ctl3 R St) (s : St) (orelse : St -> St) (k : St -> R) : R :=
  loop_from 0 l (fun _ => body) s (fun s' => k (orelse s')) k.

(* for pos, x in enumerate(l): body  [else: orelse] *)
Definition for_enum (l : list X) (body : nat -> X -> St -> ctl3 R St) (s : St) (orelse : St -> St) (k : St -> R) : R :=
  loop_from 0 l body s (fun s' => k (orelse s')) k.

End Loops.

(* for pos in range(a, b): body  [else: orelse] *)
Definition for_range {R St : Type} (a b : nat) (body : nat -> St -> ctl3 R St) (s : St) (orelse : St -> St)
           (k : St -> R) : R :=
  for_each (seq a (b - a)) body s orelse k.

(* for pos, x in enumerate(l): body  [else: orelse]   where the body assigns
   items of l itself (`l[j] = e`, the only mutation of the iterated list the
   translator accepts: it never changes the length).  Python's list iterator
   reads l[pos] from the CURRENT list at the start of each iteration and stops
   when pos reaches len(l); with the length constant that is: positions
   0 .. len(l)-1 of the list as it was before the loop, the item read from the
   list held in the loop state ([cur] projects it out of the state). *)
Definition for_enum_cur {X R St : Type} (d : X) (l : list X) (cur : St -> list X)
           (body : nat -> X -> St -> ctl3 R St) (s : St) (orelse : St -> St) (k : St -> R) : R :=
  for_each (seq 0 (length l)) (fun i s' => body i (sub d (cur s') i) s') s orelse k.

(* random.random(): the draws are an explicit list, consumed from the front.
   [d] is what is drawn from an exhausted list (never happens in Python). *)
Definition draw {T : Type} (d : T) (rnd : list T) : T := hd d rnd.
Definition drawn {T : Type} (rnd : list T) : list T := tl rnd.

(* ---------------------------------------------------------------- strings *)
(* str = list of code points *)

(* s.split(c) for a one-character separator: always at least one field *)
Fixpoint split_on (c : N) (s : list N) : list (list N) :=
  match s with
  | [] => [[]]
  | x :: r =>
      if N.eqb x c then [] :: split_on c r
      else match split_on c r with
           | f :: fs => (x :: f) :: fs
           | [] => [[x]]           (* unreachable: split_on never returns [] *)
           end
  end.

(* s.strip(): [sp] says which code points str.isspace() holds for *)
Fixpoint lstrip (sp : N -> bool) (s : list N) : list N :=
  match s with
  | [] => []
  | x :: r => if sp x then lstrip sp r else s
  end.
Definition strip (sp : N -> bool) (s : list N) : list N := rev (lstrip sp (rev (lstrip sp s))).

(* s[0] as Python has it: a one-character string ([d] where Python raises IndexError) *)
Definition char0 (d : list N) (s : list N) : list N :=
  match s with
  | [] => d
  | c :: _ => [c]
  end.

Fixpoint list_eqb {X : Type} (e : X -> X -> bool) (a b : list X) : bool :=
  match a, b with
  | [], [] => true
  | x :: a', y :: b' => e x y && list_eqb e a' b'
  | _, _ => false
  end.
Definition s_eqb : list N -> list N -> bool := list_eqb N.eqb.

(* x in l   for a list of strings *)
Definition s_in (x : list N) (l : list (list N)) : bool := existsb (s_eqb x) l.

(* truth value of a string / list: non-empty *)
Definition nonempty {X : Type} (l : list X) : bool := match l with [] => false | _ => true end.

(* ---------------------------------------------------------------- kernel-specific accessors *)
From Pcfg Require Import Honey Counters EditRules.

(* (a) random_walk: self.grammar[v] as the sampler model has it (a list of (probability, size)) *)
Definition hrow {T : Type} (g : @hgrammar T) (v : nat) : list (T * nat) := nth v (htable g) [].

(* (b) calculate_probabilities: counter.values(), sum(...) left to right from 0 *)
Definition py_values {O : numops} (c : counter O) : list (num O) := map snd c.
Definition py_sum {O : numops} (l : list (num O)) : num O := fold_left (nadd O) l (nzero O).

(* (c) edit_rules: config.get('terminal_set') is a list of strings or False.
   False is the model's None and, where a list is expected, the empty list
   (both are falsy; the function receiving it is only called under the truth test) *)
Definition cfg_list (o : option (list (list N))) : list (list N) := match o with Some s => s | None => [] end.
