(* PipelineLoad.v - the guesser half of the pipeline model (Pipeline.v) with
   the ideal disk stage: what grammar_io.load_grammar builds from the ruleset
   [save] wrote, in closed form.
     load_sections ... = Some (grammar_of P)      the terminals, by variable name
     load_base_structures ... = ...               the base structures
*)
From Coq Require Import String List NArith ZArith Bool Lia Sorting.Permutation FinFun.
From Pcfg Require Import ProbAlg Str Detect Segment TextFile TextFileProofs Counters CountersProofs LtallyProofs
     Loader Next NextSpec Expand Pipeline PipelineStr PipelineTrain.
Import ListNotations.

(* ------------------------------------------------------------------ *)
(* Python dicts as association lists                                   *)
(* ------------------------------------------------------------------ *)

Lemma dict_get_in {V} k (d : list (TextFile.str * V)) v : dict_get k d = Some v -> In (k, v) d.
Proof.
  induction d as [|[k' v'] d IH]; simpl; [discriminate|].
  destruct (TextFile.str_eqb k k') eqn:Ek.
  - apply str_eqb_true_iff in Ek. subst. intros H. injection H as <-. now left.
  - intros H. right. now apply IH.
Qed.

Lemma dict_get_nodup {V} (d : list (TextFile.str * V)) k v :
  NoDup (map fst d) -> In (k, v) d -> dict_get k d = Some v.
Proof.
  induction d as [|[k' v'] d IH]; intros Hn Hin; [contradiction|]. simpl in *.
  inversion Hn as [|? ? Hnot Hn']; subst.
  destruct Hin as [Hin|Hin].
  - injection Hin as -> ->. now rewrite str_eqb_same.
  - destruct (TextFile.str_eqb k k') eqn:Ek.
    + apply str_eqb_true_iff in Ek. subst. exfalso. apply Hnot. apply in_map_iff. now exists (k', v).
    + now apply IH.
Qed.

Lemma dict_get_none {V} (d : list (TextFile.str * V)) k : dict_get k d = None <-> ~ In k (map fst d).
Proof.
  induction d as [|[k' v'] d IH]; simpl; [tauto|].
  destruct (TextFile.str_eqb k k') eqn:Ek.
  - apply str_eqb_true_iff in Ek. subst. split; [discriminate|]. intros H. exfalso. apply H. now left.
  - apply str_eqb_false_iff in Ek. rewrite IH. split; [intros H [H'|H']; [congruence|tauto]|tauto].
Qed.

Lemma dict_set_fresh' {V} : forall (d : list (TextFile.str * V)) k v,
  ~ In k (map fst d) -> dict_set k v d = d ++ [(k, v)].
Proof.
  induction d as [|[k' v'] d IH]; intros k v H; [reflexivity|].
  simpl. destruct (TextFile.str_eqb k k') eqn:Ek.
  - apply str_eqb_true_iff in Ek. subst. exfalso. apply H. now left.
  - rewrite IH; [reflexivity|]. intro Hin. apply H. now right.
Qed.

Lemma fold_dict_set_fresh {V} : forall (es g : list (TextFile.str * V)),
  NoDup (map fst es) -> (forall k, In k (map fst es) -> ~ In k (map fst g)) ->
  fold_left (fun g e => dict_set (fst e) (snd e) g) es g = g ++ es.
Proof.
  induction es as [|[k v] es IH]; intros g Hn Hf; [now rewrite app_nil_r|].
  simpl. inversion Hn as [|? ? Hk Hn']; subst.
  rewrite dict_set_fresh' by (apply Hf; now left).
  rewrite IH; [now rewrite <- app_assoc|assumption|].
  intros k' Hk' Hin. rewrite map_app, in_app_iff in Hin. destruct Hin as [Hin|[<-|[]]].
  - apply (Hf k'); [now right|assumption].
  - contradiction.
Qed.

(* ------------------------------------------------------------------ *)
(* the terminals                                                       *)
(* ------------------------------------------------------------------ *)

Section Load.
Context {A : palg}.
Variable R : parith A.
Notation OPS := (ops_of R).

(* the groups the guesser holds for a counter *)
Definition groups_of (c : list (TextFile.str * N)) : list (list TextFile.str * P A) :=
  ggroup R (calc_probs (@of_counts OPS c)).

Definition grammar_of (P : pcounters) : grammar A :=
  map (fun nc => (fst nc, groups_of (snd nc))) (term_counters P).

Lemma load_files_fold (s : saved R) letter dir fo :
  dict_get dir (s_files s) = Some fo ->
  forall fo' g, (forall e, In e fo' -> dict_get (fst e) fo = Some (snd e)) ->
  load_files R (disk_ideal R) s letter dir (map fst fo') g =
  Some (fold_left (fun g e => dict_set (fst e) (snd e) g)
                  (map (fun e => (name_of letter (fst e), ggroup R (snd e))) fo') g).
Proof.
  intros Hd. induction fo' as [|e fo' IH]; intros g H; [reflexivity|].
  simpl. unfold lookup_file. rewrite Hd, (H e (or_introl eq_refl)). unfold disk_ideal.
  apply IH. intros e' He'. apply H. now right.
Qed.

Lemma lnamed_keys letter d : map fst (lnamed letter d) = map (fun n => letter :: dec_of_N n) (map fst d).
Proof. unfold lnamed. rewrite !map_map. reflexivity. Qed.

Lemma lnamed_nodup letter d : NoDup (map fst d) -> NoDup (map fst (lnamed letter d)).
Proof.
  intros H. rewrite lnamed_keys. apply Injective_map_NoDup; [|assumption].
  intros a b Hab. injection Hab as Hab. now apply dec_of_N_inj.
Qed.

Lemma lnamed_hd letter d k : In k (map fst (lnamed letter d)) -> hd 0%N k = letter.
Proof. rewrite lnamed_keys, map_map. intros H. apply in_map_iff in H. destruct H as (n & <- & _). reflexivity. Qed.

(* one length-indexed section: BASE_A, CAPITALIZATION, BASE_D, BASE_O, BASE_K *)
Lemma load_section_indexed (s : saved R) g sec letter dir (d : list (N * list (TextFile.str * N))) rest :
  dict_get sec (s_lists s) = Some (filename_list (@lkeys OPS d)) ->
  dict_get sec (config_dirs : list (TextFile.str * TextFile.str)) = Some dir ->
  dict_get dir (s_files s) = Some (save_indexed [] (@lkeys OPS d)) ->
  NoDup (map fst d) ->
  (forall k, In k (map fst g) -> hd 0%N k <> letter) ->
  load_sections R (disk_ideal R) s ((sec, [letter]) :: rest) g =
  load_sections R (disk_ideal R) s rest (g ++ map (fun nc => (fst nc, groups_of (snd nc))) (lnamed letter d)).
Proof.
  intros Hl Hc Hf Hn Hg. cbn [load_sections]. rewrite Hl, Hc.
  set (fo := save_indexed [] (@lkeys OPS d)).
  assert (Hnames : filename_list (@lkeys OPS d) = map fst fo) by (symmetry; apply save_indexed_names).
  assert (Hfo : NoDup (map fst fo)).
  { apply save_indexed_names_nodup. unfold lkeys. rewrite map_map. simpl.
    rewrite <- (map_map fst dec_of_N). apply Injective_map_NoDup; [|assumption]. intros a b. apply dec_of_N_inj. }
  rewrite Hnames, (load_files_fold s [letter] dir fo Hf fo g).
  2:{ intros [k v] He. now apply dict_get_nodup. }
  assert (Hes : map (fun e => (name_of [letter] (fst e), ggroup R (snd e))) fo =
                map (fun nc => (fst nc, groups_of (snd nc))) (lnamed letter d)).
  { unfold fo, save_indexed, lkeys, lnamed. rewrite !map_map. apply map_ext. intros [n c]. simpl.
    rewrite name_of_file_name by apply dec_of_N_digits. reflexivity. }
  rewrite Hes, fold_dict_set_fresh; [reflexivity| |].
  - rewrite map_map. simpl. apply (lnamed_nodup letter d Hn).
  - intros k Hk Hin. rewrite map_map in Hk. simpl in Hk. apply (lnamed_hd letter d) in Hk. now apply (Hg k).
Qed.

(* Years / Context: one file "1.txt" *)
Lemma load_section_single (s : saved R) g sec letter dir (c : counter OPS) rest :
  dict_get sec (s_lists s) = Some [file_name [49%N]] ->
  dict_get sec (config_dirs : list (TextFile.str * TextFile.str)) = Some dir ->
  dict_get dir (s_files s) = Some (save_indexed [] [([49%N], c)]) ->
  (forall k, In k (map fst g) -> hd 0%N k <> letter) ->
  load_sections R (disk_ideal R) s ((sec, [letter]) :: rest) g =
  load_sections R (disk_ideal R) s rest (g ++ [([letter; 49%N], ggroup R (calc_probs c))]).
Proof.
  intros Hl Hc Hf Hg. cbn [load_sections]. rewrite Hl, Hc.
  change [file_name [49%N]] with (map fst (save_indexed [] [([49%N], c)])).
  rewrite (load_files_fold s [letter] dir _ Hf).
  2:{ intros e [<-|[]]. reflexivity. }
  simpl. rewrite name_of_one_txt. simpl. rewrite dict_set_fresh'; [reflexivity|].
  intros Hin. now apply (Hg _ Hin).
Qed.

(* the seven sections of a ruleset written by [save] *)
Theorem load_sections_saved (t : trained A) :
  let PC := t_counters t in
  NoDup (map fst (pc_alpha PC)) -> NoDup (map fst (pc_masks PC)) -> NoDup (map fst (pc_digits PC)) ->
  NoDup (map fst (pc_other PC)) -> NoDup (map fst (pc_keyboard PC)) ->
  load_sections R (disk_ideal R) (save R t) guesser_sections [] = Some (grammar_of (t_counters t)).
Proof.
  intros PC NA NC ND NO NK. unfold guesser_sections. cbn [map fst snd].
  assert (Hhd : forall (l : list (TextFile.str * list (list TextFile.str * ProbAlg.P A))) letters,
            Forall (fun k => In (hd 0%N k) letters) (map fst l) ->
            forall c, ~ In c letters -> forall k, In k (map fst l) -> hd 0%N k <> c).
  { intros l letters Hl c Hc k Hk E. rewrite Forall_forall in Hl. specialize (Hl k Hk). congruence. }
  pose (ent := fun letter d => map (fun nc : TextFile.str * list (TextFile.str * N) => (fst nc, groups_of (snd nc))) (lnamed letter d)).
  assert (Hent : forall letter d, Forall (fun k => hd 0%N k = letter) (map fst (ent letter d))).
  { intros letter d. apply Forall_forall. intros k Hk. unfold ent in Hk. rewrite map_map in Hk. simpl in Hk.
    now apply (lnamed_hd letter d). }
  (* A *)
  rewrite (load_section_indexed (save R t) [] (str_of_string "BASE_A") 65%N (str_of_string "Alpha") (pc_alpha PC));
    [|reflexivity|reflexivity|reflexivity|assumption|intros k []].
  (* C *)
  rewrite (load_section_indexed (save R t) _ (str_of_string "CAPITALIZATION") 67%N (str_of_string "Capitalization") (pc_masks PC));
    [|reflexivity|reflexivity|reflexivity|assumption|].
  2:{ apply (Hhd _ [65%N]); [|simpl; intuition discriminate]. simpl app.
      eapply Forall_impl; [|apply (Hent 65%N)]. intros k ->. now left. }
  (* D *)
  rewrite (load_section_indexed (save R t) _ (str_of_string "BASE_D") 68%N (str_of_string "Digits") (pc_digits PC));
    [|reflexivity|reflexivity|reflexivity|assumption|].
  2:{ apply (Hhd _ [65%N; 67%N]); [|simpl; intuition discriminate]. simpl app. rewrite map_app. apply Forall_app. split;
      (eapply Forall_impl; [|apply Hent]); intros k ->; simpl; tauto. }
  (* O *)
  rewrite (load_section_indexed (save R t) _ (str_of_string "BASE_O") 79%N (str_of_string "Other") (pc_other PC));
    [|reflexivity|reflexivity|reflexivity|assumption|].
  2:{ apply (Hhd _ [65%N; 67%N; 68%N]); [|simpl; intuition discriminate]. simpl app. rewrite !map_app, !Forall_app. repeat split;
      (eapply Forall_impl; [|apply Hent]); intros k ->; simpl; tauto. }
  (* K *)
  rewrite (load_section_indexed (save R t) _ (str_of_string "BASE_K") 75%N (str_of_string "Keyboard") (pc_keyboard PC));
    [|reflexivity|reflexivity|reflexivity|assumption|].
  2:{ apply (Hhd _ [65%N; 67%N; 68%N; 79%N]); [|simpl; intuition discriminate]. simpl app. rewrite !map_app, !Forall_app. repeat split;
      (eapply Forall_impl; [|apply Hent]); intros k ->; simpl; tauto. }
  (* Y *)
  rewrite (load_section_single (save R t) _ (str_of_string "BASE_Y") 89%N (str_of_string "Years") (@of_counts OPS (pc_years PC)));
    [|reflexivity|reflexivity|reflexivity|].
  2:{ apply (Hhd _ [65%N; 67%N; 68%N; 79%N; 75%N]); [|simpl; intuition discriminate]. simpl app. rewrite !map_app, !Forall_app. repeat split;
      (eapply Forall_impl; [|apply Hent]); intros k ->; simpl; tauto. }
  (* X *)
  rewrite (load_section_single (save R t) _ (str_of_string "BASE_X") 88%N (str_of_string "Context") (@of_counts OPS (pc_context PC)));
    [|reflexivity|reflexivity|reflexivity|].
  2:{ apply (Hhd _ [65%N; 67%N; 68%N; 79%N; 75%N; 89%N]); [|simpl; intuition discriminate]. simpl app. rewrite !map_app, !Forall_app.
      repeat split; try ((eapply Forall_impl; [|apply Hent]); intros k ->; simpl; tauto).
      constructor; [simpl; tauto|constructor]. }
  simpl load_sections. f_equal. unfold grammar_of, term_counters. simpl app. rewrite !map_app. rewrite <- !app_assoc. reflexivity.
Qed.

End Load.

(* ------------------------------------------------------------------ *)
(* the base structures (Loader.load_bases with skip_brute and rewind)  *)
(* ------------------------------------------------------------------ *)

Section Bases.
Context {T : Type}.
Variables (one : T) (psub pdiv : T -> T -> T) (iszero : T -> bool) (isalpha : N -> bool).

Notation toks := (PipelineSpec.toks isalpha).
Notation nonM := (@PipelineSpec.nonM T isalpha).
Notation skip_total := (@PipelineSpec.skip_total T one psub).

Lemma read_bases_spec total (ls : list (Expand.str * T)) :
  (ls <> [] -> iszero total = false) ->
  Forall (fun l => Loader.tokenize isalpha (fst l) <> None) ls ->
  Loader.read_bases pdiv iszero isalpha true total ls =
  Some (map (fun l => (pdiv (snd l) total, toks (fst l))) (filter nonM ls)).
Proof.
  intros Hz Ht. induction Ht as [|[s p] r Hs Hr IH]; [reflexivity|].
  cbn [Loader.read_bases]. rewrite Hz by discriminate.
  assert (Hz' : r <> [] -> iszero total = false) by (intros _; apply Hz; discriminate).
  rewrite (IH Hz'). simpl in Hs.
  destruct (Loader.tokenize isalpha s) as [tk|] eqn:Etk; [|congruence].
  assert (Etoks : toks s = tk) by (unfold toks; now rewrite Etk).
  assert (EnM : nonM (s, p) = negb (Loader.has_M tk)) by (unfold nonM; cbn [fst]; now rewrite Etoks).
  cbn [filter]. rewrite EnM.
  destruct (Loader.has_M tk); cbn [negb orb map fst snd]; rewrite ?Etoks; reflexivity.
Qed.


Theorem load_bases_spec (ls : list (Expand.str * T)) :
  (ls <> [] -> iszero (skip_total ls) = false) ->
  Forall (fun l => Loader.tokenize isalpha (fst l) <> None) ls ->
  Loader.load_bases one psub pdiv iszero isalpha true true ls =
  Some (map (fun l => (pdiv (snd l) (skip_total ls), Loader.insert_caps (toks (fst l)))) (filter nonM ls)).
Proof.
  intros Hz Ht. unfold Loader.load_bases. unfold skip_total in *.
  destruct (Loader.scan_M ls) as [pm|]; (rewrite (read_bases_spec _ ls Hz Ht); cbn [option_map]; now rewrite map_map).
Qed.
End Bases.

(* keys of a counter after the Markov pseudo-count *)
Lemma dict_set_keys {V} k' (v : V) : forall d k,
  In k (map fst (dict_set k' v d)) <-> k = k' \/ In k (map fst d).
Proof.
  induction d as [|[k0 v0] d IH]; intros k; simpl; [intuition|].
  destruct (TextFile.str_eqb k' k0) eqn:Ek; simpl.
  - apply str_eqb_true_iff in Ek. subst. intuition.
  - rewrite IH. intuition.
Qed.

Section Markov.
Context {A : palg}.
Variable R : parith A.
Notation OPS := (ops_of R).

Lemma with_markov_keys_sub cov n (c : counter OPS) k :
  In k (map fst (@with_markov OPS cov n c)) -> k = M_key \/ In k (map fst c).
Proof.
  unfold with_markov. destruct (neqb OPS cov (none OPS)); [tauto|].
  destruct (neqb OPS cov (nzero OPS)); [simpl; intuition|]. apply dict_set_keys.
Qed.

Lemma with_markov_keys_sup cov n (c : counter OPS) k :
  neqb OPS cov (nzero OPS) = false -> In k (map fst c) -> In k (map fst (@with_markov OPS cov n c)).
Proof.
  intros Hz Hk. unfold with_markov. destruct (neqb OPS cov (none OPS)); [assumption|]. rewrite Hz.
  apply dict_set_keys. now right.
Qed.

Notation base_counter := (PipelineSpec.base_counter R).
Notation base_file := (PipelineSpec.base_file R).

Lemma lookup_grammar (t : trained A) :
  lookup_file R (save R t) (str_of_string "Grammar") (str_of_string "grammar.txt") = Some (base_file t).
Proof. reflexivity. Qed.

Lemma load_base_structures_saved (E : env) (t : trained A) :
  load_base_structures R E (@disk_base_ideal A) (save R t) =
  Loader.load_bases (a_one R) (a_sub R) (a_div R) (fun x => a_eqb R x (a_zero R)) (e_isalpha E) (e_rewinds E) true
                    (base_file t).
Proof. unfold load_base_structures. now rewrite lookup_grammar. Qed.
End Markov.
