(* Runtime of the generated expansion kernel (gen/Expand_gen.v, written on every
   run by harness/translate_expand.py from the Python text of
   PcfgGrammar.omen_generate_guesses, _recursive_guesses and create_guesses).
   The translator emits nothing but lets, ifs, the loop forms of KernelRt.v and
   the combinators below, so that the generated text is a line-by-line image of
   the Python.  Definitions only; lemmas are in ExpandGenProofs.v.

   Conventions of the translation (see the translator's docstring):
   * A Python str is the list of its code points ([pstr] = list N); a character
     is a string of length one (iterating over a str gives [chars s]).
   * A Python int is a [Z].  `None or int` (the limit) is [option Z]; the test
     `if limit:` is [if_truthy]: the then-branch runs for an int different from 0
     and gets the int, the else-branch runs for None AND for 0.
   * Subscripts and slices have Python's meaning for every int: a negative index
     counts from the end, an index out of range raises (IndexError), slice bounds
     are clamped.  `s[:-n]` is [slice_to s (- n)], `s[-n:]` is
     [slice_from s (- n)] (so n = 0 gives "" and the whole string).
   * An exception is a value: a function returns [Ok v] or [Exc e].  The only
     exceptions modelled are LookupError (IndexError of a subscript, or the
     grammar lookup self.grammar[t][i]['values'] failing with KeyError /
     IndexError: both are subclasses of LookupError) and OutOfFuel, which has no
     counterpart in Python: the recursive function has a fuel argument bounding
     the depth of the recursion, and ExpandGenProofs.v shows it is never
     exhausted when fuel > len(pt).  [bindx r h k] evaluates r; on an exception
     the handler h of the enclosing context runs (at function level: the
     function returns the exception; inside a loop body: the loop is left).
   * Output: print_guess(g) appends g to the ghost variable [printed]; a
     function returns the pair (printed lines, Python return value).
   * Loops: [for_each] / [ctl] of KernelRt.v. *)
From Coq Require Import List Arith ZArith NArith Bool.
From Pcfg Require Import KernelRt Expand.
Import ListNotations.

Definition pstr := list N.
(* one position of a parse tree: (variable name such as "A10", index of the group) *)
Definition pnode := (pstr * Z)%type.

Inductive exc := LookupError | OutOfFuel.
Inductive res (X : Type) : Type :=
| Ok (x : X)
| Exc (e : exc).
Arguments Ok {X} x.
Arguments Exc {X} e.

Definition bindx {X Y : Type} (r : res X) (h : exc -> Y) (k : X -> Y) : Y :=
  match r with Ok x => k x | Exc e => h e end.

(* a lookup that may fail (dict key / list index) *)
Definition lookup {X : Type} (o : option X) : res X :=
  match o with Some x => Ok x | None => Exc LookupError end.

(* ---- ints, None-or-int ---- *)

(* `if v:` for v : None | int *)
Definition if_truthy {R : Type} (v : option Z) (then_ : Z -> R) (else_ : R) : R :=
  match v with
  | Some z => if Z.eqb z 0 then else_ else then_ z
  | None => else_
  end.

(* ---- sequences (str, list) ---- *)

Definition len {X : Type} (l : list X) : Z := Z.of_nat (length l).

(* position meant by the index i in a sequence of length n; None = IndexError *)
Definition py_index (n : nat) (i : Z) : option nat :=
  let j := if Z.ltb i 0 then Z.add i (Z.of_nat n) else i in
  if Z.ltb j 0 then None
  else if Z.leb (Z.of_nat n) j then None
  else Some (Z.to_nat j).

(* l[i] *)
Definition seq_index {X : Type} (l : list X) (i : Z) : res X :=
  match py_index (length l) i with
  | Some j => lookup (nth_error l j)
  | None => Exc LookupError
  end.

(* s[i] on a str: a string of length one *)
Definition str_index (s : pstr) (i : Z) : res pstr :=
  bindx (seq_index s i) (fun e => Exc e) (fun c => Ok [c]).

(* position meant by the slice bound i in a sequence of length n (clamped) *)
Definition py_bound (n : nat) (i : Z) : nat :=
  let j := if Z.ltb i 0 then Z.add i (Z.of_nat n) else i in
  Z.to_nat (Z.min (Z.max j 0) (Z.of_nat n)).

(* l[a:]  l[:b]  l[a:b] *)
Definition slice_from {X : Type} (l : list X) (a : Z) : list X :=
  skipn (py_bound (length l) a) l.
Definition slice_to {X : Type} (l : list X) (b : Z) : list X :=
  firstn (py_bound (length l) b) l.
Definition slice {X : Type} (l : list X) (a b : Z) : list X :=
  firstn (py_bound (length l) b - py_bound (length l) a) (skipn (py_bound (length l) a) l).

(* for c in s: the characters of a str, each a str of length one *)
Definition chars (s : pstr) : list pstr := map (fun c => [c]) s.

(* a == b on str *)
Fixpoint str_eqb (a b : pstr) : bool :=
  match a, b with
  | [], [] => true
  | x :: a', y :: b' => N.eqb x y && str_eqb a' b'
  | _, _ => false
  end.

(* s.upper(): character by character, [upper_c] being str.upper() of one
   character as the running interpreter computes it (may expand: 'ß' -> "SS") *)
Definition str_upper (upper_c : N -> pstr) (s : pstr) : pstr := flat_map upper_c s.

(* sep.join(l) *)
Definition str_join (sep : pstr) (l : list pstr) : pstr :=
  match l with
  | [] => []
  | x :: r => x ++ flat_map (fun y => sep ++ y) r
  end.

(* ---- a parse tree of the guesser resolved against the loaded grammar ----
   The Python parse tree is a list of (variable name, index); the model Expand.v
   works on slots (category, values of the chosen group).  [gv t i] is
   self.grammar[t][i]['values'] (None: the lookup raises KeyError / IndexError).
   category = pt[0][0][0] is the first character of the variable name. *)
Definition cat_of (name : pstr) : option cat :=
  match name with
  | [] => None
  | c :: _ => Some (if N.eqb c 77 then CatM else if N.eqb c 67 then CatC else CatPlain)
  end.

Definition resolve_node (gv : pstr -> Z -> option (list pstr)) (nd : pnode) : option slot :=
  match cat_of (fst nd), gv (fst nd) (snd nd) with
  | Some c, Some vs => Some {| scat := c; svals := vs |}
  | _, _ => None
  end.

Fixpoint resolve (gv : pstr -> Z -> option (list pstr)) (pt : list pnode) : option (list slot) :=
  match pt with
  | [] => Some []
  | nd :: r =>
      match resolve_node gv nd, resolve gv r with
      | Some s, Some ss => Some (s :: ss)
      | _, _ => None
      end
  end.

(* the model's limit (None | nat) as the Python value (None | int) *)
Definition zlim (l : lim) : option Z := option_map Z.of_nat l.

(* the model's result as the result of a generated function: the model's None
   (the Python code raises IndexError) is the exception LookupError *)
Definition lift (r : option (list str * nat)) : res (list pstr * Z) :=
  match r with
  | Some (o, k) => Ok (o, Z.of_nat k)
  | None => Exc LookupError
  end.
