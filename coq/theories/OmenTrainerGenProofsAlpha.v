(* The generated alphabet generator (gen/OmenTrainerAlpha_gen.v: the translation of
   AlphabetGenerator of lib_trainer/omen/alphabet_generator.py, redone on every run)
   equals the model of OmenTrainer.v: process_password tallies every character but TAB
   of the passwords that are long enough, get_alphabet returns the alphabet_size most
   frequent letters (stable descending sort). *)
From Coq Require Import List Arith Bool NArith ZArith Lia.
From Pcfg Require Import KernelRt OmenSpec OmenTrainer OmenTrainerRt OmenTrainerRtProofs.
From PcfgGen Require Import OmenTrainerAlpha_gen.
Import ListNotations.

Theorem gen_agen_init_eq : forall alphabet_size ngram,
  py_agen_init alphabet_size ngram = TOk (mk_agen alphabet_size ngram []).
Proof. reflexivity. Qed.

Lemma tfoldM_total {X S} (f : S -> X -> S) l s : tfoldM (fun s x => TOk (f s x)) l s = TOk (fold_left f l s).
Proof. revert s. induction l; simpl; auto. Qed.

Lemma fold_left_dict G pw :
  fold_left (fun s x => ag_set_dictionary s (tally_letter (ag_dictionary s) x)) pw G =
  ag_set_dictionary G (fold_left tally_letter pw (ag_dictionary G)).
Proof.
  revert G. induction pw as [|c pw IH]; intro G; simpl; [destruct G; reflexivity|].
  rewrite IH. destruct G; reflexivity.
Qed.

Theorem gen_agen_process_password_eq : forall G pw,
  py_agen_process_password G pw = TOk (process_password G pw).
Proof.
  intros. unfold py_agen_process_password, process_password.
  destruct (tlen pw <? ag_ngram G)%Z; [reflexivity|].
  rewrite (tfor_fold (fun s x => TOk (ag_set_dictionary s (tally_letter (ag_dictionary s) x)))).
  - rewrite tfoldM_total. cbn [tbind]. rewrite fold_left_dict. reflexivity.
  - intros c s _. unfold tally_letter, TAB_c, amem. cbn [existsb orb].
    destruct (N.eqb c 9); cbn [orb]; [destruct s; reflexivity|].
    destruct (afind N.eqb c (ag_dictionary s)); reflexivity.
Qed.

(* pass 1 *)
Theorem gen_agen_pass1_eq : forall pws G,
  tfoldM py_agen_process_password pws G = TOk (fold_left process_password pws G).
Proof.
  induction pws as [|pw pws IH]; intro G; simpl; [reflexivity|].
  rewrite gen_agen_process_password_eq. simpl. apply IH.
Qed.

Lemma lookup_keys (d : list (N * Z)) keys :
  (forall k, In k keys -> In k (map fst d)) ->
  exists ys, tmapM (fun k => v <~ tget (afind N.eqb k d) ;; TOk (k, v)) keys = TOk ys /\ map fst ys = keys.
Proof.
  induction keys as [|k keys IH]; intro H; simpl.
  - exists []. split; reflexivity.
  - destruct IH as (ys & Hy & Hk); [intros; apply H; right; assumption|].
    destruct (afind N.eqb k d) as [v|] eqn:E.
    + simpl. rewrite Hy. simpl. exists ((k, v) :: ys). simpl. rewrite Hk. split; reflexivity.
    + exfalso. apply (afind_none_notin N.eqb N.eqb_eq) in E. apply E. apply H. left. reflexivity.
Qed.

Lemma ins_desc_keys {K V} (ltb : V -> V -> bool) (x : K * V) l k :
  In k (map fst (ins_desc_by ltb x l)) <-> k = fst x \/ In k (map fst l).
Proof.
  induction l as [|y l IH]; simpl; [intuition|]. destruct (ltb (snd x) (snd y)); simpl; [rewrite IH|]; intuition.
Qed.

Lemma most_common_keys {K V} (ltb : V -> V -> bool) (d : list (K * V)) k :
  In k (map fst (most_common_by ltb d)) <-> In k (map fst d).
Proof.
  induction d as [|x d IH]; simpl; [tauto|]. rewrite ins_desc_keys, IH. intuition.
Qed.

Lemma take_loop {X} (size : Z) (body : X -> ostr * Z -> tres (ctl ostr (ostr * Z))) (key : X -> N) :
  (forall item fa cnt, body item (fa, cnt) =
     if (size <=? cnt)%Z then TOk (Return fa) else TOk (Continue (fa ++ [key item], (cnt + 1)%Z))) ->
  forall ys acc,
  tfor ys body (acc, Z.of_nat (length acc)) (fun '(fa, _) => TOk fa) =
  TOk (acc ++ firstn (Z.to_nat size - length acc) (map key ys)).
Proof.
  intros Hb. induction ys as [|y ys IH]; intro acc; simpl.
  - rewrite firstn_nil, app_nil_r. reflexivity.
  - rewrite Hb. destruct (size <=? Z.of_nat (length acc))%Z eqn:E.
    + apply Z.leb_le in E. replace (Z.to_nat size - length acc) with 0 by lia. simpl. rewrite app_nil_r. reflexivity.
    + apply Z.leb_gt in E. specialize (IH (acc ++ [key y])). rewrite app_length in IH. simpl in IH.
      replace (Z.of_nat (length acc + 1)) with (Z.of_nat (length acc) + 1)%Z in IH by lia. rewrite IH.
      destruct (Z.to_nat size - length acc) eqn:En; [lia|]. simpl. rewrite <- app_assoc. simpl.
      replace (Z.to_nat size - (length acc + 1)) with n by lia. reflexivity.
Qed.

Theorem gen_agen_get_alphabet_eq : forall G, py_agen_get_alphabet G = TOk (get_alphabet G).
Proof.
  intro G. unfold py_agen_get_alphabet, get_alphabet.
  destruct (lookup_keys (ag_dictionary G) (map fst (most_common_by Z.ltb (ag_dictionary G)))) as (ys & Hy & Hk).
  { intros k. apply most_common_keys. }
  rewrite Hy. cbn [tbind]. cbv zeta.
  etransitivity; [apply (take_loop (ag_alphabet_size G) _ fst) with (acc := []); intros; reflexivity|].
  simpl. rewrite Nat.sub_0_r, Hk. reflexivity.
Qed.
