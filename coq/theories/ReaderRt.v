(* ReaderRt.v - runtime of the generated training-file reader (gen/Reader_gen.v,
   written on every run by harness/translate_reader.py from the Python text of
   check_valid, TrainerFileInput.__init__ and TrainerFileInput.read_password in
   lib_trainer/trainer_file_input.py).  The translator emits nothing but lets,
   ifs, monadic binds, calls of previously generated functions and the
   operations below, so that the generated text is a line-by-line image of the
   Python.  Definitions only; the lemmas about them are in ReaderGenProofs.v.

   Conventions of the translation (see the translator's docstring):
   * strings are [str] (lists of code points, TextFile.v); Python ints are [Z];
     a one-character string (`s[-1]`, `chr(i)`) is a one-element [str];
     `a in b` on strings is the substring test [substr].
   * The interpreter's own functions are the ones the hand-written models name
     (TextFile.lstrip / rstrip / split_on / join / parse_int, Reader.fromhex),
     parametrised by the probed code point classes [pyenv]; the codec named by
     `self.encoding` is the oracle record [codec] (strict decoding of a byte
     string, per-character encodability, the `reason` of the encode error).
   * The TrainerFileInput object is the record [robj]; the open file object is
     the list of what `self.file.readline()` returns call after call ([RLine s],
     or [RErr] for a call that raises UnicodeDecodeError); '' is returned
     once the list is used up.  [o_yielded] is not an attribute: it collects
     what the generator yields (a generator run to exhaustion).
   * Statements are computations in a state-and-exception monad [M] over
     [robj]; a state change made before an exception is raised persists, as in
     Python.  `try: body except Cls as v: handler` is [try_catch body Cls
     (fun v => handler)], with the class hierarchy of [exn_is].
   * All local variables of a function travel together as one tuple (the
     frame) through compound statements; a block yields [Normal frame],
     [Continue frame], [Break frame] or [Return value] ([ctl]).
   * `while` gets a fuel argument (no counterpart in Python); running out of
     fuel is the pseudo exception [EOutOfFuel], which no handler catches. *)
From Coq Require Import List NArith ZArith Bool.
From Pcfg Require Import TextFile Reader.
Import ListNotations.

(* ------------------------------------------------------------------ *)
(* oracles                                                              *)

(* code point classes of the running interpreter *)
Record pyenv := {
  e_ws : N -> bool;        (* str.lstrip() / isspace *)
  e_iws : N -> bool;       (* what int() skips around a number *)
  e_dz : list N;           (* zeros of the runs of ten decimal digits *)
}.

(* what `self.encoding` names *)
Record codec := {
  cd_dec : list N -> option str;   (* bytes.decode(encoding), strict; None = UnicodeDecodeError *)
  cd_encb : N -> bool;             (* the encoding can encode this character *)
  cd_reason : str -> str;          (* UnicodeEncodeError.reason for a string that cannot be encoded *)
}.

(* one call of self.file.readline() *)
Inductive rline := RLine (s : str) | RErr.

(* ------------------------------------------------------------------ *)
(* exceptions                                                           *)

Inductive exn :=
| EUnicodeDecode
| EUnicodeEncode (reason : str)
| EValue
| EIndex
| EOutOfFuel.

(* the classes an `except` clause may name *)
Inductive eclass :=
| CUnicodeError | CUnicodeDecodeError | CUnicodeEncodeError | CValueError
| CIndexError | CLookupError | CIOError | CException | CAny.

(* UnicodeDecodeError, UnicodeEncodeError < UnicodeError < ValueError < Exception;
   IndexError < LookupError < Exception; IOError = OSError is raised by nothing
   modelled here; a bare `except:` is CAny.  The fuel pseudo exception is caught
   by nothing. *)
Definition exn_is (c : eclass) (e : exn) : bool :=
  match e, c with
  | EOutOfFuel, _ => false
  | _, CAny | _, CException => true
  | EUnicodeDecode, (CUnicodeError | CUnicodeDecodeError | CValueError) => true
  | EUnicodeEncode _, (CUnicodeError | CUnicodeEncodeError | CValueError) => true
  | EValue, CValueError => true
  | EIndex, (CIndexError | CLookupError) => true
  | _, _ => false
  end.

(* msg.reason *)
Definition exn_reason (e : exn) : str :=
  match e with EUnicodeEncode r => r | _ => [] end.

(* an expression that may raise and touches no state *)
Inductive exc (A : Type) : Type :=
| Val (a : A)
| Exn (e : exn).
Arguments Val {A} a.
Arguments Exn {A} e.

(* ------------------------------------------------------------------ *)
(* the object                                                           *)

Record robj := {
  o_encoding : codec;
  o_filename : str;
  o_file : list rline;
  o_num_encoding_errors : Z;
  o_num_passwords : Z;
  o_duplicates_found : bool;
  o_duplicate_detection : list (str * Z);
  o_num_to_look_for_duplicates : Z;
  o_prefixcount : bool;
  o_yielded : list str;
}.

Definition codec_none : codec := {| cd_dec := fun _ => None; cd_encb := fun _ => false; cd_reason := fun _ => [] |}.

(* an object without attributes (every attribute read_password uses is
   assigned by __init__: checked by the translator) *)
Definition obj_new : robj :=
  {| o_encoding := codec_none; o_filename := []; o_file := []; o_num_encoding_errors := 0; o_num_passwords := 0;
     o_duplicates_found := false; o_duplicate_detection := []; o_num_to_look_for_duplicates := 0;
     o_prefixcount := false; o_yielded := [] |}.

Definition set_encoding (v : codec) (o : robj) : robj :=
  {| o_encoding := v; o_filename := o_filename o; o_file := o_file o; o_num_encoding_errors := o_num_encoding_errors o;
     o_num_passwords := o_num_passwords o; o_duplicates_found := o_duplicates_found o;
     o_duplicate_detection := o_duplicate_detection o; o_num_to_look_for_duplicates := o_num_to_look_for_duplicates o;
     o_prefixcount := o_prefixcount o; o_yielded := o_yielded o |}.
Definition set_filename (v : str) (o : robj) : robj :=
  {| o_encoding := o_encoding o; o_filename := v; o_file := o_file o; o_num_encoding_errors := o_num_encoding_errors o;
     o_num_passwords := o_num_passwords o; o_duplicates_found := o_duplicates_found o;
     o_duplicate_detection := o_duplicate_detection o; o_num_to_look_for_duplicates := o_num_to_look_for_duplicates o;
     o_prefixcount := o_prefixcount o; o_yielded := o_yielded o |}.
Definition set_file (v : list rline) (o : robj) : robj :=
  {| o_encoding := o_encoding o; o_filename := o_filename o; o_file := v; o_num_encoding_errors := o_num_encoding_errors o;
     o_num_passwords := o_num_passwords o; o_duplicates_found := o_duplicates_found o;
     o_duplicate_detection := o_duplicate_detection o; o_num_to_look_for_duplicates := o_num_to_look_for_duplicates o;
     o_prefixcount := o_prefixcount o; o_yielded := o_yielded o |}.
Definition set_num_encoding_errors (v : Z) (o : robj) : robj :=
  {| o_encoding := o_encoding o; o_filename := o_filename o; o_file := o_file o; o_num_encoding_errors := v;
     o_num_passwords := o_num_passwords o; o_duplicates_found := o_duplicates_found o;
     o_duplicate_detection := o_duplicate_detection o; o_num_to_look_for_duplicates := o_num_to_look_for_duplicates o;
     o_prefixcount := o_prefixcount o; o_yielded := o_yielded o |}.
Definition set_num_passwords (v : Z) (o : robj) : robj :=
  {| o_encoding := o_encoding o; o_filename := o_filename o; o_file := o_file o; o_num_encoding_errors := o_num_encoding_errors o;
     o_num_passwords := v; o_duplicates_found := o_duplicates_found o;
     o_duplicate_detection := o_duplicate_detection o; o_num_to_look_for_duplicates := o_num_to_look_for_duplicates o;
     o_prefixcount := o_prefixcount o; o_yielded := o_yielded o |}.
Definition set_duplicates_found (v : bool) (o : robj) : robj :=
  {| o_encoding := o_encoding o; o_filename := o_filename o; o_file := o_file o; o_num_encoding_errors := o_num_encoding_errors o;
     o_num_passwords := o_num_passwords o; o_duplicates_found := v;
     o_duplicate_detection := o_duplicate_detection o; o_num_to_look_for_duplicates := o_num_to_look_for_duplicates o;
     o_prefixcount := o_prefixcount o; o_yielded := o_yielded o |}.
Definition set_duplicate_detection (v : list (str * Z)) (o : robj) : robj :=
  {| o_encoding := o_encoding o; o_filename := o_filename o; o_file := o_file o; o_num_encoding_errors := o_num_encoding_errors o;
     o_num_passwords := o_num_passwords o; o_duplicates_found := o_duplicates_found o;
     o_duplicate_detection := v; o_num_to_look_for_duplicates := o_num_to_look_for_duplicates o;
     o_prefixcount := o_prefixcount o; o_yielded := o_yielded o |}.
Definition set_num_to_look_for_duplicates (v : Z) (o : robj) : robj :=
  {| o_encoding := o_encoding o; o_filename := o_filename o; o_file := o_file o; o_num_encoding_errors := o_num_encoding_errors o;
     o_num_passwords := o_num_passwords o; o_duplicates_found := o_duplicates_found o;
     o_duplicate_detection := o_duplicate_detection o; o_num_to_look_for_duplicates := v;
     o_prefixcount := o_prefixcount o; o_yielded := o_yielded o |}.
Definition set_prefixcount (v : bool) (o : robj) : robj :=
  {| o_encoding := o_encoding o; o_filename := o_filename o; o_file := o_file o; o_num_encoding_errors := o_num_encoding_errors o;
     o_num_passwords := o_num_passwords o; o_duplicates_found := o_duplicates_found o;
     o_duplicate_detection := o_duplicate_detection o; o_num_to_look_for_duplicates := o_num_to_look_for_duplicates o;
     o_prefixcount := v; o_yielded := o_yielded o |}.
Definition set_yielded (v : list str) (o : robj) : robj :=
  {| o_encoding := o_encoding o; o_filename := o_filename o; o_file := o_file o; o_num_encoding_errors := o_num_encoding_errors o;
     o_num_passwords := o_num_passwords o; o_duplicates_found := o_duplicates_found o;
     o_duplicate_detection := o_duplicate_detection o; o_num_to_look_for_duplicates := o_num_to_look_for_duplicates o;
     o_prefixcount := o_prefixcount o; o_yielded := v |}.

(* codecs.open(name, 'r', encoding=enc, errors='surrogateescape'): the file
   object is the oracle list [opened] (what readline will return); the
   translator accepts this call with exactly these arguments only *)
Definition codecs_open_r_surrogateescape (name : str) (enc : codec) (opened : list rline) : list rline := opened.

(* ------------------------------------------------------------------ *)
(* the monad                                                            *)

Inductive res (A : Type) : Type :=
| Ok (a : A) (s : robj)
| Raise (e : exn) (s : robj).
Arguments Ok {A} a s.
Arguments Raise {A} e s.

Definition M (A : Type) : Type := robj -> res A.

Definition ret {A} (a : A) : M A := fun s => Ok a s.
Definition raise {A} (e : exn) : M A := fun s => Raise e s.
Definition bind {A B} (m : M A) (f : A -> M B) : M B :=
  fun s => match m s with
           | Ok a s' => f a s'
           | Raise e s' => Raise e s'
           end.

Notation "x <- e ;; k" := (bind e (fun x => k)) (at level 61, e at next level, right associativity).
Notation "' p <- e ;; k" := (bind e (fun p => k)) (at level 61, p pattern, e at next level, right associativity).

Definition lift {A} (x : exc A) : M A :=
  fun s => match x with Val a => Ok a s | Exn e => Raise e s end.

(* self.attr  and  self.attr = v *)
Definition getf {A} (f : robj -> A) : M A := fun s => Ok (f s) s.
Definition modf (f : robj -> robj) : M unit := fun s => Ok tt (f s).

(* try: body  except Cls as v: handler *)
Definition try_catch {A} (body : M A) (c : eclass) (handler : exn -> M A) : M A :=
  fun s => match body s with
           | Ok a s' => Ok a s'
           | Raise e s' => if exn_is c e then handler e s' else Raise e s'
           end.

(* ------------------------------------------------------------------ *)
(* control flow                                                         *)

Inductive ctl (F R : Type) : Type :=
| Normal (f : F)
| Continue (f : F)
| Break (f : F)
| Return (v : R).
Arguments Normal {F R} f.
Arguments Continue {F R} f.
Arguments Break {F R} f.
Arguments Return {F R} v.

(* the statements after a compound statement run when it ended normally *)
Definition on_normal {F R} (r : ctl F R) (k : F -> M (ctl F R)) : M (ctl F R) :=
  match r with
  | Normal f => k f
  | other => ret other
  end.

(* end of a function whose only `return` value is None *)
Definition fn_end {F} (r : ctl F unit) : M unit := ret tt.

(* while cond: body *)
Fixpoint rwhile {F R} (fuel : nat) (cond : F -> M bool) (body : F -> M (ctl F R)) (f : F) : M (ctl F R) :=
  match fuel with
  | O => raise EOutOfFuel
  | S fuel' =>
      c <- cond f ;;
      if c then
        r <- body f ;;
        match r with
        | Normal f' | Continue f' => rwhile fuel' cond body f'
        | Break f' => ret (Normal f')
        | Return v => ret (Return v)
        end
      else ret (Normal f)
  end.

(* for x in l: body *)
Fixpoint rfor {X F R} (l : list X) (body : X -> F -> M (ctl F R)) (f : F) : M (ctl F R) :=
  match l with
  | [] => ret (Normal f)
  | x :: l' =>
      r <- body x f ;;
      match r with
      | Normal f' | Continue f' => rfor l' body f'
      | Break f' => ret (Normal f')
      | Return v => ret (Return v)
      end
  end.

(* a pure function made of `if c: return v`, `for x in l: <the same>` and a
   final `return v` (check_valid): the first value returned inside the loop,
   else what follows *)
Fixpoint pfor {X R} (l : list X) (body : X -> option R) (k : R) : R :=
  match l with
  | [] => k
  | x :: l' => match body x with Some v => v | None => pfor l' body k end
  end.

(* ------------------------------------------------------------------ *)
(* ints, sequences, strings                                             *)

Definition zlen {X} (l : list X) : Z := Z.of_nat (length l).

Definition zrange (a b : Z) : list Z :=
  map (fun i => (a + Z.of_nat i)%Z) (seq 0 (Z.to_nat (b - a))).

(* a slice bound i on a sequence of length n: negative counts from the end, then clamped to 0..n *)
Definition slice_bound (n i : Z) : Z :=
  if (i <? 0)%Z then Z.max 0 (i + n) else Z.min i n.

(* s[a:b]; None = bound left out *)
Definition pyslice {X} (s : list X) (a b : option Z) : list X :=
  let n := zlen s in
  let lo := match a with None => 0%Z | Some i => slice_bound n i end in
  let hi := match b with None => n | Some i => slice_bound n i end in
  firstn (Z.to_nat (hi - lo)) (skipn (Z.to_nat lo) s).

(* l[i] *)
Definition pyindex {X} (l : list X) (i : Z) : exc X :=
  let n := zlen l in
  let j := if (i <? 0)%Z then (i + n)%Z else i in
  if (j <? 0)%Z || (n <=? j)%Z then Exn EIndex
  else match nth_error l (Z.to_nat j) with
       | Some x => Val x
       | None => Exn EIndex
       end.

(* s[i] on a string: a one-character string *)
Definition pystr_index (s : str) (i : Z) : exc str :=
  match pyindex s i with Val c => Val [c] | Exn e => Exn e end.

(* chr(i), for 0 <= i < 0x110000 (checked by the translator on the constant range) *)
Definition py_chr (i : Z) : str := [Z.to_N i].

(* a in b  on strings *)
Fixpoint substr (a b : str) : bool :=
  starts_with a b || match b with [] => false | _ :: b' => substr a b' end.

Definition nonempty {X} (l : list X) : bool := match l with [] => false | _ => true end.

(* s.rstrip(chars), s.lstrip(), s.split(c), c.join(l), s.startswith(p), s.endswith(p) *)
Definition py_rstrip_chars (s chars : str) : str := rstrip (fun c => memN c chars) s.
Definition py_lstrip (E : pyenv) (s : str) : str := lstrip (e_ws E) s.
Definition py_split_char (s : str) (c : N) : list str := split_on c s.
Definition py_join_char (c : N) (l : list str) : str := join c l.
Definition py_startswith (s p : str) : bool := starts_with p s.
Definition py_endswith (s p : str) : bool := ends_with p s.

(* int(s): ValueError *)
Definition py_int (E : pyenv) (s : str) : exc Z :=
  match parse_int (e_iws E) (e_dz E) s with Some z => Val z | None => Exn EValue end.

(* bytes.fromhex(s): ValueError *)
Definition py_fromhex (s : str) : exc (list N) :=
  match fromhex s with Some b => Val b | None => Exn EValue end.

(* b.decode(encoding): UnicodeDecodeError *)
Definition py_decode (cd : codec) (b : list N) : exc str :=
  match cd_dec cd b with Some s => Val s | None => Exn EUnicodeDecode end.

(* s.encode(encoding) as a statement (the bytes are not used): UnicodeEncodeError *)
Definition py_encode_check (cd : codec) (s : str) : exc unit :=
  if forallb (cd_encb cd) s then Val tt else Exn (EUnicodeEncode (cd_reason cd s)).

(* k in d , d.clear() on a dict str -> int kept in insertion order (d[k] = v is TextFile.dict_set) *)
Definition dict_mem {V} (k : str) (d : list (str * V)) : bool :=
  match dict_get k d with Some _ => true | None => false end.

(* ------------------------------------------------------------------ *)
(* the file object and the generator                                    *)

(* self.file.readline() *)
Definition file_readline : M str :=
  fun s => match o_file s with
           | [] => Ok [] s
           | RLine l :: r => Ok l (set_file r s)
           | RErr :: r => Raise EUnicodeDecode (set_file r s)
           end.

(* self.file.close(): nothing read_password does afterwards depends on it *)
Definition file_close : M unit := ret tt.

(* yield v *)
Definition yield_ (v : str) : M unit := modf (fun s => set_yielded (o_yielded s ++ [v]) s).

(* the generator run to exhaustion on the object [s]: what it yielded and the
   two counters the trainer reads afterwards; None = an exception escaped (or
   the fuel ran out) *)
Definition run_reader (m : M unit) (s : robj) : option rout :=
  match m s with
  | Ok _ s' => Some {| out := o_yielded s'; npw := o_num_passwords s'; nerr := o_num_encoding_errors s' |}
  | Raise _ _ => None
  end.
