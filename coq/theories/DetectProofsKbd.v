(* The keyboard-walk detector (Detect.detect_keyboard_walk): it tiles the
   password, every K section is a run of at least min_run keys that are
   pairwise adjacent on ONE layout and mixes character classes, and it never
   raises (min_keyboard_run >= 4 makes every subscript of
   interesting_keyboard valid). *)
From Coq Require Import List ZArith NArith Bool Lia.
From Pcfg Require Import Str Multiword Detect DetectProofsStr DetectProofsDrive DetectProofsSimple DetectProofsSeg.
Import ListNotations.
Open Scope Z_scope.

Lemma nth_and_list : forall a b j, nth j (and_list a b) false = nth j a false && nth j b false.
Proof.
  induction a as [|x a IH]; intros b j; simpl.
  - destruct j; reflexivity.
  - destruct b as [|y b]; simpl.
    + destruct j; simpl; [now rewrite andb_false_r|]. destruct (nth j a false); reflexivity.
    + destruct j; simpl; [reflexivity|apply IH].
Qed.

Lemma nth_next_on : forall past cur j,
  nth j (next_on past cur) false =
  match nth j past None, nth j cur None with Some a, Some b => adjacent a b | _, _ => false end.
Proof.
  induction past as [|p past IH]; intros cur j; simpl.
  - destruct j; reflexivity.
  - destruct cur as [|c cur]; simpl.
    + destruct j; simpl; [now destruct p|]. destruct (nth j past None); reflexivity.
    + destruct j; simpl; [reflexivity|apply IH].
Qed.

Lemma any_true l : any l = true <-> exists j, nth j l false = true.
Proof.
  unfold any. induction l as [|x l IH]; simpl.
  - split; [discriminate|]. intros (j & H). destruct j; discriminate.
  - destruct x; simpl.
    + split; [intros _; now exists O|reflexivity].
    + rewrite IH. split; intros (j & H); [now exists (S j)|]. destruct j; [discriminate|now exists j].
Qed.

Lemma nth_true_lt (l : list bool) j : nth j l false = true -> (j < length l)%nat.
Proof.
  revert j. induction l as [|x l IH]; intros j H; [destruct j; discriminate|].
  destruct j; simpl in *; [lia|]. apply IH in H. lia.
Qed.

Lemma length_and_list a b : (length (and_list a b) <= length a)%nat.
Proof. revert b. induction a as [|x a IH]; intros [|y b]; simpl; try lia. specialize (IH b). lia. Qed.

Lemma length_next_on a b : (length (next_on a b) <= length a)%nat.
Proof. revert b. induction a as [|x a IH]; intros [|y b]; simpl; try lia. specialize (IH b). lia. Qed.

Lemma walk_on_snoc b : forall cs c0 v, walk_on b (cs ++ [c0]) -> key_adjacent b c0 v -> walk_on b ((cs ++ [c0]) ++ [v]).
Proof.
  induction cs as [|c cs IH]; intros c0 v Hw Ha; simpl in *.
  - split; [assumption|exact I].
  - destruct (cs ++ [c0]) as [|d r] eqn:E; [destruct cs; discriminate|].
    destruct Hw as (Hcd & Hw). simpl. split; [assumption|].
    specialize (IH c0 v). rewrite E in IH. now apply IH.
Qed.

Section Kbd.
Variables isalpha isdigit : N -> bool.
Variable lower_c : N -> str.
Variable kbs : list board.
Variable fp_words : list str.
Variable min_run : Z.
Variable year_prefixes : list str.
Variable context_strings : list str.
Hypothesis min_run_4 : 4 <= min_run.

Notation sound := (sound isalpha isdigit kbs min_run year_prefixes context_strings).
Notation pm := (pm lower_c).
Notation INTERESTING := (interesting isalpha isdigit lower_c fp_words).
Notation LOOP := (kw_loop isalpha isdigit lower_c kbs fp_words min_run).
Notation KW := (detect_keyboard_walk isalpha isdigit lower_c kbs fp_words min_run).

Lemma pos_list_nth c j : nth j (pos_list kbs c) None = find_row c (nth j kbs []) 0.
Proof. unfold pos_list. apply (map_nth (fun b => find_row c b 0) kbs [] j). Qed.

(* interesting_keyboard *)
Lemma interesting_true combo : INTERESTING combo = Some true -> 2 <= complexity isalpha isdigit combo.
Proof.
  unfold interesting. intros H.
  repeat match type of H with
  | match ?x with _ => _ end = _ => destruct x as [[|]|]; try discriminate
  end.
  injection H as H. now apply Z.leb_le.
Qed.

Lemma getc_in_range (s : str) i : - len s <= i < len s -> getc s i <> None.
Proof.
  intros Hi. unfold getc. cbv zeta. destruct (Z_lt_ge_dec i 0) as [Hn|Hp].
  - replace (i <? 0) with true by (symmetry; apply Z.ltb_lt; lia). cbv iota.
    replace (len s + i <? 0) with false by (symmetry; apply Z.ltb_ge; lia).
    replace (len s <=? len s + i) with false by (symmetry; apply Z.leb_gt; lia). simpl.
    apply nth_error_Some. unfold len in *. lia.
  - replace (i <? 0) with false by (symmetry; apply Z.ltb_ge; lia). cbv iota.
    replace (i <? 0) with false by (symmetry; apply Z.ltb_ge; lia).
    replace (len s <=? i) with false by (symmetry; apply Z.leb_gt; lia). simpl.
    apply nth_error_Some. unfold len in *. lia.
Qed.

Lemma interesting_total combo : 4 <= len combo -> INTERESTING combo <> None.
Proof.
  intros Hl. unfold interesting, is_c, oand.
  assert (G : forall i, - len combo <= i < len combo -> exists x, getc combo i = Some x).
  { intros i Hi. destruct (getc combo i) eqn:E; [eauto|]. now apply getc_in_range in E. }
  destruct (G 0 ltac:(lia)) as (x0 & ->). destruct (G 1 ltac:(lia)) as (x1 & ->). destruct (G 2 ltac:(lia)) as (x2 & ->).
  destruct (G (-1) ltac:(lia)) as (y1 & ->). destruct (G (-2) ltac:(lia)) as (y2 & ->).
  destruct (G (-3) ltac:(lia)) as (y3 & ->). destruct (G (-4) ltac:(lia)) as (y4 & ->).
  destruct (N.eqb x0 c_e); [discriminate|].
  destruct (N.eqb x1 c_e); [destruct (N.eqb x2 c_r); [discriminate|]|];
  (destruct (N.eqb x0 c_t); [destruct (N.eqb x1 c_y); [discriminate|]; destruct (N.eqb x1 c_t); [destruct (N.eqb x2 c_y); [discriminate|]|]|]);
  (destruct (N.eqb x0 c_y); [discriminate|]);
  (destruct (N.eqb x0 c_1); [destruct (N.eqb x1 c_2); [destruct (N.eqb x2 c_3); [discriminate|]|]|]);
  (destruct (N.eqb y1 c_3); [destruct (N.eqb y2 c_2); [destruct (N.eqb y3 c_1); [destruct (negb _); [discriminate|]|]|]|]);
  destruct (existsb _ fp_words); discriminate.
Qed.

(* the state of the `for index, value in enumerate(password)` loop *)
Definition kw_inv (combo : str) (krl : list bool) (past : list (option (Z * Z))) : Prop :=
  (length krl <= length kbs)%nat /\
  (combo = [] -> past = map (fun _ => None) kbs) /\
  (forall cs c0, combo = cs ++ [c0] -> past = pos_list kbs c0) /\
  (forall j, nth j krl false = true -> (2 <= length combo)%nat /\ walk_on (nth j kbs []) combo) /\
  ((length combo <= 1)%nat -> any krl = false) /\
  ((2 <= length combo)%nat -> any krl = true).

Definition is_walk (combo : str) : Prop := exists b, In b kbs /\ walk_on b combo.

Lemma inv_walk combo krl past : kw_inv combo krl past -> (2 <= length combo)%nat -> is_walk combo.
Proof.
  intros (Hlen & _ & _ & Hw & _ & Hany) H2. apply Hany in H2. apply any_true in H2. destruct H2 as (j & Hj).
  destruct (Hw j Hj) as (_ & Hwalk). exists (nth j kbs []). split; [|assumption].
  apply nth_In. apply nth_true_lt in Hj. lia.
Qed.

Lemma kw_loop_spec : forall rest done rcombo krl past index,
  index = len done -> (exists d0, done = d0 ++ rev rcombo) -> kw_inv (rev rcombo) krl past ->
  match LOOP rest index past rcombo krl with
  | KErr => False
  | KFound i combo => exists d0 value rest', done ++ rest = d0 ++ combo ++ value :: rest' /\ i = len (d0 ++ combo) /\
                        min_run <= len combo /\ INTERESTING combo = Some true /\ is_walk combo
  | KEnd combo => exists d0, done ++ rest = d0 ++ combo /\ ((2 <= length combo)%nat -> is_walk combo)
  end.
Proof.
  induction rest as [|value rest IH]; intros done rcombo krl past index Hi (d0 & Hd) Hinv.
  - simpl. exists d0. rewrite app_nil_r. split; [assumption|]. now apply inv_walk with (krl := krl) (past := past).
  - simpl.
    set (pl := pos_list kbs value). set (runs := next_on past pl).
    set (krl' := if any krl then and_list krl runs else runs).
    destruct Hinv as (Hlen & Hnil & Hlast & Hw & Hshort & Hlong).
    assert (Hpastlen : length past = length kbs).
    { destruct (rev rcombo) as [|c0 cs] eqn:E using rev_ind; [rewrite (Hnil eq_refl); apply map_length|].
      rewrite (Hlast _ _ eq_refl). unfold pos_list. apply map_length. }
    assert (Hlen' : (length krl' <= length kbs)%nat).
    { unfold krl'. destruct (any krl).
      - pose proof (length_and_list krl runs). lia.
      - unfold runs. pose proof (length_next_on past pl). lia. }
    (* adjacency read off the flags *)
    assert (Hruns : forall j, nth j runs false = true ->
              exists cs c0, rev rcombo = cs ++ [c0] /\ key_adjacent (nth j kbs []) c0 value).
    { intros j Hj. unfold runs in Hj. rewrite nth_next_on in Hj.
      destruct (rev rcombo) as [|c0 cs _] eqn:E using rev_ind.
      - rewrite (Hnil eq_refl) in Hj.
        replace (nth j (map (fun _ : board => None) kbs) None) with (@None (Z * Z)) in Hj; [discriminate|].
        clear. revert j. induction kbs as [|b l IHl]; intros [|j]; simpl; auto.
      - exists cs, c0. split; [reflexivity|]. rewrite (Hlast _ _ eq_refl) in Hj. unfold pl in Hj.
        rewrite !pos_list_nth in Hj.
        destruct (find_row c0 (nth j kbs []) 0) as [pc|] eqn:Ec; [|discriminate].
        destruct (find_row value (nth j kbs []) 0) as [pv|] eqn:Ev; [|discriminate].
        now exists pc, pv. }
    destruct (any krl') eqn:Ea.
    + (* the run goes on *)
      replace (done ++ value :: rest) with ((done ++ [value]) ++ rest) by (now rewrite <- app_assoc).
      apply (IH (done ++ [value]) (value :: rcombo) krl' pl (index + 1)).
      * rewrite len_app, len_cons, len_nil. lia.
      * exists d0. simpl. rewrite Hd. now rewrite <- app_assoc.
      * simpl rev. repeat split.
        -- assumption.
        -- intros E. destruct (rev rcombo); discriminate.
        -- intros cs c0 E. apply app_inj_tail in E. destruct E as (_ & <-). reflexivity.
        -- rewrite app_length. simpl.
           unfold krl' in H. destruct (any krl) eqn:Eany.
           ++ rewrite nth_and_list in H. apply andb_true_iff in H. destruct H as (Hk & _).
              destruct (Hw j Hk). lia.
           ++ destruct (Hruns j H) as (cs & c0 & E & _). rewrite E, app_length. simpl. lia.
        -- unfold krl' in H. destruct (any krl) eqn:Eany.
           ++ rewrite nth_and_list in H. apply andb_true_iff in H. destruct H as (Hk & Hr).
              destruct (Hw j Hk) as (_ & Hwalk). destruct (Hruns j Hr) as (cs & c0 & E & Hadj).
              rewrite E in *. now apply walk_on_snoc.
           ++ destruct (Hruns j H) as (cs & c0 & E & Hadj). rewrite E.
              assert (Hcs : cs = []).
              { destruct (Nat.le_gt_cases (length (rev rcombo)) 1) as [Hle|Hgt].
                - rewrite E, app_length in Hle. simpl in Hle. destruct cs; [reflexivity|simpl in Hle; lia].
                - apply Hlong in Hgt. congruence. }
              subst cs. simpl. split; [assumption|exact I].
        -- rewrite app_length. simpl. intros Hle.
           assert (rev rcombo = []) by (destruct (rev rcombo); [reflexivity|simpl in Hle; lia]).
           exfalso. apply any_true in Ea. destruct Ea as (j & Hj). unfold krl' in Hj.
           destruct (any krl).
           ++ rewrite nth_and_list in Hj. apply andb_true_iff in Hj. destruct Hj as (_ & Hr).
              destruct (Hruns j Hr) as (cs & c0 & E & _). rewrite H in E. destruct cs; discriminate.
           ++ destruct (Hruns j Hj) as (cs & c0 & E & _). rewrite H in E. destruct cs; discriminate.
        -- intros _. exact Ea.
    + (* the run has stopped *)
      assert (Hrestart : kw_inv (rev [value]) krl' pl).
      { change (rev [value]) with [value]. unfold kw_inv.
        split; [assumption|]. split; [discriminate|]. split.
        { intros cs c0 E. change [value] with ([] ++ [value]) in E. apply app_inj_tail in E. destruct E as (_ & <-). reflexivity. }
        split.
        { intros j Hj. exfalso. assert (Ht : any krl' = true) by (apply any_true; now exists j). congruence. }
        split; [intros _; exact Ea|]. simpl. lia. }
      assert (Hgo : match LOOP rest (index + 1) pl [value] krl' with
                    | KErr => False
                    | KFound i combo => exists d1 v r', (done ++ [value]) ++ rest = d1 ++ combo ++ v :: r' /\ i = len (d1 ++ combo) /\
                                          min_run <= len combo /\ INTERESTING combo = Some true /\ is_walk combo
                    | KEnd combo => exists d1, (done ++ [value]) ++ rest = d1 ++ combo /\ ((2 <= length combo)%nat -> is_walk combo)
                    end).
      { apply IH; [rewrite len_app, len_cons, len_nil; lia| |exact Hrestart]. exists done. reflexivity. }
      rewrite <- app_assoc in Hgo. simpl in Hgo.
      destruct (min_run <=? len rcombo) eqn:Em; [|exact Hgo]. apply Z.leb_le in Em.
      assert (Hl4 : 4 <= len (rev rcombo)) by (rewrite len_rev; lia).
      destruct (INTERESTING (rev rcombo)) as [[|]|] eqn:Eint; [| exact Hgo |now apply interesting_total in Eint].
      exists d0, value, rest. rewrite Hd, <- app_assoc. repeat split.
      * rewrite Hi, Hd. reflexivity.
      * now rewrite len_rev.
      * assumption.
      * apply inv_walk with (krl := krl) (past := past); [exact (conj Hlen (conj Hnil (conj Hlast (conj Hw (conj Hshort Hlong)))))|].
        unfold len in Hl4. lia.
Qed.

Lemma kw_inv_init : kw_inv [] [] (map (fun _ => None) kbs).
Proof.
  unfold kw_inv. split; [simpl; lia|]. split; [reflexivity|]. split; [intros cs c0 E; destruct cs; discriminate|].
  split; [intros j Hj; destruct j; discriminate|]. split; [reflexivity|]. simpl. lia.
Qed.

Lemma sound_K combo : min_run <= len combo -> INTERESTING combo = Some true -> is_walk combo ->
  sound (combo, Some (LK (len combo))).
Proof.
  intros Hm Hi Hw. split.
  - simpl. intros ->. rewrite len_nil in Hm. lia.
  - simpl. split; [reflexivity|]. split; [assumption|]. split; [exact Hw|]. now apply interesting_true.
Qed.

Lemma tiles_K combo : tiles pm combo [(combo, Some (LK (len combo)))].
Proof. exists [combo]. split; [simpl; apply app_nil_r|]. constructor; [reflexivity|constructor]. Qed.

Lemma kw_pre (pw d0 combo rest : str) index : pw = d0 ++ combo ++ rest -> index = len (d0 ++ combo) ->
  (if len combo =? index then [] else [(slice pw 0 (index - len combo), @None label)]) = osec d0.
Proof.
  intros -> ->. rewrite len_app. replace (len d0 + len combo - len combo) with (len d0) by lia.
  rewrite slice_prefix. destruct d0 as [|c d0].
  - rewrite len_nil. simpl. now rewrite Z.eqb_refl.
  - rewrite len_cons. pose proof (len_nonneg d0).
    replace (len combo =? 1 + len d0 + len combo) with false; [reflexivity|]. symmetry. apply Z.eqb_neq. lia.
Qed.

Theorem kw_ok : forall fuel pw, (length pw <= fuel)%nat -> pw <> [] ->
  exists sl f, KW fuel pw = Some (sl, f) /\ tiles pm pw sl /\ Forall sound sl /\ f = texts 0 sl /\
               Forall (fun x => snd x = None \/ isC 0 x = true) sl /\ no_adj unlab sl.
Proof.
  induction fuel as [|fu IH]; intros pw Hf Hne.
  - destruct pw; [congruence|simpl in Hf; lia].
  - pose proof (kw_loop_spec pw [] [] [] (map (fun _ => None) kbs) 0 eq_refl (ex_intro _ [] eq_refl) kw_inv_init) as Hs.
    cbn [detect_keyboard_walk]. simpl app in Hs.
    destruct (LOOP pw 0 (map (fun _ => None) kbs) [] []) as [|index combo|combo]; [contradiction| |].
    + destruct Hs as (d0 & value & rest' & Epw & Hidx & Hm & Hint & Hw).
      rewrite (kw_pre pw d0 combo (value :: rest') index Epw Hidx).
      assert (Hlt : index <> len pw).
      { rewrite Epw, Hidx, !len_app, len_cons. pose proof (len_nonneg rest'). lia. }
      apply Z.eqb_neq in Hlt. rewrite Hlt.
      assert (Erest : sfrom pw index = value :: rest').
      { rewrite Epw, Hidx, app_assoc. apply sfrom_app. }
      rewrite Erest.
      destruct (IH (value :: rest')) as (secs & found & -> & Ht & Hsd & Hfd & Hcl & Hna); [|discriminate|].
      { apply (f_equal (@length N)) in Epw. rewrite !app_length in Epw. simpl in Epw.
        assert (4 <= len combo) by lia. unfold len in *. simpl. lia. }
      eexists _, _. split; [reflexivity|]. split; [|split; [|split; [|split]]].
      5: { apply no_adj_osec_cons; [reflexivity|]. simpl. split; [discriminate|assumption]. }
      3: { unfold texts. rewrite filter_app, filter_isC_osec. simpl. now rewrite Hfd. }
      3: { apply Forall_app. split; [destruct d0; [constructor|rewrite osec_cons; constructor; [now left|constructor]]|].
           constructor; [now right|assumption]. }
      * rewrite Epw. apply tiles_app; [apply tiles_osec; apply pm_unlab|].
        change (combo ++ value :: rest') with (combo ++ (value :: rest')).
        change ((combo, Some (LK (len combo))) :: secs) with ([(combo, Some (LK (len combo)))] ++ secs).
        apply tiles_app; [apply tiles_K|assumption].
      * apply Forall_app. split.
        -- destruct d0; [constructor|]. rewrite osec_cons. constructor; [|constructor]. apply sound_unlab. discriminate.
        -- constructor; [now apply sound_K|assumption].
    + destruct Hs as (d0 & Epw & Hw).
      assert (Hwhole : exists sl f, Some ([(pw, @None label)], @nil str) = Some (sl, f) /\ tiles pm pw sl /\ Forall sound sl /\ f = texts 0 sl /\
                 Forall (fun x => snd x = None \/ isC 0 x = true) sl /\ no_adj unlab sl).
      { eexists _, _. split; [reflexivity|]. split; [|split; [|split; [reflexivity|split; [constructor; [now left|constructor]|simpl; auto]]]].
        - exists [pw]. split; [simpl; apply app_nil_r|]. constructor; [reflexivity|constructor].
        - constructor; [|constructor]. now apply sound_unlab. }
      destruct (min_run <=? len combo) eqn:Em; [|exact Hwhole]. apply Z.leb_le in Em.
      destruct (INTERESTING combo) as [[|]|] eqn:Eint; [|exact Hwhole|].
      * assert (Epre : (if len combo =? len pw then [] else [(slice pw 0 (len pw - len combo), @None label)]) = osec d0).
        { rewrite (kw_pre pw d0 combo [] (len pw)); [reflexivity|now rewrite app_nil_r|now rewrite Epw]. }
        rewrite Epre. eexists _, _. split; [reflexivity|]. split; [|split; [|split; [|split]]].
        5: { apply no_adj_osec_cons; [reflexivity|]. simpl. split; [discriminate|exact I]. }
        3: { unfold texts. rewrite filter_app, filter_isC_osec. reflexivity. }
        3: { apply Forall_app. split; [destruct d0; [constructor|rewrite osec_cons; constructor; [now left|constructor]]|].
             constructor; [now right|constructor]. }
        -- rewrite Epw. apply tiles_app; [apply tiles_osec; apply pm_unlab|apply tiles_K].
        -- apply Forall_app. split.
           ++ destruct d0; [constructor|]. rewrite osec_cons. constructor; [|constructor]. apply sound_unlab. discriminate.
           ++ constructor; [|constructor]. apply sound_K; try assumption. apply Hw. unfold len in Em. lia.
      * exfalso. revert Eint. apply interesting_total. lia.
Qed.

Theorem kw_split_ok_proved :
  kw_split_ok isalpha isdigit lower_c kbs fp_words min_run year_prefixes context_strings.
Proof.
  intros pw _ Hne. destruct (kw_ok (length pw) pw (Nat.le_refl _) Hne) as (sl & f & H1 & H2 & H3 & _). eauto.
Qed.

End Kbd.
