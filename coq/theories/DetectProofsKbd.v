(* The keyboard-walk detector (Detect.detect_keyboard_walk): it tiles the
   password, every K section is a run of at least min_run keys that are
   pairwise adjacent on ONE layout and mixes character classes, and it never
   raises (min_keyboard_run >= 4 makes every subscript of
   interesting_keyboard valid). *)
From Coq Require Import List ZArith NArith Bool Lia.
From Pcfg Require Import Str Multiword Detect DetectProofsStr DetectProofsDrive DetectProofsSimple DetectProofsSeg.
Import ListNotations.
Open Scope Z_scope.

Lemma nth_and_list : forall a b j, nth j (and_list a b) false = nth j a false && nth j b false.
Proof.
  induction a as [|x a IH]; intros b j; simpl.
  - destruct j; reflexivity.
  - destruct b as [|y b]; simpl.
    + destruct j; simpl; [now rewrite andb_false_r|]. destruct (nth j a false); reflexivity.
    + destruct j; simpl; [reflexivity|apply IH].
Qed.

Lemma nth_next_on : forall past cur j,
  nth j (next_on past cur) false =
  match nth j past None, nth j cur None with Some a, Some b => adjacent a b | _, _ => false end.
Proof.
  induction past as [|p past IH]; intros cur j; simpl.
  - destruct j; reflexivity.
  - destruct cur as [|c cur]; simpl.
    + destruct j; simpl; [now destruct p|]. destruct (nth j past None); reflexivity.
    + destruct j; simpl; [reflexivity|apply IH].
Qed.

Lemma any_true l : any l = true <-> exists j, nth j l false = true.
Proof.
  unfold any. induction l as [|x l IH]; simpl.
  - split; [discriminate|]. intros (j & H). destruct j; discriminate.
  - destruct x; simpl.
    + split; [intros _; now exists O|reflexivity].
    + rewrite IH. split; intros (j & H); [now exists (S j)|]. destruct j; [discriminate|now exists j].
Qed.

Lemma nth_true_lt (l : list bool) j : nth j l false = true -> (j < length l)%nat.
Proof.
  revert j. induction l as [|x l IH]; intros j H; [destruct j; discriminate|].
  destruct j; simpl in *; [lia|]. apply IH in H. lia.
Qed.

Lemma length_and_list a b : (length (and_list a b) <= length a)%nat.
Proof. revert b. induction a as [|x a IH]; intros [|y b]; simpl; try lia. specialize (IH b). lia. Qed.

Lemma length_next_on a b : (length (next_on a b) <= length a)%nat.
Proof. revert b. induction a as [|x a IH]; intros [|y b]; simpl; try lia. specialize (IH b). lia. Qed.

Lemma walk_on_snoc b : forall cs c0 v, walk_on b (cs ++ [c0]) -> key_adjacent b c0 v -> walk_on b ((cs ++ [c0]) ++ [v]).
Proof.
  induction cs as [|c cs IH]; intros c0 v Hw Ha; simpl in *.
  - split; [assumption|exact I].
  - destruct (cs ++ [c0]) as [|d r] eqn:E; [destruct cs; discriminate|].
    destruct Hw as (Hcd & Hw). simpl. split; [assumption|].
    specialize (IH c0 v). rewrite E in IH. now apply IH.
Qed.

Section Kbd.
Variables isalpha isdigit : N -> bool.
Variable lower_c : N -> str.
Variable kbs : list board.
Variable fp_words : list str.
Variable min_run : Z.
Variable year_prefixes : list str.
Variable context_strings : list str.
Hypothesis min_run_4 : 4 <= min_run.

Notation sound := (sound isalpha isdigit kbs min_run year_prefixes context_strings).
Notation pm := (pm lower_c).
Notation INTERESTING := (interesting isalpha isdigit lower_c fp_words).
Notation LOOP := (kw_loop isalpha isdigit lower_c kbs fp_words min_run).
Notation KW := (detect_keyboard_walk isalpha isdigit lower_c kbs fp_words min_run).

Lemma pos_list_nth c j : nth j (pos_list kbs c) None = find_row c (nth j kbs []) 0.
Proof. unfold pos_list. apply (map_nth (fun b => find_row c b 0) kbs [] j). Qed.

(* interesting_keyboard *)
Lemma interesting_true combo : INTERESTING combo = Some true -> 2 <= complexity isalpha isdigit combo.
Proof.
  unfold interesting. intros H.
  repeat match type of H with
  | match ?x with _ => _ end = _ => destruct x as [[|]|]; try discriminate
  end.
  injection H as H. now apply Z.leb_le.
Qed.

Lemma getc_in_range (s : str) i : - len s <= i < len s -> getc s i <> None.
Proof.
  intros Hi. unfold getc. cbv zeta. destruct (Z_lt_ge_dec i 0) as [Hn|Hp].
  - replace (i <? 0) with true by (symmetry; apply Z.ltb_lt; lia). cbv iota.
    replace (len s + i <? 0) with false by (symmetry; apply Z.ltb_ge; lia).
    replace (len s <=? len s + i) with false by (symmetry; apply Z.leb_gt; lia). simpl.
    apply nth_error_Some. unfold len in *. lia.
  - replace (i <? 0) with false by (symmetry; apply Z.ltb_ge; lia). cbv iota.
    replace (i <? 0) with false by (symmetry; apply Z.ltb_ge; lia).
    replace (len s <=? i) with false by (symmetry; apply Z.leb_gt; lia). simpl.
    apply nth_error_Some. unfold len in *. lia.
Qed.

Lemma interesting_total combo : 4 <= len combo -> INTERESTING combo <> None.
Proof.
  intros Hl. unfold interesting, is_c, oand.
  assert (G : forall i, - len combo <= i < len combo -> exists x, getc combo i = Some x).
  { intros i Hi. destruct (getc combo i) eqn:E; [eauto|]. now apply getc_in_range in E. }
  destruct (G 0 ltac:(lia)) as (x0 & ->). destruct (G 1 ltac:(lia)) as (x1 & ->). destruct (G 2 ltac:(lia)) as (x2 & ->).
  destruct (G (-1) ltac:(lia)) as (y1 & ->). destruct (G (-2) ltac:(lia)) as (y2 & ->).
  destruct (G (-3) ltac:(lia)) as (y3 & ->). destruct (G (-4) ltac:(lia)) as (y4 & ->).
  destruct (N.eqb x0 c_e); [discriminate|].
  destruct (N.eqb x1 c_e); [destruct (N.eqb x2 c_r); [discriminate|]|];
  (destruct (N.eqb x0 c_t); [destruct (N.eqb x1 c_y); [discriminate|]; destruct (N.eqb x1 c_t); [destruct (N.eqb x2 c_y); [discriminate|]|]|]);
  (destruct (N.eqb x0 c_y); [discriminate|]);
  (destruct (N.eqb x0 c_1); [destruct (N.eqb x1 c_2); [destruct (N.eqb x2 c_3); [discriminate|]|]|]);
  (destruct (N.eqb y1 c_3); [destruct (N.eqb y2 c_2); [destruct (N.eqb y3 c_1); [destruct (negb _); [discriminate|]|]|]|]);
  destruct (existsb _ fp_words); discriminate.
Qed.

(* the state of the `for index, value in enumerate(password)` loop *)
Definition kw_inv (combo : str) (krl : list bool) (past : list (option (Z * Z))) : Prop :=
  (length krl <= length kbs)%nat /\
  (combo = [] -> past = map (fun _ => None) kbs) /\
  (forall cs c0, combo = cs ++ [c0] -> past = pos_list kbs c0) /\
  (forall j, nth j krl false = true -> (2 <= length combo)%nat /\ walk_on (nth j kbs []) combo) /\
  ((length combo <= 1)%nat -> any krl = false) /\
  ((2 <= length combo)%nat -> any krl = true).

Definition is_walk (combo : str) : Prop := exists b, In b kbs /\ walk_on b combo.

Lemma inv_walk combo krl past : kw_inv combo krl past -> (2 <= length combo)%nat -> is_walk combo.
Proof.
  intros (Hlen & _ & _ & Hw & _ & Hany) H2. apply Hany in H2. apply any_true in H2. destruct H2 as (j & Hj).
  destruct (Hw j Hj) as (_ & Hwalk). exists (nth j kbs []). split; [|assumption].
  apply nth_In. apply nth_true_lt in Hj. lia.
Qed.

Lemma kw_loop_spec : forall rest done rcombo krl past index,
  index = len done -> (exists d0, done = d0 ++ rev rcombo) -> kw_inv (rev rcombo) krl past ->
  match LOOP rest index past rcombo krl with
  | KErr => False
  | KFound i combo => exists d0 value rest', done ++ rest = d0 ++ combo ++ value :: rest' /\ i = len (d0 ++ combo) /\
                        min_run <= len combo /\ INTERESTING combo = Some true /\ is_walk combo
  | KEnd combo => exists d0, done ++ rest = d0 ++ combo /\ ((2 <= length combo)%nat -> is_walk combo)
  end.
Proof.
  induction rest as [|value rest IH]; intros done rcombo krl past index Hi (d0 & Hd) Hinv.
  - simpl. exists d0. rewrite app_nil_r. split; [assumption|]. now apply inv_walk with (krl := krl) (past := past).
  - simpl.
    set (pl := pos_list kbs value). set (runs := next_on past pl).
    set (krl' := if any krl then and_list krl runs else runs).
    destruct Hinv as (Hlen & Hnil & Hlast & Hw & Hshort & Hlong).
    assert (Hpastlen : length past = length kbs).
    { destruct (rev rcombo) as [|c0 cs] eqn:E using rev_ind; [rewrite (Hnil eq_refl); apply map_length|].
      rewrite (Hlast _ _ eq_refl). unfold pos_list. apply map_length. }
    assert (Hlen' : (length krl' <= length kbs)%nat).
    { unfold krl'. destruct (any krl).
      - pose proof (length_and_list krl runs). lia.
      - unfold runs. pose proof (length_next_on past pl). lia. }
    (* adjacency read off the flags *)
    assert (Hruns : forall j, nth j runs false = true ->
              exists cs c0, rev rcombo = cs ++ [c0] /\ key_adjacent (nth j kbs []) c0 value).
    { intros j Hj. unfold runs in Hj. rewrite nth_next_on in Hj.
      destruct (rev rcombo) as [|c0 cs _] eqn:E using rev_ind.
      - rewrite (Hnil eq_refl) in Hj.
        replace (nth j (map (fun _ : board => None) kbs) None) with (@None (Z * Z)) in Hj; [discriminate|].
        clear. revert j. induction kbs as [|b l IHl]; intros [|j]; simpl; auto.
      - exists cs, c0. split; [reflexivity|]. rewrite (Hlast _ _ eq_refl) in Hj. unfold pl in Hj.
        rewrite !pos_list_nth in Hj.
        destruct (find_row c0 (nth j kbs []) 0) as [pc|] eqn:Ec; [|discriminate].
        destruct (find_row value (nth j kbs []) 0) as [pv|] eqn:Ev; [|discriminate].
        now exists pc, pv. }
    destruct (any krl') eqn:Ea.
    + (* the run goes on *)
      replace (done ++ value :: rest) with ((done ++ [value]) ++ rest) by (now rewrite <- app_assoc).
      apply (IH (done ++ [value]) (value :: rcombo) krl' pl (index + 1)).
      * rewrite len_app, len_cons, len_nil. lia.
      * exists d0. simpl. rewrite Hd. now rewrite <- app_assoc.
      * simpl rev. repeat split.
        -- assumption.
        -- intros E. destruct (rev rcombo); discriminate.
        -- intros cs c0 E. apply app_inj_tail in E. destruct E as (_ & <-). reflexivity.
        -- rewrite app_length. simpl.
           unfold krl' in H. destruct (any krl) eqn:Eany.
           ++ rewrite nth_and_list in H. apply andb_true_iff in H. destruct H as (Hk & _).
              destruct (Hw j Hk). lia.
           ++ destruct (Hruns j H) as (cs & c0 & E & _). rewrite E, app_length. simpl. lia.
        -- unfold krl' in H. destruct (any krl) eqn:Eany.
           ++ rewrite nth_and_list in H. apply andb_true_iff in H. destruct H as (Hk & Hr).
              destruct (Hw j Hk) as (_ & Hwalk). destruct (Hruns j Hr) as (cs & c0 & E & Hadj).
              rewrite E in *. now apply walk_on_snoc.
           ++ destruct (Hruns j H) as (cs & c0 & E & Hadj). rewrite E.
              assert (Hcs : cs = []).
              { destruct (Nat.le_gt_cases (length (rev rcombo)) 1) as [Hle|Hgt].
                - rewrite E, app_length in Hle. simpl in Hle. destruct cs; [reflexivity|simpl in Hle; lia].
                - apply Hlong in Hgt. congruence. }
              subst cs. simpl. split; [assumption|exact I].
        -- rewrite app_length. simpl. intros Hle.
           assert (rev rcombo = []) by (destruct (rev rcombo); [reflexivity|simpl in Hle; lia]).
           exfalso. apply any_true in Ea. destruct Ea as (j & Hj). unfold krl' in Hj.
           destruct (any krl).
           ++ rewrite nth_and_list in Hj. apply andb_true_iff in Hj. destruct Hj as (_ & Hr).
              destruct (Hruns j Hr) as (cs & c0 & E & _). rewrite H in E. destruct cs; discriminate.
           ++ destruct (Hruns j Hj) as (cs & c0 & E & _). rewrite H in E. destruct cs; discriminate.
        -- intros _. exact Ea.
    + (* the run has stopped *)
      assert (Hrestart : kw_inv (rev [value]) krl' pl).
      { simpl. repeat split.
        - assumption.
        - discriminate.
        - intros cs c0 E. change [value] with ([] ++ [value]) in E. apply app_inj_tail in E. destruct E as (_ & <-). reflexivity.
        - exfalso. assert (any krl' = true) by (apply any_true; eauto). congruence.
        - exfalso. assert (any krl' = true) by (apply any_true; eauto). congruence.
        - intros _. exact Ea.
        - simpl. lia. }
      assert (Hgo : match LOOP rest (index + 1) pl [value] krl' with
                    | KErr => False
                    | KFound i combo => exists d1 v r', (done ++ [value]) ++ rest = d1 ++ combo ++ v :: r' /\ i = len (d1 ++ combo) /\
                                          min_run <= len combo /\ INTERESTING combo = Some true /\ is_walk combo
                    | KEnd combo => exists d1, (done ++ [value]) ++ rest = d1 ++ combo /\ ((2 <= length combo)%nat -> is_walk combo)
                    end).
      { apply IH; [rewrite len_app, len_cons, len_nil; lia| |exact Hrestart]. exists done. reflexivity. }
      rewrite <- app_assoc in Hgo. simpl in Hgo.
      destruct (min_run <=? len rcombo) eqn:Em; [|exact Hgo]. apply Z.leb_le in Em.
      assert (Hl4 : 4 <= len (rev rcombo)) by (rewrite len_rev; lia).
      destruct (INTERESTING (rev rcombo)) as [[|]|] eqn:Eint; [| exact Hgo |now apply interesting_total in Eint].
      exists d0, value, rest. rewrite Hd, <- app_assoc. repeat split.
      * rewrite Hi, Hd. reflexivity.
      * now rewrite len_rev.
      * assumption.
      * apply inv_walk with (krl := krl) (past := past); [repeat split; assumption|].
        unfold len in Hl4. lia.
Qed.

End Kbd.
