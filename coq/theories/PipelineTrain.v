(* PipelineTrain.v - the trainer half of the pipeline model (Pipeline.v):
   what [train] returns, and where every section of every parsed password
   ends up in the counters the ruleset is written from. *)
From Coq Require Import String List NArith ZArith Bool Lia Sorting.Permutation.
From Pcfg Require Import ProbAlg Str Multiword Detect Segment TextFile TextFileProofs Counters CountersProofs LtallyProofs Reader
     DetectProofsStr DetectProofsDrive DetectProofsSimple DetectProofsMw DetectProofsSeg DetectProofsWeb DetectProofsKbd
     DetectProofsCount DetectProofsAdj DetectProofsPipe Pipeline.
From Pcfg Require Export PipelineSpec.
Import ListNotations.

(* ------------------------------------------------------------------ *)
(* the terminal counters, by the variable name the guesser gives them   *)
(* ------------------------------------------------------------------ *)

(* (variable name, value) pairs one section contributes *)
Definition sec_entries (E : env) (x : section) : list (TextFile.str * TextFile.str) :=
  let t := fst x in
  match snd x with
  | Some (LA _) => [(65%N :: dec_of_N (slen t), map (lower1 (e_lower E)) t);
                    (67%N :: dec_of_N (slen t), case_mask (e_isupper E) t)]
  | Some (LK _) => [(75%N :: dec_of_N (slen t), t)]
  | Some (LD _) => [(68%N :: dec_of_N (slen t), t)]
  | Some (LO _) => [(79%N :: dec_of_N (slen t), t)]
  | Some LY => [([89; 49]%N, t)]
  | Some LX => [([88; 49]%N, t)]
  | _ => []
  end.

(* variables whose file is indexed by the length of its values *)
Definition length_indexed (name : TextFile.str) : bool :=
  match name with
  | c :: _ => negb (N.eqb c 89 || N.eqb c 88)
  | [] => false
  end.

(* ------------------------------------------------------------------ *)
(* train                                                               *)
(* ------------------------------------------------------------------ *)

Lemma parse_all_Forall2 f : forall pws rs, parse_all f pws = Some rs -> Forall2 (fun pw r => f pw = POk r) pws rs.
Proof.
  induction pws as [|pw pws IH]; intros rs H; simpl in H.
  - injection H as <-. constructor.
  - destruct (f pw) as [|x] eqn:E; [discriminate|]. destruct (parse_all f pws) as [xs|]; [|discriminate].
    injection H as <-. constructor; [exact E|now apply IH].
Qed.

Lemma Forall2_parse_all f : forall pws rs, Forall2 (fun pw r => f pw = POk r) pws rs -> parse_all f pws = Some rs.
Proof. induction 1 as [|pw r pws rs H _ IH]; simpl; [reflexivity|]. now rewrite H, IH. Qed.

Section Train.
Context {A : palg}.
Variable E : env.

Definition train_pws (raw : list Str.str) : list Str.str := filter (accepted_pw E) raw.
Definition train_map (o : options A) (raw : list Str.str) : mwmap :=
  mw_pass E (filter (accepted_pw E) (o_multiword o)) (train_pws raw).

Lemma train_inv o raw tr : train E o raw = Some tr ->
  exists rs, Forall2 (fun pw r => parse_pw E (train_map o raw) pw = POk r) (train_pws raw) rs /\
             train_pws raw <> [] /\
             tr = {| t_counters := counters_of rs; t_n := N.of_nat (length (train_pws raw));
                     t_cov := o_cov o; t_sens := o_sensitive o |}.
Proof.
  unfold train, train_map, train_pws. intros H.
  destruct (filter (accepted_pw E) raw) as [|p ps] eqn:Ef; [discriminate|].
  destruct (parse_all _ (p :: ps)) as [rs|] eqn:Ep; [|discriminate].
  injection H as <-. exists rs. split; [now apply parse_all_Forall2|]. split; [discriminate|reflexivity].
Qed.

Lemma segments_eq o raw pw : segments E o raw pw = parse_pw E (train_map o raw) pw.
Proof. reflexivity. Qed.

Lemma accepted_nonempty p : e_rej_empty E = true -> accepted_pw E p = true -> p <> [].
Proof.
  intros Hr H ->. unfold accepted_pw, check_valid in H. rewrite Hr in H. discriminate.
Qed.

(* a password of the list: accepted passwords are parsed, in order *)
Lemma train_parsed o raw rs pw :
  Forall2 (fun pw r => parse_pw E (train_map o raw) pw = POk r) (train_pws raw) rs ->
  In pw raw -> accepted_pw E pw = true ->
  exists r, In r rs /\ parse_pw E (train_map o raw) pw = POk r.
Proof.
  intros H Hin Hacc. assert (Hp : In pw (train_pws raw)) by (apply filter_In; now split).
  clear -H Hp. induction H as [|p r ps rs Hpr _ IH]; [contradiction|].
  destruct Hp as [->|Hp]; [exists r; split; [now left|assumption]|].
  destruct (IH Hp) as (r' & Hr' & E'). exists r'. split; [now right|assumption].
Qed.

(* ------------------------------------------------------------------ *)
(* segmentation facts (C05) for the environment                        *)
(* ------------------------------------------------------------------ *)

Hypothesis Haligned : e_aligned E = true.
Hypothesis Hgood : forall c, goodc (e_isalpha E) (e_isdigit E) (e_lower E) c.
Hypothesis Hminlen : (1 <= e_mw_min_len E)%Z.
Hypothesis Hyear : Forall (fun q => len q = 2%Z) (e_year_prefixes E).
Hypothesis Htlds : Forall (fun t => (1 <= len t)%Z) (e_tlds E).
Hypothesis Hminrun : (4 <= e_min_run E)%Z.

Notation e_pm := (pm (e_lower E)).
Notation e_sound := (sound (e_isalpha E) (e_isdigit E) (e_kbs E) (e_min_run E) (e_year_prefixes E) (e_context E)).
Notation e_counters_ok := (counters_ok (e_isupper E) (e_lower E)).

Theorem parse_pw_full m pw : pw <> [] ->
  exists r, parse_pw E m pw = POk r /\ tiles e_pm pw (p_sections r) /\ Forall e_sound (p_sections r) /\
            Forall (fun y => snd y <> None) (p_sections r) /\ e_counters_ok r.
Proof.
  intros Hne. unfold parse_pw. rewrite Haligned.
  destruct (parse_full (e_isalpha E) (e_isdigit E) (e_isupper E) (e_lower E) (e_kbs E) (e_fp_words E) (e_min_run E)
              (e_tlds E) (e_year_prefixes E) (e_context E) (e_mw_threshold E) (e_mw_min_len E) (e_mw_max_len E)
              Hminlen Hyear Htlds Hminrun m pw) as (r & H1 & H2 & H3 & H4 & H5 & _).
  - apply Forall_forall. intros c _. apply Hgood.
  - exact Hne.
  - exists r. auto.
Qed.

(* [train] never stops on an exception of parse(): it returns a ruleset
   whenever one password is accepted *)
Theorem train_total (o : options A) raw : e_rej_empty E = true -> train_pws raw <> [] -> exists tr, train E o raw = Some tr.
Proof.
  intros Hre Hne.
  assert (Hgen : forall l, Forall (fun pw => pw <> []) l -> exists rs, parse_all (parse_pw E (train_map o raw)) l = Some rs).
  { induction 1 as [|q qs Hq _ (rs & IH)]; [now exists []|].
    destruct (parse_pw_full (train_map o raw) q Hq) as (r & Er & _). exists (r :: rs). simpl. now rewrite Er, IH. }
  destruct (Hgen (train_pws raw)) as (rs & Ers).
  { apply Forall_forall. intros pw Hpw. apply (accepted_nonempty pw Hre). apply filter_In in Hpw. tauto. }
  unfold train. unfold train_map, train_pws in *.
  destruct (filter (accepted_pw E) raw) as [|p ps] eqn:Ep; [congruence|]. rewrite Ers. eauto.
Qed.

(* ------------------------------------------------------------------ *)
(* every section is counted under the name of its variable             *)
(* ------------------------------------------------------------------ *)

Lemma in_texts k x sl : In x sl -> isC k x = true -> In (fst x) (texts k sl).
Proof. intros Hx Hk. unfold texts. apply in_map. apply filter_In. now split. Qed.

Lemma slen_map (f : N -> N) (t : list N) : slen (map f t) = slen t.
Proof. unfold slen. now rewrite map_length. Qed.

Lemma slen_case_mask t : slen (case_mask (e_isupper E) t) = slen t.
Proof. unfold slen, case_mask. now rewrite map_length. Qed.

Lemma in_lnamed letter items v :
  In v items ->
  exists cnt, In (letter :: dec_of_N (slen v), cnt) (lnamed letter (ltally items)) /\ In v (map fst cnt) /\
              (forall k, In k (map fst cnt) -> slen k = slen v) /\ cnt = Counters.tally (filter (len_is (slen v)) items).
Proof.
  intros Hv. destruct (ltally_item_present items v Hv) as (c & Hc & Hvc). exists c.
  split; [unfold lnamed; apply in_map_iff; exists (slen v, c); split; [reflexivity|assumption]|].
  split; [assumption|]. split.
  - intros k Hk. now destruct (ltally_items_have_length items (slen v) c k Hc Hk).
  - now destruct (ltally_entry items (slen v) c Hc).
Qed.

Lemma in_flat_map_of {X} (f : parsed -> list X) rs r v : In r rs -> In v (f r) -> In v (flat_map f rs).
Proof. intros Hr Hv. apply in_flat_map. now exists r. Qed.

Theorem section_counted rs r x name v :
  In r rs -> e_counters_ok r -> In x (p_sections r) -> In (name, v) (sec_entries E x) ->
  exists cnt, In (name, cnt) (term_counters (counters_of rs)) /\ In v (map fst cnt) /\ cnt <> [] /\
              (length_indexed name = true -> forall k, In k (map fst cnt) -> slen k = slen v) /\
              exists items, cnt = Counters.tally items.
Proof.
  intros Hr Hc Hx He. destruct x as [t [l|]]; [|contradiction].
  destruct Hc as (C0 & _ & _ & C3 & C4 & _ & _ & C6 & C7 & _ & _ & _ & _ & _ & _ & C5 & C5m).
  unfold term_counters, counters_of. cbn [pc_alpha pc_masks pc_digits pc_other pc_keyboard pc_years pc_context].
  assert (Hne : forall (c : list (TextFile.str * N)) w, In w (map fst c) -> c <> []) by (intros c w Hw ->; exact Hw).
  destruct l as [n| | | | |n|n|n]; cbn [sec_entries fst snd] in He.
  - (* K *) destruct He as [He|[]]. injection He as <- <-.
    assert (Hin : In t (flat_map p_walks rs)).
    { apply (in_flat_map_of p_walks rs r); [assumption|]. eapply Permutation_in; [apply Permutation_sym; exact C0|].
      now apply (in_texts 0 (t, Some (LK n))). }
    destruct (in_lnamed 75 _ t Hin) as (cnt & H1 & H2 & H3 & H4). exists cnt.
    split; [rewrite !in_app_iff; tauto|]. split; [assumption|]. split; [eapply Hne; eassumption|]. split; [intros _; exact H3|eauto].
  - contradiction.
  - contradiction.
  - (* Y *) destruct He as [He|[]]. injection He as <- <-.
    assert (Hin : In t (flat_map p_years rs)).
    { apply (in_flat_map_of p_years rs r); [assumption|]. eapply Permutation_in; [apply Permutation_sym; exact C3|].
      now apply (in_texts 3 (t, Some LY)). }
    exists (Counters.tally (flat_map p_years rs)). split; [rewrite !in_app_iff; simpl; tauto|].
    assert (Hk : In t (map fst (Counters.tally (flat_map p_years rs)))) by now apply tally_keys_in.
    split; [assumption|]. split; [eapply Hne; eassumption|]. split; [discriminate|eauto].
  - (* X *) destruct He as [He|[]]. injection He as <- <-.
    assert (Hin : In t (flat_map p_context rs)).
    { apply (in_flat_map_of p_context rs r); [assumption|]. eapply Permutation_in; [apply Permutation_sym; exact C4|].
      now apply (in_texts 4 (t, Some LX)). }
    exists (Counters.tally (flat_map p_context rs)). split; [rewrite !in_app_iff; simpl; tauto|].
    assert (Hk : In t (map fst (Counters.tally (flat_map p_context rs)))) by now apply tally_keys_in.
    split; [assumption|]. split; [eapply Hne; eassumption|]. split; [discriminate|eauto].
  - (* A *) destruct He as [He|[He|[]]]; injection He as <- <-.
    + assert (Hin : In (map (lower1 (e_lower E)) t) (flat_map p_alpha rs)).
      { apply (in_flat_map_of p_alpha rs r); [assumption|]. rewrite C5. apply in_map.
        now apply (in_texts 5 (t, Some (LA n))). }
      destruct (in_lnamed 65 _ _ Hin) as (cnt & H1 & H2 & H3 & H4). rewrite slen_map in H1. exists cnt.
      split; [rewrite !in_app_iff; tauto|]. split; [assumption|]. split; [eapply Hne; eassumption|]. split; [intros _; exact H3|eauto].
    + assert (Hin : In (case_mask (e_isupper E) t) (flat_map p_masks rs)).
      { apply (in_flat_map_of p_masks rs r); [assumption|]. rewrite C5m. apply in_map.
        now apply (in_texts 5 (t, Some (LA n))). }
      destruct (in_lnamed 67 _ _ Hin) as (cnt & H1 & H2 & H3 & H4). rewrite slen_case_mask in H1. exists cnt.
      split; [rewrite !in_app_iff; tauto|]. split; [assumption|]. split; [eapply Hne; eassumption|]. split; [intros _; exact H3|eauto].
  - (* D *) destruct He as [He|[]]. injection He as <- <-.
    assert (Hin : In t (flat_map p_digits rs)).
    { apply (in_flat_map_of p_digits rs r); [assumption|]. eapply Permutation_in; [apply Permutation_sym; exact C6|].
      now apply (in_texts 6 (t, Some (LD n))). }
    destruct (in_lnamed 68 _ t Hin) as (cnt & H1 & H2 & H3 & H4). exists cnt.
    split; [rewrite !in_app_iff; tauto|]. split; [assumption|]. split; [eapply Hne; eassumption|]. split; [intros _; exact H3|eauto].
  - (* O *) destruct He as [He|[]]. injection He as <- <-.
    assert (Hin : In t (flat_map p_other rs)).
    { apply (in_flat_map_of p_other rs r); [assumption|]. eapply Permutation_in; [apply Permutation_sym; exact C7|].
      now apply (in_texts 7 (t, Some (LO n))). }
    destruct (in_lnamed 79 _ t Hin) as (cnt & H1 & H2 & H3 & H4). exists cnt.
    split; [rewrite !in_app_iff; tauto|]. split; [assumption|]. split; [eapply Hne; eassumption|]. split; [intros _; exact H3|eauto].
Qed.

End Train.
