(* C05 for the whole pipeline PCFGPasswordParser.parse (Segment.parse with
   the repaired working string): no exception, tiling, soundness of every
   label, and the counters as tallies of the sections. *)
From Coq Require Import List ZArith NArith Bool Lia Sorting.Permutation.
From Pcfg Require Import Str Multiword Detect Segment DetectProofsStr DetectProofsDrive DetectProofsSimple DetectProofsMw
     DetectProofsSeg DetectProofsWeb DetectProofsKbd DetectProofsCount DetectProofsAdj.
Import ListNotations.
Open Scope Z_scope.

Lemma flat_map_single {X Y} (f : X -> Y) l : flat_map (fun x => [f x]) l = map f l.
Proof. induction l; simpl; congruence. Qed.

Section Pipe.
Variables isalpha isdigit isupper : N -> bool.
Variable lower_c : N -> str.
Variable kbs : list board.
Variable fp_words : list str.
Variable min_run : Z.
Variable tlds : list str.
Variable year_prefixes : list str.
Variable context_strings : list str.
Variables mw_threshold mw_min_len mw_max_len : Z.
Hypothesis min_len_pos : 1 <= mw_min_len.
Hypothesis year_prefix_len : Forall (fun q => len q = 2) year_prefixes.
Hypothesis tlds_nonempty : Forall (fun t => 1 <= len t) tlds.
Hypothesis min_run_4 : 4 <= min_run.

Notation L := (map (lower1 lower_c)).
Notation good := (good isalpha isdigit lower_c).
Notation sound := (sound isalpha isdigit kbs min_run year_prefixes context_strings).
Notation pm := (pm lower_c).
Notation nalpha := (nalpha isalpha).
Notation ndigit := (ndigit isdigit).
Notation mwp := (mw_parse lower_c mw_threshold mw_min_len mw_max_len).
Notation PARSE := (parse isalpha isdigit isupper lower_c true kbs fp_words min_run tlds year_prefixes context_strings
                         mw_threshold mw_min_len mw_max_len).

Definition supported_label (l : label) : bool := match l with LW | LE => false | _ => true end.

(* the counters one parse() feeds, against the sections it produced *)
Definition counters_ok (r : parsed) : Prop :=
  let sl := p_sections r in
  Permutation (p_walks r) (texts 0 sl) /\
  Permutation (p_emails r) (map L (texts 1 sl)) /\
  Permutation (p_urls r) (texts 2 sl) /\
  Permutation (p_years r) (texts 3 sl) /\
  Permutation (p_context r) (texts 4 sl) /\
  Permutation (p_alpha r) (map L (texts 5 sl)) /\
  Permutation (p_masks r) (map (case_mask isupper) (texts 5 sl)) /\
  Permutation (p_digits r) (texts 6 sl) /\
  Permutation (p_other r) (texts 7 sl) /\
  map snd sl = map Some (p_prince r) /\ p_base r = p_prince r /\
  p_supported r = forallb supported_label (p_base r) /\
  length (p_providers r) = length (texts 1 sl) /\
  length (p_hosts r) = length (texts 2 sl) /\ length (p_prefixes r) = length (texts 2 sl) /\
  (* the alpha words and masks also in section order *)
  p_alpha r = map L (texts 5 sl) /\ p_masks r = map (case_mask isupper) (texts 5 sl).

Theorem parse_full : forall m pw, good pw -> pw <> [] ->
  exists r, PARSE m pw = POk r /\ tiles pm pw (p_sections r) /\ Forall sound (p_sections r) /\
            Forall (fun y => snd y <> None) (p_sections r) /\ counters_ok r /\ no_adj (isC 6) (p_sections r).
Proof.
  intros m pw Hg Hne. unfold parse.
  destruct (kw_ok isalpha isdigit lower_c kbs fp_words min_run year_prefixes context_strings min_run_4 (length pw) pw (Nat.le_refl _) Hne)
    as (sl0 & walks & -> & Ht0 & Hs0 & Hwalks & Hcl0 & N0).
  pose proof (tiles_good isalpha isdigit lower_c _ _ Hg Ht0) as Hi0.
  destruct (email_split_ok_proved isalpha isdigit lower_c kbs min_run tlds year_prefixes context_strings) as (Hem_err & Hem).
  destruct (website_split_ok_proved isalpha isdigit lower_c kbs min_run tlds year_prefixes context_strings tlds_nonempty) as (Hweb_err & Hweb).
  (* e-mail *)
  destruct (split_driver_tiling _ (detect_email lower_c true tlds) false pm (pm_unlab lower_c) good sound Hem_err Hem sl0 Hi0 Hs0)
    as (sl1 & f1 & E1 & Ht1 & Hs1 & Hi1).
  rewrite E1.
  destruct (stage_class _ _ false good 1 _ (fun f => [fst f]) (fun x => L (fst x))
              (email_class isalpha isdigit lower_c kbs min_run tlds year_prefixes context_strings) sl0 sl1 f1 E1 Hi0) as (A1 & B1 & _).
  (* website *)
  destruct (split_driver_tiling _ (detect_website isalpha lower_c true tlds) false pm (pm_unlab lower_c) good sound Hweb_err Hweb sl1 Hi1 Hs1)
    as (sl2 & f2 & E2 & Ht2 & Hs2 & Hi2).
  rewrite E2.
  destruct (stage_class _ _ false good 2 _ (fun f => [fst (fst f)]) fst
              (website_class isalpha isdigit lower_c kbs min_run tlds year_prefixes context_strings tlds_nonempty) sl1 sl2 f2 E2 Hi1) as (A2 & B2 & _).
  (* year *)
  destruct (split_driver_tiling _ (detect_year isdigit year_prefixes) true pm (pm_unlab lower_c) good sound
              (fun s _ => detect_year_no_err isdigit year_prefixes s)
              (fun s p f Hgs _ D => year_split_ok isalpha isdigit lower_c kbs min_run year_prefixes context_strings year_prefix_len s p f Hgs D) sl2 Hi2 Hs2)
    as (sl3 & f3 & E3 & Ht3 & Hs3 & Hi3).
  rewrite E3.
  destruct (stage_class _ _ true good 3 _ (fun f => [f]) fst
              (year_class isalpha isdigit lower_c kbs min_run year_prefixes context_strings year_prefix_len) sl2 sl3 f3 E3 Hi2) as (A3 & B3 & _).
  (* context *)
  destruct (split_driver_tiling _ (detect_context isdigit context_strings) true pm (pm_unlab lower_c) good sound
              (fun s _ => detect_context_no_err isdigit context_strings s)
              (fun s p f Hgs _ D => context_split_ok isalpha isdigit lower_c kbs min_run year_prefixes context_strings s p f Hgs D) sl3 Hi3 Hs3)
    as (sl4 & f4 & E4 & Ht4 & Hs4 & Hi4).
  rewrite E4.
  destruct (stage_class _ _ true good 4 _ (fun f => [f]) fst
              (context_class isalpha isdigit lower_c kbs min_run year_prefixes context_strings) sl3 sl4 f4 E4 Hi3) as (A4 & B4 & _).
  (* alpha *)
  assert (Hmwtot : forall x, mwp m x <> None) by (intro x; now apply mw_parse_total).
  destruct (split_driver_tiling _ (detect_alpha isalpha isupper lower_c true (mwparse lower_c mw_threshold mw_min_len mw_max_len m))
              false pm (pm_unlab lower_c) good sound
              (fun s _ => detect_alpha_no_err isalpha isupper lower_c true _ s Hmwtot)
              (fun s p f Hgs _ D => alpha_split_ok isalpha isdigit isupper lower_c kbs min_run year_prefixes context_strings
                                      mw_threshold mw_min_len mw_max_len min_len_pos m s p f Hgs D) sl4 Hi4 Hs4)
    as (sl5 & f5 & E5 & Ht5 & Hs5 & Hi5).
  rewrite E5.
  destruct (stage_class _ _ false good 5 _ fst (fun x => L (fst x))
              (fun s p f Hs D => match alpha_class isalpha isdigit isupper lower_c kbs min_run year_prefixes context_strings
                                         mw_threshold mw_min_len mw_max_len min_len_pos m s p f Hs D with
                                 | conj a (conj b (conj c _)) => conj a (conj b c) end) sl4 sl5 f5 E5 Hi4) as (A5 & B5 & _).
  destruct (stage_class _ _ false good 5 _ snd (fun x => case_mask isupper (fst x))
              (fun s p f Hs D => match alpha_class isalpha isdigit isupper lower_c kbs min_run year_prefixes context_strings
                                         mw_threshold mw_min_len mw_max_len min_len_pos m s p f Hs D with
                                 | conj a (conj b (conj _ d)) => conj a (conj b d) end) sl4 sl5 f5 E5 Hi4) as (A5m & _ & _).
  assert (Halpha_cls : forall s p f, good s -> detect_alpha isalpha isupper lower_c true (mwp m) s = DYes p f ->
            unlab_all good p /\ only_class 5 p).
  { intros s p f Hs D. destruct (alpha_class isalpha isdigit isupper lower_c kbs min_run year_prefixes context_strings
                                    mw_threshold mw_min_len mw_max_len min_len_pos m s p f Hs D) as (a & b & _). now split. }
  assert (Hna5 : unlab_all nalpha sl5).
  { unfold drive_all in E5. eapply (drive_complete _ _ good nalpha); [| |exact E5|exact Hi4].
    - intros s Hgs D. unfold DetectProofsSeg.nalpha. rewrite <- (good_nalpha isalpha isdigit lower_c) by assumption.
      eapply detect_alpha_none; [now apply (good_lowne isalpha isdigit)|exact D| |].
      + intros x _. apply Hmwtot.
      + intros x b. now apply mwp_no_empty.
    - intros s p f Hgs D.
      destruct (alpha_split_ok isalpha isdigit isupper lower_c kbs min_run year_prefixes context_strings
                  mw_threshold mw_min_len mw_max_len min_len_pos m s p f Hgs D) as (_ & _ & Hip & _). split; [assumption|].
      apply detect_alpha_spec in D; [|intros x b ws; now apply mw_parse_concat|now apply (good_lowne isalpha isdigit)].
      destruct D as (l1 & l2 & l3 & pieces & b & -> & _ & H1 & _ & _ & _ & _ & Hpne & -> & _).
      destruct l1 as [|c l1].
      + destruct pieces as [|pc ps]; [congruence|]. simpl. eexists _, _. split; [reflexivity|]. simpl. discriminate.
      + rewrite osec_cons. simpl. eexists _, _. split; [reflexivity|]. simpl. intros _.
        unfold DetectProofsSeg.nalpha. apply good_app in Hgs. destruct Hgs as (Hg1 & _).
        now rewrite <- (good_nalpha isalpha isdigit lower_c). }
  (* digit *)
  set (Inv6 := fun s => good s /\ nalpha s).
  assert (Hsub6 : forall a b, Inv6 (a ++ b) -> Inv6 a /\ Inv6 b).
  { intros a b (Hgab & Hnab). apply good_app in Hgab. apply nalpha_app in Hnab. unfold Inv6. tauto. }
  pose proof (unlab_all_and _ _ _ Hi5 Hna5) as Hi5'.
  destruct (split_driver_tiling _ (detect_digits isdigit) false pm (pm_unlab lower_c) Inv6 sound
              (fun s _ => detect_digits_no_err isdigit s)
              (fun s p f Hgs _ D => digit_split_ok isalpha isdigit lower_c kbs min_run year_prefixes context_strings Inv6 s p f Hsub6 Hgs D) sl5 Hi5' Hs5)
    as (sl6 & f6 & E6 & Ht6 & Hs6 & Hi6).
  rewrite E6.
  destruct (stage_class _ _ false (fun _ => True) 6 _ (fun f => [f]) fst (digit_class isdigit) sl5 sl6 f6 E6
              ltac:(apply Forall_forall; intros; exact I)) as (A6 & B6 & _).
  assert (Hnd6 : unlab_all ndigit sl6).
  { unfold drive_all in E6. eapply (drive_complete _ _ Inv6 ndigit); [| |exact E6|exact Hi5'].
    - intros s _ D. now apply detect_digits_none.
    - intros s p f Hgs D.
      destruct (digit_split_ok isalpha isdigit lower_c kbs min_run year_prefixes context_strings Inv6 s p f Hsub6 Hgs D) as (_ & _ & Hip & _).
      split; [assumption|].
      apply detect_digits_spec in D. destruct D as (l1 & l2 & l3 & -> & H1 & _ & _ & _ & -> & _).
      destruct l1 as [|c l1]; simpl; eexists _, _; (split; [reflexivity|]); simpl; [discriminate|].
      intros _. exact H1. }
  assert (Hu6 : unlab_all (fun s => nalpha s /\ ndigit s) sl6).
  { apply unlab_all_and; [|assumption]. eapply Forall_impl; [|exact Hi6]. intros y Hy E. now apply Hy. }
  (* chains of label classes through the stages *)
  assert (Z0 : forall k, k <> 0%nat -> filter (isC k) sl0 = []) by (intros k Hk; now apply (only_class_filter 0 k sl0 Hcl0)).
  Ltac chain B1 B2 B3 B4 B5 B6 :=
    repeat first [ apply Permutation_refl
                 | eapply Permutation_trans; [first [apply B1|apply B2|apply B3|apply B4|apply B5|apply B6]; discriminate|] ].
  assert (F7 : filter (isC 7) sl6 = []).
  { apply Permutation_nil. rewrite <- (Z0 7%nat ltac:(discriminate)). chain B1 B2 B3 B4 B5 B6. }
  pose proof (other_class sl6 F7) as Ho.
  destruct (other_detection sl6) as [sl7 others] eqn:Eo. destruct Ho as (Ho & Hothers).
  destruct (other_ok isalpha isdigit lower_c kbs min_run year_prefixes context_strings sl6 Hs6 Hu6 pw) as (Ht7 & Hs7 & Hl7).
  { apply Ht6, Ht5, Ht4, Ht3, Ht2, Ht1, Ht0. }
  rewrite Eo in Ht7, Hs7, Hl7. simpl in Ht7, Hs7, Hl7.
  destruct (base_structure_total sl7 Hl7) as (sup & ls & Eb). rewrite Eb.
  destruct (base_structure_spec sl7 sup ls Eb) as (Hlabels & Hsup).
  (* adjacency *)
  assert (N7 : no_adj (isC 6) sl7).
  { pose proof (drive_no_adj _ _ false good
                  (email_shape isalpha isdigit lower_c kbs min_run tlds year_prefixes context_strings) sl0 sl1 f1 E1 Hi0 N0) as N1.
    pose proof (drive_no_adj _ _ false good
                  (website_shape isalpha isdigit lower_c kbs min_run tlds year_prefixes context_strings tlds_nonempty) sl1 sl2 f2 E2 Hi1 N1) as N2.
    pose proof (drive_no_adj _ _ true good
                  (year_shape isalpha isdigit lower_c kbs min_run year_prefixes context_strings year_prefix_len) sl2 sl3 f3 E3 Hi2 N2) as N3.
    pose proof (drive_no_adj _ _ true good
                  (context_shape isalpha isdigit lower_c kbs min_run year_prefixes context_strings) sl3 sl4 f4 E4 Hi3 N3) as N4.
    pose proof (drive_no_adj _ _ false good
                  (alpha_shape2 isalpha isdigit isupper lower_c kbs min_run year_prefixes context_strings
                     mw_threshold mw_min_len mw_max_len min_len_pos m) sl4 sl5 f5 E5 Hi4 N4) as N5.
    assert (F6 : filter (isC 6) sl5 = []).
    { apply Permutation_nil. rewrite <- (Z0 6%nat ltac:(discriminate)). chain B1 B2 B3 B4 B5 B6. }
    pose proof (digit_stage_no_adj isdigit sl5 sl6 f6 E6 N5 F6) as N6.
    pose proof (other_no_adj sl6 N6) as N7'. now rewrite Eo in N7'. }
  eexists. split; [reflexivity|]. simpl. split; [assumption|]. split; [assumption|]. split; [assumption|].
  split; [|exact N7].
  (* counters *)
  assert (pre : forall c sl, Permutation (filter (isC c) sl0) (filter (isC c) sl) -> c <> 0%nat -> filter (isC c) sl = []).
  { intros c sl Hp Hc. apply Permutation_nil. rewrite <- (Z0 c Hc). exact Hp. }
  unfold counters_ok, texts. simpl.
  rewrite !(Ho 0%nat), !(Ho 1%nat), !(Ho 2%nat), !(Ho 3%nat), !(Ho 4%nat), !(Ho 5%nat), !(Ho 6%nat) by discriminate.
  assert (P1 : Permutation (map fst f1) (map (fun x => L (fst x)) (filter (isC 1) sl6))).
  { rewrite (pre 1%nat sl0 (Permutation_refl _) ltac:(discriminate)), app_nil_r, flat_map_single in A1.
    eapply Permutation_trans; [exact A1|]. apply Permutation_map. chain B1 B2 B3 B4 B5 B6. }
  assert (P2 : Permutation (map (fun x => fst (fst x)) f2) (map fst (filter (isC 2) sl6))).
  { rewrite (pre 2%nat sl1 ltac:(chain B1 B2 B3 B4 B5 B6) ltac:(discriminate)), app_nil_r, flat_map_single in A2.
    eapply Permutation_trans; [exact A2|]. apply Permutation_map. chain B1 B2 B3 B4 B5 B6. }
  assert (P3 : Permutation f3 (map fst (filter (isC 3) sl6))).
  { rewrite (pre 3%nat sl2 ltac:(chain B1 B2 B3 B4 B5 B6) ltac:(discriminate)), app_nil_r, flat_map_single, map_id in A3.
    eapply Permutation_trans; [exact A3|]. apply Permutation_map. chain B1 B2 B3 B4 B5 B6. }
  assert (P4 : Permutation f4 (map fst (filter (isC 4) sl6))).
  { rewrite (pre 4%nat sl3 ltac:(chain B1 B2 B3 B4 B5 B6) ltac:(discriminate)), app_nil_r, flat_map_single, map_id in A4.
    eapply Permutation_trans; [exact A4|]. apply Permutation_map. chain B1 B2 B3 B4 B5 B6. }
  assert (P5 : Permutation (flat_map fst f5) (map (fun x => L (fst x)) (filter (isC 5) sl6))).
  { rewrite (pre 5%nat sl4 ltac:(chain B1 B2 B3 B4 B5 B6) ltac:(discriminate)), app_nil_r in A5.
    eapply Permutation_trans; [exact A5|]. apply Permutation_map. chain B1 B2 B3 B4 B5 B6. }
  assert (P5m : Permutation (flat_map snd f5) (map (fun x => case_mask isupper (fst x)) (filter (isC 5) sl6))).
  { rewrite (pre 5%nat sl4 ltac:(chain B1 B2 B3 B4 B5 B6) ltac:(discriminate)), app_nil_r in A5m.
    eapply Permutation_trans; [exact A5m|]. apply Permutation_map. chain B1 B2 B3 B4 B5 B6. }
  assert (P6 : Permutation f6 (map fst (filter (isC 6) sl6))).
  { rewrite (pre 6%nat sl5 ltac:(chain B1 B2 B3 B4 B5 B6) ltac:(discriminate)), app_nil_r, flat_map_single, map_id in A6.
    exact A6. }
  assert (F5pre : filter (isC 5) sl4 = []) by (apply (pre 5%nat sl4); [chain B1 B2 B3 B4 B5 B6|discriminate]).
  assert (O5 : filter (isC 5) sl6 = filter (isC 5) sl5).
  { apply (stage_other_eq _ (detect_digits isdigit) (fun _ => True) 6) with (reex := false) (fs := f6); try assumption.
    - intros s p f Hs D. destruct (digit_class isdigit s p f Hs D) as (a & b & _). now split.
    - discriminate.
    - apply Forall_forall; intros; exact I. }
  assert (OA : flat_map fst f5 = map (fun x => L (fst x)) (filter (isC 5) sl6)).
  { rewrite O5. symmetry.
    apply (stage_found_ordered _ _ good 5 Halpha_cls _ fst (fun x => L (fst x))) with (todo := sl4); try assumption.
    intros s p f Hs D. destruct (alpha_shape isalpha isdigit isupper lower_c mw_threshold mw_min_len mw_max_len min_len_pos m s p f Hs D)
      as (l1 & mids & l3 & E & Hne' & Hm & Hf & _). exists l1, mids, l3. auto. }
  assert (OM : flat_map snd f5 = map (fun x => case_mask isupper (fst x)) (filter (isC 5) sl6)).
  { rewrite O5. symmetry.
    apply (stage_found_ordered _ _ good 5 Halpha_cls _ snd (fun x => case_mask isupper (fst x))) with (todo := sl4); try assumption.
    intros s p f Hs D. destruct (alpha_shape isalpha isdigit isupper lower_c mw_threshold mw_min_len mw_max_len min_len_pos m s p f Hs D)
      as (l1 & mids & l3 & E & Hne' & Hm & _ & Hf). exists l1, mids, l3. auto. }
  repeat split.
  - rewrite Hwalks. unfold texts. apply Permutation_map. chain B1 B2 B3 B4 B5 B6.
  - now rewrite map_map.
  - assumption.
  - assumption.
  - assumption.
  - now rewrite map_map.
  - now rewrite map_map.
  - assumption.
  - unfold texts in Hothers. rewrite Hothers. apply Permutation_refl.
  - assumption.
  - assumption.
  - rewrite !map_length. apply Permutation_length in P1. now rewrite !map_length in P1.
  - rewrite !map_length. apply Permutation_length in P2. now rewrite !map_length in P2.
  - rewrite !map_length. apply Permutation_length in P2. now rewrite !map_length in P2.
  - now rewrite map_map.
  - now rewrite map_map.
Qed.

End Pipe.
