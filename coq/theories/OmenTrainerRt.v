(* Runtime of the generated OMEN trainer code (gen/OmenTrainer_gen.v,
   gen/OmenTrainerOut_gen.v, gen/OmenTrainerAlpha_gen.v, written on every run by
   harness/translate_omen_trainer.py from the Python text of smoothing.py,
   alphabet_lookup.py, omen_file_output.py and alphabet_generator.py).  The translator
   emits nothing but lets, ifs, monadic binds ([tbind] of OmenTrainer.v), calls of
   previously generated functions, the value operations of OmenTrainer.v (tslice,
   tindex, tsetindex, trange, afind / aset / amem, nv_int, nv_item, int_truediv, ...)
   and the combinators below.  Definitions only; lemmas are in OmenTrainerGenProofs.v.

   Conventions (see the translator's docstring): ints are Z, floats are binary64
   primitive floats, strings are code-point lists, a one-character string that is a
   dict key or the value of s[i] / of iterating a string is a code point N.  A mutable
   Python object (the AlphabetLookup object, its grammar dict, ln_lookup, a Counter,
   the directory written to) is a VALUE held in a Coq variable named like the Python
   root it is reachable from; a mutation rebinds that variable to the updated value
   and a local name for a sub-object is a name for its PATH from the root. *)
From Coq Require Import List Arith Bool NArith ZArith Floats.
From Pcfg Require Import KernelRt OmenSpec OmenTrainer TextFile.
Import ListNotations.

(* for x in l: body.  The body says, per iteration, Continue s (next iteration with
   the loop-carried variables s; also `continue`) or Return r (the enclosing block is
   left with r), or raises; what follows the loop is k *)
Fixpoint tfor {X R St : Type} (l : list X) (body : X -> St -> tres (ctl R St)) (s : St) (k : St -> tres R) : tres R :=
  match l with
  | [] => k s
  | x :: r =>
      match body x s with
      | TOk (Continue s') => tfor r body s' k
      | TOk (Return v) => TOk v
      | TRaise e => TRaise e
      end
  end.

(* try: body  except <catches>: handler ; then k.  Body and handler say Continue s
   (fall through to what follows the try statement with the joined variables s) or
   Return r (the enclosing block is left); an exception the handler is not for, or
   one raised by the handler, propagates; what follows the try is NOT protected *)
Definition ttry {R St : Type} (body : tres (ctl R St)) (catches : texn -> bool)
           (handler : texn -> tres (ctl R St)) (k : St -> tres R) : tres R :=
  match (match body with
         | TOk c => TOk c
         | TRaise e => if catches e then handler e else TRaise e
         end) with
  | TOk (Continue s) => k s
  | TOk (Return v) => TOk v
  | TRaise e => TRaise e
  end.

(* enumerate(l) *)
Definition tenumerate {X : Type} (l : list X) : list (Z * X) :=
  combine (map Z.of_nat (seq 0 (length l))) l.

(* a / b with a float a and an int b: ZeroDivisionError iff b == 0 *)
Definition float_div_int (a : float) (b : Z) : tres float :=
  if (b =? 0)%Z then TRaise EZeroDiv else TOk (PrimFloat.div a (zfloat b)).

(* a / b on floats *)
Definition float_div (a b : float) : tres float :=
  if PrimFloat.eqb b PrimFloat.zero then TRaise EZeroDiv else TOk (PrimFloat.div a b).

(* str(i) for an int *)
Definition pystr_int (z : Z) : ostr := dec_of_Z z.

(* a Counter read: 0 for a missing key *)
Definition zcnt_get (c : list (Z * Z)) (k : Z) : Z :=
  match afind Z.eqb k c with Some v => v | None => 0%Z end.

(* _save_config(file_name, directory, program_info): configparser is not modelled; the
   oracle says what the directory holds afterwards, or None when it returns False *)
Definition call_save_config (save_config : ostr -> ostr -> pinfo -> fsys -> option fsys)
           (directory file_name : ostr) (pi : pinfo) (fs : fsys) : bool * fsys :=
  match save_config directory file_name pi fs with
  | Some fs' => (true, fs')
  | None => (false, fs)
  end.

(* try: body  except <catches>: handler  else: els ; then k.  The else block runs after the body when it did
   not raise, with the variables the body hands on, and is not protected by the handler *)
Definition ttry_else {R St St2 : Type} (body : tres (ctl R St2)) (catches : texn -> bool)
           (handler : texn -> tres (ctl R St)) (els : St2 -> tres (ctl R St)) (k : St -> tres R) : tres R :=
  match (match body with
         | TOk (Continue s2) => els s2
         | TOk (Return v) => TOk (Return v)
         | TRaise e => if catches e then handler e else TRaise e
         end) with
  | TOk (Continue s) => k s
  | TOk (Return v) => TOk v
  | TRaise e => TRaise e
  end.
