(* C03: composition of the component models.  A training password that the
   trainer segments into tiles whose values are in the loaded terminal groups
   is an element of the expansion (Expand.denote) of a pre-terminal of the
   grammar, with its original capitalisation - the mask round trip. *)
From Coq Require Import List Arith Bool NArith Lia.
From Pcfg Require Import Expand ExpandCorr.
Import ListNotations.

Section MaskRoundTrip.
(* what the Python runtime decides per character *)
Context (lower1 : N -> N) (upper_c : N -> str) (isupper : N -> bool).

(* alpha_detection.py: the word is stored lower-cased, the mask records which
   characters were upper case *)
Definition mask_of (w : str) : str := map (fun c => if isupper c then chU else chL) w.
Definition lower_word (w : str) : str := map lower1 w.

(* the property's domain: every upper-case letter is the upper case of its
   lower case (one character each), every other character is unchanged by lower *)
Definition case_ok (w : str) : Prop :=
  Forall (fun c => if isupper c then upper_c (lower1 c) = [c] else lower1 c = c) w.

Lemma chU_neq_chL : N.eqb chU chL = false. Proof. reflexivity. Qed.

Theorem mask_roundtrip w : case_ok w -> mask_total upper_c (mask_of w) (lower_word w) = w.
Proof.
  unfold mask_total, mask_of, lower_word. induction 1 as [|c r Hc Hr IH]; simpl; auto.
  destruct (isupper c); simpl.
  - rewrite ?chU_neq_chL, Hc. simpl. f_equal. exact IH.
  - rewrite ?N.eqb_refl, Hc. simpl. f_equal. exact IH.
Qed.

Lemma mask_of_length w : length (mask_of w) = length w.
Proof. unfold mask_of. apply map_length. Qed.
Lemma lower_word_length w : length (lower_word w) = length w.
Proof. unfold lower_word. apply map_length. Qed.
End MaskRoundTrip.

Section Membership.
Context (upper_c : N -> str).

(* choosing one element from every factor gives an element of the product *)
Lemma in_product (cs : list (list str)) (xs : list str) :
  Forall2 (fun x c => In x c) xs cs -> In (concat xs) (product cs).
Proof.
  induction 1 as [|x c xs cs Hx Hr IH]; simpl; [left; reflexivity|].
  apply in_flat_map. exists x. split; auto. apply in_map. exact IH.
Qed.

(* a tile of the password against a segment of the pre-terminal *)
Inductive tile_in (lower1 : N -> N) (isupper : N -> bool) : str -> seg -> Prop :=
  | tile_plain v vs : In v vs -> tile_in lower1 isupper v (SegPlain vs)
  | tile_alpha w ws ms :
      In (lower_word lower1 w) ws -> In (mask_of isupper w) ms -> case_ok lower1 upper_c isupper w ->
      tile_in lower1 isupper w (SegAlpha ws ms).

Lemma tile_choice lower1 isupper t s : tile_in lower1 isupper t s -> In t (seg_choices upper_c s).
Proof.
  destruct 1 as [v vs Hv | w ws ms Hw Hm Hc]; simpl; auto.
  apply in_flat_map. exists (lower_word lower1 w). split; auto.
  apply in_map_iff. exists (mask_of isupper w). split; auto.
  apply mask_roundtrip. exact Hc.
Qed.

(* C03, expansion level: if the tiles of a password match, position by
   position, the groups chosen by a pre-terminal, the password is one of the
   guesses of that pre-terminal *)
Theorem password_in_denote lower1 isupper tiles segs :
  Forall2 (tile_in lower1 isupper) tiles segs -> In (concat tiles) (denote upper_c segs).
Proof.
  intros H. unfold denote. apply in_product.
  induction H as [|t s ts ss Ht Hr IH]; simpl; constructor; auto.
  eapply tile_choice; eauto.
Qed.
End Membership.

(* ---------- correspondence: the mask round trip on real alpha tiles ---------- *)
Definition tbl_lower (tbl : list (N * (str * str * bool))) (c : N) : N :=
  match find (fun e => N.eqb (fst e) c) tbl with
  | Some (_, (l :: nil, _, _)) => l
  | _ => c
  end.
Definition tbl_upper (tbl : list (N * (str * str * bool))) (c : N) : str :=
  match find (fun e => N.eqb (fst e) c) tbl with
  | Some (_, (_, u, _)) => u
  | None => [c]
  end.
Definition tbl_isupper (tbl : list (N * (str * str * bool))) (c : N) : bool :=
  match find (fun e => N.eqb (fst e) c) tbl with
  | Some (_, (_, _, b)) => b
  | None => false
  end.

Definition check_mask_roundtrip (x : str * list (N * (str * str * bool))) : bool :=
  let '(w, tbl) := x in
  str_eqb (mask_total (tbl_upper tbl) (mask_of (tbl_isupper tbl) w) (lower_word (tbl_lower tbl) w)) w.
