(* Runtime of the generated session loops (gen/Session_gen.v, gen/SessionPrince_gen.v,
   gen/SessionHoney_gen.v, written on every run by harness/translate_session.py from
   the Python text of
     lib_guesser/cracking_session.py        CrackingSession.run, _save_session, keypress
     lib_princeling/wordlist_generation.py  create_prince_wordlist
     lib_guesser/honeyword_session.py       HoneywordSession.run).
   The translator emits nothing but lets, ifs, calls of the collaborators (the
   section variables of the generated file) and the few combinators below, so that
   the generated text is a line-by-line image of the Python.  Definitions only; the
   lemmas are in SessionGenProofs*.v.

   Conventions of the translation (see the translator's docstring):
   * Everything the functions do to objects they do not own (the grammar object with
     its quit flag and OMEN counters, the priority queue, the save configuration and
     its file, the keyboard thread, the random generator) is an operation on one
     abstract WORLD [w : W], threaded through the function in execution order.  The
     operations are variables of the generated section; the equality theorems
     instantiate them with the collaborators of the hand-written model Session.v.
     A read of a flag another thread writes ([read_should_exit]) is a step of the
     world too: it is where the other thread's progress becomes visible.
   * Output: the lines written to stdout by the collaborators (create_guesses,
     restore_omen) are appended, in order, to the ghost variable [printed].  A
     translated function returns  (result, printed, final world)  with
     result = [SOk v] (the Python return value; [tt] for None) or [SExc e] (an
     exception leaves the function).  The lines printed before the exception and
     the world are kept.
   * Exceptions: [OSError] (IOError is the same class in Python 3; a closed pipe
     under print_guess is BrokenPipeError, a subclass), [EOFError] (input() at end
     of file), [OtherError] (anything else a collaborator raises).  [OutOfFuel] has
     no Python counterpart: a `while` loop takes a fuel argument and the proofs
     show it is never exhausted when fuel exceeds the number of pre-terminals the
     queue still holds.  `except OSError:` catches OSError only; a bare `except:` /
     `except Exception:` catches everything except OutOfFuel.
   * A Python int is a [Z]; None-or-int is [option Z] and `if limit:` is
     [ExpandRt.if_truthy] (then-branch for an int other than 0; else-branch for None
     AND 0).  `x is None` / `x is not None` on a None-or-value is [if_none]. *)
From Coq Require Import List Arith ZArith NArith Bool.
From Pcfg Require Import KernelRt ExpandRt.
Import ListNotations.

Inductive sexc := OSError | EOFError | OtherError | OutOfFuel.

Inductive sres (X : Type) : Type :=
| SOk (x : X)
| SExc (e : sexc).
Arguments SOk {X} x.
Arguments SExc {X} e.

(* evaluate r; on an exception the handler of the enclosing context runs *)
Definition sbind {X Y : Type} (r : sres X) (h : sexc -> Y) (k : X -> Y) : Y :=
  match r with SOk x => k x | SExc e => h e end.

(* what one iteration of a `while` loop says: next iteration (also `continue`),
   `break`, or the enclosing function returns *)
Inductive lctl (R St : Type) : Type :=
| LContinue (s : St)
| LBreak (s : St)
| LReturn (r : R).
Arguments LContinue {R St} s.
Arguments LBreak {R St} s.
Arguments LReturn {R St} r.

(* while TEST: BODY     (the test is part of [body]: `if TEST then BODY else LBreak s`;
   `while True` has no test).  [k] is what follows the loop, [oof] what is returned
   when the fuel runs out (no Python counterpart). *)
Fixpoint while_loop {R St : Type} (fuel : nat) (body : St -> lctl R St) (s : St)
         (k : St -> R) (oof : St -> R) : R :=
  match fuel with
  | O => oof s
  | S f =>
      match body s with
      | LContinue s' => while_loop f body s' k oof
      | LBreak s' => k s'
      | LReturn r => r
      end
  end.

(* `if v is None: A else: B`  (B sees the value) *)
Definition if_none {X R : Type} (v : option X) (none_ : R) (some_ : X -> R) : R :=
  match v with None => none_ | Some x => some_ x end.

(* `v is None or TEST`  /  `v is not None and TEST`  (TEST sees the value) *)
Definition is_none_or {X : Type} (v : option X) (test : X -> bool) : bool :=
  match v with None => true | Some x => test x end.
Definition is_some_and {X : Type} (v : option X) (test : X -> bool) : bool :=
  match v with None => false | Some x => test x end.

(* ---- the contract of pcfg.create_guesses(pt, limit = l) the session loops rely on
   (C04_limit / C09_source_limit_inside_preterminal prove it of the translated
   create_guesses): for a pre-terminal whose complete expansion is gs it writes the
   first l guesses - all of them when l is None or 0, Python's `if limit:` - and
   returns their number. *)
Definition limit_take {X : Type} (l : option Z) (gs : list X) : list X :=
  if_truthy l (fun z => firstn (Z.to_nat z) gs) gs.
Arguments limit_take : simpl never.
