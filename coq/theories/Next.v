(* Executable model of the guesser's "next" algorithm (Deadbeat Dad):
     lib_guesser/pcfg_grammar.py   _find_prob (625-648), initalize_base_structures (152-197),
                                   find_children (505-556), _are_you_my_child (559-622),
                                   _recursive_restore_prob_order (787-856), is_parent_around (859-896)
     lib_guesser/priority_queue.py PcfgQueue.__init__/next/restore_base_item (158-273)
   Definitions only; proofs are in NextProofs.v / RestoreProofs.v. *)
From Coq Require Import List Arith Bool.
From Pcfg Require Import ProbAlg.
Import ListNotations.

Section Next.
Context {A : palg}.
Notation P := (P A).

(* A variable (A3, D2, C3, M ...) is a natural-number id; the table gives, per
   variable, the probabilities of its groups in file order.  The values inside
   a group play no role for the order of pre-terminals (Expand.v has them). *)
Definition var := nat.
Definition table := list (list P).
Record bstruct := { bprob : P; brepl : list var }.
Record ruleset := { tbl : table; bases : list bstruct }.

Definition groups (rs : ruleset) (v : var) : list P := nth v (tbl rs) [].

Definition pt := list (var * nat).
(* [itag] is ghost: the position of the base-structure line the item descends
   from.  The Python dictionaries do not carry it; it only keeps the items of two
   identical base-structure lines apart in the proofs and is never inspected. *)
Record item := { itag : nat; ipt : pt; ibase : P; iprob : P }.

(* _find_prob: base probability times each group's probability, left to right.
   A (variable,index) outside the table does not occur for well-formed trees;
   the model multiplies by the base probability again there so that the value
   is visibly wrong rather than silently neutral -- no theorem uses that case. *)
Definition gp (rs : ruleset) (base : P) (vi : var * nat) : P :=
  nth (snd vi) (groups rs (fst vi)) base.

Definition find_prob (rs : ruleset) (t : pt) (base : P) : P :=
  fold_left (fun a vi => pmul a (gp rs base vi)) t base.

Fixpoint upd (t : pt) (pos : nat) (f : nat -> nat) : pt :=
  match t, pos with
  | [], _ => []
  | (v, i) :: r, O => (v, f i) :: r
  | x :: r, S p => x :: upd r p f
  end.

Definition mk (rs : ruleset) (tag : nat) (t : pt) (base : P) : item :=
  {| itag := tag; ipt := t; ibase := base; iprob := find_prob rs t base |}.

(* initalize_base_structures *)
Definition init_items (rs : ruleset) : list item :=
  map (fun kb => mk rs (fst kb) (map (fun v => (v, 0)) (brepl (snd kb))) (bprob (snd kb)))
      (combine (seq 0 (length (bases rs))) (bases rs)).

(* _are_you_my_child.  tie_lower = true is the code: on a tie the parent with
   the lower position adopts.  The flag exists only for the _refuted theorems. *)
Definition my_child_gen (tie_lower : bool) (rs : ruleset) (child : pt) (base : P)
           (ppos : nat) (pprob : P) : bool :=
  forallb (fun pos =>
    if Nat.eqb pos ppos then true else
    match nth_error child pos with
    | Some (_, O) => true
    | Some (_, S _) =>
        let np := find_prob rs (upd child pos pred) base in
        if plt np pprob then false
        else if peq np pprob then (if tie_lower then negb (Nat.ltb pos ppos) else true)
        else true
    | None => true
    end) (seq 0 (length child)).

Definition my_child := my_child_gen true.

(* find_children *)
Definition find_children_gen (tie_lower : bool) (rs : ruleset) (it : item) : list item :=
  flat_map (fun pos =>
    match nth_error (ipt it) pos with
    | Some (v, i) =>
        if Nat.eqb (length (groups rs v)) (i + 1) then [] else
        let c := upd (ipt it) pos S in
        if my_child_gen tie_lower rs c (ibase it) pos (iprob it)
        then [mk rs (itag it) c (ibase it)] else []
    | None => []
    end) (seq 0 (length (ipt it))).

Definition find_children := find_children_gen true.

(* The heap.  Python's heapq is library code: the theorems are proved for every
   [pop] that returns an element no remaining element is strictly more probable
   than, and leaves the others (pop_ok); [pop_first_max] is one such function and
   is the one the correspondence runs. *)
Definition queue := list item.

Fixpoint pop_first_max (q : queue) : option (item * queue) :=
  match q with
  | [] => None
  | x :: r =>
      match pop_first_max r with
      | None => Some (x, [])
      | Some (y, r') => if plt (iprob x) (iprob y) then Some (y, x :: r') else Some (x, r)
      end
  end.

Record state := { emitted : list item (* newest first *); pending : queue }.

Definition step_gen (tie_lower : bool) (pop : queue -> option (item * queue))
           (rs : ruleset) (s : state) : state :=
  match pop (pending s) with
  | None => s
  | Some (x, r) => {| emitted := x :: emitted s; pending := find_children_gen tie_lower rs x ++ r |}
  end.

Fixpoint run_gen (tie_lower : bool) (pop : queue -> option (item * queue))
         (rs : ruleset) (n : nat) (s : state) : state :=
  match n with
  | O => s
  | S k => run_gen tie_lower pop rs k (step_gen tie_lower pop rs s)
  end.

Definition step := step_gen true.
Definition run := run_gen true.

Definition start (rs : ruleset) : state := {| emitted := []; pending := init_items rs |}.

(* ---------------- session restore ---------------- *)

(* is_parent_around; [strict] = true is the comparison `<` of the code as
   found, false is `<=` (the repaired code). *)
Definition parent_around_gen (strict : bool) (rs : ruleset) (it : item) (m : P) : bool :=
  existsb (fun pos =>
    match nth_error (ipt it) pos with
    | Some (_, S _) =>
        let np := find_prob rs (upd (ipt it) pos pred) (ibase it) in
        if strict then plt np m else ple np m
    | _ => false
    end) (seq 0 (length (ipt it))).

(* _recursive_restore_prob_order with min_prob = 0.0 (PcfgQueue never changes
   it and ok probabilities are never below it). *)
Fixpoint restore_gen (strict : bool) (fuel : nat) (rs : ruleset) (it : item) (m : P)
         (left : nat) : list item :=
  match fuel with
  | O => []
  | S f =>
    if ple (iprob it) m then (if parent_around_gen strict rs it m then [] else [it])
    else flat_map (fun pos =>
      match nth_error (ipt it) pos with
      | Some (v, i) =>
          if Nat.eqb (length (groups rs v)) (i + 1) then [] else
          restore_gen strict f rs (mk rs (itag it) (upd (ipt it) pos S) (ibase it)) m pos
      | None => []
      end) (seq left (length (ipt it) - left))
  end.

(* enough fuel: the walk increments one index per level of recursion *)
Definition restore_fuel (rs : ruleset) (it : item) : nat :=
  S (fold_right (fun vi a => length (groups rs (fst vi)) + a) 0 (ipt it)).

Definition restored_gen (strict : bool) (rs : ruleset) (m : P) : queue :=
  flat_map (fun it => restore_gen strict (restore_fuel rs it) rs it m 0) (init_items rs).

Definition resume_start_gen (strict : bool) (rs : ruleset) (m : P) : state :=
  {| emitted := []; pending := restored_gen strict rs m |}.

End Next.

Arguments ruleset : clear implicits.
Arguments bstruct : clear implicits.
Arguments item : clear implicits.
Arguments state : clear implicits.
Arguments table : clear implicits.
Arguments queue : clear implicits.
