(* TrainerRunExample.v - the translated run_trainer RUNS: the instance of TrainerRunInst.v with the environment
   of the current sources (PipelineCorr.c_env, IoFacts.cfgR), exact rationals, a training file of four lines
   (one of them blank, one repeated) in the file system; the hypotheses of the theorems of TrainerRunInst.v
   hold on it (satisfiability). *)
From Coq Require Import String Ascii.
From Coq Require Import List NArith ZArith QArith Bool.
From Pcfg Require Import ProbAlg QProb Str TextFile Counters Reader IoFacts Pipeline PipelineCorr.
From Pcfg Require Import WriterRt WriterSpec TrainerRunRt TrainerRunModel TrainerRunProofs TrainerRunGenProofs TrainerRunInst.
From PcfgGen Require Import Consts_gen TrainerRun_gen.
Import ListNotations.

Definition ex_repr (q : num (ops_of RQ)) : str := [].
Definition ex_collab : collab (ops_of RQ) :=
  @pipe_collab QProb RQ c_env (fun nm => [nm]) (fun _ prefix => cfgR (fun b => Some b) (fun _ => true) prefix)
    unit unit unit (fun _ _ => tt) (fun _ _ => tt) (fun _ => []) (fun _ _ _ _ => tt) (fun _ _ => tt) (fun _ => tt)
    (fun _ _ _ => tt) (fun _ _ => 3%Z) (fun _ => ([([49]%N, 1%Q)] : counter (ops_of RQ)))
    ex_repr (fun _ _ => true) calc_probs
    (fun _ _ _ _ fs => (true, fs)) (fun _ _ _ _ _ _ fs => (true, fs)).

Definition ex_text : str := str_of_string "password1" ++ [10] ++ str_of_string "abc123!" ++ [10] ++ [10] ++ str_of_string "password1" ++ [10].
Definition ex_fs : fsys := [([str_of_string "t.txt"], ex_text)].
Definition ex_args : cli_args (ops_of RQ) :=
  {| a_rule := str_of_string "Ex"; a_training := Some (str_of_string "t.txt"); a_encoding := Some (str_of_string "utf-8");
     a_comments := []; a_save_sensitive := false; a_prefixcount := false; a_ngram := 4; a_alphabet := 100;
     a_coverage := ((6 # 10)%Q : num (ops_of RQ)); a_multiword := None |}.
Definition ex_pinfo : pinfo (ops_of RQ) := cli_pinfo ex_args py_main_defaults.
Definition ex_base : path := [str_of_string "Rules"; str_of_string "Ex"].

Definition ex_run := py_run_trainer ex_collab ex_pinfo ex_base ex_fs.

Example ex_run_returns_true : fst ex_run = Ok (Some true).
Proof. vm_compute. reflexivity. Qed.


(* the hypotheses of TrainerRunInst.run_trainer_writes_pipeline_ruleset hold here *)
Definition ex_rc (enc : option str) (prefix : bool) : rcfg := cfgR (fun b => Some b) (fun _ => true) prefix.
Definition ex_rd := read_text (ex_rc (pi_encoding ex_pinfo) (pi_prefixcount ex_pinfo)) ex_text.

Example ex_hypotheses :
  (e_mw_threshold c_env = 5%Z /\ e_mw_min_len c_env = 4%Z /\ e_mw_max_len c_env = 21%Z) /\
  reader_agrees c_env ex_rc /\
  npw ex_rd = Z.of_nat (List.length (Reader.out ex_rd)) /\
  Reader.out ex_rd = [str_of_string "password1"; str_of_string "abc123!"; str_of_string "password1"] /\
  fs_wf ex_fs.
Proof.
  split; [vm_compute; repeat split; reflexivity|].
  split; [intros enc prefix; split; reflexivity|].
  split; [vm_compute; reflexivity|].
  split; [vm_compute; reflexivity|].
  unfold fs_wf, ex_fs. cbn [map fst]. repeat constructor. intros [].
Qed.

(* Grammar/grammar.txt of the ruleset it leaves: A8D1 (count 2), the Markov structure (pseudo-count 3 / 0.6 - 3 = 2,
   after A8D1: ties keep insertion order) and A3D3O1 (count 1); ex_repr prints every probability as the empty string *)
Example ex_grammar_file :
  fs_get (ex_base ++ [str_of_string "Grammar"; str_of_string "grammar.txt"]) (snd ex_run) =
  Some (str_of_string "A8D1" ++ [9; 10] ++ str_of_string "M" ++ [9; 10] ++ str_of_string "A3D3O1" ++ [9; 10])%N.
Proof. vm_compute. reflexivity. Qed.
