(* OmenProofs3.v -- GuessStructure.next_guess computes the successor in the
   canonical list of completions, for every cache that only holds first
   completions. *)
From Coq Require Import List Arith Bool NArith ZArith Lia.
From Pcfg Require Import OmenSpec Omen OmenProofs OmenProofs2.
Import ListNotations.

Section GS.
  Variable cpf : ostr -> nat -> list N.
  Variable maxl : nat.
  Variable optmax : nat.

  Notation compl := (completions_f cpf maxl).
  Notation cok := (cache_ok cpf maxl).
  Notation ext := (ext cpf maxl).
  Notation alts := (alts cpf maxl).
  Notation rem := (rem cpf maxl).

  Lemma try_choice_spec : forall rest p elem_p m B c ch,
    1 <= m -> cok c -> removelast elem_p = tl p ->
    fst (try_choice cpf maxl optmax rest p elem_p m B c ch) =
      hd_error (map (app (rev rest)) (ext p m B ch)) /\
    cok (snd (try_choice cpf maxl optmax rest p elem_p m B c ch)).
  Proof.
    intros rest p elem_p m B c ch Hm Hc He. unfold try_choice. rewrite He.
    change (tl p ++ [snd (snd ch)]) with (shift p (snd (snd ch))).
    destruct (fill_is_first cpf maxl optmax m c (shift p (snd (snd ch))) (B - Z.of_nat (fst ch))%Z Hm Hc) as [H1 H2].
    destruct (fill cpf maxl optmax m c (shift p (snd (snd ch))) (B - Z.of_nat (fst ch))) as [r c'].
    cbn [fst snd] in *. split; [|exact H2].
    unfold OmenProofs2.ext. rewrite map_map, hd_error_map, H1. reflexivity.
  Qed.

  Lemma gs_backtrack_spec : forall st c elem m lvl B,
    1 <= m -> cok c -> chain_up (elem :: st) ->
    (st <> [] -> B = (lvl - sumlev (tl st))%Z) ->
    fst (gs_backtrack cpf maxl optmax c st elem m B) = hd_error (alts lvl st m) /\
    cok (snd (gs_backtrack cpf maxl optmax c st elem m B)).
  Proof.
    induction st as [|[[p L] i] rest IH]; intros c elem m lvl B Hm Hc Hch HB.
    - simpl. split; [reflexivity | exact Hc].
    - cbn [gs_backtrack alts].
      assert (HB' : B = (lvl - sumlev rest)%Z) by (apply HB; discriminate).
      destruct Hch as [Hadj Hch'].
      assert (Hfs := first_st_spec cok (fun ch => map (app (rev rest)) (ext p m B ch))
                       (try_choice cpf maxl optmax rest p (row_prefix elem) m B)
                       (later_choices cpf p L i) c).
      destruct Hfs as [F1 F2].
      { intros s x _ Hs. apply try_choice_spec; [exact Hm | exact Hs | exact Hadj]. }
      { exact Hc. }
      rewrite map_flat_map, hd_error_app_l. rewrite <- HB'. unfold tree in *. rewrite <- F1.
      destruct (@first_st (nat * (nat * N)) cache (list row)
                  (try_choice cpf maxl optmax rest p (row_prefix elem) m B) c (later_choices cpf p L i))
        as [[t|] c'] eqn:E; cbn [fst snd] in *.
      + split; [reflexivity | exact F2].
      + apply IH; [lia | exact F2 | exact Hch' |].
        intro Hne. destruct rest as [|r rest']; [congruence|]. simpl. rewrite HB'. simpl. lia.
  Qed.

  Lemma hd_skipn_indexed : forall {X} (l : list X) j,
    hd_error (skipn j (indexed l)) = option_map (pair j) (nth_error l j).
  Proof. intros X l j. rewrite hd_error_skipn. apply nth_error_indexed. Qed.

  (* every guess after the first: the successor of t in the canonical list *)
  Theorem gs_next_spec : forall c ip k target t,
    cok c -> In t (compl k ip target) -> t <> [] ->
    fst (gs_next cpf maxl optmax c ip k target t) = hd_error (rem k target t) /\
    cok (snd (gs_next cpf maxl optmax c ip k target t)).
  Proof.
    intros c ip k target t Hc Hin Hne.
    rewrite (rem_alts cpf maxl _ _ _ _ Hin).
    pose proof (compl_sum cpf maxl _ _ _ _ Hin) as Hsum. rewrite <- sumlev_rev in Hsum.
    pose proof (chain_dn_rev _ (compl_chain cpf maxl _ _ _ _ Hin)) as Hch.
    unfold gs_next. destruct (rev t) as [|[[p L] i] rest] eqn:Er.
    - exfalso. apply Hne. rewrite <- (rev_involutive t), Er. reflexivity.
    - cbn [OmenProofs2.alts].
      assert (HL : (target - sumlev rest)%Z = Z.of_nat L) by (simpl in Hsum; unfold row_level in Hsum; simpl in Hsum; lia).
      rewrite HL, ext_last, map_map, hd_error_app_l, hd_error_map, hd_skipn_indexed.
      destruct (Nat.ltb (S i) (length (cpf p L))) eqn:Elt.
      + apply Nat.ltb_lt in Elt. destruct (nth_error (cpf p L) (S i)) eqn:En.
        * simpl. split; [reflexivity | exact Hc].
        * apply nth_error_None in En. lia.
      + apply Nat.ltb_ge in Elt. assert (En : nth_error (cpf p L) (S i) = None) by (apply nth_error_None; lia).
        rewrite En. simpl option_map. cbv iota beta.
        destruct rest as [|r rest'].
        * simpl. split; [reflexivity | exact Hc].
        * apply gs_backtrack_spec; [lia | exact Hc | exact Hch |].
          intros _. simpl in Hsum. simpl. unfold row_level in *. simpl in *. lia.
  Qed.

  (* the first guess *)
  Lemma gs_first_spec : forall c ip k target,
    1 <= k -> cok c ->
    fst (gs_next cpf maxl optmax c ip k target []) = hd_error (compl k ip target) /\
    cok (snd (gs_next cpf maxl optmax c ip k target [])).
  Proof. intros c ip k target Hk Hc. unfold gs_next. simpl rev. cbv iota. apply fill_is_first; assumption. Qed.
End GS.
