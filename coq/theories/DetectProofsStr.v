(* Lemmas about the Python string operations of Str.v: slices, find, rfind,
   subscripts, character-wise lower(). *)
From Coq Require Import List ZArith NArith Bool Lia.
From Pcfg Require Import Str Multiword.
Import ListNotations.
Open Scope Z_scope.

Lemma len_nil : len [] = 0. Proof. reflexivity. Qed.
Lemma len_cons c (s : str) : len (c :: s) = 1 + len s.
Proof. unfold len. simpl length. lia. Qed.
Lemma len_app (a b : str) : len (a ++ b) = len a + len b.
Proof. unfold len. rewrite app_length. lia. Qed.
Lemma len_nonneg (s : str) : 0 <= len s.
Proof. unfold len. lia. Qed.
Lemma len_zero (s : str) : len s = 0 -> s = [].
Proof. destruct s; [reflexivity|]. rewrite len_cons. pose proof (len_nonneg s). lia. Qed.
Lemma len_pos (s : str) : s <> [] -> 0 < len s.
Proof. destruct s; [congruence|]. intros _. rewrite len_cons. pose proof (len_nonneg s). lia. Qed.
Lemma len_rev (s : str) : len (rev s) = len s.
Proof. unfold len. now rewrite rev_length. Qed.
Lemma len_firstn (s : str) n : (n <= length s)%nat -> len (firstn n s) = Z.of_nat n.
Proof. intros. unfold len. rewrite firstn_length. lia. Qed.

Lemma nonempty_true {X} (l : list X) : nonempty l = true <-> l <> [].
Proof. destruct l; simpl; split; congruence. Qed.
Lemma nonempty_false {X} (l : list X) : nonempty l = false <-> l = [].
Proof. destruct l; simpl; split; congruence. Qed.

Lemma clip_id l i : 0 <= i <= l -> clip l i = i.
Proof. intros. unfold clip. destruct (i <? 0) eqn:E; lia. Qed.
Lemma clip_range l i : 0 <= l -> 0 <= clip l i <= l.
Proof. intros. unfold clip. destruct (i <? 0) eqn:E; lia. Qed.
Lemma clip_over l i : 0 <= l -> l <= i -> clip l i = l.
Proof. intros. unfold clip. destruct (i <? 0) eqn:E; lia. Qed.

(* the canonical slice of a concatenation *)
Lemma slice_app3 (a b c : str) :
  slice (a ++ b ++ c) (len a) (len a + len b) = b.
Proof.
  unfold slice. pose proof (len_nonneg a). pose proof (len_nonneg b). pose proof (len_nonneg c).
  rewrite !clip_id by (rewrite !len_app; lia).
  replace (Z.to_nat (len a)) with (length a) by (unfold len; lia).
  rewrite skipn_app, skipn_all, Nat.sub_diag. simpl.
  replace (Z.to_nat (len a + len b - len a)) with (length b) by (unfold len; lia).
  rewrite firstn_app, firstn_all, Nat.sub_diag. simpl. now rewrite app_nil_r.
Qed.

Lemma slice_prefix (a c : str) : slice (a ++ c) 0 (len a) = a.
Proof. pose proof (slice_app3 [] a c) as H. simpl in H. exact H. Qed.

Lemma sfrom_app (a c : str) : sfrom (a ++ c) (len a) = c.
Proof.
  unfold sfrom. pose proof (slice_app3 a c []) as H. rewrite app_nil_r in H.
  rewrite len_app. exact H.
Qed.

Lemma slice_all (s : str) : slice s 0 (len s) = s.
Proof. pose proof (slice_prefix s []) as H. now rewrite app_nil_r in H. Qed.

(* every 0 <= a <= b <= len s cuts s in three *)
Lemma cut3 (s : str) a b : 0 <= a <= b -> b <= len s ->
  exists x y z, s = x ++ y ++ z /\ len x = a /\ len y = b - a.
Proof.
  intros Hab Hb.
  exists (firstn (Z.to_nat a) s), (firstn (Z.to_nat (b - a)) (skipn (Z.to_nat a) s)),
         (skipn (Z.to_nat (b - a)) (skipn (Z.to_nat a) s)).
  split; [now rewrite !firstn_skipn|].
  unfold len in *. split.
  - rewrite firstn_length. lia.
  - rewrite firstn_length, skipn_length. lia.
Qed.

Lemma slice_len (s : str) a b : 0 <= a <= b -> b <= len s -> len (slice s a b) = b - a.
Proof.
  intros Hab Hb. destruct (cut3 s a b Hab Hb) as (x & y & z & -> & Hx & Hy).
  rewrite <- Hx. replace b with (len x + len y) by lia. rewrite slice_app3. lia.
Qed.

Lemma slice_cut (s : str) a b : 0 <= a <= b -> b <= len s ->
  slice s 0 a ++ slice s a b ++ sfrom s b = s.
Proof.
  intros Hab Hb. destruct (cut3 s a b Hab Hb) as (x & y & z & -> & Hx & Hy).
  rewrite <- Hx at 1 2. rewrite slice_prefix.
  replace b with (len x + len y) by lia. rewrite slice_app3.
  assert (E : sfrom (x ++ y ++ z) (len x + len y) = z).
  { replace (len x + len y) with (len (x ++ y)) by (rewrite len_app; lia).
    rewrite app_assoc. apply sfrom_app. }
  now rewrite E.
Qed.

Lemma slice_empty (s : str) a b : b <= a -> 0 <= a -> 0 <= b -> slice s a b = [].
Proof.
  intros. unfold slice. pose proof (len_nonneg s).
  assert (clip (len s) b - clip (len s) a <= 0).
  { unfold clip. destruct (a <? 0) eqn:Ea, (b <? 0) eqn:Eb; lia. }
  replace (Z.to_nat _) with O by lia. reflexivity.
Qed.

(* s[:a] + s[a:] = s for every a >= 0 (also beyond the end) *)
Lemma slice_cut2 (s : str) a : 0 <= a -> slice s 0 a ++ sfrom s a = s.
Proof.
  intros Ha. destruct (Z_le_gt_dec a (len s)).
  - pose proof (slice_cut s a a ltac:(lia) l) as H.
    rewrite (slice_empty s a a) in H by lia. exact H.
  - unfold sfrom, slice. pose proof (len_nonneg s).
    rewrite (clip_id (len s) 0) by lia. rewrite !(clip_over (len s) a) by lia.
    rewrite (clip_id (len s) (len s)) by lia.
    simpl. replace (Z.to_nat (len s - 0)) with (length s) by (unfold len; lia).
    rewrite firstn_all. replace (Z.to_nat (len s)) with (length s) by (unfold len; lia).
    rewrite skipn_all. replace (Z.to_nat (len s - len s)) with O by lia. simpl. now rewrite app_nil_r.
Qed.

Lemma sfrom_len (s : str) a : 0 <= a <= len s -> len (sfrom s a) = len s - a.
Proof. intros. unfold sfrom. apply slice_len; lia. Qed.

Lemma sfrom_over (s : str) a : len s <= a -> sfrom s a = [].
Proof. intros. unfold sfrom. pose proof (len_nonneg s). apply slice_empty; lia. Qed.

(* ---- subscripts *)

Lemma getc_app_mid (a c : str) x : getc (a ++ x :: c) (len a) = Some x.
Proof.
  unfold getc. pose proof (len_nonneg a). pose proof (len_nonneg c).
  rewrite len_app, len_cons.
  replace (len a <? 0) with false by (symmetry; apply Z.ltb_ge; lia).
  replace (len a <? 0) with false by (symmetry; apply Z.ltb_ge; lia).
  replace (len a + (1 + len c) <=? len a) with false by (symmetry; apply Z.leb_gt; lia).
  simpl. replace (Z.to_nat (len a)) with (length a) by (unfold len; lia).
  rewrite nth_error_app2 by lia. now rewrite Nat.sub_diag.
Qed.

Lemma getc_some (s : str) i : 0 <= i < len s -> exists a x c, s = a ++ x :: c /\ len a = i /\ getc s i = Some x.
Proof.
  intros Hi. destruct (cut3 s i (i + 1) ltac:(lia) ltac:(lia)) as (a & y & c & -> & Ha & Hy).
  destruct y as [|x [|? l]].
  - rewrite len_nil in Hy. lia.
  - exists a, x, c. split; [reflexivity|]. split; [assumption|]. rewrite <- Ha. apply getc_app_mid.
  - rewrite !len_cons in Hy. pose proof (len_nonneg l). lia.
Qed.

Lemma getc_none (s : str) i : 0 <= i -> getc s i = None -> len s <= i.
Proof.
  intros Hi H. destruct (Z_lt_ge_dec i (len s)); [|lia].
  destruct (getc_some s i ltac:(lia)) as (? & ? & ? & _ & _ & E). congruence.
Qed.

(* ---- prefixes, find, rfind *)

Lemma prefixb_spec p s : prefixb p s = true <-> exists r, s = p ++ r.
Proof.
  revert s. induction p as [|a p IH]; intros s; simpl.
  - split; [intros _; now exists s| reflexivity].
  - destruct s as [|b s].
    + split; [discriminate|]. intros (r & Hr). discriminate.
    + rewrite andb_true_iff, N.eqb_eq, IH. split.
      * intros (-> & r & ->). now exists r.
      * intros (r & Hr). injection Hr as -> ->. split; [reflexivity|now exists r].
Qed.

Lemma find_at_spec p s k i : find_at p s k = i -> i <> -1 -> 0 <= k ->
  exists a c, s = a ++ p ++ c /\ i = k + len a.
Proof.
  revert k. induction s as [|x s IH]; intros k H Hi Hk; simpl in H.
  - destruct (prefixb p []) eqn:E; [|lia].
    apply prefixb_spec in E. destruct E as (r & Hr). exists [], r. rewrite len_nil. split; [exact Hr|lia].
  - destruct (prefixb p (x :: s)) eqn:E.
    + apply prefixb_spec in E. destruct E as (r & Hr). exists [], r. rewrite len_nil. split; [exact Hr|lia].
    + destruct (IH (k + 1) H Hi ltac:(lia)) as (a & c & -> & Hi').
      exists (x :: a), c. rewrite len_cons. split; [reflexivity|lia].
Qed.

Lemma find_spec s p i : find s p = i -> i <> -1 ->
  exists a c, s = a ++ p ++ c /\ i = len a.
Proof.
  intros H Hi. destruct (find_at_spec p s 0 i H Hi ltac:(lia)) as (a & c & E & Hl).
  exists a, c. split; [exact E|lia].
Qed.

Lemma find_at_ge p s k : 0 <= k -> find_at p s k = -1 \/ k <= find_at p s k.
Proof.
  revert k. induction s as [|x s IH]; intros k Hk; simpl.
  - destruct (prefixb p []); lia.
  - destruct (prefixb p (x :: s)); [lia|]. destruct (IH (k + 1) ltac:(lia)); lia.
Qed.

Lemma find_ge s p : find s p = -1 \/ 0 <= find s p.
Proof. apply find_at_ge. lia. Qed.

(* a non-empty pattern found at i leaves room for it *)
Lemma find_bounds s p i : find s p = i -> i <> -1 -> 0 <= i /\ i + len p <= len s.
Proof.
  intros H Hi. destruct (find_spec s p i H Hi) as (a & c & -> & ->).
  rewrite !len_app. pose proof (len_nonneg a). pose proof (len_nonneg c). lia.
Qed.

Lemma rfind_at_spec p s k i : rfind_at p s k = i -> i <> -1 -> 0 <= k ->
  exists a c, s = a ++ p ++ c /\ i = k + len a.
Proof.
  revert k i. induction s as [|x s IH]; intros k i H Hi Hk; simpl in H.
  - destruct (prefixb p []) eqn:E; [|lia].
    apply prefixb_spec in E. destruct E as (r & Hr). exists [], r. rewrite len_nil. split; [exact Hr|lia].
  - destruct (0 <=? rfind_at p s (k + 1)) eqn:E0.
    + apply Z.leb_le in E0.
      destruct (IH (k + 1) _ eq_refl ltac:(lia) ltac:(lia)) as (a & c & -> & Hi').
      exists (x :: a), c. rewrite len_cons. split; [reflexivity|lia].
    + destruct (prefixb p (x :: s)) eqn:E; [|lia].
      apply prefixb_spec in E. destruct E as (r & Hr). exists [], r. rewrite len_nil. split; [exact Hr|lia].
Qed.

Lemma rfind_spec s p i : rfind s p = i -> i <> -1 ->
  exists a c, s = a ++ p ++ c /\ i = len a.
Proof.
  intros H Hi. destruct (rfind_at_spec p s 0 i H Hi ltac:(lia)) as (a & c & E & Hl).
  exists a, c. split; [exact E|lia].
Qed.

Lemma rfind_at_ge p s k : 0 <= k -> rfind_at p s k = -1 \/ k <= rfind_at p s k.
Proof.
  revert k. induction s as [|x s IH]; intros k Hk; simpl.
  - destruct (prefixb p []); lia.
  - destruct (IH (k + 1) ltac:(lia)) as [E|E].
    + rewrite E. simpl. destruct (prefixb p (x :: s)); lia.
    + destruct (0 <=? rfind_at p s (k + 1)) eqn:E0; [lia|]. apply Z.leb_gt in E0. lia.
Qed.

Lemma rfind_bounds s p : rfind s p = -1 \/ (0 <= rfind s p /\ rfind s p + len p <= len s).
Proof.
  destruct (Z.eq_dec (rfind s p) (-1)) as [E|E]; [now left|right].
  destruct (rfind_spec s p _ eq_refl E) as (a & c & Hs & Hi).
  rewrite Hi. assert (E2 : len s = len a + (len p + len c)) by (rewrite Hs at 1; now rewrite !len_app).
  pose proof (len_nonneg a). pose proof (len_nonneg c). lia.
Qed.

(* ---- character-wise lower() *)

Section Lower.
Variable lower_c : N -> str.
Notation lower := (Multiword.lower lower_c).

Definition len_preserving (s : str) : Prop := Forall (fun c => length (lower_c c) = 1%nat) s.

Lemma lower_app a b : lower (a ++ b) = lower a ++ lower b.
Proof. unfold Multiword.lower. apply flat_map_app. Qed.

Lemma lower_len s : len_preserving s -> len (lower s) = len s.
Proof.
  induction 1 as [|c s Hc Hs IH]; [reflexivity|].
  unfold Multiword.lower in *. simpl. rewrite len_app, IH, len_cons. unfold len. rewrite Hc. lia.
Qed.

Lemma len_preserving_app a b : len_preserving (a ++ b) <-> len_preserving a /\ len_preserving b.
Proof. unfold len_preserving. apply Forall_app. Qed.

(* a cut of lower(s) is the image of a cut of s *)
Lemma lower_cut s a b : len_preserving s -> 0 <= a <= b -> b <= len s ->
  exists x y z, s = x ++ y ++ z /\ len x = a /\ len y = b - a /\
                lower s = lower x ++ lower y ++ lower z /\ len (lower x) = a /\ len (lower y) = b - a.
Proof.
  intros Hp Hab Hb. destruct (cut3 s a b Hab Hb) as (x & y & z & -> & Hx & Hy).
  exists x, y, z. apply len_preserving_app in Hp. destruct Hp as (Hpx & Hp).
  apply len_preserving_app in Hp. destruct Hp as (Hpy & Hpz).
  rewrite !lower_app, !lower_len by assumption. repeat split; assumption.
Qed.

Lemma lower_slice s a b : len_preserving s -> 0 <= a <= b -> b <= len s ->
  slice (lower s) a b = lower (slice s a b).
Proof.
  intros Hp Hab Hb. destruct (lower_cut s a b Hp Hab Hb) as (x & y & z & -> & Hx & Hy & -> & Hlx & Hly).
  rewrite <- Hlx at 1. replace b with (len (lower x) + len (lower y)) at 1 by lia. rewrite slice_app3.
  rewrite <- Hx. replace b with (len x + len y) by lia. now rewrite slice_app3.
Qed.

End Lower.
