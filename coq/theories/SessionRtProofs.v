(* Facts about the runtime of the generated session loops (SessionRt.v) shared by the
   equality proofs SessionPrinceGenProofs.v / SessionHoneyGenProofs.v / SessionGenProofs.v. *)
From Coq Require Import List Arith ZArith NArith Bool Lia.
From Pcfg Require Import KernelRt ExpandRt SessionRt.
Import ListNotations.

(* ---- the limit handed to create_guesses ---- *)
Lemma limit_take_none {X : Type} (gs : list X) : limit_take None gs = gs.
Proof. reflexivity. Qed.

Lemma limit_take_zero {X : Type} (gs : list X) : limit_take (Some 0%Z) gs = gs.
Proof. reflexivity. Qed.

Lemma limit_take_pos {X : Type} (n : nat) (gs : list X) : n >= 1 ->
  limit_take (Some (Z.of_nat n)) gs = firstn n gs.
Proof.
  intros H. unfold limit_take, if_truthy.
  destruct (Z.eqb_spec (Z.of_nat n) 0) as [E|E]; [lia|]. now rewrite Nat2Z.id.
Qed.

Lemma len_app {X : Type} (a b : list X) : len (a ++ b) = (len a + len b)%Z.
Proof. unfold len. rewrite app_length. lia. Qed.

Lemma len_nonneg {X : Type} (a : list X) : (0 <= len a)%Z.
Proof. unfold len. lia. Qed.

(* ---- while_loop: one unfolding ---- *)
Lemma while_loop_S {R St : Type} (f : nat) (body : St -> lctl R St) (s : St) (k oof : St -> R) :
  while_loop (S f) body s k oof =
  match body s with
  | LContinue s' => while_loop f body s' k oof
  | LBreak s' => k s'
  | LReturn r => r
  end.
Proof. reflexivity. Qed.

(* ---- tactics of the equality proofs: a test of the generated text is split into its two
   outcomes and turned into an arithmetic fact, whatever way the source spells it
   (`a < b`, `not a >= b`, `b > a`, ...) ---- *)
Ltac zb H :=
  repeat first
    [ rewrite negb_true_iff in H | rewrite negb_false_iff in H
    | rewrite andb_true_iff in H | rewrite orb_false_iff in H
    | rewrite Z.ltb_lt in H | rewrite Z.ltb_ge in H | rewrite Z.leb_le in H | rewrite Z.leb_gt in H
    | rewrite Z.eqb_eq in H | rewrite Z.eqb_neq in H
    | rewrite Nat.ltb_lt in H | rewrite Nat.ltb_ge in H | rewrite Nat.leb_le in H | rewrite Nat.leb_gt in H ].

Ltac split_test :=
  match goal with
  | |- context [if ?c then _ else _] => let E := fresh "Ec" in destruct c eqn:E; zb E
  end.
