(* Executable models of the trainer's detectors
   (lib_trainer/detection_rules/*.py) and of the "walk the section list, split
   unlabelled sections in place" loop they all share.  Definitions only.

   Every detector is transcribed with its own index arithmetic (Z indices,
   Python slices, find/rfind returning -1), including the places where the
   source mixes offsets of `section[0].lower()` with `section[0]`.
   Exceptions are values: [DErr] (an IndexError of a subscript). *)
From Coq Require Import List ZArith NArith Bool.
From Pcfg Require Import Str Multiword.
Import ListNotations.
Open Scope Z_scope.

(* labels: 'K4' 'E' 'W' 'Y1' 'X1' 'A5' 'D3' 'O2' *)
Inductive label := LK (n : Z) | LE | LW | LY | LX | LA (n : Z) | LD (n : Z) | LO (n : Z).

Definition section := (str * option label)%type.

Definition label_eqb (a b : label) : bool :=
  match a, b with
  | LK n, LK m | LA n, LA m | LD n, LD m | LO n, LO m => n =? m
  | LE, LE | LW, LW | LY, LY | LX, LX => true
  | _, _ => false
  end.

(* what a detect_* function returns: an exception, "nothing found" (the
   caller leaves the section alone), or the replacement sections with what
   was found *)
Inductive dres (F : Type) :=
| DErr
| DNo
| DYes (parsing : list section) (found : F).
Arguments DErr {F}.
Arguments DNo {F}.
Arguments DYes {F}.

(* ------------------------------------------------------------ the driver *)

Section Drive.
Variable F : Type.
Variable detect : str -> dres F.
(* year and context detection `continue` without `index += 1` after a split *)
Variable reexamine : bool.

(*  index = 0
    while index < len(section_list):
        if section_list[index][1] is None:
            parsing, found = detect(section_list[index])
            if found:
                del section_list[index]; section_list[index:index] = parsing
                [continue]
        index += 1
   [todo] is section_list[index:], the result is the final section_list[index:]
   and the found list.  None = an exception, or fuel exhausted. *)
Fixpoint drive (fuel : nat) (todo : list section) : option (list section * list F) :=
  match todo with
  | [] => Some ([], [])
  | (s, Some l) :: rest =>
      match fuel with
      | O => None
      | S f => match drive f rest with
               | None => None
               | Some (out, fs) => Some ((s, Some l) :: out, fs)
               end
      end
  | (s, None) :: rest =>
      match fuel with
      | O => None
      | S f =>
          match detect s with
          | DErr => None
          | DNo => match drive f rest with
                   | None => None
                   | Some (out, fs) => Some ((s, None) :: out, fs)
                   end
          | DYes parsing found =>
              if reexamine then
                match drive f (parsing ++ rest) with
                | None => None
                | Some (out, fs) => Some (out, found :: fs)
                end
              else
                match parsing ++ rest with
                | [] => Some ([], [found])
                | x :: rest' =>
                    match drive f rest' with
                    | None => None
                    | Some (out, fs) => Some (x :: out, found :: fs)
                    end
                end
          end
      end
  end.

(* enough fuel for every section list a splitting detector can produce *)
Definition sec_weight (x : section) : nat :=
  match snd x with None => 3 * length (fst x) + 1 | Some _ => 1 end.
Definition drive_fuel (todo : list section) : nat :=
  fold_right (fun x a => sec_weight x + a)%nat O todo.

Definition drive_all (todo : list section) : option (list section * list F) :=
  drive (drive_fuel todo) todo.

End Drive.
Arguments drive {F}.
Arguments drive_all {F}.

(* ---------------------------------------------------------- run detection *)

(* The loop shared (textually) by detect_alpha and detect_digits:
     for pos, value in enumerate(working_string):
         if p(value): if not is_run: is_run = True; start_pos = pos
         if not p(value) or pos == len(working_string) - 1:
             if is_run: ... end_pos = pos if p(value) else pos - 1 ... return
   Result: (start_pos, end_pos) of the first run. *)
Fixpoint run_scan (p : N -> bool) (rest : str) (pos lenws : Z) (is_run : bool) (start_pos : Z)
  : option (Z * Z) :=
  match rest with
  | [] => None
  | v :: r =>
      let a := p v in
      let is_run' := if a then true else is_run in
      let start' := if a && negb is_run then pos else start_pos in
      if (negb a || (pos =? lenws - 1)) && is_run' then
        Some (start', if a then pos else pos - 1)
      else run_scan p r (pos + 1) lenws is_run' start'
  end.

Definition first_run (p : N -> bool) (ws : str) : option (Z * Z) :=
  run_scan p ws 0 (len ws) false (-1).

Section Detectors.
Variables isalpha isdigit isupper : N -> bool.
Variable lower_c : N -> str.

Notation lower := (Multiword.lower lower_c).

(* The string the alpha / e-mail / website detectors search while they slice
   the original section with the offsets found:
     working_string = section[0].lower()
     if len(working_string) != len(section[0]):
         working_string = ''.join(c.lower() if len(c.lower()) == 1 else c for c in section[0])
   [aligned] = the source has the second statement (regenerated constant
   seg_lower_aligned; it was added to repair the loss of characters on
   U+0130, whose lower() has two characters). *)
Variable aligned : bool.
Definition lower1 (c : N) : N := match lower_c c with [x] => x | _ => c end.
Definition lower_aligned (s : str) : str :=
  let ws := lower s in if len ws =? len s then ws else map lower1 s.
Definition working (s : str) : str := if aligned then lower_aligned s else lower s.

(* ------------------------------------------------------------------ digit *)

Definition detect_digits (s : str) : dres str :=
  match first_run isdigit s with
  | None => DNo
  | Some (start_pos, end_pos) =>
      let pre := if start_pos =? 0 then [] else [(slice s 0 start_pos, None)] in
      let found := slice s start_pos (end_pos + 1) in
      let post := if end_pos =? len s - 1 then [] else [(sfrom s (end_pos + 1), None)] in
      DYes (pre ++ (found, Some (LD (len found))) :: post) found
  end.

(* ------------------------------------------------------------------ alpha *)

Definition chU : N := 85%N.
Definition chL : N := 76%N.

Definition case_mask (w : str) : str := map (fun c => if isupper c then chU else chL) w.

(* the `for word in word_list` loop: sections of the ORIGINAL string cut at
   the lengths of the words found in the lower-cased one *)
Fixpoint alpha_words (s : str) (current_start : Z) (words : list str) : list section * list str :=
  match words with
  | [] => ([], [])
  | w :: r =>
      let piece := slice s current_start (current_start + len w) in
      let (secs, masks) := alpha_words s (current_start + len w) r in
      ((piece, Some (LA (len w))) :: secs, case_mask piece :: masks)
  end.

Section Alpha.
(* multiword_detector.parse; None = exception *)
Variable mwparse : str -> option (bool * list str).

Definition detect_alpha (s : str) : dres (list str * list str) :=
  let ws := working s in
  match first_run isalpha ws with
  | None => DNo
  | Some (start_pos, end_pos) =>
      let pre := if start_pos =? 0 then [] else [(slice s 0 start_pos, None)] in
      match mwparse (slice ws start_pos (end_pos + 1)) with
      | None => DErr
      | Some (_, words) =>
          let (secs, masks) := alpha_words s start_pos words in
          let post := if end_pos =? len s - 1 then [] else [(sfrom s (end_pos + 1), None)] in
          (* `if alphas:` *)
          if nonempty words then DYes (pre ++ secs ++ post) (words, masks) else DNo
      end
  end.
End Alpha.

(* ------------------------------------------------------------------- year *)

Definition ch (n : N) : N := n.

(* the `while True` loop of detect_year for one prefix; result: Some
   (Some start_index) = a year, Some None = loop left by `break`, None = error *)
Fixpoint year_loop (fuel : nat) (ws prefix : str) (start : Z) : option (option Z) :=
  match fuel with
  | O => None
  | S f =>
      let start_index := find (sfrom ws start) prefix in
      if start_index =? -1 then Some None else
      let start_index := start_index + start in
      if len ws <? start_index + 4 then Some None else
      let start' := start_index + 2 in
      let prev_digit :=
        if start_index =? 0 then Some false
        else match getc ws (start_index - 1) with None => None | Some c => Some (isdigit c) end in
      match prev_digit with
      | None => None
      | Some true => year_loop f ws prefix start'
      | Some false =>
          let next_digit :=
            if start_index + 4 <? len ws
            then match getc ws (start_index + 4) with None => None | Some c => Some (isdigit c) end
            else Some false in
          match next_digit with
          | None => None
          | Some true => year_loop f ws prefix start'
          | Some false =>
              match getc ws (start_index + 2) with
              | None => None
              | Some c2 =>
                  if isdigit c2 then
                    match getc ws (start_index + 3) with
                    | None => None
                    | Some c3 => if isdigit c3 then Some (Some start_index)
                                 else year_loop f ws prefix start'
                    end
                  else year_loop f ws prefix start'
              end
          end
      end
  end.

Fixpoint detect_year (prefixes : list str) (s : str) : dres str :=
  match prefixes with
  | [] => DNo
  | p :: ps' =>
      match year_loop (S (S (length s))) s p 0 with
      | None => DErr
      | Some None => detect_year ps' s
      | Some (Some i) =>
          let year := slice s i (i + 4) in
          let pre := if i =? 0 then [] else [(slice s 0 i, None)] in
          let post := if i + 4 <? len s then [(sfrom s (i + 4), None)] else [] in
          (* `if year:` *)
          if nonempty year then DYes (pre ++ (slice s i (i + 4), Some LY) :: post) year else DNo
      end
  end.

(* ---------------------------------------------------------------- context *)

Definition hash_one : str := [35; 49]%N.    (* "#1" *)

Fixpoint detect_context (replacements : list str) (s : str) : dres str :=
  match replacements with
  | [] => DNo
  | r :: rs' =>
      let start_index := find s r in
      if start_index =? -1 then detect_context rs' s else
      let false_positive :=
        if str_eqb r hash_one then
          if start_index <? len s - 3 then
            match getc s (start_index + 3) with
            | None => None
            | Some c => Some (isdigit c)
            end
          else Some false
        else Some false in
      match false_positive with
      | None => DErr
      | Some true => detect_context rs' s
      | Some false =>
          let pre := if start_index =? 0 then [] else [(slice s 0 start_index, None)] in
          let mid := (slice s start_index (start_index + len r), Some LX) in
          let post := if start_index + len r <? len s
                      then [(sfrom s (start_index + len r), None)] else [] in
          (* `if cs_string:` *)
          if nonempty r then DYes (pre ++ mid :: post) r else DNo
      end
  end.

(* ------------------------------------------------------------------ email *)

Definition c_dot : N := 46%N.
Definition c_at : N := 64%N.
Definition c_slash : N := 47%N.
Definition c_colon : N := 58%N.
Definition c_space : N := 32%N.

(* the `for tld in tld_list` loop; ws = working_string *)
Fixpoint email_go (s ws : str) (tl : list str) : dres (str * str) :=
  match tl with
  | [] => DNo
  | tld :: tl' =>
      let end_index := find ws tld in
      if end_index =? -1 then email_go s ws tl' else
      let end_index := end_index + len tld in
      let marker_index := find (slice ws 0 end_index) [c_at] in
      if marker_index =? -1 then email_go s ws tl' else
      let found := slice ws 0 end_index in
      let provider := slice ws (marker_index + 1) end_index in
      let post := if end_index =? len ws then [] else [(sfrom s end_index, None)] in
      (* `if email:` *)
      if nonempty found then DYes ((slice s 0 end_index, Some LE) :: post) (found, provider) else DNo
  end.

Definition detect_email (tlds : list str) (s : str) : dres (str * str) :=
  let ws := working s in
  if negb (contains ws [c_dot]) then DNo
  else if negb (contains ws [c_at]) then DNo
  else email_go s ws tlds.

(* ---------------------------------------------------------------- website *)

Definition s_http_www : str := [104; 116; 116; 112; 58; 47; 47; 119; 119; 119; 46]%N. (* http://www. *)
Definition s_http : str := [104; 116; 116; 112; 58; 47; 47]%N.                         (* http://     *)
Definition s_www : str := [119; 119; 119; 46]%N.                                       (* www.        *)

(* the `while end_index != -1` false-positive loop for one tld.
   Some (Some total_index) = accepted occurrence; Some None = loop ended;
   None = IndexError / fuel *)
Fixpoint web_scan (fuel : nat) (ws tld : str) (end_index total_index : Z) : option (option Z) :=
  match fuel with
  | O => None
  | S f =>
      if end_index =? -1 then Some None else
      if negb (total_index =? len ws - len tld) then
        match getc ws (total_index + len tld) with
        | None => None
        | Some c =>
            if isalpha c || N.eqb c c_dot then
              let total_index := total_index + len tld in
              let end_index := find (sfrom ws total_index) tld in
              let total_index := total_index + end_index in
              web_scan f ws tld end_index total_index
            else Some (Some total_index)
        end
      else Some (Some total_index)
  end.

(* "Identify the end of the URL": None = IndexError *)
Definition web_end_of_url (ws tld : str) (total_index : Z) : option Z :=
  let end_index := total_index + len tld in
  if end_index =? len ws then Some end_index
  else match getc ws end_index with
       | None => None
       | Some c => if N.eqb c c_slash then Some (len ws) else Some end_index
       end.

(* start of the host: after the previous '.', (the later alternatives are
   dead code in the source: rfind(...) + 1 is never -1) *)
Definition web_start_index (ws : str) (total_index : Z) : Z :=
  let start_index := rfind (sto ws total_index) [c_dot] + 1 in
  let start_index := if start_index =? -1 then rfind (sto ws total_index) [c_slash] + 1 else start_index in
  let start_index := if start_index =? -1 then rfind (sto ws total_index) [c_colon] + 1 else start_index in
  let start_index := if start_index =? -1 then rfind (sto ws total_index) [c_space] + 1 else start_index in
  start_index.

(* (prefix, start_of_url), start_of_url = -1 while no prefix was found *)
Definition web_prefix (ws : str) (start_index : Z) : option str * Z :=
  let st0 : option str * Z := if start_index =? -1 then (None, 0) else (None, -1) in
  let st1 : option str * Z :=
    if snd st0 =? -1 then
      let pi := rfind (sto ws (start_index + 1)) s_http_www in
      if pi =? -1 then st0 else (Some s_http_www, pi)
    else st0 in
  let st2 : option str * Z :=
    if snd st1 =? -1 then
      let pi := rfind (sto ws start_index) s_http in
      if pi =? -1 then st1 else (Some s_http, pi)
    else st1 in
  let st3 : option str * Z :=
    if snd st2 =? -1 then
      let pi := rfind (sto ws start_index) s_www in
      if pi =? -1 then st2 else (Some s_www, pi)
    else st2 in
  st3.

(* everything after an occurrence of the tld has been accepted;
   found = (url, host, prefix) *)
Definition web_accept (s ws tld : str) (total_index : Z) : dres (str * str * option str) :=
  match web_end_of_url ws tld total_index with
  | None => DErr
  | Some end_of_url =>
      let start_index := web_start_index ws total_index in
      let host := slice ws start_index (total_index + len tld) in
      let st3 := web_prefix ws start_index in
      let prefix := fst st3 in
      let start_of_url := if snd st3 =? -1 then 0 else snd st3 in
      let full_url := slice ws start_of_url end_of_url in
      let pre := if start_of_url =? 0 then [] else [(slice s 0 start_of_url, None)] in
      let post := if end_of_url =? len s then [] else [(sfrom s end_of_url, None)] in
      (* `if url:` *)
      if nonempty full_url
      then DYes (pre ++ (slice ws start_of_url end_of_url, Some LW) :: post) (full_url, host, prefix)
      else DNo
  end.

(* the `for tld in tld_list` loop; ws = working_string *)
Fixpoint web_go (s ws : str) (tl : list str) : dres (str * str * option str) :=
  match tl with
  | [] => DNo
  | tld :: tl' =>
      let end_index := find ws tld in
      match web_scan (S (S (length ws))) ws tld end_index end_index with
      | None => DErr
      | Some None => web_go s ws tl'
      | Some (Some total_index) => web_accept s ws tld total_index
      end
  end.

Definition detect_website (tlds : list str) (s : str) : dres (str * str * option str) :=
  let ws := working s in
  if negb (contains ws [c_dot]) then DNo else web_go s ws tlds.

(* ---------------------------------------------------------- keyboard walk *)

(* a layout: row1, s_row1, row2, s_row2, row3, s_row3, row4, s_row4 *)
Definition board := list str.

Fixpoint find_row (c : N) (rows : list str) (j : Z) : option (Z * Z) :=
  match rows with
  | [] => None
  | r :: rs =>
      match index_of c r 0 with
      | Some p => Some (j / 2 + 1, p)
      | None => find_row c rs (j + 1)
      end
  end.

(* find_keyboard_row_column: per layout, (row, pos) or absent *)
Definition pos_list (kbs : list board) (c : N) : list (option (Z * Z)) :=
  map (fun b => find_row c b 0) kbs.

Definition adjacent (past cur : Z * Z) : bool :=
  let (pr, pp) := past in
  let (cr, cp) := cur in
  if (cr =? pr) && (cp =? pp) then false
  else if cr =? pr then (cp =? pp - 1) || (cp =? pp + 1)
  else if cr =? pr + 1 then (cp =? pp) || (cp =? pp - 1)
  else if cr =? pr - 1 then (cp =? pp) || (cp =? pp + 1)
  else false.

(* is_next_on_keyboard: the layouts on which the two keys are neighbours *)
Fixpoint next_on (past cur : list (option (Z * Z))) : list bool :=
  match past, cur with
  | p :: past', c :: cur' =>
      (match p, c with Some a, Some b => adjacent a b | _, _ => false end) :: next_on past' cur'
  | _, _ => []
  end.

Fixpoint and_list (a b : list bool) : list bool :=
  match a, b with
  | x :: a', y :: b' => (x && y) :: and_list a' b'
  | _, _ => []
  end.

Definition any (l : list bool) : bool := existsb (fun b => b) l.

Section Keyboard.
Variable kbs : list board.
Variable fp_words : list str.      (* false_positive_words *)
Variable min_run : Z.              (* min_keyboard_run *)

Definition c_e : N := 101%N.  Definition c_r : N := 114%N.  Definition c_t : N := 116%N.
Definition c_y : N := 121%N.  Definition c_1 : N := 49%N.   Definition c_2 : N := 50%N.
Definition c_3 : N := 51%N.   Definition c_q : N := 113%N.  Definition c_Q : N := 81%N.

Definition is_c (combo : str) (i : Z) (c : N) : option bool :=
  match getc combo i with None => None | Some x => Some (N.eqb x c) end.

(* `a and b` over option bool with Python's short circuit; None = IndexError *)
Definition oand (a : option bool) (b : unit -> option bool) : option bool :=
  match a with None => None | Some false => Some false | Some true => b tt end.

Definition complexity (combo : str) : Z :=
  let alpha := if existsb isalpha combo then 1 else 0 in
  let digit := if existsb (fun c => negb (isalpha c) && isdigit c) combo then 1 else 0 in
  let special := if existsb (fun c => negb (isalpha c) && negb (isdigit c)) combo then 1 else 0 in
  alpha + special + digit.

(* interesting_keyboard; None = IndexError *)
Definition interesting (combo : str) : option bool :=
  match is_c combo 0 c_e with None => None | Some true => Some false | Some false =>
  match oand (is_c combo 1 c_e) (fun _ => is_c combo 2 c_r) with None => None | Some true => Some false | Some false =>
  match oand (is_c combo 0 c_t) (fun _ => is_c combo 1 c_y) with None => None | Some true => Some false | Some false =>
  match oand (is_c combo 0 c_t) (fun _ => oand (is_c combo 1 c_t) (fun _ => is_c combo 2 c_y))
  with None => None | Some true => Some false | Some false =>
  match is_c combo 0 c_y with None => None | Some true => Some false | Some false =>
  match oand (is_c combo 0 c_1) (fun _ => oand (is_c combo 1 c_2) (fun _ => is_c combo 2 c_3))
  with None => None | Some true => Some false | Some false =>
  match oand (is_c combo (-1) c_3) (fun _ => oand (is_c combo (-2) c_2) (fun _ => oand (is_c combo (-3) c_1)
         (fun _ => match getc combo (-4) with
                   | None => None
                   | Some x => Some (negb (N.eqb x c_q || N.eqb x c_Q))
                   end)))
  with None => None | Some true => Some false | Some false =>
    let full_lower_word := lower combo in
    if existsb (fun item => contains full_lower_word item) fp_words then Some false
    else Some (2 <=? complexity combo)
  end end end end end end end.

Inductive kw_outcome :=
| KErr
| KFound (index : Z) (combo : str)      (* an interesting run ended before position index *)
| KEnd (combo : str).                   (* the loop ran to the end; the last run *)

(* the `for index, value in enumerate(password)` loop.  rcombo = cur_combo
   reversed, krl = keyboard_run_list as one flag per layout *)
Fixpoint kw_loop (rest : str) (index : Z) (past : list (option (Z * Z))) (rcombo : str)
         (krl : list bool) : kw_outcome :=
  match rest with
  | [] => KEnd (rev rcombo)
  | value :: rest' =>
      let pl := pos_list kbs value in
      let current_runs := next_on past pl in
      let krl' := if any krl then and_list krl current_runs else current_runs in
      if any krl' then kw_loop rest' (index + 1) pl (value :: rcombo) krl'
      else
        if min_run <=? len rcombo then
          match interesting (rev rcombo) with
          | None => KErr
          | Some true => KFound index (rev rcombo)
          | Some false => kw_loop rest' (index + 1) pl [value] krl'
          end
        else kw_loop rest' (index + 1) pl [value] krl'
  end.

(* detect_keyboard_walk: (section_list, found_list); None = exception *)
Fixpoint detect_keyboard_walk (fuel : nat) (pw : str) : option (list section * list str) :=
  match kw_loop pw 0 (map (fun _ => None) kbs) [] [] with
  | KErr => None
  | KFound index combo =>
      let pre := if len combo =? index then [] else [(slice pw 0 (index - len combo), None)] in
      let k := (combo, Some (LK (len combo))) in
      if index =? len pw then Some (pre ++ [k], [combo])
      else match fuel with
           | O => None
           | S f =>
               match detect_keyboard_walk f (sfrom pw index) with
               | None => None
               | Some (secs, found) => Some (pre ++ k :: secs, combo :: found)
               end
           end
  | KEnd combo =>
      if min_run <=? len combo then
        match interesting combo with
        | None => None
        | Some true =>
            let pre := if len combo =? len pw then [] else [(slice pw 0 (len pw - len combo), None)] in
            Some (pre ++ [(combo, Some (LK (len combo)))], [combo])
        | Some false => Some ([(pw, None)], [])
        end
      else Some ([(pw, None)], [])
  end.

End Keyboard.

(* ------------------------------------------------------------------ other *)

Definition other_detection (sl : list section) : list section * list str :=
  (map (fun x => match snd x with
                 | None => (fst x, Some (LO (len (fst x))))
                 | Some _ => x
                 end) sl,
   map fst (filter (fun x => match snd x with None => true | Some _ => false end) sl)).

End Detectors.
