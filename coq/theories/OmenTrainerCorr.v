(* OmenTrainerCorr.v -- helpers of the correspondence check of the TRAINER model (OmenTrainer.v) in C11:
   the harness writes a training list, the trainer's configuration and what the real AlphabetGenerator /
   AlphabetLookup + apply_smoothing produced (alphabet, smoothed tables) as Gallina literals; the model
   is run on the same list by vm_compute.  math.log is instantiated by the identity and math.floor by a
   finite table  (-1 * probi) |-> floor(-1 * log(probi))  that the harness computes ITSELF (its own
   float arithmetic and math module, from the counts): a model whose probi differs in one bit from
   Python's, or an implementation whose level is not the floor, makes the look-up / comparison fail. *)
From Coq Require Import List Arith Bool NArith ZArith Floats.
From Pcfg Require Import OmenSpec OmenLevel OmenLevelCorr OmenTrainer.
Import ListNotations.

Definition floor_table (tbl : list (float * Z)) (x : float) : Z :=
  match find (fun e => PrimFloat.eqb (fst e) x) tbl with
  | Some e => snd e
  | None => (-1000)%Z        (* clamps to 0: shows up as a wrong level *)
  end.

Definition next_eqb (a b : N * nat) : bool := N.eqb (fst a) (fst b) && Nat.eqb (snd a) (snd b).
Definition tentry_eqb (a b : tentry) : bool :=
  ostr_eqb (te_key a) (te_key b) && Nat.eqb (te_ip a) (te_ip b) && Nat.eqb (te_ep a) (te_ep b) &&
  leqb next_eqb (te_next a) (te_next b).
Definition ttab_eqb (a b : ttab) : bool :=
  Nat.eqb (tt_ngram a) (tt_ngram b) && Nat.eqb (tt_min_len a) (tt_min_len b) && Nat.eqb (tt_max_len a) (tt_max_len b) &&
  leqb tentry_eqb (tt_grammar a) (tt_grammar b) && leqb Nat.eqb (tt_ln a) (tt_ln b).

Record trcase := mk_trcase {
  tr_alphabet_size : Z;
  tr_ngram : Z;
  tr_max_len : Z;
  tr_pws : list ostr;              (* the valid training passwords in file order (both passes read them) *)
  tr_alphabet : ostr;              (* AlphabetGenerator.get_alphabet() *)
  tr_floor : list (float * Z);
  tr_tab : ttab;                   (* the trainer's tables after apply_smoothing *)
  tr_totals : Z * Z * Z            (* ip_counter, ep_counter, ln_counter *)
}.

(* 0 = all good; otherwise the number of the first failing sub-check *)
Definition check_train (c : trcase) : nat :=
  if negb (ostr_eqb (learn_alphabet (tr_alphabet_size c) (tr_ngram c) (tr_pws c)) (tr_alphabet c)) then 1 else
  match parse_all (alookup_init (tr_alphabet c) (tr_ngram c) 1 (tr_max_len c)) (tr_pws c) with
  | TRaise _ => 2
  | TOk A0 =>
      let '(ipc, epc, lnc) := tr_totals c in
      if negb (Z.eqb (al_ip_counter A0) ipc && Z.eqb (al_ep_counter A0) epc && Z.eqb (al_ln_counter A0) lnc) then 3 else
      match apply_smoothing (fun x => x) (floor_table (tr_floor c)) A0 with
      | TRaise _ => 4
      | TOk A =>
          match ttab_of A with
          | None => 5
          | Some T => if ttab_eqb T (tr_tab c) then 0 else 6
          end
      end
  end.

(* ---------------- the writer model (OmenTrainer.save_rules) ---------------- *)

Record wrcase := mk_wrcase {
  wr_tab : ttab;
  wr_alphabet : ostr;
  wr_keyspace : list (Z * Z);        (* omen_keyspace.items(), Counter order *)
  wr_levels_count : list (Z * Z);    (* omen_levels_count.items() *)
  wr_nvalid : Z;
  wr_ip : ostr; wr_ep : ostr; wr_cp : ostr; wr_ln : ostr;      (* the files as written (decoded text) *)
  wr_alpha : ostr; wr_ks : ostr; wr_pws : ostr;
  wr_prob : list (Z * float)         (* the lines of pcfg_omen_prob.txt, parsed by the harness *)
}.

Definition zf_eqb (a b : Z * float) : bool := Z.eqb (fst a) (fst b) && PrimFloat.eqb (snd a) (snd b).

Definition check_written (c : wrcase) : nat :=
  let T := wr_tab c in
  if negb (ostr_eqb (level_text (write_ip T)) (wr_ip c)) then 1 else
  if negb (ostr_eqb (level_text (write_ep T)) (wr_ep c)) then 2 else
  if negb (ostr_eqb (level_text (write_cp T)) (wr_cp c)) then 3 else
  if negb (ostr_eqb (ln_text (OmenLevel.write_ln T)) (wr_ln c)) then 4 else
  if negb (ostr_eqb (alphabet_text (wr_alphabet c)) (wr_alpha c)) then 5 else
  if negb (ostr_eqb (zz_text (rev (most_common_by Z.ltb (wr_keyspace c)))) (wr_ks c)) then 6 else
  if negb (ostr_eqb (zz_text (most_common_by Z.ltb (wr_levels_count c))) (wr_pws c)) then 7 else
  match prob_counter (wr_keyspace c) (wr_levels_count c) (wr_nvalid c) with
  | TRaise _ => 8
  | TOk p => if leqb zf_eqb (most_common_by PrimFloat.ltb p) (wr_prob c) then 0 else 9
  end.
