(* binary64 instance of the probability algebra (Coq primitive floats),
   laws proved through Flocq's IEEE754.PrimFloat / BinarySingleNaN. *)
From Coq Require Import ZArith Reals Lra Floats Psatz Bool.
From Flocq Require Import Core IEEE754.BinarySingleNaN IEEE754.PrimFloat.
From Pcfg Require Import ProbAlg.
Open Scope R_scope.

Notation B := (binary_float FloatOps.prec FloatOps.emax).
Notation fexp := (SpecFloat.fexp FloatOps.prec FloatOps.emax).
Notation rnd := (round radix2 fexp (round_mode mode_NE)).

#[export] Instance Hprec : Prec_gt_0 FloatOps.prec := eq_refl.
#[export] Instance Hmax : Prec_lt_emax FloatOps.prec FloatOps.emax := eq_refl.

Definition okB (x : B) : Prop := is_finite x = true /\ 0 <= B2R x.
Definition unitB (x : B) : Prop := okB x /\ B2R x <= 1.

Lemma rnd_id (x : B) : rnd (B2R x) = B2R x.
Proof. apply round_generic; [apply valid_rnd_round_mode | apply generic_format_B2R]. Qed.

Lemma rnd_mono x y : x <= y -> rnd x <= rnd y.
Proof. intros H. apply round_le; [apply fexp_correct; reflexivity | apply valid_rnd_round_mode | exact H]. Qed.

Lemma mul_noovf (a b : B) : okB a -> unitB b ->
  Rabs (rnd (B2R a * B2R b)) < bpow radix2 FloatOps.emax.
Proof.
  intros [Fa Pa] [[Fb Pb] Ub].
  assert (H0 : 0 <= rnd (B2R a * B2R b)).
  { rewrite <- (round_0 radix2 fexp (round_mode mode_NE)). apply rnd_mono. nra. }
  assert (H1 : rnd (B2R a * B2R b) <= B2R a).
  { rewrite <- (rnd_id a) at 2. apply rnd_mono. nra. }
  rewrite Rabs_pos_eq by exact H0.
  eapply Rle_lt_trans; [exact H1|].
  eapply Rle_lt_trans; [apply Rle_abs | apply abs_B2R_lt_emax].
Qed.

Lemma Bmult_ok (a b : B) : okB a -> unitB b ->
  B2R (Bmult mode_NE a b) = rnd (B2R a * B2R b) /\ okB (Bmult mode_NE a b).
Proof.
  intros Ha Hb. pose proof (mul_noovf a b Ha Hb) as Hn.
  pose proof (Bmult_correct FloatOps.prec FloatOps.emax Hprec Hmax mode_NE a b) as Hc.
  rewrite Rlt_bool_true in Hc by exact Hn.
  destruct Hc as (Hr & Hf & _). split; [exact Hr|].
  destruct Ha as [Fa Pa], Hb as [[Fb Pb] Ub]. split.
  - rewrite Hf, Fa, Fb. reflexivity.
  - rewrite Hr. rewrite <- (round_0 radix2 fexp (round_mode mode_NE)). apply rnd_mono. nra.
Qed.

Lemma Bmult_mono (a a' b b' : B) : okB a -> okB a' -> unitB b -> unitB b' ->
  B2R a <= B2R a' -> B2R b <= B2R b' ->
  B2R (Bmult mode_NE a b) <= B2R (Bmult mode_NE a' b').
Proof.
  intros Ha Ha' Hb Hb' Hle1 Hle2.
  destruct (Bmult_ok a b Ha Hb) as [E1 _]. destruct (Bmult_ok a' b' Ha' Hb') as [E2 _].
  rewrite E1, E2. apply rnd_mono.
  destruct Ha as [_ Pa], Hb as [[_ Pb] _], Ha' as [_ Pa'], Hb' as [[_ Pb'] _]. nra.
Qed.

Lemma Bmult_unit (a b : B) : unitB a -> unitB b -> unitB (Bmult mode_NE a b).
Proof.
  intros [Ha Ua] Hb. destruct (Bmult_ok a b Ha Hb) as [E Hok]. split; [exact Hok|].
  rewrite E. destruct Ha as [_ Pa], Hb as [[_ Pb] Ub].
  apply Rle_trans with (rnd 1).
  - apply rnd_mono. nra.
  - rewrite <- (@Bone_correct FloatOps.prec FloatOps.emax Hprec Hmax). rewrite rnd_id. apply Rle_refl.
Qed.

(* Primitive-float level *)
Definition okF (x : PrimFloat.float) := okB (Prim2B x).
Definition unitF (x : PrimFloat.float) := unitB (Prim2B x).

Lemma leb_R (x y : PrimFloat.float) : okF x -> okF y ->
  (x <=? y)%float = Rle_bool (B2R (Prim2B x)) (B2R (Prim2B y)).
Proof. intros [Fx _] [Fy _]. rewrite leb_equiv. apply Bleb_correct; assumption. Qed.

Lemma ltb_R (x y : PrimFloat.float) : okF x -> okF y ->
  (x <? y)%float = Rlt_bool (B2R (Prim2B x)) (B2R (Prim2B y)).
Proof. intros [Fx _] [Fy _]. rewrite ltb_equiv. apply Bltb_correct; assumption. Qed.

Lemma eqb_R (x y : PrimFloat.float) : okF x -> okF y ->
  (x =? y)%float = Req_bool (B2R (Prim2B x)) (B2R (Prim2B y)).
Proof. intros [Fx _] [Fy _]. rewrite eqb_equiv. apply Beqb_correct; assumption. Qed.

Theorem pmul_mono_F (a a' b b' : PrimFloat.float) : okF a -> okF a' -> unitF b -> unitF b' ->
  (a <=? a')%float = true -> (b <=? b')%float = true -> (a * b <=? a' * b')%float = true.
Proof.
  intros Ha Ha' Hb Hb' L1 L2.
  assert (R1 : B2R (Prim2B a) <= B2R (Prim2B a')).
  { rewrite leb_R in L1 by assumption.
    destruct (Rle_bool_spec (B2R (Prim2B a)) (B2R (Prim2B a'))); [assumption|discriminate]. }
  assert (R2 : B2R (Prim2B b) <= B2R (Prim2B b')).
  { rewrite leb_R in L2 by (apply Hb || apply Hb').
    destruct (Rle_bool_spec (B2R (Prim2B b)) (B2R (Prim2B b'))); [assumption|discriminate]. }
  assert (O1 : okF (a * b)) by (unfold okF; rewrite mul_equiv; apply Bmult_ok; assumption).
  assert (O2 : okF (a' * b')) by (unfold okF; rewrite mul_equiv; apply Bmult_ok; assumption).
  rewrite leb_R by assumption. rewrite !mul_equiv. apply Rle_bool_true.
  apply Bmult_mono; assumption.
Qed.

Theorem pmul_ok_F (a b : PrimFloat.float) : okF a -> unitF b -> okF (a * b).
Proof. intros; unfold okF; rewrite mul_equiv; apply Bmult_ok; assumption. Qed.

Theorem pmul_unit_F (a b : PrimFloat.float) : unitF a -> unitF b -> unitF (a * b).
Proof. intros; unfold unitF; rewrite mul_equiv; apply Bmult_unit; assumption. Qed.

Theorem ple_total_F (a b : PrimFloat.float) : okF a -> okF b ->
  (a <=? b)%float = true \/ (b <=? a)%float = true.
Proof.
  intros Ha Hb. rewrite !leb_R by assumption.
  destruct (Rle_or_lt (B2R (Prim2B a)) (B2R (Prim2B b))) as [H|H].
  - left; apply Rle_bool_true; exact H.
  - right; apply Rle_bool_true; lra.
Qed.

Theorem ple_refl_F a : okF a -> (a <=? a)%float = true.
Proof. intros Ha. rewrite leb_R by assumption. apply Rle_bool_true. lra. Qed.

Theorem ple_trans_F a b c : okF a -> okF b -> okF c ->
  (a <=? b)%float = true -> (b <=? c)%float = true -> (a <=? c)%float = true.
Proof.
  intros Ha Hb Hc. rewrite !leb_R by assumption. intros H1 H2.
  destruct (Rle_bool_spec (B2R (Prim2B a)) (B2R (Prim2B b))); [|discriminate].
  destruct (Rle_bool_spec (B2R (Prim2B b)) (B2R (Prim2B c))); [|discriminate].
  apply Rle_bool_true. lra.
Qed.

(* Python's < and == on ok floats are the derived plt / peq *)
Theorem ltb_negb_leb a b : okF a -> okF b -> (a <? b)%float = negb (b <=? a)%float.
Proof.
  intros Ha Hb. rewrite ltb_R, leb_R by assumption.
  destruct (Rlt_bool_spec (B2R (Prim2B a)) (B2R (Prim2B b)));
  destruct (Rle_bool_spec (B2R (Prim2B b)) (B2R (Prim2B a))); simpl; auto; lra.
Qed.

Theorem eqb_leb_leb a b : okF a -> okF b -> (a =? b)%float = ((a <=? b)%float && (b <=? a)%float)%bool.
Proof.
  intros Ha Hb. rewrite eqb_R, !leb_R by assumption.
  unfold Req_bool. destruct (Rcompare_spec (B2R (Prim2B a)) (B2R (Prim2B b)));
  destruct (Rle_bool_spec (B2R (Prim2B a)) (B2R (Prim2B b)));
  destruct (Rle_bool_spec (B2R (Prim2B b)) (B2R (Prim2B a))); simpl; auto; lra.
Qed.

(* Boolean recognisers, computable on float literals *)
Definition okbF (x : PrimFloat.float) : bool := ((0 <=? x)%float && (x <? infinity)%float)%bool.
Definition unitbF (x : PrimFloat.float) : bool := ((0 <=? x)%float && (x <=? 1)%float)%bool.

Lemma SF_zero : Prim2SF 0%float = S754_zero false. Proof. reflexivity. Qed.
Lemma SF_inf : Prim2SF infinity = S754_infinity false. Proof. reflexivity. Qed.

Lemma okbF_okF x : okbF x = true -> okF x.
Proof.
  unfold okbF, okF. rewrite andb_true_iff, leb_equiv, ltb_equiv.
  unfold Bleb, Bltb. rewrite (B2SF_Prim2B 0%float), (B2SF_Prim2B infinity), SF_zero, SF_inf.
  destruct (Prim2B x) as [s|s| |s m e He]; simpl.
  - intros _. split; [reflexivity|simpl; lra].
  - destruct s; unfold SFleb, SFltb; simpl; intros [? ?]; discriminate.
  - unfold SFleb; simpl. intros [? _]; discriminate.
  - destruct s; unfold SFleb, SFltb; simpl; intros [H1 H2]; try discriminate.
    split; [reflexivity|]. apply F2R_ge_0. simpl. apply Pos2Z.is_nonneg.
Qed.

Lemma okF_okbF x : okF x -> okbF x = true.
Proof.
  unfold okbF, okF. rewrite andb_true_iff, leb_equiv, ltb_equiv.
  unfold Bleb, Bltb. rewrite (B2SF_Prim2B 0%float), (B2SF_Prim2B infinity), SF_zero, SF_inf.
  destruct (Prim2B x) as [s|s| |s m e He]; simpl; intros [Hf Hp]; try discriminate.
  - destruct s; split; reflexivity.
  - destruct s.
    + exfalso. assert (F2R (Float radix2 (Zneg m) e) < 0) by (apply F2R_lt_0; simpl; apply Pos2Z.neg_is_neg).
      simpl in Hp. lra.
    + split; reflexivity.
Qed.

Lemma one_R : B2R (Prim2B 1%float) = 1.
Proof.
  rewrite <- (@Bone_correct FloatOps.prec FloatOps.emax Hprec Hmax).
  f_equal. apply B2SF_inj. rewrite B2SF_Prim2B. reflexivity.
Qed.

Lemma okF_one : okF 1%float.
Proof. apply okbF_okF. reflexivity. Qed.

Lemma unitbF_unitF x : unitbF x = true -> unitF x.
Proof.
  unfold unitbF. rewrite andb_true_iff. intros [H0 H1].
  assert (Hok : okF x).
  { apply okbF_okF. unfold okbF. rewrite H0. simpl.
    rewrite leb_equiv in H1. rewrite ltb_equiv. unfold Bleb in H1. unfold Bltb.
    rewrite !B2SF_Prim2B in *. rewrite SF_inf.
    change (Prim2SF 1%float) with (S754_finite false 4503599627370496 (-52)) in H1.
    rewrite leb_equiv in H0. unfold Bleb in H0. rewrite !B2SF_Prim2B, SF_zero in H0.
    destruct (Prim2SF x) as [s|s| |s m e]; try destruct s; try reflexivity;
      unfold SFleb in *; simpl in *; try discriminate. }
  split; [exact Hok|].
  rewrite leb_R in H1 by (exact Hok || exact okF_one).
  rewrite one_R in H1.
  destruct (Rle_bool_spec (B2R (Prim2B x)) 1); [assumption|discriminate].
Qed.

Lemma unitF_unitbF x : unitF x -> unitbF x = true.
Proof.
  intros [Hok H1]. unfold unitbF. apply andb_true_iff. split.
  - pose proof (okF_okbF x Hok) as H. unfold okbF in H. apply andb_true_iff in H. tauto.
  - rewrite leb_R by (exact Hok || exact okF_one). rewrite one_R. apply Rle_bool_true. exact H1.
Qed.

Definition F64 : palg.
Proof.
  refine {| P := PrimFloat.float; ple := PrimFloat.leb; pmul := PrimFloat.mul;
            okb := okbF; unitb := unitbF |}.
  - intros a H. apply okF_okbF. apply unitbF_unitF in H. apply H.
  - intros a H. apply ple_refl_F, okbF_okF, H.
  - intros a b c Ha Hb Hc. apply ple_trans_F; apply okbF_okF; assumption.
  - intros a b Ha Hb. apply ple_total_F; apply okbF_okF; assumption.
  - intros a b Ha Hb. apply okF_okbF, pmul_ok_F; [apply okbF_okF|apply unitbF_unitF]; assumption.
  - intros a a' b b' Ha Ha' Hb Hb'. apply pmul_mono_F;
      (apply okbF_okF; assumption) || (apply unitbF_unitF; assumption).
Defined.

(* The comparisons the Python code performs are the algebra's derived ones. *)
Theorem plt_F64 a b : okbF a = true -> okbF b = true -> (a <? b)%float = @plt F64 a b.
Proof. intros Ha Hb. unfold plt; simpl. apply ltb_negb_leb; apply okbF_okF; assumption. Qed.

Theorem peq_F64 a b : okbF a = true -> okbF b = true -> (a =? b)%float = @peq F64 a b.
Proof. intros Ha Hb. unfold peq; simpl. apply eqb_leb_leb; apply okbF_okF; assumption. Qed.
