(* Runtime of the generated detectors (gen/Detect_gen.v, written on every run by
   harness/translate_detect.py from the Python source of the trainer's simple
   detectors).  The translator emits nothing but lets, ifs, tuples, calls of
   previously generated functions, the string operations of Str.v and the few
   combinators below, so that the generated text is a line-by-line image of the
   Python.  Definitions only; the lemmas about them are in DetectGenProofs.v.

   Conventions of the translation (see the translator's docstring):
   * Python ints are [Z]; a string is a [str] (list of code points), one
     character of a string is an [N]; a section is a pair (text, label-or-None)
     as in Detect.v; a Python list is a Coq list.
   * A statement is a term of type [ctl R L St]: what happens when it is run.
     [Next s]: it fell through, s = the values of the variables it assigns;
     [Continue l] / [Break l]: the innermost loop is continued / left, l = the
     loop-carried variables at that point; [Return r]; [Raise]: an exception
     (an IndexError of a subscript, an exception of a callee) or a `while`
     loop out of fuel.  A sequence of statements is [bind].
   * A subscript that can raise is evaluated before the statement it occurs in
     ([sub_s], [sub_l], [call]: continuation-passing, [Raise] when the Python
     raises).  Only "raised or not" is modelled, not which exception.
   * A `while` loop has fuel (no counterpart in Python; the amount is fixed per
     loop by the translator's SPECS and the proofs show it suffices).
   * In-place mutation of a list (append, extend, del l[i], l[i] = x,
     l[a:b] = p) rebinds the variable; the translator accepts it only on
     objects that no other name can refer to. *)
From Coq Require Import List ZArith NArith Bool.
From Pcfg Require Import Str Multiword Detect.
Import ListNotations.
Open Scope Z_scope.

Inductive ctl (R L St : Type) : Type :=
| Next (s : St)
| Continue (l : L)
| Break (l : L)
| Return (r : R)
| Raise.
Arguments Next {R L St} s.
Arguments Continue {R L St} l.
Arguments Break {R L St} l.
Arguments Return {R L St} r.
Arguments Raise {R L St}.

(* s1; s2 *)
Definition bind {R L St St' : Type} (c : ctl R L St) (k : St -> ctl R L St') : ctl R L St' :=
  match c with
  | Next s => k s
  | Continue l => Continue l
  | Break l => Break l
  | Return r => Return r
  | Raise => Raise
  end.

(* a function body: the value returned; None = it raised (a body that can end
   without `return` is refused by the translator) *)
Definition run {R : Type} (c : ctl R Empty_set unit) : option R :=
  match c with Return r => Some r | _ => None end.

Section Loops.
Context {X R L L' : Type}.

(* the loop proper: pos is the position of the head of l in the iterated
   sequence.  L = the loop-carried variables, L' = those of the enclosing loop *)
Fixpoint for_from (pos : Z) (l : list X) (s : L) (body : Z -> X -> L -> ctl R L L) : ctl R L' L :=
  match l with
  | [] => Next s
  | x :: r =>
      match body pos x s with
      | Next s' | Continue s' => for_from (pos + 1) r s' body
      | Break s' => Next s'
      | Return v => Return v
      | Raise => Raise
      end
  end.

(* for pos, x in enumerate(l): body      (s: the loop-carried variables on entry) *)
Definition for_enum (l : list X) (s : L) (body : Z -> X -> L -> ctl R L L) : ctl R L' L :=
  for_from 0 l s body.

(* for x in l: body *)
Definition for_each (l : list X) (s : L) (body : X -> L -> ctl R L L) : ctl R L' L :=
  for_from 0 l s (fun _ => body).

(* while cond: body     (the condition is looked at before the fuel, so a loop
   that needs n iterations runs with fuel n) *)
Fixpoint while_ (fuel : nat) (s : L) (cond : L -> bool) (body : L -> ctl R L L) : ctl R L' L :=
  match fuel with
  | O => if cond s then Raise else Next s
  | S f =>
      if cond s then
        match body s with
        | Next s' | Continue s' => while_ f s' cond body
        | Break s' => Next s'
        | Return v => Return v
        | Raise => Raise
        end
      else Next s
  end.

End Loops.

(* ---- operations that can raise, in continuation-passing style *)

(* l[i] on a list: Python index normalisation, None = IndexError *)
Definition lget {X : Type} (l : list X) (i : Z) : option X :=
  let n := Z.of_nat (length l) in
  let j := if i <? 0 then n + i else i in
  if (j <? 0) || (n <=? j) then None else nth_error l (Z.to_nat j).

(* for pos, x in enumerate(l): body   where the body stores into l itself (`l[i] = e`
   only, which the translator checks: the length cannot change).  Python's list
   iterator reads l[pos] from the CURRENT list ([cur s]) and stops when pos is past
   its end; n = the length of the list on entry bounds the number of iterations
   (running out of it while the list still has an element at pos is [Raise], as for
   `while`, so the combinator is sound whatever the body does) *)
Section LiveLoops.
Context {X R L L' : Type}.

Fixpoint for_live (n : nat) (pos : Z) (s : L) (cur : L -> list X) (body : Z -> X -> L -> ctl R L L) : ctl R L' L :=
  match lget (cur s) pos with
  | None => Next s
  | Some x =>
      match n with
      | O => Raise
      | S n' =>
          match body pos x s with
          | Next s' | Continue s' => for_live n' (pos + 1) s' cur body
          | Break s' => Next s'
          | Return v => Return v
          | Raise => Raise
          end
      end
  end.

Definition for_enum_live (l : list X) (s : L) (cur : L -> list X) (body : Z -> X -> L -> ctl R L L) : ctl R L' L :=
  for_live (length l) 0 s cur body.

(* for x in l: body   (same, without the position) *)
Definition for_each_live (l : list X) (s : L) (cur : L -> list X) (body : X -> L -> ctl R L L) : ctl R L' L :=
  for_live (length l) 0 s cur (fun _ => body).

End LiveLoops.

(* c = s[i] on a string *)
Definition sub_s {R L St : Type} (s : str) (i : Z) (k : N -> ctl R L St) : ctl R L St :=
  match getc s i with None => Raise | Some c => k c end.

(* x = l[i] on a list *)
Definition sub_l {X R L St : Type} (l : list X) (i : Z) (k : X -> ctl R L St) : ctl R L St :=
  match lget l i with None => Raise | Some x => k x end.

(* v = f(...) for a callee that can raise, and every other partial operation *)
Definition call {T R L St : Type} (r : option T) (k : T -> ctl R L St) : ctl R L St :=
  match r with None => Raise | Some v => k v end.

(* ---- Python lists *)

Definition llen {X : Type} (l : list X) : Z := Z.of_nat (length l).

(* l.append(x), l.extend(m) *)
Definition append {X : Type} (l : list X) (x : X) : list X := l ++ [x].
Definition extend {X : Type} (l m : list X) : list X := l ++ m.

(* del l[i]; None = IndexError *)
Definition ldel {X : Type} (l : list X) (i : Z) : option (list X) :=
  let n := llen l in
  let j := if i <? 0 then n + i else i in
  if (j <? 0) || (n <=? j) then None
  else Some (firstn (Z.to_nat j) l ++ skipn (S (Z.to_nat j)) l).

(* l[i] = x; None = IndexError *)
Definition lset {X : Type} (l : list X) (i : Z) (x : X) : option (list X) :=
  let n := llen l in
  let j := if i <? 0 then n + i else i in
  if (j <? 0) || (n <=? j) then None
  else Some (firstn (Z.to_nat j) l ++ x :: skipn (S (Z.to_nat j)) l).

(* l[a:b] = p  (slice assignment, step 1: bounds clipped as in a slice; when
   b < a the slice is empty and p is inserted at a) *)
Definition lins {X : Type} (l : list X) (a b : Z) (p : list X) : list X :=
  let n := llen l in
  let a' := clip n a in
  let b' := Z.max a' (clip n b) in
  firstn (Z.to_nat a') l ++ p ++ skipn (Z.to_nat b') l.

(* ---- values *)

(* the first component of what a detect_* function returns is the list of the
   replacement sections when something was found and the (section) argument
   itself when nothing was found; using the latter as a list is treated as an
   exception ([pv_list]) - the equalities with the model show it never happens *)
Inductive pv :=
| PSec (x : section)
| PList (l : list section).

Definition pv_list (p : pv) : option (list section) :=
  match p with PList l => Some l | PSec _ => None end.

(* truth value of `x` for x a string / a list, or None *)
Definition truthy {X : Type} (o : option (list X)) : bool :=
  match o with Some (_ :: _) => true | _ => false end.

Definition is_none {X : Type} (o : option X) : bool := match o with None => true | Some _ => false end.
