(* The generated base_structure_creation, prince_evaluation, tail of
   PCFGPasswordParser.parse and Markov block of run_trainer (gen/WriterStruct_gen.v: the
   translation of the Python text, redone on every run) equal the hand-written models of
   Counters.v the theorems of C06 are about: supported / structure, the PRINCE tally,
   count_one, with_markov - for every section list whose sections are labelled (what the
   detectors leave: DetectGenProofs), every counter, every number structure.

   The proofs decide the tests of the generated text by case analysis and use the loop
   lemmas of WriterRtProofs.v: they do not depend on variable names, on the order of the
   tests or on the layout of the loop state. *)
From Coq Require Import String Ascii.
From Coq Require Import List NArith ZArith QArith Bool Lia Permutation.
From Pcfg Require Import TextFile Counters CountersProofs IoFacts WriterRt WriterSpec WriterRtProofs.
From PcfgGen Require Import WriterStruct_gen.
Import ListNotations.
Open Scope N_scope.

(* ---------------------------------------------------------------- base_structure_creation *)

Definition bsc_step (s : section) (st : bool * list str) : bool * list str :=
  (if unsupported_label (key_of_opt (snd s)) then false else fst st, snd st ++ [key_of_opt (snd s)]).

Lemma bsc_fold : forall (sl : list section) (sup : bool) (bs : list str),
  fold_left (fun st s => bsc_step s st) sl (sup, bs) = (sup && supported (labels_of sl), bs ++ labels_of sl).
Proof.
  induction sl as [|s r IH]; intros sup bs.
  - cbn. rewrite andb_true_r, app_nil_r. reflexivity.
  - cbn [fold_left]. unfold bsc_step at 2. cbn [fst snd]. rewrite IH.
    unfold labels_of, supported. cbn [map forallb]. rewrite <- app_assoc. cbn [app].
    destruct (unsupported_label (key_of_opt (snd s))); cbn [negb andb]; [rewrite andb_false_r|]; reflexivity.
Qed.

Ltac decide_tests :=
  repeat match goal with
         | |- context [N.eqb ?a ?b] => destruct (N.eqb a b); cbn
         end; try reflexivity.

Theorem struct_base_structure_creation_eq : forall sl : list section, Forall labelled sl ->
  py_base_structure_creation sl = Ok (supported (labels_of sl), structure (labels_of sl)).
Proof.
  intros sl Hl. unfold py_base_structure_creation. cbv zeta.
  match goal with |- context [for_each sl ?b ?s0] => set (body := b); set (s0' := s0) end.
  (* the layout of the loop state is canonical (by type): (is_supported, base_structure) *)
  rewrite (for_each_norm bsc_step body sl s0').
  - subst s0'. cbn [bind]. rewrite bsc_fold. reflexivity.
  - intros [t o] st Hx. rewrite Forall_forall in Hl. destruct (Hl _ Hx) as [l [E Hne]].
    cbn [snd] in E. subst o. destruct l as [|c l]; [contradiction|]. destruct st as [a b].
    subst body. cbn. unfold bsc_step, s_in. cbn. decide_tests.
Qed.

(* a section without label (None) or with an empty label: the function raises (ValueError resp.
   IndexError), it never returns a structure *)
Theorem struct_base_structure_creation_raises : forall sl : list section,
  (exists s, In s sl /\ ~ labelled s) -> exists e, py_base_structure_creation sl = Raise e.
Proof.
  intros sl [s [Hs Hn]]. unfold py_base_structure_creation. cbv zeta.
  match goal with |- context [for_each sl ?b ?s0] => set (body := b); set (s0' := s0) end.
  destruct (for_each_exc body sl s0') as [e E].
  - intros [t o] [a b] _. destruct o as [[|c l]|]; subst body; cbn.
    + right. eexists. reflexivity.
    + left. unfold s_in. cbn. destruct (N.eqb c 87), (N.eqb c 69); cbn; eexists; reflexivity.
    + right. eexists. reflexivity.
  - exists s. split; [exact Hs|]. intros [a b]. destruct s as [t [[|c l]|]]; subst body; cbn.
    + eexists. reflexivity.
    + exfalso. apply Hn. exists (c :: l). split; [reflexivity|discriminate].
    + eexists. reflexivity.
  - rewrite E. exists e. reflexivity.
Qed.

(* ---------------------------------------------------------------- prince_evaluation *)

Theorem struct_prince_evaluation_eq : forall (c : list (str * N)) (sl : list section),
  py_prince_evaluation c sl = Ok (fold_left (fun c l => incr l c) (labels_of sl) c).
Proof.
  intros c sl. unfold py_prince_evaluation. cbv zeta.
  match goal with |- context [for_each sl ?b ?s0] => set (body := b) end.
  rewrite (for_each_norm (fun (s : section) c => incr (key_of_opt (snd s)) c) body sl c).
  - cbn [bind run_fn]. unfold labels_of. rewrite fold_left_map. reflexivity.
  - intros [t o] st _. subst body. cbn. rewrite cnt_add_one. reflexivity.
Qed.

(* ---------------------------------------------------------------- the tail of parse *)

Theorem struct_parse_tail_eq : forall (p b r : list (str * N)) (sl : list section), Forall labelled sl ->
  let s' := count_one {| sc_base := b; sc_raw := r; sc_prince := p |} (labels_of sl) in
  py_parse_tail p b r sl = Ok (true, sc_prince s', sc_base s', sc_raw s').
Proof.
  intros p b r sl Hl. cbv zeta. unfold py_parse_tail.
  rewrite struct_prince_evaluation_eq, (struct_base_structure_creation_eq sl Hl).
  cbn [call bind]. unfold count_one. cbn [sc_prince sc_base sc_raw].
  destruct (supported (labels_of sl)); cbn [bind run_fn]; rewrite ?cnt_add_one; reflexivity.
Qed.

Theorem struct_fold_tail_eq : forall pws : list (list section), Forall (Forall labelled) pws ->
  fold_tail py_parse_tail pws = count_structs (map labels_of pws).
Proof.
  intros pws H. unfold fold_tail, count_structs. rewrite fold_left_map.
  generalize {| sc_base := []; sc_raw := []; sc_prince := [] |}.
  induction H as [|sl r Hsl _ IH]; intro s; [reflexivity|].
  cbn [fold_left]. rewrite (struct_parse_tail_eq _ _ _ sl Hsl). cbv zeta.
  rewrite <- IH. destruct s as [b0 r0 p0]. cbn [sc_base sc_raw sc_prince]. reflexivity.
Qed.

(* ---------------------------------------------------------------- the Markov block *)

Theorem struct_markov_block_eq : forall (O : numops) (cov : num O) (n : N) (omen c : counter O),
  omen <> [] -> py_run_trainer_markov_block cov n omen c = Norm (with_markov cov n c).
Proof.
  intros O cov n omen c Ho. unfold py_run_trainer_markov_block, with_markov. cbv zeta.
  rewrite ?firstn_nonempty, ?most_common_nonempty.
  destruct omen as [|x r]; [contradiction|]. cbn [nonempty negb].
  destruct (neqb O cov (none O)); cbn [negb]; try reflexivity.
  destruct (neqb O cov (nzero O)); reflexivity.
Qed.

(* without OMEN n-grams and with a coverage other than 1 the trainer stops (returns False) *)
Theorem struct_markov_block_no_omen : forall (O : numops) (cov : num O) (n : N) (c : counter O),
  py_run_trainer_markov_block cov n [] c = if neqb O cov (none O) then Norm c else Retn false.
Proof.
  intros O cov n c. unfold py_run_trainer_markov_block. cbv zeta.
  destruct (neqb O cov (none O)); reflexivity.
Qed.

(* the calls of run_trainer come in the order the model assumes *)
Theorem struct_run_trainer_events_ok : events_ok py_run_trainer_events = true.
Proof. vm_compute. reflexivity. Qed.

(* ---------------------------------------------------------------- C06 over the generated functions *)

Theorem struct_markov_count : forall (cov : Q) (n : N) (omen c : counter QNum), omen <> [] ->
  exists c', @py_run_trainer_markov_block QNum cov n omen c = Norm c' /\
  ((cov == 1)%Q -> c' = c) /\
  ((cov == 0)%Q -> c' = [(M_key, 1%Q)]) /\
  (~ (cov == 1)%Q -> ~ (cov == 0)%Q ->
     c' = dict_set M_key (inject_Z (Z.of_N n) / cov - inject_Z (Z.of_N n))%Q c /\
     (inject_Z (Z.of_N n) / cov - inject_Z (Z.of_N n) == inject_Z (Z.of_N n) * (1 / cov - 1))%Q /\
     (~ In M_key (map fst c) -> c' = c ++ [(M_key, (inject_Z (Z.of_N n) / cov - inject_Z (Z.of_N n))%Q)])) /\
  ((0 < cov)%Q -> (cov < 1)%Q -> (0 < n)%N -> ~ In M_key (map fst c) -> (total c == inject_Z (Z.of_N n))%Q ->
     exists p, In (M_key, p) (calc_probs c') /\ (p == 1 - cov)%Q).
Proof.
  intros cov n omen c Ho. exists (@with_markov QNum cov n c). split.
  - apply (struct_markov_block_eq QNum). exact Ho.
  - exact (markov_count cov n c).
Qed.

Theorem struct_unsupported_only_raw : forall pws : list (list section), Forall (Forall labelled) pws ->
  let S := fold_tail py_parse_tail pws in
  let L := map labels_of pws in
  (forall s, In s (map fst (sc_base S)) -> exists ls, In ls L /\ supported ls = true /\ s = structure ls) /\
  (forall ls, In ls L -> supported ls = true -> In (structure ls) (map fst (sc_base S))) /\
  (forall ls, In ls L -> In (structure ls) (map fst (sc_raw S))) /\
  (Forall (fun ls => forallb wf_label ls = true) L ->
     forall s, In s (map fst (sc_base S)) -> ~ In 69%N s /\ ~ In 87%N s) /\
  (forall ls, In ls L -> supported ls = false -> In 69%N (structure ls) \/ In 87%N (structure ls)) /\
  sc_base S = tally (map structure (filter supported L)) /\
  sc_raw S = tally (map structure L) /\
  sc_prince S = tally (List.concat L).
Proof.
  intros pws H. cbv zeta. rewrite (struct_fold_tail_eq pws H). exact (unsupported_only_raw (map labels_of pws)).
Qed.

(* the generated functions run: pass!12 -> A4 O1 D2 is supported, a@b.com -> E is not *)
Example struct_example :
  let l1 : list section := [([112;97;115;115], Some [65;52]); ([33], Some [79;49]); ([49;50], Some [68;50])] in
  let l2 : list section := [([97;64;98;46;99;111;109], Some [69])] in
  Forall (Forall labelled) [l1; l2] /\
  py_base_structure_creation l1 = Ok (true, [65;52;79;49;68;50]) /\
  py_base_structure_creation l2 = Ok (false, [69]) /\
  sc_base (fold_tail py_parse_tail [l1; l2]) = [([65;52;79;49;68;50], 1)] /\
  sc_raw (fold_tail py_parse_tail [l1; l2]) = [([65;52;79;49;68;50], 1); ([69], 1)] /\
  @py_run_trainer_markov_block QNum (3 # 5)%Q 3 [([49], 1%Q)] [([65;52], 3%Q)] = Norm [([65;52], 3%Q); ([77], (3 / (3 # 5) - 3)%Q)].
Proof.
  cbv zeta. split.
  - repeat constructor; eexists; (split; [reflexivity|discriminate]).
  - vm_compute. repeat split; reflexivity.
Qed.
