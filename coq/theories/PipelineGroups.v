(* PipelineGroups.v - the grouping of a probability-sorted file keeps it
   sorted: what Next.v's wf asks of a loaded terminal list. *)
From Coq Require Import List Bool Sorting.Sorted.
From Pcfg Require Import ProbAlg Next NextSpec TextFile Pipeline.
Import ListNotations.

Section G.
Context {A : palg}.
Variable R : parith A.
Notation dsc := (fun a b : P A => ple b a = true).

Lemma ggroups_probs : forall l p vs g, In g (ggroups R p vs l) -> snd g = p \/ In (snd g) (map snd l).
Proof.
  induction l as [|[v q] r IH]; intros p vs g Hg; simpl in Hg.
  - destruct Hg as [<-|[]]. now left.
  - destruct (a_eqb R q p).
    + destruct (IH _ _ _ Hg) as [H|H]; [now left|right; now right].
    + destruct Hg as [<-|Hg]; [now left|]. right. simpl. destruct (IH _ _ _ Hg) as [H|H]; [left; now symmetry|right; exact H].
Qed.

Lemma ggroups_sorted : forall l p vs,
  StronglySorted dsc (p :: map snd l) -> StronglySorted dsc (map snd (ggroups R p vs l)).
Proof.
  induction l as [|[v q] r IH]; intros p vs H; simpl.
  - constructor; constructor.
  - inversion H as [|? ? Hs Hall]; subst. simpl in Hs, Hall. destruct (a_eqb R q p).
    + apply IH. constructor; [now inversion Hs|now inversion Hall].
    + simpl. constructor; [now apply IH|]. apply Forall_forall. intros x Hx. apply in_map_iff in Hx.
      destruct Hx as (g & <- & Hg). rewrite Forall_forall in Hall. apply Hall.
      destruct (ggroups_probs _ _ _ _ Hg) as [->|Hin]; [now left|now right].
Qed.

Lemma ggroup_sorted l : StronglySorted dsc (map snd l) -> StronglySorted dsc (map snd (ggroup R l)).
Proof. destruct l as [|[v p] r]; [constructor|]. apply ggroups_sorted. Qed.

Lemma ggroup_probs l g : In g (ggroup R l) -> In (snd g) (map snd l).
Proof.
  destruct l as [|[v p] r]; [intros []|]. simpl. intros H. destruct (ggroups_probs _ _ _ _ H) as [->|Hin]; [now left|now right].
Qed.

Lemma ggroups_nonempty l p vs : ggroups R p vs l <> [].
Proof. revert p vs. induction l as [|[v q] r IH]; intros p vs; simpl; [discriminate|]. destruct (a_eqb R q p); [apply IH|discriminate]. Qed.

Lemma ggroup_nonempty l : l <> [] -> ggroup R l <> [].
Proof. destruct l as [|[v p] r]; [congruence|]. intros _. apply ggroups_nonempty. Qed.

Lemma desc_of_sorted (l : list (P A)) : StronglySorted dsc l -> desc l.
Proof.
  induction 1 as [|a r Hs IH Hall]; simpl; [exact I|]. split; [|exact IH].
  destruct r as [|b r']; [exact I|]. now inversion Hall.
Qed.

(* a non-empty file sorted non-increasing with probabilities in [0,1] loads into a wf group list *)
Theorem wf_groups_lines (l : list (TextFile.str * P A)) :
  l <> [] -> StronglySorted dsc (map snd l) -> Forall (fun p => unitb p = true) (map snd l) ->
  wf_groups (map snd (ggroup R l)).
Proof.
  intros Hne Hs Hu. split; [|split].
  - intros H. apply map_eq_nil in H. now apply (ggroup_nonempty l Hne).
  - apply Forall_forall. intros p Hp. apply in_map_iff in Hp. destruct Hp as (g & <- & Hg).
    rewrite Forall_forall in Hu. apply Hu. now apply ggroup_probs.
  - apply desc_of_sorted. now apply ggroup_sorted.
Qed.
End G.
