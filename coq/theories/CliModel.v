(* Hand-written model of the guesser's command line / save-file glue (pcfg_guesser.py:
   parse_command_line, main, create_save_config, load_save).  Definitions only; the lemmas
   are in CliModelProofs.v, the equalities with the translation of the Python text
   (gen/Cli_gen.v, written on every run by harness/translate_cli.py) in CliGenProofs.v.

   * Python values that travel through program_info / argparse / the save file are [pyval].
   * argparse is a total function from the argv token list to the namespace ([ap_parse]),
     None = SystemExit (usage error or --help).  It follows ArgumentParser._parse_optional /
     consume_optional of CPython 3.12 for a parser that has optionals only: exact option
     strings, `--opt=value`, unique prefixes of long options, `-xVALUE`, clusters of
     single-dash flags (`-dl`, `-dn5`), negative-number-like and space-containing tokens are
     arguments, an argument that no option consumes / an unknown option / an ambiguous prefix /
     a missing or ignored explicit argument / a failing type conversion / a value outside
     `choices` / the bare token `--` are errors.  `int()` is a parameter ([int_of]);
     [int_ascii] is its ASCII instance, which the correspondence runs.
   * configparser is a string map: sections -> keys -> strings ([config]); what a file holds
     is an oracle ([fread]): missing, not parseable, or a config.  Interpolation (`%`) and
     key case folding are not modelled (the keys of the source are lower-case literals).
   * [m_main] is main() in direct style over the typed options record: which grammar is
     built, which session is run with which arguments. *)
From Coq Require Import List NArith ZArith Bool String Ascii.
From Pcfg Require Import Str.
Import ListNotations.
Open Scope N_scope.

(* ---------------------------------------------------------------- strings *)

Definition lit (s : string) : str := map N_of_ascii (list_ascii_of_string s).

(* a + b on strings: ++ under its own name (kept folded by the proofs when a is unknown) *)
Fixpoint str_app (a b : str) : str :=
  match a with
  | [] => b
  | c :: r => c :: str_app r b
  end.

Definition lower_ascii_c (c : N) : N := if (65 <=? c) && (c <=? 90) then c + 32 else c.
Definition lower_ascii (s : str) : str := map lower_ascii_c s.

Definition is_digit_c (c : N) : bool := (48 <=? c) && (c <=? 57).
(* what int() strips (ASCII part of Py_UNICODE_ISSPACE) *)
Definition is_ws_c (c : N) : bool := ((9 <=? c) && (c <=? 13)) || ((28 <=? c) && (c <=? 32)).

Fixpoint lstrip_ws (s : str) : str :=
  match s with
  | c :: r => if is_ws_c c then lstrip_ws r else s
  | [] => []
  end.
Definition strip_ws (s : str) : str := rev (lstrip_ws (rev (lstrip_ws s))).

(* digit (_? digit)*   after the first digit; [us] = the previous character was '_' *)
Fixpoint digits_val (acc : Z) (us : bool) (s : str) : option Z :=
  match s with
  | [] => if us then None else Some acc
  | c :: r =>
    if is_digit_c c then digits_val (acc * 10 + Z.of_N (c - 48)) false r
    else if (c =? 95) && negb us then digits_val acc true r
    else None
  end.
Definition unsigned_val (s : str) : option Z :=
  match s with
  | c :: r => if is_digit_c c then digits_val (Z.of_N (c - 48)) false r else None
  | [] => None
  end.
(* int(s) for ASCII s: whitespace stripped, optional sign, decimal digits with single underscores *)
Definition int_ascii (s : str) : option Z :=
  match strip_ws s with
  | 43 :: r => unsigned_val r
  | 45 :: r => option_map Z.opp (unsigned_val r)
  | r => unsigned_val r
  end.

(* ---------------------------------------------------------------- values *)

(* ConfigParser contents: sections in order, each an ordered key -> string map *)
Definition config := list (str * list (str * str)).

Inductive pyval :=
| VNone
| VBool (b : bool)
| VInt (z : Z)
| VStr (s : str)
| VList (l : list pyval)
| VCfg (c : config).

Definition dict := list (str * pyval).

(* equality of dict / section / option keys: str_eqb under its own name, so that the proofs can
   compute the lookups of literal keys while leaving comparisons of unknown strings folded *)
Fixpoint key_eqb (a b : str) : bool :=
  match a, b with
  | [], [] => true
  | x :: a', y :: b' => N.eqb x y && key_eqb a' b'
  | _, _ => false
  end.

Fixpoint d_get (k : str) (d : dict) : option pyval :=
  match d with
  | [] => None
  | (k', v) :: r => if key_eqb k k' then Some v else d_get k r
  end.
Fixpoint d_set (k : str) (v : pyval) (d : dict) : dict :=
  match d with
  | [] => [(k, v)]
  | (k', v') :: r => if key_eqb k k' then (k', v) :: r else (k', v') :: d_set k v r
  end.

(* Python == on these values (True == 1; a config equals nothing: identity is not modelled) *)
Definition z_of_bool (b : bool) : Z := if b then 1%Z else 0%Z.
Fixpoint py_eqb (a b : pyval) : bool :=
  match a, b with
  | VNone, VNone => true
  | VBool x, VBool y => Bool.eqb x y
  | VBool x, VInt y => Z.eqb (z_of_bool x) y
  | VInt x, VBool y => Z.eqb x (z_of_bool y)
  | VInt x, VInt y => Z.eqb x y
  | VStr x, VStr y => str_eqb x y
  | VList x, VList y =>
    (fix go (x y : list pyval) : bool :=
       match x, y with
       | [], [] => true
       | a :: x', b :: y' => py_eqb a b && go x' y'
       | _, _ => false
       end) x y
  | _, _ => false
  end.

Definition py_truthy (v : pyval) : bool :=
  match v with
  | VNone => false
  | VBool b => b
  | VInt z => negb (Z.eqb z 0)
  | VStr s => nonempty s
  | VList l => nonempty l
  | VCfg _ => true
  end.

(* v in [..] / v in a list value *)
Definition py_in_list (v : pyval) (l : list pyval) : bool := existsb (py_eqb v) l.

Definition str_of_bool (b : bool) : str := if b then lit "True" else lit "False".

(* ---------------------------------------------------------------- exceptions *)

Inductive exn :=
| SystemExit | TypeError | ValueError | KeyError | AttributeError | IOError | ConfigError
| ArgumentError      (* add_argument: conflicting option string *)
| ExternalError      (* whatever a collaborator (PcfgGrammar) raises: any Exception *)
| NotModelled.       (* an operation on a value the model does not cover (str() of a list ...) *)

(* ---------------------------------------------------------------- configparser *)

Fixpoint cfg_section (sec : str) (c : config) : option (list (str * str)) :=
  match c with
  | [] => None
  | (s, kv) :: r => if key_eqb sec s then Some kv else cfg_section sec r
  end.
Fixpoint kv_get (k : str) (kv : list (str * str)) : option str :=
  match kv with
  | [] => None
  | (k', v) :: r => if key_eqb k k' then Some v else kv_get k r
  end.
Fixpoint kv_set (k v : str) (kv : list (str * str)) : list (str * str) :=
  match kv with
  | [] => [(k, v)]
  | (k', v') :: r => if key_eqb k k' then (k', v) :: r else (k', v') :: kv_set k v r
  end.
Definition cfg_lookup (sec key : str) (c : config) : option str :=
  match cfg_section sec c with
  | Some kv => kv_get key kv
  | None => None
  end.
Definition cfg_has_option (sec key : str) (c : config) : bool :=
  match cfg_lookup sec key c with Some _ => true | None => false end.
Definition cfg_has_section (sec : str) (c : config) : bool :=
  match cfg_section sec c with Some _ => true | None => false end.
(* add_section: None = DuplicateSectionError *)
Definition cfg_add_section (sec : str) (c : config) : option config :=
  if cfg_has_section sec c then None else Some (c ++ [(sec, [])]).
Fixpoint cfg_set_in (sec key v : str) (c : config) : config :=
  match c with
  | [] => []
  | (s, kv) :: r => if key_eqb sec s then (s, kv_set key v kv) :: r else (s, kv) :: cfg_set_in sec key v r
  end.
(* set: None = NoSectionError *)
Definition cfg_set (sec key v : str) (c : config) : option config :=
  if cfg_has_section sec c then Some (cfg_set_in sec key v c) else None.

(* RawConfigParser.BOOLEAN_STATES on value.lower(); None = ValueError *)
Definition boolean_of (s : str) : option bool :=
  let l := lower_ascii s in
  if mem_str l [lit "1"; lit "yes"; lit "true"; lit "on"] then Some true
  else if mem_str l [lit "0"; lit "no"; lit "false"; lit "off"] then Some false
  else None.

(* what open(name) + read_file give *)
Inductive fread :=
| FMissing                 (* IOError *)
| FGarbage                 (* configparser.Error while parsing *)
| FCfg (c : config).

(* ---------------------------------------------------------------- argparse *)

Inductive ap_action := AStore | AStoreConst | AHelp.

Record ap_opt := {
  ao_flags : list str;
  ao_dest : str;
  ao_action : ap_action;
  ao_int : bool;                     (* type=int *)
  ao_default : pyval;
  ao_const : pyval;
  ao_choices : option pyval
}.

Definition parser := list ap_opt.

(* dest when none is given: the first long option string without its dashes, else the first
   short one; '-' inside becomes '_' *)
Fixpoint strip_dashes (s : str) : str :=
  match s with
  | 45 :: r => strip_dashes r
  | _ => s
  end.
Definition is_long (f : str) : bool :=
  match f with
  | 45 :: 45 :: _ => true
  | _ => false
  end.
Definition ap_infer_dest (flags : list str) : str :=
  let pick := match filter is_long flags with f :: _ => f | [] => match flags with f :: _ => f | [] => [] end end in
  map (fun c => if c =? 45 then 95 else c) (strip_dashes pick).

Definition help_opt : ap_opt :=
  {| ao_flags := [lit "-h"; lit "--help"]; ao_dest := lit "help"; ao_action := AHelp; ao_int := false;
     ao_default := VNone; ao_const := VNone; ao_choices := None |}.
(* argparse.ArgumentParser(): add_help=True, allow_abbrev=True, prefix_chars='-' *)
Definition new_parser : parser := [help_opt].

Definition all_flags (p : parser) : list (str * ap_opt) :=
  flat_map (fun o => map (fun f => (f, o)) (ao_flags o)) p.
Fixpoint assoc_flag (f : str) (l : list (str * ap_opt)) : option ap_opt :=
  match l with
  | [] => None
  | (f', o) :: r => if str_eqb f f' then Some o else assoc_flag f r
  end.
Definition find_flag (p : parser) (f : str) : option ap_opt := assoc_flag f (all_flags p).

(* add_argument: None = conflicting option string *)
Definition ap_add (p : parser) (o : ap_opt) : option parser :=
  if existsb (fun f => match find_flag p f with Some _ => true | None => false end) (ao_flags o)
  then None else Some (p ++ [o]).

(* s.split('=', 1) when '=' occurs *)
Fixpoint split_eq (s : str) : option (str * str) :=
  match s with
  | [] => None
  | c :: r => if c =? 61 then Some ([], r)
              else match split_eq r with Some (a, b) => Some (c :: a, b) | None => None end
  end.

(* '^-\d+$|^-\d*\.\d+$' (ASCII digits) *)
Fixpoint neg_tail (s : str) : bool :=      (* \d*\.\d+$ *)
  match s with
  | [] => false
  | c :: r => if c =? 46 then nonempty r && forallb is_digit_c r
              else is_digit_c c && neg_tail r
  end.
Definition neg_number_like (t : str) : bool :=
  match t with
  | 45 :: r => (nonempty r && forallb is_digit_c r) || neg_tail r
  | _ => false
  end.

Inductive tok_class :=
| TArg                                                     (* 'A': not an option *)
| TOpt (o : ap_opt) (flag : str) (explicit : option str)   (* 'O' *)
| TUnknown                                                 (* looks like an option, none matches *)
| TAmbiguous.

(* ArgumentParser._parse_optional / _get_option_tuples *)
Definition classify (p : parser) (t : str) : tok_class :=
  match t with
  | [] => TArg
  | c :: rest =>
    if negb (c =? 45) then TArg else
    match find_flag p t with
    | Some o => TOpt o t None
    | None =>
      match rest with
      | [] => TArg
      | c2 :: _ =>
        let via_eq :=
          match split_eq t with
          | Some (pre, ex) => match find_flag p pre with Some o => Some (TOpt o pre (Some ex)) | None => None end
          | None => None
          end in
        match via_eq with
        | Some r => r
        | None =>
          let cands :=
            if c2 =? 45 then
              let pe := match split_eq t with Some (pre, ex) => (pre, Some ex) | None => (t, None) end in
              map (fun fo => TOpt (snd fo) (fst fo) (snd pe)) (filter (fun fo => prefixb (fst pe) (fst fo)) (all_flags p))
            else
              flat_map (fun fo => if str_eqb (fst fo) (firstn 2 t) then [TOpt (snd fo) (fst fo) (Some (skipn 2 t))]
                                  else if prefixb t (fst fo) then [TOpt (snd fo) (fst fo) None] else [])
                       (all_flags p) in
          match cands with
          | [r] => r
          | _ :: _ :: _ => TAmbiguous
          | [] => if neg_number_like t then TArg else if mem_c 32 t then TArg else TUnknown
          end
        end
      end
    end
  end.

Definition takes_arg (o : ap_opt) : bool := match ao_action o with AStore => true | _ => false end.

(* an option seen on the command line, with its argument string when it takes one *)
Definition rawocc := (ap_opt * option str)%type.

(* the tail [e] of a single-dash token whose option so far took no argument:
   -> (options seen, the option that still needs the NEXT token as its argument) *)
Fixpoint cluster (p : parser) (e : str) : option (list rawocc * option ap_opt) :=
  match e with
  | [] => None
  | c :: e' =>
    match find_flag p [45; c] with
    | None => None                       (* ignored explicit argument *)
    | Some o' =>
      match e' with
      | [] => if takes_arg o' then Some ([], Some o') else Some ([(o', None)], None)
      | _ :: _ =>
        if takes_arg o' then Some ([(o', Some e')], None)
        else match cluster p e' with
             | Some (l, pend) => Some ((o', None) :: l, pend)
             | None => None
             end
      end
    end
  end.

(* consume_optional for one 'O' token *)
Definition start_opt (p : parser) (o : ap_opt) (flag : str) (explicit : option str)
  : option (list rawocc * option ap_opt) :=
  match explicit with
  | None => if takes_arg o then Some ([], Some o) else Some ([(o, None)], None)
  | Some e =>
    if takes_arg o then Some ([(o, Some e)], None)
    else if negb (is_long flag) && nonempty e then
      match cluster p e with
      | Some (l, pend) => Some ((o, None) :: l, pend)
      | None => None
      end
    else None
  end.

(* the classes of the tokens -> the options seen, in order; None = error *)
Fixpoint ap_scan (p : parser) (cls : list (str * tok_class)) : option (list rawocc) :=
  match cls with
  | [] => Some []
  | (_, TOpt o flag ex) :: r =>
    match start_opt p o flag ex with
    | None => None
    | Some (occs, None) => option_map (app occs) (ap_scan p r)
    | Some (occs, Some o') =>
      match r with
      | (v, TArg) :: r' => option_map (app (occs ++ [(o', Some v)])) (ap_scan p r')
      | _ => None                        (* expected one argument *)
      end
    end
  | _ => None                            (* unrecognized arguments / ambiguous option *)
  end.

(* _get_values + the action: (dest, value); None = error or help *)
Definition ap_value (int_of : str -> option Z) (oc : rawocc) : option (str * pyval) :=
  let o := fst oc in
  match ao_action o, snd oc with
  | AStoreConst, _ => Some (ao_dest o, ao_const o)
  | AStore, Some s =>
    match (if ao_int o then option_map VInt (int_of s) else Some (VStr s)) with
    | None => None
    | Some v =>
      match ao_choices o with
      | None => Some (ao_dest o, v)
      | Some (VList ch) => if py_in_list v ch then Some (ao_dest o, v) else None
      | Some _ => None
      end
    end
  | _, _ => None
  end.

Fixpoint map_opt {A B : Type} (f : A -> option B) (l : list A) : option (list B) :=
  match l with
  | [] => Some []
  | a :: r => match f a, map_opt f r with Some b, Some r' => Some (b :: r') | _, _ => None end
  end.

(* the namespace before any option: the defaults, first action of a dest wins *)
Definition ap_defaults (p : parser) : dict :=
  fold_left (fun ns o => match ao_action o with
                         | AHelp => ns
                         | _ => match d_get (ao_dest o) ns with Some _ => ns | None => ns ++ [(ao_dest o, ao_default o)] end
                         end) p [].

Definition ap_occs (p : parser) (argv : list str) : option (list rawocc) :=
  if existsb (str_eqb [45; 45]) argv then None
  else ap_scan p (map (fun t => (t, classify p t)) argv).

(* parser.parse_args(argv): None = SystemExit *)
Definition ap_parse (int_of : str -> option Z) (p : parser) (argv : list str) : option dict :=
  match ap_occs p argv with
  | None => None
  | Some occs =>
    match map_opt (ap_value int_of) occs with
    | None => None
    | Some vals => Some (fold_left (fun ns dv => d_set (fst dv) (snd dv) ns) vals (ap_defaults p))
    end
  end.

(* ---------------------------------------------------------------- the guesser's parser *)

Definition mode_tpo : str := lit "true_prob_order".
Definition supported_modes : pyval := VList [VStr mode_tpo; VStr (lit "random_walk"); VStr (lit "honeywords")].

Definition opt_store (flags : list str) (dflt : pyval) : ap_opt :=
  {| ao_flags := flags; ao_dest := ap_infer_dest flags; ao_action := AStore; ao_int := false;
     ao_default := dflt; ao_const := VNone; ao_choices := None |}.
(* a store_const toggle: default False, const True *)
Definition opt_toggle (flags : list str) (dest : str) : ap_opt :=
  {| ao_flags := flags; ao_dest := dest; ao_action := AStoreConst; ao_int := false;
     ao_default := VBool false; ao_const := VBool true; ao_choices := None |}.

Definition o_rule_opt := opt_store [lit "--rule"; lit "-r"] (VStr (lit "Default")).
Definition o_session_opt := opt_store [lit "--session"; lit "-s"] (VStr (lit "default_run")).
Definition o_load_opt := opt_toggle [lit "--load"; lit "-l"] (lit "load").
Definition o_limit_opt : ap_opt :=
  {| ao_flags := [lit "--limit"; lit "-n"]; ao_dest := lit "limit"; ao_action := AStore; ao_int := true;
     ao_default := VNone; ao_const := VNone; ao_choices := None |}.
Definition o_skip_brute_opt := opt_toggle [lit "--skip_brute"] (lit "skip_brute").
Definition o_all_lower_opt := opt_toggle [lit "--all_lower"] (lit "skip_case").
Definition o_debug_opt := opt_toggle [lit "--debug"; lit "-d"] (lit "debug").
Definition o_mode_opt : ap_opt :=
  {| ao_flags := [lit "--mode"; lit "-m"]; ao_dest := lit "mode"; ao_action := AStore; ao_int := false;
     ao_default := VStr mode_tpo; ao_const := VNone; ao_choices := Some supported_modes |}.

Definition guesser_parser : parser :=
  [help_opt; o_rule_opt; o_session_opt; o_load_opt; o_limit_opt; o_skip_brute_opt; o_all_lower_opt; o_debug_opt; o_mode_opt].

(* the options as main() uses them *)
Record options := {
  o_rule : str;
  o_session : str;
  o_load : bool;
  o_limit : option Z;
  o_skip_brute : bool;
  o_skip_case : bool;
  o_debug : bool;
  o_mode : str
}.

Definition v_limit (l : option Z) : pyval := match l with Some z => VInt z | None => VNone end.

(* the namespace of an options record (the order of the dests of guesser_parser) *)
Definition ns_of_options (o : options) : dict :=
  [(lit "rule", VStr (o_rule o)); (lit "session", VStr (o_session o)); (lit "load", VBool (o_load o));
   (lit "limit", v_limit (o_limit o)); (lit "skip_brute", VBool (o_skip_brute o)); (lit "skip_case", VBool (o_skip_case o));
   (lit "debug", VBool (o_debug o)); (lit "mode", VStr (o_mode o))].

Definition options_of_ns (ns : dict) : option options :=
  match d_get (lit "rule") ns, d_get (lit "session") ns, d_get (lit "load") ns, d_get (lit "limit") ns,
        d_get (lit "skip_brute") ns, d_get (lit "skip_case") ns, d_get (lit "debug") ns, d_get (lit "mode") ns with
  | Some (VStr r), Some (VStr s), Some (VBool l), Some lim, Some (VBool sb), Some (VBool sc), Some (VBool d), Some (VStr m) =>
    match lim with
    | VNone => Some {| o_rule := r; o_session := s; o_load := l; o_limit := None; o_skip_brute := sb; o_skip_case := sc;
                       o_debug := d; o_mode := m |}
    | VInt z => Some {| o_rule := r; o_session := s; o_load := l; o_limit := Some z; o_skip_brute := sb; o_skip_case := sc;
                        o_debug := d; o_mode := m |}
    | _ => None
    end
  | _, _, _, _, _, _, _, _ => None
  end.

(* `if limit and limit <= 0`: the command line is refused *)
Definition limit_refused (o : options) : bool :=
  match o_limit o with
  | Some z => negb (Z.eqb z 0) && (z <=? 0)%Z
  | None => false
  end.

(* parser.parse_args() for the guesser's parser, as a typed record; None = SystemExit
   (options_of_ns never fails on what ap_parse returns: CliModelProofs.guesser_ns_typed) *)
Definition m_options (int_of : str -> option Z) (argv : list str) : option options :=
  match ap_parse int_of guesser_parser argv with
  | None => None
  | Some ns => options_of_ns ns
  end.

(* parse_command_line: None = SystemExit; Some (returned value, options stored in program_info) *)
Definition m_parse (int_of : str -> option Z) (argv : list str) : option (bool * options) :=
  match m_options int_of argv with
  | None => None
  | Some o => Some (negb (limit_refused o), o)
  end.

(* program_info after parse_command_line *)
Definition pi_store_options (o : options) (pi : dict) : dict :=
  d_set (lit "debug") (VBool (o_debug o))
  (d_set (lit "cracking_mode") (VStr (o_mode o))
  (d_set (lit "skip_case") (VBool (o_skip_case o))
  (d_set (lit "skip_brute") (VBool (o_skip_brute o))
  (d_set (lit "limit") (v_limit (o_limit o))
  (d_set (lit "load_session") (VBool (o_load o))
  (d_set (lit "session_name") (VStr (o_session o))
  (d_set (lit "rule_name") (VStr (o_rule o)) pi))))))).

(* program_info after a successful load_save *)
Definition pi_store_saved (rule : str) (sb sc : bool) (pi : dict) : dict :=
  d_set (lit "skip_case") (VBool sc) (d_set (lit "skip_brute") (VBool sb) (d_set (lit "rule_name") (VStr rule) pi)).

(* ---------------------------------------------------------------- the save file *)

Definition k_rule_info := lit "rule_info".
Definition k_session_info := lit "session_info".
Definition k_guessing_info := lit "guessing_info".

(* create_save_config *)
Definition m_create_save_config (now rule : str) (sb sc : bool) : config :=
  [(k_rule_info, [(lit "rule_name", rule); (lit "skip_brute", str_of_bool sb); (lit "skip_case", str_of_bool sc)]);
   (k_session_info, [(lit "first_started", now)]);
   (k_guessing_info, [])].

Inductive load_result :=
| LFail                                  (* load_save returns None *)
| LCrash (e : exn)                       (* an exception load_save does not catch *)
| LOk (c : config) (rule : str) (sb sc : bool).

Definition m_load_save (f : fread) : load_result :=
  match f with
  | FMissing | FGarbage => LFail
  | FCfg c =>
    if cfg_has_option k_rule_info (lit "rule_name") c && cfg_has_option k_rule_info (lit "uuid") c
       && cfg_has_option k_rule_info (lit "skip_brute") c && cfg_has_option k_rule_info (lit "skip_case") c
       && cfg_has_option k_session_info (lit "last_updated") c
    then match cfg_lookup k_rule_info (lit "rule_name") c, cfg_lookup k_rule_info (lit "skip_brute") c,
               cfg_lookup k_rule_info (lit "skip_case") c with
         | Some r, Some sb, Some sc =>
           match boolean_of sb with
           | None => LCrash ValueError
           | Some b1 => match boolean_of sc with
                        | None => LCrash ValueError
                        | Some b2 => LOk c r b1 b2
                        end
           end
         | _, _, _ => LFail
         end
    else LFail
  end.

(* ---------------------------------------------------------------- main *)

(* PcfgGrammar(rule_name, base_directory, version, save_file, skip_brute, skip_case, debug) *)
Record gcall := {
  gc_rule_name : pyval;
  gc_base_directory : pyval;
  gc_version : pyval;
  gc_save_file : pyval;
  gc_skip_brute : pyval;
  gc_skip_case : pyval;
  gc_debug : pyval
}.
(* the grammar object: how it was built, and pcfg.ruleset_info['uuid'] *)
Record gobj := { g_call : gcall; g_uuid : pyval }.

(* CrackingSession(pcfg, save_config, save_filename) / HoneywordSession(pcfg, mode) *)
Record crack_obj := { cs_pcfg : gobj; cs_save_config : pyval; cs_save_filename : pyval }.
Record honey_obj := { hs_pcfg : gobj; hs_mode : pyval }.

Inductive event :=
| EStdout                                               (* a print that does not go to sys.stderr *)
| EGrammar (g : gcall)                                  (* PcfgGrammar(...) is called *)
| ECrackRun (s : crack_obj) (load_session limit : pyval)   (* CrackingSession.run(load_session, limit) *)
| EHoneyRun (s : honey_obj) (limit : pyval).            (* HoneywordSession.run(limit) *)

(* what the outside world decides *)
Record env := {
  e_argv : list str;                         (* sys.argv[1:] *)
  e_int_of : str -> option Z;                (* int() on a str *)
  e_now : str;                               (* datetime.datetime.now().isoformat() *)
  e_fs : str -> fread;                       (* open(name) + read_file *)
  e_script_dir : str;                        (* os.path.dirname(os.path.realpath(__file__)) *)
  e_pjoin : list str -> str;                 (* os.path.join *)
  e_grammar : gcall -> option pyval          (* PcfgGrammar(...): None = it raises, Some u = its ruleset uuid *)
}.

Inductive main_end :=
| MDone                    (* main returns *)
| MRaise (e : exn).        (* an exception leaves main *)


(* <script dir>/<session>.sav *)
Definition save_name (E : env) (o : options) : str :=
  e_pjoin E [e_script_dir E; str_app (o_session o) (lit ".sav")].
(* a saved session is restored: --load in true_prob_order mode *)
Definition resumes (o : options) : bool := str_eqb (o_mode o) mode_tpo && o_load o.

Definition m_main (E : env) (version : pyval) : main_end * list event :=
  match m_parse (e_int_of E) (e_argv E) with
  | None => (MRaise SystemExit, [])
  | Some (false, _) => (MDone, [])
  | Some (true, o) =>
    let fname := save_name E o in
    let tpo := str_eqb (o_mode o) mode_tpo in
    let resume := resumes o in
    let loaded := if resume then m_load_save (e_fs E fname) else LFail in
    match resume, loaded with
    | true, LFail => (MDone, [])
    | true, LCrash e => (MRaise e, [])
    | _, _ =>
      (* the flags the grammar is built with: the saved ones when a session is restored *)
      let '(rule, sb, sc) := match resume, loaded with
                             | true, LOk _ r b1 b2 => (r, b1, b2)
                             | _, _ => (o_rule o, o_skip_brute o, o_skip_case o)
                             end in
      let gc := {| gc_rule_name := VStr rule;
                   gc_base_directory := VStr (e_pjoin E [e_script_dir E; lit "Rules"; rule]);
                   gc_version := version; gc_save_file := VStr fname;
                   gc_skip_brute := VBool sb; gc_skip_case := VBool sc; gc_debug := VBool (o_debug o) |} in
      match e_grammar E gc with
      | None => (MDone, [EGrammar gc])
      | Some uuid =>
        let g := {| g_call := gc; g_uuid := uuid |} in
        if tpo then
          let cfg0 := match resume, loaded with
                      | true, LOk c _ _ _ => c
                      | _, _ => m_create_save_config (e_now E) rule sb sc
                      end in
          match cfg_lookup k_rule_info (lit "uuid") cfg0 with
          | Some u =>
            if negb (py_eqb (VStr u) uuid) then (MDone, [EGrammar gc])
            else (MDone, [EGrammar gc;
                          ECrackRun {| cs_pcfg := g; cs_save_config := VCfg cfg0; cs_save_filename := VStr fname |}
                                    (VBool (o_load o)) (v_limit (o_limit o))])
          | None =>
            match uuid with
            | VStr u =>
              (MDone, [EGrammar gc;
                       ECrackRun {| cs_pcfg := g; cs_save_config := VCfg (cfg_set_in k_rule_info (lit "uuid") u cfg0);
                                    cs_save_filename := VStr fname |}
                                 (VBool (o_load o)) (v_limit (o_limit o))])
            | _ => (MRaise TypeError, [EGrammar gc])      (* option values must be strings *)
            end
          end
        else if mem_str (o_mode o) [lit "random_walk"; lit "honeywords"] then
          (MDone, [EGrammar gc; EHoneyRun {| hs_pcfg := g; hs_mode := VStr (o_mode o) |} (v_limit (o_limit o))])
        else (MDone, [EGrammar gc])
      end
    end
  end.
