(* IoCorr.v - correspondence checks for the trainer I/O models (C06, C07, C19).
   The harness writes what the real code read / wrote / yielded as Gallina
   literals; these functions evaluate the models of TextFile.v, Counters.v and
   Reader.v on the same data (vm_compute) and compare.

   The Python runtime oracles are instantiated here:
   - code point classes: the lists probed from the running interpreter
     (gen/Consts_gen.v);
   - check_valid: the rejected code points extracted from the source;
   - repr / float() / bytes.decode / encodability: finite tables computed by
     the interpreter for exactly the arguments that occur in the case. *)
From Coq Require Import List NArith ZArith Bool Floats.
From Pcfg Require Import ProbAlg F64 TextFile Counters Reader CountersF64.
From PcfgGen Require Import Consts_gen.
Import ListNotations.
Open Scope N_scope.

Definition LB (c : N) : bool := memN c py_linebreaks.
Definition WS (c : N) : bool := memN c py_whitespace.
Definition IWS (c : N) : bool := memN c py_int_whitespace.
Definition DZ : list N := py_decimal_zeros.
(* where the training-file reader ends a line: every code point of LB when the
   source opens the file through codecs, LF (and CR) with the builtin open *)
Definition LBR (c : N) : bool := memN c reader_linebreaks.

Definition failing_io {X} (f : X -> bool) (l : list X) : list nat :=
  map fst (filter (fun kx => negb (f (snd kx))) (combine (seq 0 (length l)) l)).

Fixpoint leqb {X Y} (e : X -> Y -> bool) (a : list X) (b : list Y) : bool :=
  match a, b with
  | [], [] => true
  | x :: a', y :: b' => e x y && leqb e a' b'
  | _, _ => false
  end.

Definition oeqb {X} (e : X -> X -> bool) (a b : option X) : bool :=
  match a, b with
  | Some x, Some y => e x y
  | None, None => true
  | _, _ => false
  end.

(* same binary64 value: distinguishes the zeros, identifies the NaNs *)
Definition fsame (a b : float) : bool :=
  (PrimFloat.eqb a b && PrimFloat.eqb (1 / a) (1 / b)) ||
  (negb (PrimFloat.eqb a a) && negb (PrimFloat.eqb b b)).

Definition tbl_repr (t : list (float * str)) (x : float) : str :=
  match find (fun e => fsame (fst e) x) t with
  | Some e => snd e
  | None => [63; 63; 63]
  end.

Definition tbl_pfloat (t : list (str * option float)) (s : str) : option float :=
  match find (fun e => str_eqb (fst e) s) t with
  | Some e => snd e
  | None => None
  end.

Definition tbl_dec (t : list (list N * option str)) (b : list N) : option str :=
  match find (fun e => str_eqb (fst e) b) t with
  | Some e => snd e
  | None => None
  end.

Definition pair_eqb_sf (a b : str * float) : bool := str_eqb (fst a) (fst b) && fsame (snd a) (snd b).

(* ---------------------------------------------------------------- C06 *)

(* a terminal / mask / e-mail / website / year / context counter -> its file *)
Definition check_counter_file (c : (list (str * N) * list (float * str)) * str) : bool :=
  match c with (cnt, rt, text) =>
    str_eqb (write_file (tbl_repr rt) (calc_probs (@of_counts FNum cnt))) text &&
    (* and the counter meets the hypotheses of calc_probs_F64_wf (sorted, in [0,1] in binary64) *)
    (is_nil cnt || f64_wf_hyps (@of_counts FNum cnt))
  end.

(* the label lists of all parsed passwords -> Grammar/grammar.txt,
   Grammar/raw_grammar.txt, Prince/grammar.txt *)
Record struct_case := {
  st_labels : list (list str);
  st_cov : float;
  st_n : N;
  st_repr : list (float * str);
  st_grammar : str;
  st_raw : str;
  st_prince : str;
}.

Definition check_struct_files (c : struct_case) : bool :=
  let sc := count_structs (st_labels c) in
  let w := fun ctr : counter FNum => write_file (tbl_repr (st_repr c)) (calc_probs ctr) in
  str_eqb (w (with_markov (O := FNum) (st_cov c) (st_n c) (of_counts (sc_base sc)))) (st_grammar c) &&
  (let b := with_markov (O := FNum) (st_cov c) (st_n c) (of_counts (sc_base sc)) in is_nil b || f64_wf_hyps b) &&
  str_eqb (w (@of_counts FNum (sc_raw sc))) (st_raw c) &&
  str_eqb (w (@of_counts FNum (sc_prince sc))) (st_prince c).

(* item list -> the counter the parser holds (insertion order and counts) *)
Definition check_tally (c : list str * list (str * N)) : bool :=
  leqb (fun a b => str_eqb (fst a) (fst b) && N.eqb (snd a) (snd b)) (tally (fst c)) (snd c).

Definition check_ltally (c : list str * list (N * list (str * N))) : bool :=
  leqb (fun a b => N.eqb (fst a) (fst b) &&
                   leqb (fun x y => str_eqb (fst x) (fst y) && N.eqb (snd x) (snd y)) (snd a) (snd b))
       (ltally (fst c)) (snd c).

(* ---------------------------------------------------------------- C07 *)

Definition encb_of (unenc : list N) (c : N) : bool := negb (memN c unenc).

Definition group_eqb (g : group) (e : list str * float) : bool :=
  leqb str_eqb (gvals g) (fst e) && fsame (gprob g) (snd e).

Record file_case := {
  fc_text : str;                          (* the file, decoded with the ruleset encoding *)
  fc_pfloat : list (str * option float);  (* float() on every field of the file *)
  fc_unenc : list N;                      (* characters of the text the encoding cannot encode *)
  fc_abort : bool;                        (* the codec reports 'surrogates not allowed' *)
}.

Definition onfail_of (b : bool) : enc_fail := if b then EncAbort else EncSkip.

(* _load_from_file of the guesser: None = the load failed *)
Definition check_guesser_file (c : file_case * option (list (list str * float))) : bool :=
  let f := fst c in
  match load_guesser LB WS (tbl_pfloat (fc_pfloat f)) (encb_of (fc_unenc f)) (onfail_of (fc_abort f)) (fc_text f), snd c with
  | Some gs, Some es => leqb group_eqb gs es
  | None, None => true
  | _, _ => false
  end.

(* _load_from_file of the scorer: (returned True/False, the dict it filled) *)
Definition check_scorer_file (c : file_case * (bool * list (str * float))) : bool :=
  let f := fst c in
  let r := load_scorer LB WS (tbl_pfloat (fc_pfloat f)) (encb_of (fc_unenc f)) (onfail_of (fc_abort f)) (fc_text f) in
  Bool.eqb (fst r) (fst (snd c)) && leqb pair_eqb_sf (snd r) (snd (snd c)).

Definition ascii_alpha (c : N) : bool := ((65 <=? c) && (c <=? 90)) || ((97 <=? c) && (c <=? 122)).

Definition check_base_file (c : file_case * option (list (float * list str))) : bool :=
  let f := fst c in
  oeqb (leqb (fun a b => fsame (fst a) (fst b) && leqb str_eqb (snd a) (snd b)))
       (load_base WS (tbl_pfloat (fc_pfloat f)) ascii_alpha (fc_text f)) (snd c).

(* the writer on what the trainer held in memory *)
Definition check_write_file (c : (list (str * float) * list (float * str)) * str) : bool :=
  match c with (l, rt, text) => str_eqb (write_file (tbl_repr rt) l) text end.

Definition zs_eqb (a b : Z * str) : bool := Z.eqb (fst a) (fst b) && str_eqb (snd a) (snd b).
Definition sz_eqb (a b : str * Z) : bool := str_eqb (fst a) (fst b) && Z.eqb (snd a) (snd b).

(* OMEN files written from the trainer's tables *)
Definition check_write_levels (c : list (Z * str) * str) : bool := str_eqb (write_levels (fst c)) (snd c).
Definition check_write_alphabet (c : list str * str) : bool := str_eqb (write_alphabet (fst c)) (snd c).
Definition check_write_ln (c : list Z * str) : bool := str_eqb (write_ln (fst c)) (snd c).

(* OMEN guesser loader (input_file_io.load_rules) *)
Record omen_guesser_case := {
  og_ip : str; og_ep : str; og_cp : str; og_ln : str; og_alpha : str; og_ngram : Z;
  og_exp : option (list (list str)          (* ip, levels 0..10 *)
                   * list (str * Z)         (* ep, in dict order *)
                   * list (str * list (Z * str))   (* cp, in dict order *)
                   * list (list Z)          (* ln, levels 0..10 *)
                   * list str);             (* alphabet *)
}.

Definition omen_guesser_model (c : omen_guesser_case) :=
  match omen_guesser_items LB IWS DZ (og_ip c), omen_guesser_items LB IWS DZ (og_ep c),
        omen_guesser_items LB IWS DZ (og_cp c) with
  | Some ip, Some ep, Some cp =>
      match cp_dict cp, ln_levels IWS DZ (Some 10%Z) (lines_text (og_ln c)) with
      | Some cpd, Some lv =>
          Some (ip_buckets ip, ep_dict ep, cpd, ln_guesser (og_ngram c) lv, load_alphabet LB (og_alpha c))
      | _, _ => None
      end
  | _, _, _ => None
  end.

Definition check_omen_guesser (c : omen_guesser_case) : bool :=
  match omen_guesser_model c, og_exp c with
  | Some (ip, ep, cp, ln, al), Some (ip', ep', cp', ln', al') =>
      leqb (leqb str_eqb) ip ip' && leqb sz_eqb ep ep' &&
      leqb (fun a b => str_eqb (fst a) (fst b) && leqb zs_eqb (snd a) (snd b)) cp cp' &&
      leqb (leqb Z.eqb) ln ln' && leqb str_eqb al al'
  | None, None => true
  | _, _ => false
  end.

(* OMEN scorer loader (OmenScorer._load_omen); texts decoded the way the
   scorer's open() decodes them; None = the constructor raised *)
Record omen_scorer_case := {
  os_ip : option str; os_cp : option str; os_ln : str;   (* None: the bytes do not decode *)
  os_exp : option (list (str * Z) * list (str * Z) * list Z * Z);  (* ip, cp, ln (without the leading '10'), ngram *)
}.

Definition omen_scorer_model (c : omen_scorer_case) :=
  match os_ip c, os_cp c with
  | Some ipt, Some cpt =>
      match omen_scorer_items omen_scorer_codecs_open LB IWS DZ ipt,
            omen_scorer_items omen_scorer_codecs_open LB IWS DZ cpt,
            ln_levels IWS DZ None (lines_text (os_ln c)) with
      | Some ip, Some cp, Some ln =>
          Some (ep_dict ip, ep_dict cp, ln,
                match cp with it :: _ => Z.of_nat (length (snd it)) | [] => (-1)%Z end)
      | _, _, _ => None
      end
  | _, _ => None
  end.

Definition check_omen_scorer (c : omen_scorer_case) : bool :=
  match omen_scorer_model c, os_exp c with
  | Some (ip, cp, ln, ng), Some (ip', cp', ln', ng') =>
      leqb sz_eqb ip ip' && leqb sz_eqb cp cp' && leqb Z.eqb ln ln' && Z.eqb ng ng'
  | None, None => true
  | _, _ => false
  end.

(* config.ini filename lists against the model's naming of the files *)
Definition check_config_lists (c : list (N * list (str * N)) * list str) : bool :=
  leqb str_eqb (filename_list (@lkeys FNum (fst c))) (snd c).

(* ---------------------------------------------------------------- C19 *)

Record read_case := {
  rc_text : str;                              (* the training file as the StreamReader decodes it *)
  rc_prefix : bool;
  rc_dec : list (list N * option str);        (* bytes.decode(encoding) on every $HEX payload *)
  rc_unenc : list N;                          (* characters the encoding cannot encode *)
  rc_out : list str;                          (* what read_password yielded *)
  rc_npw : Z;
  rc_nerr : Z;
}.

Definition cfg_of (c : read_case) : rcfg :=
  {| r_lb := LBR; r_ws := WS; r_iws := IWS; r_dz := DZ;
     r_rej := check_valid_rejected; r_rej_empty := check_valid_rejects_empty;
     r_dec := tbl_dec (rc_dec c); r_encb := encb_of (rc_unenc c); r_prefix := rc_prefix c |}.

Definition check_read (c : read_case) : bool :=
  let o := read_text (cfg_of c) (rc_text c) in
  leqb str_eqb (out o) (rc_out c) && Z.eqb (npw o) (rc_npw c) && Z.eqb (nerr o) (rc_nerr c).

(* check_valid alone *)
Definition check_check_valid (c : str * bool) : bool :=
  Bool.eqb (check_valid check_valid_rejected check_valid_rejects_empty (fst c)) (snd c).

(* the primitives alone (each compared with the interpreter) *)
Definition check_splitlines (c : str * list str) : bool := leqb str_eqb (lines_keep LB (fst c)) (snd c).
Definition check_rstrip (c : str * str) : bool := str_eqb (rstrip WS (fst c)) (snd c).
Definition check_lstrip (c : str * str) : bool := str_eqb (lstrip WS (fst c)) (snd c).
Definition check_int (c : str * option Z) : bool := oeqb Z.eqb (parse_int IWS DZ (fst c)) (snd c).
Definition check_fromhex (c : str * option (list N)) : bool := oeqb str_eqb (fromhex (fst c)) (snd c).
Definition check_lines_text (c : str * list str) : bool := leqb str_eqb (lines_text (fst c)) (snd c).
