(* The generated OMEN keyspace code (gen/OmenKeyspace_gen.v: the translation of the
   Python text of _rec_calc_keyspace and calc_omen_keyspace, redone on every run)
   computes what the hand-written model of OmenKeyspace.v computes, which is what
   the theorems of C18 are about.

   The Python functions keep their memo cache in nested dicts inside the trainer's
   grammar; the model has one flat association list.  The two are related by
   [krel]: every (ip, length, level) has the same count on both sides.  The
   theorems say: from related caches, the translated function returns the model's
   value and leaves related caches, for every table that is closed ([closedb]: a
   transition leads to a prefix that is a key of the grammar; otherwise Python
   raises KeyError where the model counts nothing), every fuel above the length
   argument / the length table, and for the model's parameters ip_strict = false,
   len_le = false (`level_minus_ip >= 0`, `length < ngram`): the equality no
   longer holds when the source compares otherwise.

   These proofs are meant to break when one of the Python functions changes its
   meaning, and to keep checking when it is only written differently: the loop
   lemmas take the translated loop bodies as they are generated (matched from the
   goal) and compare them with the steps of the model; a local name for
   grammar[ip] or for a container of the cache is a let for that entry / path
   (reduced away, after the lookup the binding performs), and the two loops over
   next_letter may be one loop with the `length == 1` test inside. *)
From Coq Require Import List Arith Bool NArith ZArith Lia.
From Pcfg Require Import KernelRt OmenSpec OmenLevel OmenKeyspace OmenRt OmenRtProofs OmenLevelProofs
  OmenKeyspaceProofs.
From PcfgGen Require Import OmenKeyspace_gen.
Import ListNotations.

(* ------------------------------------------------------------------ *)
(* the runtime: dicts                                                   *)
(* ------------------------------------------------------------------ *)
Section DictFacts.
Context {K V : Type} (eqb : K -> K -> bool).
Hypothesis eqb_eq : forall a b, eqb a b = true <-> a = b.

Lemma eqb_refl a : eqb a a = true.
Proof. now apply eqb_eq. Qed.

Lemma eqb_neq a b : a <> b -> eqb a b = false.
Proof. intro H. destruct (eqb a b) eqn:E; [apply eqb_eq in E; contradiction | reflexivity]. Qed.

Lemma dfind_dset_same k (v : V) d : dfind eqb k (dset eqb k v d) = Some v.
Proof.
  induction d as [|[k' v'] r IH]; cbn [dset dfind].
  - now rewrite eqb_refl.
  - destruct (eqb k' k) eqn:E; cbn [dfind]; rewrite E; [reflexivity | exact IH].
Qed.

Lemma dfind_dset_other k k' (v : V) d : k' <> k -> dfind eqb k' (dset eqb k v d) = dfind eqb k' d.
Proof.
  intro H. induction d as [|[k0 v0] r IH]; cbn [dset dfind].
  - rewrite eqb_neq by congruence. reflexivity.
  - destruct (eqb k0 k) eqn:E; cbn [dfind].
    + apply eqb_eq in E. subst k0. rewrite eqb_neq by congruence. reflexivity.
    + destruct (eqb k0 k'); [reflexivity | exact IH].
Qed.

Lemma dfind_dset k k' (v : V) d :
  dfind eqb k' (dset eqb k v d) = if eqb k k' then Some v else dfind eqb k' d.
Proof.
  destruct (eqb k k') eqn:E.
  - apply eqb_eq in E. subst. apply dfind_dset_same.
  - apply dfind_dset_other. intro H. subst. now rewrite eqb_refl in E.
Qed.

(* a store into a dict that does not have the key appends it *)
Lemma dset_absent k (v : V) d : dfind eqb k d = None -> dset eqb k v d = d ++ [(k, v)].
Proof.
  induction d as [|[k' v'] r IH]; cbn [dset dfind app]; [reflexivity|].
  destruct (eqb k' k); [discriminate|]. intro H. now rewrite IH.
Qed.

(* a store into a dict whose last key it is replaces the last value *)
Lemma dset_last k (v v0 : V) d : dfind eqb k d = None -> dset eqb k v (d ++ [(k, v0)]) = d ++ [(k, v)].
Proof.
  induction d as [|[k' v'] r IH]; cbn [dset dfind app].
  - now rewrite eqb_refl.
  - destruct (eqb k' k); [discriminate|]. intro H. now rewrite IH.
Qed.

Lemma dfind_app_absent k (v0 : V) d : dfind eqb k d = None -> dfind eqb k (d ++ [(k, v0)]) = Some v0.
Proof.
  induction d as [|[k' v'] r IH]; cbn [dfind app].
  - now rewrite eqb_refl.
  - destruct (eqb k' k); [discriminate | exact IH].
Qed.
End DictFacts.

Lemma Zeqb_eq a b : Z.eqb a b = true <-> a = b.
Proof. apply Z.eqb_eq. Qed.

(* ------------------------------------------------------------------ *)
(* the nested cache seen as one finite map                             *)
(* ------------------------------------------------------------------ *)

Definition kfind (kc : kcache) (ip : ostr) (len lvl : Z) : option Z :=
  match dfind ostr_eqb ip kc with
  | None => None
  | Some d1 => match dfind Z.eqb len d1 with
               | None => None
               | Some d2 => dfind Z.eqb lvl d2
               end
  end.

(* grammar[ip]['keyspace_cache'][len] exists *)
Definition has2b (kc : kcache) (ip : ostr) (len : Z) : bool :=
  match dfind ostr_eqb ip kc with
  | Some d1 => dmem Z.eqb len d1
  | None => false
  end.

(* the two `if k not in P: P[k] = {}` *)
Definition ens1 (kc : kcache) (ip : ostr) : kcache :=
  if dmem ostr_eqb ip kc then kc else dset ostr_eqb ip [] kc.
Definition ens2 (kc : kcache) (ip : ostr) (len : Z) : kcache :=
  match dfind ostr_eqb ip kc with
  | Some d1 => if dmem Z.eqb len d1 then kc else dset ostr_eqb ip (dset Z.eqb len [] d1) kc
  | None => kc
  end.
(* P[len][lvl] = v *)
Definition kset3 (kc : kcache) (ip : ostr) (len lvl v : Z) : kcache :=
  match dfind ostr_eqb ip kc with
  | Some d1 => match dfind Z.eqb len d1 with
               | Some d2 => dset ostr_eqb ip (dset Z.eqb len (dset Z.eqb lvl v d2) d1) kc
               | None => kc
               end
  | None => kc
  end.

Lemma kfind_ens1 kc ip ip' len lvl : kfind (ens1 kc ip) ip' len lvl = kfind kc ip' len lvl.
Proof.
  unfold ens1, dmem. destruct (dfind ostr_eqb ip kc) eqn:E; [reflexivity|]. unfold kfind.
  rewrite (dfind_dset ostr_eqb ol_ostr_eqb_eq). destruct (ostr_eqb ip ip') eqn:E'; [|reflexivity].
  apply ol_ostr_eqb_eq in E'. subst. now rewrite E.
Qed.

Lemma dmem_ens1 kc ip : dmem ostr_eqb ip (ens1 kc ip) = true.
Proof.
  unfold ens1. destruct (dmem ostr_eqb ip kc) eqn:E; [exact E|]. unfold dmem.
  now rewrite (dfind_dset_same ostr_eqb ol_ostr_eqb_eq).
Qed.

Lemma kfind_ens2 kc ip l ip' len lvl : kfind (ens2 kc ip l) ip' len lvl = kfind kc ip' len lvl.
Proof.
  unfold ens2. destruct (dfind ostr_eqb ip kc) as [d1|] eqn:E; [|reflexivity].
  unfold dmem. destruct (dfind Z.eqb l d1) eqn:E1; [reflexivity|]. unfold kfind.
  rewrite (dfind_dset ostr_eqb ol_ostr_eqb_eq). destruct (ostr_eqb ip ip') eqn:E'; [|reflexivity].
  apply ol_ostr_eqb_eq in E'. subst. rewrite E. rewrite (dfind_dset Z.eqb Zeqb_eq).
  destruct (Z.eqb l len) eqn:E2; [|reflexivity]. apply Z.eqb_eq in E2. subst. now rewrite E1.
Qed.

Lemma has2b_ens2 kc ip len : dmem ostr_eqb ip kc = true -> has2b (ens2 kc ip len) ip len = true.
Proof.
  unfold dmem, ens2, has2b. destruct (dfind ostr_eqb ip kc) as [d1|] eqn:E; [intros _|discriminate].
  destruct (dmem Z.eqb len d1) eqn:E1.
  - now rewrite E.
  - rewrite (dfind_dset_same ostr_eqb ol_ostr_eqb_eq). unfold dmem. now rewrite (dfind_dset_same Z.eqb Zeqb_eq).
Qed.

Lemma kfind_has2b kc ip len lvl v : kfind kc ip len lvl = Some v -> has2b kc ip len = true.
Proof.
  unfold kfind, has2b, dmem. destruct (dfind ostr_eqb ip kc) as [d1|]; [|discriminate].
  destruct (dfind Z.eqb len d1); [reflexivity | discriminate].
Qed.

Lemma kfind_kset3_same kc ip len lvl v : has2b kc ip len = true -> kfind (kset3 kc ip len lvl v) ip len lvl = Some v.
Proof.
  unfold has2b, kset3, kfind, dmem. destruct (dfind ostr_eqb ip kc) as [d1|] eqn:E; [|discriminate].
  destruct (dfind Z.eqb len d1) as [d2|] eqn:E1; [intros _|discriminate].
  rewrite (dfind_dset_same ostr_eqb ol_ostr_eqb_eq), (dfind_dset_same Z.eqb Zeqb_eq).
  apply (dfind_dset_same Z.eqb Zeqb_eq).
Qed.

Lemma kfind_kset3_other kc ip len lvl v ip' len' lvl' : (ip', len', lvl') <> (ip, len, lvl) ->
  kfind (kset3 kc ip len lvl v) ip' len' lvl' = kfind kc ip' len' lvl'.
Proof.
  intro H. unfold kset3. destruct (dfind ostr_eqb ip kc) as [d1|] eqn:E; [|reflexivity].
  destruct (dfind Z.eqb len d1) as [d2|] eqn:E1; [|reflexivity]. unfold kfind.
  rewrite (dfind_dset ostr_eqb ol_ostr_eqb_eq). destruct (ostr_eqb ip ip') eqn:E'; [|reflexivity].
  apply ol_ostr_eqb_eq in E'. subst ip'. rewrite E. rewrite (dfind_dset Z.eqb Zeqb_eq).
  destruct (Z.eqb len len') eqn:E2; [|reflexivity]. apply Z.eqb_eq in E2. subst len'. rewrite E1.
  apply (dfind_dset_other Z.eqb Zeqb_eq). congruence.
Qed.

(* the runtime operations in terms of the finite map *)
Lemma kc_get3_kfind kc ip len lvl : kc_get3 kc ip len lvl = dict_get (kfind kc ip len lvl).
Proof.
  unfold kc_get3, kc_get2, kc_get1, kfind. destruct (dfind ostr_eqb ip kc) as [d1|]; cbn [dict_get bind]; [|reflexivity].
  destruct (dfind Z.eqb len d1); reflexivity.
Qed.

Lemma kc_mem3_kfind kc ip len lvl : has2b kc ip len = true ->
  kc_mem3 kc ip len lvl = Ok (match kfind kc ip len lvl with Some _ => true | None => false end).
Proof.
  unfold has2b, kc_mem3, kc_get2, kc_get1, kfind, dmem.
  destruct (dfind ostr_eqb ip kc) as [d1|]; [|discriminate]. cbn [dict_get bind].
  destruct (dfind Z.eqb len d1); [reflexivity | discriminate].
Qed.

(* P = grammar[ip]['keyspace_cache'][len] evaluated for an alias: the container exists *)
Definition kget2 (kc : kcache) (ip : ostr) (len : Z) : kc2 :=
  match dfind ostr_eqb ip kc with
  | Some d1 => match dfind Z.eqb len d1 with Some d2 => d2 | None => [] end
  | None => []
  end.

Lemma kc_get2_ok kc ip len : has2b kc ip len = true -> kc_get2 kc ip len = Ok (kget2 kc ip len).
Proof.
  unfold has2b, kc_get2, kc_get1, kget2, dmem.
  destruct (dfind ostr_eqb ip kc) as [d1|]; [|discriminate]. cbn [dict_get bind].
  destruct (dfind Z.eqb len d1); [reflexivity | discriminate].
Qed.

Definition kget1 (kc : kcache) (ip : ostr) : kc1 :=
  match dfind ostr_eqb ip kc with Some d1 => d1 | None => [] end.

Lemma kc_get1_ok kc ip : dmem ostr_eqb ip kc = true -> kc_get1 kc ip = Ok (kget1 kc ip).
Proof. unfold dmem, kc_get1, kget1. destruct (dfind ostr_eqb ip kc); [reflexivity | discriminate]. Qed.

Lemma kc_set3_kset3 kc ip len lvl v : has2b kc ip len = true -> kc_set3 kc ip len lvl v = Ok (kset3 kc ip len lvl v).
Proof.
  unfold has2b, kc_set3, kc_get1, kset3, dmem.
  destruct (dfind ostr_eqb ip kc) as [d1|]; [|discriminate]. cbn [dict_get bind].
  destruct (dfind Z.eqb len d1); [reflexivity | discriminate].
Qed.

(* the head of _rec_calc_keyspace: the two containers are created where missing *)
Lemma kc_mem1_ok kc ip : kc_mem1 kc ip = Ok (dmem ostr_eqb ip kc).
Proof. reflexivity. Qed.

Lemma ens1_step kc ip :
  (if negb (dmem ostr_eqb ip kc) then kc' <- kc_set1 kc ip [] ;; Ok kc' else Ok kc) = Ok (ens1 kc ip).
Proof. unfold kc_set1, ens1. cbn [bind]. destruct (dmem ostr_eqb ip kc); reflexivity. Qed.

Lemma kc_mem2_ok kc ip len : dmem ostr_eqb ip kc = true -> kc_mem2 kc ip len = Ok (has2b kc ip len).
Proof.
  unfold kc_mem2, kc_get1, has2b, dmem. destruct (dfind ostr_eqb ip kc) as [d1|]; [intros _|discriminate].
  reflexivity.
Qed.

Lemma ens2_step kc ip len : dmem ostr_eqb ip kc = true ->
  (if negb (has2b kc ip len) then kc' <- kc_set2 kc ip len [] ;; Ok kc' else Ok kc) = Ok (ens2 kc ip len).
Proof.
  unfold kc_set2, kc_get1, has2b, ens2, dmem. destruct (dfind ostr_eqb ip kc) as [d1|]; [intros _|discriminate].
  cbn [dict_get bind]. destruct (dfind Z.eqb len d1); reflexivity.
Qed.

(* ------------------------------------------------------------------ *)
(* loops without early exit: a fold over a related model state          *)
(* ------------------------------------------------------------------ *)
Lemma mfor_fold_rel {X R St M : Type} (Rel : St -> M -> Prop) (step : M -> X -> M)
      (body : X -> St -> res (ctl R St)) (k : St -> res R) :
  forall l s m, Rel s m ->
    (forall x s m, In x l -> Rel s m -> exists s', body x s = Ok (Continue s') /\ Rel s' (step m x)) ->
    exists s', mfor l body s k = k s' /\ Rel s' (fold_left step l m).
Proof.
  induction l as [|x l IH]; intros s m HR Hb; cbn [mfor fold_left].
  - exists s. split; [reflexivity | exact HR].
  - destruct (Hb x s m (or_introl eq_refl) HR) as (s' & E & HR'). rewrite E.
    apply IH; [exact HR'|]. intros y s0 m0 Hy. apply Hb. now right.
Qed.

Lemma Zleb_nat a b : (Z.of_nat a <=? Z.of_nat b)%Z = Nat.leb a b.
Proof. destruct (Nat.leb_spec a b); [apply Z.leb_le | apply Z.leb_gt]; lia. Qed.
Lemma Zeqb_nat a b : (Z.of_nat a =? Z.of_nat b)%Z = Nat.eqb a b.
Proof. destruct (Nat.eqb_spec a b); [apply Z.eqb_eq | apply Z.eqb_neq]; lia. Qed.
Lemma Zltb_nat a b : (Z.of_nat a <? Z.of_nat b)%Z = Nat.ltb a b.
Proof. destruct (Nat.ltb_spec a b); [apply Z.ltb_lt | apply Z.ltb_ge]; lia. Qed.

(* ------------------------------------------------------------------ *)
(* the model's cache                                                    *)
(* ------------------------------------------------------------------ *)
Lemma ckey_eqb_refl key : ckey_eqb key key = true.
Proof. destruct key as [[p k] l]. cbn. now rewrite !Nat.eqb_refl, ol_ostr_eqb_refl. Qed.

Lemma cache_find_add_same key v c : cache_find (cache_add key v c) key = Some v.
Proof. unfold cache_add. cbn [cache_find]. now rewrite ckey_eqb_refl. Qed.

Lemma cache_find_add_other key key' v c : key <> key' -> cache_find (cache_add key v c) key' = cache_find c key'.
Proof.
  intro H. unfold cache_add. cbn [cache_find]. destruct (ckey_eqb key key') eqn:E; [|reflexivity].
  apply ckey_eqb_eq in E. contradiction.
Qed.

(* rec_ks at length k leaves the entries of greater lengths alone *)
Lemma rec_ks_frame T : forall k c lvl ip ip' k' lvl', k < k' ->
  cache_find (snd (rec_ks T k c lvl ip)) (ip', k', lvl') = cache_find c (ip', k', lvl').
Proof.
  induction k as [|k0 IH]; intros c lvl ip ip' k' lvl' Hk; [reflexivity|].
  rewrite rec_ks_S. destruct (cache_find c (ip, S k0, lvl)); [reflexivity|]. cbv zeta. cbn [snd].
  rewrite cache_find_add_other by (intro E; inversion E; lia).
  destruct k0 as [|k1]; [reflexivity|].
  generalize 0%N. generalize c. induction (letters T ip) as [|cl ls IHl]; intros c0 a0; cbn [fold_left]; [reflexivity|].
  cbn [fst snd]. destruct (Nat.leb (snd cl) lvl).
  - cbv zeta. rewrite IHl. apply IH. lia.
  - apply IHl.
Qed.

(* ------------------------------------------------------------------ *)
(* _rec_calc_keyspace = rec_ks                                          *)
(* ------------------------------------------------------------------ *)

(* the nested dicts hold what the model's cache holds (for lengths up to m) *)
Definition krel_le (m : nat) (kc : kcache) (c : cache) : Prop :=
  forall ip k lvl, k <= m ->
    kfind kc ip (Z.of_nat k) (Z.of_nat lvl) = option_map Z.of_N (cache_find c (ip, k, lvl)).
Definition krel (kc : kcache) (c : cache) : Prop :=
  forall ip k lvl, kfind kc ip (Z.of_nat k) (Z.of_nat lvl) = option_map Z.of_N (cache_find c (ip, k, lvl)).

Lemma closedb_next T e ch l : closedb T = true -> In e (tt_grammar T) -> In (ch, l) (te_next e) ->
  exists e', find_entry (shift (te_key e) ch) (tt_grammar T) = Some e'.
Proof.
  unfold closedb. intros H He Hc. rewrite forallb_forall in H. specialize (H e He).
  rewrite forallb_forall in H. specialize (H (ch, l) Hc). cbn [fst] in H.
  destruct (find_entry (shift (te_key e) ch) (tt_grammar T)) as [e'|]; [now exists e' | discriminate].
Qed.

Lemma count_fold (p : N * nat -> bool) l : forall a,
  fold_left (fun (m : N) cl => if p cl then (m + 1)%N else m) l a = (a + N.of_nat (length (filter p l)))%N.
Proof.
  induction l as [|x l IH]; intro a; cbn [fold_left filter length]; [lia|].
  rewrite IH. destruct (p x); cbn [length]; lia.
Qed.

Theorem gen_rec_le T : closedb T = true -> forall k, 1 <= k ->
  forall fuel kc c lvl ip e, k <= fuel -> find_entry ip (tt_grammar T) = Some e -> krel_le k kc c ->
  exists kc',
    py_rec_calc_keyspace fuel T kc (Z.of_nat lvl) (Z.of_nat k) ip = Ok (Z.of_N (fst (rec_ks T k c lvl ip)), kc') /\
    krel_le k kc' (snd (rec_ks T k c lvl ip)) /\
    (forall ip' len lvl', (Z.of_nat k < len)%Z -> kfind kc' ip' len lvl' = kfind kc ip' len lvl').
Proof.
  intros CL k. induction k as [|k' IH]; intros Hk fuel kc c lvl ip e Hf HE HR; [lia|].
  destruct fuel as [|f]; [lia|].
  destruct (ol_find_entry_In _ _ _ HE) as [Hin Hkey]. rewrite (rec_ks_S T k' c lvl ip).
  (* the source may name grammar[ip] and the cache containers (local aliases are lets here) *)
  cbn [py_rec_calc_keyspace]. rewrite !HE. cbn [dict_get bind]. cbv zeta. rewrite !Hkey.
  rewrite kc_mem1_ok. cbn [bind]. rewrite ens1_step. cbn [bind].
  rewrite ?kc_get1_ok by apply dmem_ens1. cbn [bind]. cbv zeta.
  rewrite kc_mem2_ok by apply dmem_ens1. cbn [bind]. rewrite ens2_step by apply dmem_ens1. cbn [bind].
  set (K := S k') in *. set (kc1 := ens2 (ens1 kc ip) ip (Z.of_nat K)).
  assert (H1 : forall ip' len lvl', kfind kc1 ip' len lvl' = kfind kc ip' len lvl')
    by (intros; unfold kc1; now rewrite kfind_ens2, kfind_ens1).
  assert (H2 : has2b kc1 ip (Z.of_nat K) = true) by (apply has2b_ens2, dmem_ens1).
  rewrite ?kc_get2_ok by exact H2. cbn [bind]. cbv zeta.
  rewrite kc_mem3_kfind by exact H2. cbn [bind]. rewrite H1, (HR ip K lvl (le_n _)).
  destruct (cache_find c (ip, K, lvl)) as [v|] eqn:EF; cbn [option_map].
  { (* cached *)
    exists kc1. rewrite kc_get3_kfind, H1, (HR ip K lvl (le_n _)), EF. cbn [option_map dict_get bind fst snd].
    split; [reflexivity|]. split; [|intros; apply H1]. intros ip' k2 lvl' Hk2. rewrite H1. now apply HR. }
  rewrite kc_set3_kset3 by exact H2. cbn [bind]. set (kc2 := kset3 kc1 ip (Z.of_nat K) (Z.of_nat lvl) 0).
  assert (H3 : kfind kc2 ip (Z.of_nat K) (Z.of_nat lvl) = Some 0%Z) by (apply kfind_kset3_same; exact H2).
  assert (H4 : forall ip' len lvl', (ip', len, lvl') <> (ip, Z.of_nat K, Z.of_nat lvl) ->
                 kfind kc2 ip' len lvl' = kfind kc ip' len lvl')
    by (intros; unfold kc2; rewrite kfind_kset3_other by assumption; apply H1).
  assert (Hlet : letters T ip = te_next e) by (unfold letters; now rewrite HE).
  (* what remains after the loop, from a final state related to the model's value v and cache cE *)
  assert (FIN : forall kcE (v : N) cE,
            kfind kcE ip (Z.of_nat K) (Z.of_nat lvl) = Some (Z.of_N v) ->
            (forall ip' k2 lvl', k2 <= k' -> kfind kcE ip' (Z.of_nat k2) (Z.of_nat lvl') = option_map Z.of_N (cache_find cE (ip', k2, lvl'))) ->
            (forall ip' len lvl', (Z.of_nat k' < len)%Z -> (ip', len, lvl') <> (ip, Z.of_nat K, Z.of_nat lvl) ->
                                  kfind kcE ip' len lvl' = kfind kc2 ip' len lvl') ->
            (forall ip' k2 lvl', k' < k2 -> cache_find cE (ip', k2, lvl') = cache_find c (ip', k2, lvl')) ->
            exists kc',
              (tmp20 <- kc_get3 kcE ip (Z.of_nat K) (Z.of_nat lvl) ;; Ok (tmp20, kcE)) = Ok (Z.of_N v, kc') /\
              krel_le K kc' (cache_add (ip, K, lvl) v cE) /\
              (forall ip' len lvl', (Z.of_nat K < len)%Z -> kfind kc' ip' len lvl' = kfind kc ip' len lvl')).
  { intros kcE v cE E1 E2 E3 E4. exists kcE. rewrite kc_get3_kfind, E1. cbn [dict_get bind]. split; [reflexivity|]. split.
    - intros ip' k2 lvl' Hk2. destruct (list_eq_dec N.eq_dec ip' ip) as [Ei|Ei]; [destruct (Nat.eq_dec k2 K) as [Ek|Ek]; [destruct (Nat.eq_dec lvl' lvl) as [El|El]|]|].
      + subst. now rewrite E1, cache_find_add_same.
      + subst ip' k2. rewrite cache_find_add_other by congruence.
        rewrite E3 by (try (intro E; inversion E); lia). rewrite H4 by (intro E; inversion E; lia).
        rewrite (HR ip K lvl') by lia. now rewrite E4 by lia.
      + subst ip'. rewrite cache_find_add_other by congruence. apply E2. lia.
      + rewrite cache_find_add_other by congruence.
        destruct (Nat.eq_dec k2 K) as [Ek|Ek].
        * subst k2. rewrite E3 by (try (intro E; inversion E; contradiction); lia). rewrite H4 by (intro E; inversion E; contradiction).
          rewrite (HR ip' K lvl') by lia. now rewrite E4 by lia.
        * apply E2. lia.
    - intros ip' len lvl' Hlen. rewrite E3 by (try (intro E; inversion E); lia). apply H4. intro E; inversion E; lia. }
  destruct k' as [|k''].
  { (* length 1: count the letters of exactly that level *)
    change (Z.of_nat K =? 1)%Z with true. cbn [negb]. cbv iota.
    match goal with |- context [mfor (te_next e) ?body kc2 ?k] =>
      destruct (mfor_fold_rel
                (fun kcX (m : N) => kfind kcX ip (Z.of_nat K) (Z.of_nat lvl) = Some (Z.of_N m) /\
                   forall ip' len lvl', (ip', len, lvl') <> (ip, Z.of_nat K, Z.of_nat lvl) -> kfind kcX ip' len lvl' = kfind kc2 ip' len lvl')
                (fun (m : N) (cl : N * nat) => if Nat.eqb (snd cl) lvl then (m + 1)%N else m)
                body k (te_next e) kc2 0%N) as (kcE & EE & RE1 & RE2) end.
    - split; [exact H3 | reflexivity].
    - intros [ch l] kcX m _ [R1 R2]. cbn [snd]. rewrite Zeqb_nat. destruct (Nat.eqb l lvl).
      + rewrite kc_get3_kfind, R1. cbn [dict_get bind].
        rewrite kc_set3_kset3 by (eapply kfind_has2b; exact R1). cbn [bind]. eexists. split; [reflexivity|]. split.
        * rewrite kfind_kset3_same by (eapply kfind_has2b; exact R1). f_equal. lia.
        * intros ip' len lvl' Hne. rewrite kfind_kset3_other by exact Hne. now apply R2.
      + eexists. split; [reflexivity|]. now split.
    - rewrite EE. cbn [bind]. rewrite count_fold, N.add_0_l in RE1. rewrite Hlet. cbv zeta. cbn [fst snd].
      apply FIN.
      + exact RE1.
      + intros ip' k2 lvl' Hk2. rewrite RE2 by (intro E; inversion E; lia). rewrite H4 by (intro E; inversion E; lia). apply HR. lia.
      + intros ip' len lvl' _ Hne. now apply RE2.
      + reflexivity. }
  (* longer: the recursion *)
  replace (Z.of_nat K =? 1)%Z with false by (symmetry; apply Z.eqb_neq; lia). cbn [negb]. cbv iota.
  set (k' := S k'') in *.
  set (step := fun (acc : N * cache) (cl : N * nat) =>
                 if Nat.leb (snd cl) lvl then
                   let r := rec_ks T k' (snd acc) (lvl - snd cl) (shift ip (fst cl)) in
                   (N.add (fst acc) (fst r), snd r)
                 else acc).
  match goal with |- context [mfor (te_next e) ?body kc2 ?k] =>
    destruct (mfor_fold_rel
              (fun kcX (m : N * cache) =>
                 kfind kcX ip (Z.of_nat K) (Z.of_nat lvl) = Some (Z.of_N (fst m)) /\
                 krel_le k' kcX (snd m) /\
                 (forall ip' len lvl', (Z.of_nat k' < len)%Z -> (ip', len, lvl') <> (ip, Z.of_nat K, Z.of_nat lvl) ->
                                       kfind kcX ip' len lvl' = kfind kc2 ip' len lvl') /\
                 (forall ip' k2 lvl', k' < k2 -> cache_find (snd m) (ip', k2, lvl') = cache_find c (ip', k2, lvl')))
              step body k (te_next e) kc2 (0%N, c)) as (kcE & EE & RE1 & RE2 & RE3 & RE4) end.
  - cbn [fst snd]. split; [exact H3|]. split; [|split; [reflexivity | reflexivity]].
    intros ip' k2 lvl' Hk2. rewrite H4 by (intro E; inversion E; lia). apply HR. lia.
  - intros [ch l] kcX [a cX] Hcl (R1 & R2 & R3 & R4). cbn [fst snd] in *. unfold step. cbn [fst snd]. cbv zeta.
    rewrite Zleb_nat. destruct (Nat.leb l lvl) eqn:El; [|eexists; split; [reflexivity|]; cbn [fst snd]; auto].
    apply Nat.leb_le in El. rewrite kc_get3_kfind, R1. cbn [dict_get bind].
    rewrite pyslice_tl. change (tl ip ++ [ch]) with (shift ip ch).
    replace (Z.of_nat lvl - Z.of_nat l)%Z with (Z.of_nat (lvl - l)) by lia.
    replace (Z.of_nat K - 1)%Z with (Z.of_nat k') by lia.
    destruct (closedb_next T e ch l CL Hin Hcl) as (e' & He'). rewrite Hkey in He'.
    destruct (IH ltac:(lia) f kcX cX (lvl - l) (shift ip ch) e' ltac:(lia) He' R2) as (kcY & EY & RY & FY).
    rewrite EY. cbn [bind]. cbv zeta.
    assert (HY : kfind kcY ip (Z.of_nat K) (Z.of_nat lvl) = Some (Z.of_N a)) by (rewrite FY by lia; exact R1).
    rewrite kc_set3_kset3 by (eapply kfind_has2b; exact HY). cbn [bind]. eexists. split; [reflexivity|]. cbn [fst snd].
    split; [|split; [|split]].
    + rewrite kfind_kset3_same by (eapply kfind_has2b; exact HY). f_equal. lia.
    + intros ip' k2 lvl' Hk2. rewrite kfind_kset3_other by (intro E; inversion E; lia). now apply RY.
    + intros ip' len lvl' Hlen Hne. rewrite kfind_kset3_other by exact Hne. rewrite FY by exact Hlen. now apply R3.
    + intros ip' k2 lvl' Hk2. rewrite rec_ks_frame by exact Hk2. now apply R4.
  - rewrite EE. cbn [bind]. rewrite Hlet. cbv zeta. fold step.
    destruct (fold_left step (te_next e) (0%N, c)) as [v cE] eqn:EFold. cbn [fst snd] in *.
    apply FIN; assumption.
Qed.

(* from fully related caches to fully related caches *)
Theorem gen_rec_calc_keyspace_eq T : closedb T = true -> forall k, 1 <= k ->
  forall fuel kc c lvl ip e, k <= fuel -> find_entry ip (tt_grammar T) = Some e -> krel kc c ->
  exists kc',
    py_rec_calc_keyspace fuel T kc (Z.of_nat lvl) (Z.of_nat k) ip = Ok (Z.of_N (fst (rec_ks T k c lvl ip)), kc') /\
    krel kc' (snd (rec_ks T k c lvl ip)).
Proof.
  intros CL k Hk fuel kc c lvl ip e Hf HE HR.
  destruct (gen_rec_le T CL k Hk fuel kc c lvl ip e Hf HE) as (kc' & E & R & F).
  - intros ip' k2 lvl' _. apply HR.
  - exists kc'. split; [exact E|]. intros ip' k2 lvl'. destruct (Nat.le_gt_cases k2 k) as [H|H].
    + now apply R.
    + rewrite F by lia. rewrite rec_ks_frame by exact H. apply HR.
Qed.

(* ------------------------------------------------------------------ *)
(* loops with an early `return`: a fold over a model state with a sticky
   stop flag                                                            *)
(* ------------------------------------------------------------------ *)
Lemma fold_left_stuck {X M : Type} (stop : M -> bool) (step : M -> X -> M) :
  (forall m x, stop m = true -> step m x = m) ->
  forall l m, stop m = true -> fold_left step l m = m.
Proof.
  intros Hs. induction l as [|x l IH]; intros m Hm; cbn [fold_left]; [reflexivity|].
  rewrite (Hs m x Hm). now apply IH.
Qed.

Lemma mfor_fold_stop {X R St M : Type} (Rel : St -> M -> Prop) (stop : M -> bool) (Fin : M -> R -> Prop)
      (step : M -> X -> M) (body : X -> St -> res (ctl R St)) (k : St -> res R) :
  (forall m x, stop m = true -> step m x = m) ->
  forall l m0 s0, Rel s0 m0 -> stop m0 = false ->
    (forall pre x post s, l = pre ++ x :: post -> Rel s (fold_left step pre m0) -> stop (fold_left step pre m0) = false ->
       if stop (step (fold_left step pre m0) x)
       then exists r, body x s = Ok (Return r) /\ Fin (step (fold_left step pre m0) x) r
       else exists s', body x s = Ok (Continue s') /\ Rel s' (step (fold_left step pre m0) x)) ->
    if stop (fold_left step l m0)
    then exists r, mfor l body s0 k = Ok r /\ Fin (fold_left step l m0) r
    else exists s', mfor l body s0 k = k s' /\ Rel s' (fold_left step l m0).
Proof.
  intros Hs. induction l as [|x l IH]; intros m0 s0 HR H0 Hb; cbn [mfor fold_left].
  - rewrite H0. exists s0. split; [reflexivity | exact HR].
  - specialize (Hb [] x l s0 eq_refl HR H0) as Hx. cbn [fold_left] in Hx.
    destruct (stop (step m0 x)) eqn:E.
    + destruct Hx as (r & Eb & HF). rewrite Eb. rewrite (fold_left_stuck stop step Hs l _ E), E.
      exists r. split; [reflexivity | exact HF].
    + destruct Hx as (s' & Eb & HR'). rewrite Eb. apply IH; [exact HR' | exact E|].
      intros pre y post s Hl. apply (Hb (x :: pre) y post s). now rewrite Hl.
Qed.

Lemma mfor_map {X Y R St : Type} (f : X -> Y) (body : Y -> St -> res (ctl R St)) (k : St -> res R) :
  forall l s, mfor (map f l) body s k = mfor l (fun x => body (f x)) s k.
Proof.
  induction l as [|x l IH]; intro s; cbn [map mfor]; [reflexivity|].
  destruct (body (f x) s) as [[s'|v]|e]; [apply IH | reflexivity | reflexivity].
Qed.

(* range(1, max_level + 1) and enumerate(ln_lookup) as the model walks them *)
Lemma zrange_seq ml : zrange 1 (Z.of_nat ml + 1) = map Z.of_nat (seq 1 ml).
Proof.
  unfold zrange. replace (Z.to_nat (Z.of_nat ml + 1 - 1)) with ml by lia.
  rewrite <- seq_shift, map_map. apply map_ext. intro i. lia.
Qed.

Lemma zenumerate_len_levels T :
  zenumerate (tt_ln T) = map (fun p : nat * nat => ((Z.of_nat (fst p) - 1)%Z, snd p)) (len_levels T).
Proof.
  unfold zenumerate, len_levels. generalize 0 as a. induction (tt_ln T) as [|x l IH]; intro a; [reflexivity|].
  cbn [length seq map combine fst snd]. rewrite IH. f_equal. f_equal. lia.
Qed.

Lemma len_levels_le T len li : In (len, li) (len_levels T) -> len <= length (tt_ln T).
Proof. unfold len_levels. intro H. apply in_combine_l in H. apply in_seq in H. lia. Qed.

Lemma find_entry_of_In g e : In e g -> exists e0, find_entry (te_key e) g = Some e0.
Proof.
  intro H. destruct (find_entry (te_key e) g) as [e0|] eqn:E; [now exists e0|].
  exfalso. exact (ol_find_entry_None g _ E e H eq_refl).
Qed.

(* the Counter while a level is being summed: the levels listed so far, then this level once touched *)
Lemma dfind_counter_of_absent D L : ~ In L (map fst D) -> dfind Z.eqb (Z.of_nat L) (counter_of D) = None.
Proof.
  induction D as [|[L' v] D IH]; intro H; cbn [counter_of map dfind fst snd]; [reflexivity|].
  cbn [map fst] in H. rewrite Zeqb_nat. destruct (Nat.eqb_spec L' L) as [E|E]; [exfalso; apply H; now left|].
  apply IH. intro H'. apply H. now right.
Qed.

Lemma counter_of_app a b : counter_of (a ++ b) = counter_of a ++ counter_of b.
Proof. apply map_app. Qed.

(* ------------------------------------------------------------------ *)
(* calc_omen_keyspace = calc_keyspace (with `>= 0` and `<`)             *)
(* ------------------------------------------------------------------ *)

(* between two levels: the Counter is the list of listed levels, the caches are related *)
Definition rel_ks (s : counter * kcache) (st : ks_state) : Prop :=
  fst s = counter_of (ks_done st) /\ krel (snd s) (ks_cache st).

(* inside level L, D being the levels listed before *)
Definition rel_lv (D : list (nat * N)) (L : nat) (s : counter * kcache) (lv : lv_state) : Prop :=
  fst s = counter_of D ++ (if lv_touched lv then [(Z.of_nat L, Z.of_N (lv_sum lv))] else []) /\
  krel (snd s) (lv_cache lv) /\
  (lv_touched lv = false -> lv_sum lv = 0%N).

Lemma ks_step_len_stuck T maxks len_le ip lmi st x : lv_stop st = true -> ks_step_len T maxks len_le ip lmi st x = st.
Proof. intro H. unfold ks_step_len. destruct x. now rewrite H. Qed.
Lemma ks_step_ip_stuck T maxks s l level st x : lv_stop st = true -> ks_step_ip T maxks s l level st x = st.
Proof. intro H. unfold ks_step_ip. now rewrite H. Qed.
Lemma ks_step_level_stuck T maxks s l st x : ks_stopped st = true -> ks_step_level T maxks s l st x = st.
Proof. intro H. unfold ks_step_level. now rewrite H. Qed.

Theorem gen_calc_omen_keyspace_eq T ml maxks fuel kc c :
  closedb T = true -> length (tt_ln T) < fuel -> krel kc c ->
  exists kc',
    py_calc_omen_keyspace fuel T kc (Z.of_nat ml) (Z.of_N maxks) =
      Ok (counter_of (ks_done (calc_keyspace T ml maxks false false c)), kc') /\
    krel kc' (ks_cache (calc_keyspace T ml maxks false false c)).
Proof.
  intros CL Hf HR. unfold py_calc_omen_keyspace. cbv zeta. rewrite zrange_seq, mfor_map.
  rewrite zenumerate_len_levels. unfold calc_keyspace.
  set (st0 := mk_ks_state [] c false).
  match goal with |- context [mfor (seq 1 ml) ?body ?s0 ?k] =>
    pose proof (mfor_fold_stop rel_ks ks_stopped (fun st r => rel_ks r st) (ks_step_level T maxks false false)
                  body k (ks_step_level_stuck T maxks false false) (seq 1 ml) st0 s0) as HO end.
  cbv beta in HO.
  match type of HO with ?A -> ?B -> ?C -> ?D => assert (HD : D) end.
  { apply HO; clear HO; [split; [reflexivity | exact HR] | reflexivity |].
    (* one level *)
    intros pre L post [ks kc0] Hsplit [R1 R2] Hst. cbn [fst snd] in R1, R2.
    set (st := fold_left (ks_step_level T maxks false false) pre st0) in *.
    assert (Hfresh : ~ In L (map fst (ks_done st))).
    { intro HI. apply in_map_iff in HI. destruct HI as ([L' v] & E & HI). cbn [fst] in E. subst L'.
      apply ks_done_range in HI. destruct HI as [[]|HI].
      pose proof (seq_NoDup ml 1) as ND. rewrite Hsplit in ND. apply NoDup_remove_2 in ND. apply ND. apply in_or_app. now left. }
    unfold ks_step_level. rewrite Hst. cbn [ks_stopped]. unfold ks_level.
    set (lv0 := mk_lv_state 0%N false (ks_cache st) false). set (D := ks_done st) in *.
    match goal with |- context [mfor (tt_grammar T) ?body ?s0 ?k] =>
      pose proof (mfor_fold_stop (rel_lv D L) lv_stop (fun lv r => exists s, r = Return s /\ rel_lv D L s lv)
                    (ks_step_ip T maxks false false L) body k (ks_step_ip_stuck T maxks false false L)
                    (tt_grammar T) lv0 s0) as HM end.
    cbv beta in HM.
    match type of HM with ?A -> ?B -> ?C -> ?D => assert (HD : D) end.
    { apply HM; clear HM; [unfold rel_lv; cbn [fst snd lv0 lv_touched lv_sum lv_cache]; rewrite app_nil_r; auto | reflexivity |].
      (* one initial n-gram *)
      intros pre2 e post2 [ks1 kc1] Hsplit2 (Q1 & Q2 & Q3) Hst2. cbn [fst snd] in Q1, Q2.
      set (lv := fold_left (ks_step_ip T maxks false false L) pre2 lv0) in *.
      assert (Hin : In e (tt_grammar T)) by (rewrite Hsplit2; apply in_or_app; right; now left).
      unfold ks_step_ip. rewrite Hst2. unfold ip_guard.
      destruct (0 <=? Z.of_nat L - Z.of_nat (te_ip e))%Z eqn:EG.
      2:{ rewrite Hst2. eexists. split; [reflexivity|]. unfold rel_lv. auto. }
      apply Z.leb_le in EG. set (lmi := Z.to_nat (Z.of_nat L - Z.of_nat (te_ip e))).
      replace (Z.of_nat L - Z.of_nat (te_ip e))%Z with (Z.of_nat lmi) by (unfold lmi; lia).
      rewrite mfor_map.
      match goal with |- context [mfor (len_levels T) ?body ?s0 ?k] =>
        pose proof (mfor_fold_stop (rel_lv D L) lv_stop (fun lv r => exists s, r = Return (Return s) /\ rel_lv D L s lv)
                      (ks_step_len T maxks false (te_key e) lmi) body k (ks_step_len_stuck T maxks false (te_key e) lmi)
                      (len_levels T) lv s0) as HI end.
      cbv beta in HI.
      match type of HI with ?A -> ?B -> ?C -> ?D => assert (HD : D) end.
      { apply HI; clear HI; [unfold rel_lv; auto | exact Hst2 |].
        (* one length *)
        intros pre3 [len li] post3 [ks2 kc2] Hsplit3 (P1 & P2 & P3) Hst3. cbn [fst snd] in P1, P2 |- *.
        set (lv' := fold_left (ks_step_len T maxks false (te_key e) lmi) pre3 lv) in *.
        assert (Hlen : len <= length (tt_ln T))
          by (apply (len_levels_le T len li); rewrite Hsplit3; apply in_or_app; right; now left).
        unfold ks_step_len. rewrite Hst3. unfold len_skipped.
        replace (Z.of_nat len - 1 + 1)%Z with (Z.of_nat len) by lia. cbv zeta.
        (* `if length < ngram: continue` then `if info <= lmi:`, or the two tests merged into one `and` *)
        rewrite ?Zltb_nat, ?Zleb_nat.
        assert (Hanti : Nat.leb (tt_ngram T) len = negb (Nat.ltb len (tt_ngram T))) by apply Nat.leb_antisym.
        rewrite ?Hanti. clear Hanti.
        destruct (Nat.ltb len (tt_ngram T)) eqn:ES; cbn [negb andb].
        { rewrite Hst3. eexists. split; [reflexivity|]. unfold rel_lv. auto. }
        apply Nat.ltb_ge in ES.
        destruct (Nat.leb li lmi) eqn:EL.
        2:{ rewrite Hst3. eexists. split; [reflexivity|]. unfold rel_lv. auto. }
        apply Nat.leb_le in EL.
        replace (Z.of_nat lmi - Z.of_nat li)%Z with (Z.of_nat (lmi - li)) by lia.
        replace (Z.of_nat len - Z.of_nat (tt_ngram T) + 1)%Z with (Z.of_nat (len - tt_ngram T + 1)) by lia.
        destruct (find_entry_of_In _ _ Hin) as (e0 & He0).
        destruct (gen_rec_calc_keyspace_eq T CL (len - tt_ngram T + 1) ltac:(lia) fuel kc2 (lv_cache lv') (lmi - li)
                    (te_key e) e0 ltac:(lia) He0 P2) as (kc3 & E3 & R3).
        rewrite E3. cbn [bind]. cbv zeta.
        set (r := rec_ks T (len - tt_ngram T + 1) (lv_cache lv') (lmi - li) (te_key e)) in *.
        cbn [lv_stop lv_sum lv_touched lv_cache].
        assert (HC : cnt_set ks2 (Z.of_nat L) (cnt_get ks2 (Z.of_nat L) + Z.of_N (fst r)) =
                     counter_of D ++ [(Z.of_nat L, Z.of_N (lv_sum lv' + fst r))]).
        { rewrite P1. unfold cnt_set, cnt_get. pose proof (dfind_counter_of_absent D L Hfresh) as HA.
          destruct (lv_touched lv') eqn:ET.
          - rewrite (dfind_app_absent Z.eqb Zeqb_eq) by exact HA. rewrite (dset_last Z.eqb Zeqb_eq) by exact HA.
            do 3 f_equal. lia.
          - rewrite app_nil_r, HA. rewrite (dset_absent Z.eqb) by exact HA. rewrite (P3 eq_refl).
            do 3 f_equal. }
        rewrite HC. unfold cnt_get. rewrite (dfind_app_absent Z.eqb Zeqb_eq) by (apply dfind_counter_of_absent; exact Hfresh).
        replace (Z.of_N maxks <? Z.of_N (lv_sum lv' + fst r))%Z with (N.ltb maxks (lv_sum lv' + fst r))
          by (destruct (N.ltb_spec maxks (lv_sum lv' + fst r)); symmetry; [apply Z.ltb_lt | apply Z.ltb_ge]; lia).
        destruct (N.ltb maxks (lv_sum lv' + fst r)); eexists; (split; [reflexivity|]).
        - eexists. split; [reflexivity|]. unfold rel_lv. cbn [fst snd lv_touched lv_sum lv_cache]. split; [reflexivity|]. split; [exact R3 | discriminate].
        - unfold rel_lv. cbn [fst snd lv_touched lv_sum lv_cache]. split; [reflexivity|]. split; [exact R3 | discriminate]. }
      clear HI. set (lvE := fold_left (ks_step_len T maxks false (te_key e) lmi) (len_levels T) lv) in *.
      destruct (lv_stop lvE).
      - destruct HD as (r & E & s & -> & Hs). rewrite E. eexists. split; [reflexivity|]. now exists s.
      - destruct HD as ([ks' kc'] & E & Hs). rewrite E. eexists. split; [reflexivity | exact Hs]. }
    clear HM. set (lvE := fold_left (ks_step_ip T maxks false false L) (tt_grammar T) lv0) in *.
    destruct (lv_stop lvE).
    - destruct HD as (r & E & s & -> & (S1 & S2 & S3)). rewrite E. eexists. split; [reflexivity|].
      split; cbn [ks_done ks_cache]; [|exact S2]. rewrite S1. destruct (lv_touched lvE); [now rewrite counter_of_app | now rewrite app_nil_r].
    - destruct HD as ([ks' kc'] & E & (S1 & S2 & S3)). rewrite E. cbn [fst snd] in S1, S2. eexists. split; [reflexivity|].
      split; cbn [fst snd ks_done ks_cache]; [|exact S2]. rewrite S1. destruct (lv_touched lvE); [now rewrite counter_of_app | now rewrite app_nil_r]. }
  clear HO. set (stE := fold_left (ks_step_level T maxks false false) (seq 1 ml) st0) in *.
  destruct (ks_stopped stE).
  - destruct HD as ([ks' kc'] & E & (S1 & S2)). rewrite E. cbn [fst snd] in S1, S2. exists kc'. now rewrite S1.
  - destruct HD as ([ks' kc'] & E & (S1 & S2)). rewrite E. cbn [fst snd] in S1, S2. exists kc'. now rewrite S1.
Qed.

(* ------------------------------------------------------------------ *)
(* C18 over the translated functions                                    *)
(* ------------------------------------------------------------------ *)

(* a trainer whose grammar entries have no 'keyspace_cache' yet *)
Lemma krel_nil : krel [] [].
Proof. intros ip k lvl. reflexivity. Qed.

(* nested dicts that hold what some cache reachable from the empty one holds *)
Definition kreachable (T : ttab) (kc : kcache) : Prop := exists c, reachable T c /\ krel kc c.

Lemma kreachable_nil T : kreachable T [].
Proof. exists []. split; [constructor | exact krel_nil]. Qed.

(* the translated _rec_calc_keyspace returns the number of completions, whatever was cached before *)
Theorem gen_rec_keyspace_counts T : wf_ttab T -> levels_le guesser_max_level T -> closedb T = true ->
  forall kc, kreachable T kc -> forall fuel k lvl ip e, 1 <= k -> k <= fuel -> find_entry ip (tt_grammar T) = Some e ->
  exists kc',
    py_rec_calc_keyspace fuel T kc (Z.of_nat lvl) (Z.of_nat k) ip =
      Ok (Z.of_nat (length (completions (gview T) k ip (Z.of_nat lvl))), kc') /\
    kreachable T kc'.
Proof.
  intros WF HL CL kc (c & Hc & HR) fuel k lvl ip e Hk Hf HE.
  destruct (gen_rec_calc_keyspace_eq T CL k Hk fuel kc c lvl ip e Hf HE HR) as (kc' & E & R).
  exists kc'. rewrite E, (ol_rec_keyspace_counts T WF HL c Hc k lvl ip Hk), nat_N_Z. split; [reflexivity|].
  exists (snd (rec_ks T k c lvl ip)). split; [now constructor | exact R].
Qed.

(* the translated calc_omen_keyspace: every listed level whose value did not trigger the
   cut-off holds the number of strings the generator must emit at that level (pairwise
   distinct); the listed levels are positive; the cache left behind is again reachable,
   so the statement applies to the next call on the same trainer object *)
Theorem gen_keyspace_translated T : wf_ttab T -> levels_le guesser_max_level T -> closedb T = true ->
  forall kc, kreachable T kc -> forall fuel max_level maxks, length (tt_ln T) < fuel ->
  exists cnt kc',
    py_calc_omen_keyspace fuel T kc (Z.of_nat max_level) (Z.of_N maxks) = Ok (cnt, kc') /\
    kreachable T kc' /\
    forall l v, In (l, v) cnt -> (v <= Z.of_N maxks)%Z ->
      (1 <= l <= Z.of_nat max_level)%Z /\
      v = Z.of_nat (length (level_strings (gview T) l)) /\ NoDup (level_strings (gview T) l).
Proof.
  intros WF HL CL kc (c & Hc & HR) fuel ml maxks Hf.
  destruct (gen_calc_omen_keyspace_eq T ml maxks fuel kc c CL Hf HR) as (kc' & E & R).
  eexists. exists kc'. split; [exact E|]. split.
  - eexists. split; [|exact R]. now constructor.
  - intros l v HI Hv. unfold counter_of in HI. apply in_map_iff in HI. destruct HI as ([L v'] & EQ & HI).
    cbn [fst snd] in EQ. inversion EQ; subst l v. clear EQ.
    destruct (ol_keyspace T WF HL c Hc ml maxks L v' HI ltac:(lia)) as [E1 E2].
    split; [|split; [rewrite E1; apply nat_N_Z | exact E2]].
    unfold calc_keyspace in HI. apply ks_done_range in HI. destruct HI as [[]|HI]. apply in_seq in HI. lia.
Qed.

(* the first call, on a freshly trained object, with run_trainer's default bounds *)
Corollary gen_keyspace_translated_fresh T : wf_ttab T -> levels_le guesser_max_level T -> closedb T = true ->
  forall fuel, length (tt_ln T) < fuel ->
  exists cnt kc',
    py_calc_omen_keyspace fuel T [] 18 10000000000 = Ok (cnt, kc') /\
    forall l v, In (l, v) cnt -> (v <= 10000000000)%Z ->
      v = Z.of_nat (length (level_strings (gview T) l)) /\ NoDup (level_strings (gview T) l).
Proof.
  intros WF HL CL fuel Hf.
  destruct (gen_keyspace_translated T WF HL CL [] (kreachable_nil T) fuel 18 10000000000%N Hf) as (cnt & kc' & E & _ & H).
  exists cnt, kc'. split; [exact E|]. intros l v HI Hv. now destruct (H l v HI Hv) as (_ & H1 & H2).
Qed.

(* the hypotheses are satisfiable and the translated functions run: the witness table of C18 *)
Example gen_keyspace_example :
  wf_ttab T_r9 /\ levels_le guesser_max_level T_r9 /\ closedb T_r9 = true /\
  (exists kc', py_calc_omen_keyspace 5 T_r9 [] 18 10000000000 =
     Ok ([(1, 1); (2, 0); (3, 0); (4, 0); (5, 0); (6, 0); (7, 0); (8, 0); (9, 0); (10, 2); (11, 1);
          (12, 0); (13, 0); (14, 0); (15, 0); (16, 0); (17, 0); (18, 0)]%Z, kc')) /\
  (exists kc', py_calc_omen_keyspace 5 T_r9 [] 18 0 = Ok ([(1, 1)]%Z, kc')) /\
  fst (match py_rec_calc_keyspace 5 T_r9 [] 0 2 [98%N] with Ok r => r | Raise _ => (-1, [])%Z end) = 1%Z.
Proof.
  split; [apply T_r9_wf|]. split; [apply T_r9_wf|]. split; [exact T_r9_closed|].
  split; [eexists; vm_compute; reflexivity|]. split; [eexists; vm_compute; reflexivity|]. vm_compute. reflexivity.
Qed.
