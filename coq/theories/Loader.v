(* Model of the guesser's base-structure loader
     lib_guesser/grammar_io.py  _load_base_structures (132-243), the skip_case
     branch of _load_terminals (284-305)
   and of the order in which pcfg_guesser.main reads the save file and builds
   the grammar.  Definitions and their (short) proofs. *)
From Coq Require Import List Arith Bool NArith Lia.
From Pcfg Require Import Expand ExpandCorr.
Import ListNotations.

Section Loader.
Context {P : Type}.
Context (one : P) (psub pdiv : P -> P -> P).
(* Python raises ZeroDivisionError on x / 0.0 (IEEE would give inf/nan) *)
Context (iszero : P -> bool).

(* a line of grammar.txt after rstrip/split: structure string, float(prob) *)
Definition line := (str * P)%type.

Definition chM : N := 77%N.
Definition chA : N := 65%N.
Definition chC : N := 67%N.
Definition is_M (s : str) : bool := str_eqb s [chM].

(* str.isalpha() for the characters of a structure string, as a parameter *)
Context (isalpha : N -> bool).

(* "for item in value: if item.isalpha(): append(item) else: last += item";
   None = IndexError (first character not a letter), which makes the loader fail *)
Fixpoint tokenize_aux (s : str) (acc : list str) : option (list str) :=
  match s with
  | [] => Some (rev acc)
  | c :: r =>
      if isalpha c then tokenize_aux r ([c] :: acc)
      else match acc with
           | [] => None
           | t :: acc' => tokenize_aux r ((t ++ [c]) :: acc')
           end
  end.
Definition tokenize (s : str) : option (list str) := tokenize_aux s [].

(* first scan: probability of the first line whose structure is exactly "M" *)
Fixpoint scan_M (ls : list line) : option P :=
  match ls with
  | [] => None
  | (s, p) :: r => if is_M s then Some p else scan_M r
  end.

(* case mangling: a C<len> after every A<len> *)
Fixpoint insert_caps (toks : list str) : list str :=
  match toks with
  | [] => []
  | t :: r =>
      match t with
      | c :: len => if N.eqb c chA then t :: (chC :: len) :: insert_caps r else t :: insert_caps r
      | [] => t :: insert_caps r
      end
  end.

Definition has_M (toks : list str) : bool := existsb is_M toks.

Fixpoint read_bases (skip : bool) (total : P) (ls : list line) : option (list (P * list str)) :=
  match ls with
  | [] => Some []
  | (s, p) :: r =>
      if iszero total then None else
      match tokenize s, read_bases skip total r with
      | Some toks, Some rest =>
          if negb skip || negb (has_M toks) then Some ((pdiv p total, toks) :: rest) else Some rest
      | _, _ => None
      end
  end.

(* [rewinds] = does the code rewind the file when the first scan found no "M"
   (extracted from the source: Consts_gen.skip_brute_rewinds_without_M) *)
Definition load_bases (rewinds : bool) (skip : bool) (ls : list line) : option (list (P * list str)) :=
  let total := if skip then match scan_M ls with Some pm => psub one pm | None => one end else one in
  let visible := if skip then match scan_M ls with
                                | Some _ => ls
                                | None => if rewinds then ls else []   (* iterator already exhausted *)
                                end
                 else ls in
  option_map (map (fun b => (fst b, insert_caps (snd b)))) (read_bases skip total visible).

(* ------------------------------------------------------------------ *)

Definition no_M_token (ls : list line) : Prop :=
  forall s p toks, In (s, p) ls -> tokenize s = Some toks -> has_M toks = false.

(* with skip: the kept structures are the non-Markov ones of the plain read,
   each divided by [total] instead of [one] *)
Lemma read_bases_skip total ls l0 :
  iszero total = false ->
  read_bases false one ls = Some l0 ->
  Forall (fun l => pdiv (snd l) one = snd l) ls ->
  read_bases true total ls =
    Some (map (fun b => (pdiv (fst b) total, snd b)) (filter (fun b => negb (has_M (snd b))) l0)).
Proof.
  intros Hz H Hone. revert l0 H. induction ls as [|[s p] r IH]; simpl; intros l0 H.
  - inversion H; subst. reflexivity.
  - inversion Hone as [|? ? Hp Hr]; subst. simpl in Hp. rewrite Hz.
    destruct (iszero one); [discriminate|].
    destruct (tokenize s) as [toks|]; [|discriminate].
    destruct (read_bases false one r) as [rest|] eqn:E; [|discriminate].
    inversion H; subst. rewrite (IH Hr rest eq_refl). simpl.
    destruct (has_M toks); simpl; rewrite ?Hp; reflexivity.
Qed.

Lemma has_M_caps toks : has_M (insert_caps toks) = has_M toks.
Proof.
  induction toks as [|t r IH]; simpl; auto.
  destruct t as [|c len]; simpl; [rewrite IH; reflexivity|].
  destruct (N.eqb c chA) eqn:Ec; simpl; rewrite IH; auto.
Qed.

Lemma caps_filter_commute total (l1 : list (P * list str)) :
  map (fun b => (fst b, insert_caps (snd b)))
      (map (fun b => (pdiv (fst b) total, snd b)) (filter (fun b => negb (has_M (snd b))) l1)) =
  map (fun b => (pdiv (fst b) total, snd b))
      (filter (fun b => negb (has_M (snd b))) (map (fun b => (fst b, insert_caps (snd b))) l1)).
Proof.
  induction l1 as [|[p toks] l1 IH]; simpl; auto.
  rewrite has_M_caps. destruct (has_M toks); simpl; rewrite ?IH; reflexivity.
Qed.

(* C14, Markov structure present (at any position) *)
Theorem load_bases_skip_with_M rw ls pm l0 :
  Forall (fun l => pdiv (snd l) one = snd l) ls ->
  scan_M ls = Some pm -> iszero (psub one pm) = false ->
  load_bases rw false ls = Some l0 ->
  load_bases rw true ls =
    Some (map (fun b => (pdiv (fst b) (psub one pm), snd b)) (filter (fun b => negb (has_M (snd b))) l0)).
Proof.
  unfold load_bases. intros Hone HM Hz H. rewrite HM.
  destruct (read_bases false one ls) as [l1|] eqn:E; [|discriminate].
  simpl in H. inversion H; subst. rewrite (read_bases_skip _ _ l1 Hz E Hone). simpl. f_equal.
  apply caps_filter_commute.
Qed.

(* C14, no Markov structure: with the rewind, skip_brute changes nothing *)
Theorem load_bases_skip_without_M ls :
  scan_M ls = None -> no_M_token ls ->
  load_bases true true ls = load_bases true false ls.
Proof.
  unfold load_bases. intros HM Hno. rewrite HM. f_equal.
  induction ls as [|[s p] r IH]; simpl; auto.
  simpl in HM. destruct (is_M s) eqn:Es; [discriminate|].
  assert (Hno' : no_M_token r) by (intros s' p' t' Hi; apply (Hno s' p' t'); right; exact Hi).
  rewrite (IH HM Hno'). destruct (iszero one); auto.
  destruct (tokenize s) as [toks|] eqn:Et; auto.
  rewrite (Hno s p toks (or_introl eq_refl) Et). simpl. reflexivity.
Qed.

(* the code as found (no rewind): an empty base list *)
Theorem load_bases_norewind_empty ls :
  scan_M ls = None -> load_bases false true ls = Some [].
Proof. unfold load_bases. intros ->. reflexivity. Qed.

End Loader.

(* --all_lower: every capitalisation list becomes the single all-lower mask *)
Definition all_lower_group (n : nat) : list (str * bool) := [(repeat chL n, true)].

(* which flags the grammar is built with on --load: [save_first] = the save
   file is read before the grammar is built (Consts_gen.load_save_before_grammar) *)
Definition flags_used_on_load (save_first : bool) (cmdline saved : bool * bool) : bool * bool :=
  if save_first then saved else cmdline.

Theorem flags_from_save cmdline saved : flags_used_on_load true cmdline saved = saved.
Proof. reflexivity. Qed.
Theorem flags_refuted_cmdline : flags_used_on_load false (false, false) (true, true) <> (true, true).
Proof. discriminate. Qed.
