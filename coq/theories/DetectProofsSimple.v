(* Index arithmetic of the simple detectors: run detection (digit, alpha),
   the multi-word detector, year, context, other.  Each *_spec lemma says
   which cut  s = l1 ++ mid ++ l3  a successful detection computed; the
   *_split_ok lemmas turn that into the hypothesis of the driver theorem. *)
From Coq Require Import List ZArith NArith Bool Lia Sorting.Permutation.
From Pcfg Require Import Str Multiword Detect DetectProofsStr DetectProofsDrive.
Import ListNotations.
Open Scope Z_scope.

(* an optional unlabelled section: `if start != 0: parsing.append((s[0:start], None))` *)
Definition osec (l : str) : list section := if nonempty l then [(l, None)] else [].

Lemma osec_nil : osec [] = []. Proof. reflexivity. Qed.
Lemma osec_cons c l : osec (c :: l) = [(c :: l, None)]. Proof. reflexivity. Qed.

Lemma sfrom_app3 (a b c : str) : sfrom (a ++ b ++ c) (len a + len b) = c.
Proof.
  replace (len a + len b) with (len (a ++ b)) by (rewrite len_app; lia).
  rewrite app_assoc. apply sfrom_app.
Qed.

Lemma pre_osec (s l1 : str) rest : s = l1 ++ rest ->
  (if len l1 =? 0 then [] else [(slice s 0 (len l1), @None label)]) = osec l1.
Proof.
  intros ->. rewrite slice_prefix. destruct l1; [reflexivity|].
  rewrite len_cons. pose proof (len_nonneg l1). destruct (1 + len l1 =? 0) eqn:E; [lia|reflexivity].
Qed.

(* ---------------------------------------------------------- run detection *)

Section Run.
Variable p : N -> bool.

Definition stops (l3 : str) : Prop := l3 = [] \/ exists c r, l3 = c :: r /\ p c = false.

Lemma run_scan_in_run : forall rest pos L start a b,
  L = pos + len rest ->
  run_scan p rest pos L true start = Some (a, b) ->
  exists l2 l3, rest = l2 ++ l3 /\ forallb p l2 = true /\ stops l3 /\ a = start /\ b = pos + len l2 - 1.
Proof.
  induction rest as [|v r IH]; intros pos L start a b HL H; simpl in H; [discriminate|].
  rewrite len_cons in HL. pose proof (len_nonneg r).
  destruct (p v) eqn:Ev; simpl in H.
  - destruct (pos =? L - 1) eqn:E.
    + injection H as <- <-. apply Z.eqb_eq in E. assert (r = []) by (apply len_zero; lia). subst r.
      exists [v], []. simpl. rewrite Ev. repeat split; try (now left). rewrite len_cons, len_nil. lia.
    + destruct (IH (pos + 1) L start a b ltac:(lia) H) as (l2 & l3 & -> & Hl2 & Hl3 & -> & ->).
      exists (v :: l2), l3. simpl. rewrite Ev, Hl2. repeat split; try assumption. rewrite len_cons. lia.
  - injection H as <- <-. exists [], (v :: r). simpl. repeat split.
    + right. now exists v, r.
    + rewrite len_nil. lia.
Qed.

Lemma run_scan_spec : forall rest pos L start a b,
  L = pos + len rest ->
  run_scan p rest pos L false start = Some (a, b) ->
  exists l1 l2 l3, rest = l1 ++ l2 ++ l3 /\ forallb (fun c => negb (p c)) l1 = true /\ forallb p l2 = true /\
    l2 <> [] /\ stops l3 /\ a = pos + len l1 /\ b = a + len l2 - 1.
Proof.
  induction rest as [|v r IH]; intros pos L start a b HL H; simpl in H; [discriminate|].
  rewrite len_cons in HL. pose proof (len_nonneg r).
  destruct (p v) eqn:Ev; simpl in H.
  - destruct (pos =? L - 1) eqn:E.
    + injection H as <- <-. apply Z.eqb_eq in E. assert (r = []) by (apply len_zero; lia). subst r.
      exists [], [v], []. simpl. rewrite Ev. repeat split; try discriminate; try (now left);
        rewrite ?len_cons, ?len_nil; lia.
    + destruct (run_scan_in_run r (pos + 1) L pos a b ltac:(lia) H) as (l2 & l3 & -> & Hl2 & Hl3 & -> & ->).
      exists [], (v :: l2), l3. simpl. rewrite Ev, Hl2. repeat split; try discriminate; try assumption;
        rewrite ?len_cons, ?len_nil; lia.
  - destruct (IH (pos + 1) L start a b ltac:(lia) H) as (l1 & l2 & l3 & -> & Hl1 & Hl2 & Hne & Hl3 & -> & ->).
    exists (v :: l1), l2, l3. simpl. rewrite Ev, Hl1. repeat split; try assumption; rewrite ?len_cons; lia.
Qed.

Lemma run_scan_in_run_some : forall rest pos L start,
  L = pos + len rest -> rest <> [] -> run_scan p rest pos L true start <> None.
Proof.
  induction rest as [|v r IH]; intros pos L start HL Hne; [congruence|]. simpl.
  rewrite len_cons in HL. pose proof (len_nonneg r).
  destruct (p v) eqn:Ev; simpl; [|discriminate].
  destruct (pos =? L - 1) eqn:E; [discriminate|]. apply Z.eqb_neq in E.
  apply IH; [lia|]. intros ->. rewrite len_nil in HL. lia.
Qed.

Lemma run_scan_none : forall rest pos L start,
  L = pos + len rest ->
  run_scan p rest pos L false start = None -> forallb (fun c => negb (p c)) rest = true.
Proof.
  induction rest as [|v r IH]; intros pos L start HL H; simpl in H; [reflexivity|].
  rewrite len_cons in HL. pose proof (len_nonneg r).
  destruct (p v) eqn:Ev; simpl in H.
  - exfalso. destruct (pos =? L - 1) eqn:E; [discriminate|]. apply Z.eqb_neq in E.
    revert H. apply run_scan_in_run_some; [lia|]. intros ->. rewrite len_nil in HL. lia.
  - simpl. rewrite Ev. simpl. apply (IH (pos + 1) L start); [lia|exact H].
Qed.

Lemma first_run_spec ws a b : first_run p ws = Some (a, b) ->
  exists l1 l2 l3, ws = l1 ++ l2 ++ l3 /\ forallb (fun c => negb (p c)) l1 = true /\ forallb p l2 = true /    l2 <> [] /\ stops l3 /\ a = len l1 /\ b = len l1 + len l2 - 1.
Proof.
  unfold first_run. intros H. apply run_scan_spec in H; [|lia].
  destruct H as (l1 & l2 & l3 & E & H1 & H2 & H3 & H4 & -> & ->). exists l1, l2, l3. repeat split; try assumption; lia.
Qed.

Lemma first_run_none ws : first_run p ws = None -> forallb (fun c => negb (p c)) ws = true.
Proof. unfold first_run. apply run_scan_none. lia. Qed.

End Run.
