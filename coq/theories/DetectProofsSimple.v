(* Index arithmetic of the simple detectors: run detection (digit, alpha),
   the multi-word detector, year, context, other.  Each *_spec lemma says
   which cut  s = l1 ++ mid ++ l3  a successful detection computed; the
   *_split_ok lemmas turn that into the hypothesis of the driver theorem. *)
From Coq Require Import List ZArith NArith Bool Lia Sorting.Permutation.
From Pcfg Require Import Str Multiword Detect DetectProofsStr DetectProofsDrive.
Import ListNotations.
Open Scope Z_scope.

(* an optional unlabelled section: `if start != 0: parsing.append((s[0:start], None))` *)
Definition osec (l : str) : list section := if nonempty l then [(l, None)] else [].

Lemma osec_nil : osec [] = []. Proof. reflexivity. Qed.
Lemma osec_cons c l : osec (c :: l) = [(c :: l, None)]. Proof. reflexivity. Qed.

Lemma sfrom_app3 (a b c : str) : sfrom (a ++ b ++ c) (len a + len b) = c.
Proof.
  replace (len a + len b) with (len (a ++ b)) by (rewrite len_app; lia).
  rewrite app_assoc. apply sfrom_app.
Qed.

Lemma pre_osec (s l1 : str) rest : s = l1 ++ rest ->
  (if len l1 =? 0 then [] else [(slice s 0 (len l1), @None label)]) = osec l1.
Proof.
  intros ->. rewrite slice_prefix. destruct l1; [reflexivity|].
  rewrite len_cons. pose proof (len_nonneg l1). destruct (1 + len l1 =? 0) eqn:E; [lia|reflexivity].
Qed.

(* ---------------------------------------------------------- run detection *)

Section Run.
Variable p : N -> bool.

Definition stops (l3 : str) : Prop := l3 = [] \/ exists c r, l3 = c :: r /\ p c = false.

Lemma run_scan_in_run : forall rest pos L start a b,
  L = pos + len rest ->
  run_scan p rest pos L true start = Some (a, b) ->
  exists l2 l3, rest = l2 ++ l3 /\ forallb p l2 = true /\ stops l3 /\ a = start /\ b = pos + len l2 - 1.
Proof.
  induction rest as [|v r IH]; intros pos L start a b HL H; simpl in H; [discriminate|].
  rewrite len_cons in HL. pose proof (len_nonneg r).
  destruct (p v) eqn:Ev; simpl in H.
  - destruct (pos =? L - 1) eqn:E.
    + injection H as <- <-. apply Z.eqb_eq in E. assert (r = []) by (apply len_zero; lia). subst r.
      exists [v], []. simpl. rewrite Ev. repeat split; try (now left). rewrite len_cons, len_nil. lia.
    + destruct (IH (pos + 1) L start a b ltac:(lia) H) as (l2 & l3 & -> & Hl2 & Hl3 & -> & ->).
      exists (v :: l2), l3. simpl. rewrite Ev, Hl2. repeat split; try assumption. rewrite len_cons. lia.
  - injection H as <- <-. exists [], (v :: r). simpl. repeat split.
    + right. now exists v, r.
    + rewrite len_nil. lia.
Qed.

Lemma run_scan_spec : forall rest pos L start a b,
  L = pos + len rest ->
  run_scan p rest pos L false start = Some (a, b) ->
  exists l1 l2 l3, rest = l1 ++ l2 ++ l3 /\ forallb (fun c => negb (p c)) l1 = true /\ forallb p l2 = true /\
    l2 <> [] /\ stops l3 /\ a = pos + len l1 /\ b = a + len l2 - 1.
Proof.
  induction rest as [|v r IH]; intros pos L start a b HL H; simpl in H; [discriminate|].
  rewrite len_cons in HL. pose proof (len_nonneg r).
  destruct (p v) eqn:Ev; simpl in H.
  - destruct (pos =? L - 1) eqn:E.
    + injection H as <- <-. apply Z.eqb_eq in E. assert (r = []) by (apply len_zero; lia). subst r.
      exists [], [v], []. simpl. rewrite Ev. repeat split; try discriminate; try (now left);
        rewrite ?len_cons, ?len_nil; lia.
    + destruct (run_scan_in_run r (pos + 1) L pos a b ltac:(lia) H) as (l2 & l3 & -> & Hl2 & Hl3 & -> & ->).
      exists [], (v :: l2), l3. simpl. rewrite Ev, Hl2. repeat split; try discriminate; try assumption;
        rewrite ?len_cons, ?len_nil; lia.
  - destruct (IH (pos + 1) L start a b ltac:(lia) H) as (l1 & l2 & l3 & -> & Hl1 & Hl2 & Hne & Hl3 & -> & ->).
    exists (v :: l1), l2, l3. simpl. rewrite Ev, Hl1. repeat split; try assumption; rewrite ?len_cons; lia.
Qed.

Lemma run_scan_in_run_some : forall rest pos L start,
  L = pos + len rest -> rest <> [] -> run_scan p rest pos L true start <> None.
Proof.
  induction rest as [|v r IH]; intros pos L start HL Hne; [congruence|]. simpl.
  rewrite len_cons in HL. pose proof (len_nonneg r).
  destruct (p v) eqn:Ev; simpl; [|discriminate].
  destruct (pos =? L - 1) eqn:E; [discriminate|]. apply Z.eqb_neq in E.
  apply IH; [lia|]. intros ->. rewrite len_nil in HL. lia.
Qed.

Lemma run_scan_none : forall rest pos L start,
  L = pos + len rest ->
  run_scan p rest pos L false start = None -> forallb (fun c => negb (p c)) rest = true.
Proof.
  induction rest as [|v r IH]; intros pos L start HL H; simpl in H; [reflexivity|].
  rewrite len_cons in HL. pose proof (len_nonneg r).
  destruct (p v) eqn:Ev; simpl in H.
  - exfalso. destruct (pos =? L - 1) eqn:E; [discriminate|]. apply Z.eqb_neq in E.
    revert H. apply run_scan_in_run_some; [lia|]. intros ->. rewrite len_nil in HL. lia.
  - simpl. rewrite Ev. simpl. apply (IH (pos + 1) L start); [lia|exact H].
Qed.

Lemma first_run_spec ws a b : first_run p ws = Some (a, b) ->
  exists l1 l2 l3, ws = l1 ++ l2 ++ l3 /\ forallb (fun c => negb (p c)) l1 = true /\ forallb p l2 = true /\
    l2 <> [] /\ stops l3 /\ a = len l1 /\ b = len l1 + len l2 - 1.
Proof.
  unfold first_run. intros H. apply run_scan_spec in H; [|lia].
  destruct H as (l1 & l2 & l3 & E & H1 & H2 & H3 & H4 & -> & ->). exists l1, l2, l3. repeat split; try assumption; lia.
Qed.

Lemma first_run_none ws : first_run p ws = None -> forallb (fun c => negb (p c)) ws = true.
Proof. unfold first_run. apply run_scan_none. lia. Qed.

End Run.

(* ------------------------------------------- the shape of every split *)

Lemma drive_fuel_labelled (mids : list section) :
  Forall (fun x => snd x <> None) mids -> drive_fuel mids = length mids.
Proof.
  induction 1 as [|[t [l|]] r Hx Hr IH]; [reflexivity| |simpl in Hx; congruence].
  rewrite drive_fuel_cons, IH. reflexivity.
Qed.

Lemma drive_fuel_osec l : (drive_fuel (osec l) <= 3 * length l + 1)%nat.
Proof. destruct l; simpl; unfold drive_fuel, sec_weight; simpl; lia. Qed.

Section Shape.
Variable pm : str -> section -> Prop.
Hypothesis pm_unlab : forall piece s, pm piece (s, None) <-> piece = s.
Variable Inv : str -> Prop.
Variable Q : section -> Prop.

Lemma tiles_osec l : tiles pm l (osec l).
Proof.
  destruct l as [|c l]; [apply tiles_nil|]. rewrite osec_cons.
  exists [c :: l]. split; [simpl; now rewrite app_nil_r|]. constructor; [now apply pm_unlab|constructor].
Qed.

(* [osec l1 ++ mids ++ osec l3] for the cut l1 ++ M ++ l3, the labelled
   sections [mids] tiling M *)
Lemma shape_split_ok l1 M l3 mids :
  tiles pm M mids -> M <> [] -> (length mids <= length M)%nat ->
  Forall (fun x => snd x <> None) mids -> Forall Q mids ->
  (l1 <> [] -> Inv l1 /\ Q (l1, None)) -> (l3 <> [] -> Inv l3 /\ Q (l3, None)) ->
  split_ok pm Inv Q (l1 ++ M ++ l3) (osec l1 ++ mids ++ osec l3).
Proof.
  intros Ht HM Hlen Hlab Hq H1 H3. unfold split_ok. repeat split.
  - apply tiles_app; [apply tiles_osec|]. apply tiles_app; [assumption|apply tiles_osec].
  - rewrite !drive_fuel_app, (drive_fuel_labelled mids Hlab), !app_length.
    pose proof (drive_fuel_osec l1). pose proof (drive_fuel_osec l3).
    destruct M; [congruence|]. simpl in *. lia.
  - unfold unlab_all. rewrite !Forall_app. repeat split.
    + destruct l1; [constructor|]. rewrite osec_cons. constructor; [|constructor]. intros _. now apply H1.
    + eapply Forall_impl; [|exact Hlab]. intros x Hx E. congruence.
    + destruct l3; [constructor|]. rewrite osec_cons. constructor; [|constructor]. intros _. now apply H3.
  - rewrite !Forall_app. repeat split; [|assumption|].
    + destruct l1; [constructor|]. rewrite osec_cons. constructor; [|constructor]. now apply H1.
    + destruct l3; [constructor|]. rewrite osec_cons. constructor; [|constructor]. now apply H3.
Qed.

End Shape.

(* ------------------------------------------------------------------ digit *)

Section Digit.
Variable isdigit : N -> bool.

Lemma detect_digits_spec s p f : detect_digits isdigit s = DYes p f ->
  exists l1 l2 l3, s = l1 ++ l2 ++ l3 /\ forallb (fun c => negb (isdigit c)) l1 = true /\
    forallb isdigit l2 = true /\ l2 <> [] /\ stops isdigit l3 /\
    p = osec l1 ++ [(l2, Some (LD (len l2)))] ++ osec l3 /\ f = l2.
Proof.
  unfold detect_digits. destruct (first_run isdigit s) as [[a b]|] eqn:E; [|discriminate].
  apply first_run_spec in E. destruct E as (l1 & l2 & l3 & Es & H1 & H2 & Hne & H3 & -> & ->).
  intros H. injection H as <- <-. exists l1, l2, l3.
  replace (len l1 + len l2 - 1 + 1) with (len l1 + len l2) by lia.
  rewrite (pre_osec s l1 (l2 ++ l3) Es). subst s. rewrite slice_app3, sfrom_app3.
  repeat split; try assumption.
  f_equal. f_equal.
  rewrite !len_app. pose proof (len_nonneg l3).
  destruct l3 as [|c l3]; simpl.
  - rewrite len_nil. replace (len l1 + len l2 - 1 =? len l1 + (len l2 + 0) - 1) with true; [reflexivity|].
    symmetry. apply Z.eqb_eq. lia.
  - rewrite len_cons. pose proof (len_nonneg l3).
    replace (len l1 + len l2 - 1 =? len l1 + (len l2 + (1 + len l3)) - 1) with false; [reflexivity|].
    symmetry. apply Z.eqb_neq. lia.
Qed.

Lemma detect_digits_none s : detect_digits isdigit s = DNo -> forallb (fun c => negb (isdigit c)) s = true.
Proof.
  unfold detect_digits. destruct (first_run isdigit s) as [[a b]|] eqn:E; [discriminate|].
  intros _. now apply first_run_none.
Qed.

Lemma detect_digits_no_err s : detect_digits isdigit s <> DErr.
Proof. unfold detect_digits. destruct (first_run isdigit s) as [[a b]|]; discriminate. Qed.

End Digit.

(* ------------------------------------------------------------------ alpha *)

(* the working string of the repaired detectors (Detect.working with
   aligned = true): lower-cased character by character, a character whose
   lower() is not one character stays *)
Section Aligned.
Variable lower_c : N -> str.
Notation lower := (Multiword.lower lower_c).
Notation L := (map (lower1 lower_c)).

(* the only fact about str.lower() needed: it never returns "" for a character *)
Definition lowne (s : str) : Prop := Forall (fun c => lower_c c <> []) s.

Lemma lowne_app a b : lowne (a ++ b) <-> lowne a /\ lowne b.
Proof. apply Forall_app. Qed.

Lemma lower_len_ge s : lowne s -> len s <= len (lower s).
Proof.
  induction 1 as [|c s Hc _ IH]; [reflexivity|]. unfold Multiword.lower in *. simpl.
  rewrite len_app, len_cons. destruct (lower_c c) as [|x r]; [congruence|]. rewrite len_cons. pose proof (len_nonneg r). lia.
Qed.

Lemma lower_same_len s : lowne s -> len (lower s) = len s -> lower s = L s.
Proof.
  induction 1 as [|c s Hc Hs IH]; intros Hl; [reflexivity|].
  unfold Multiword.lower in *. simpl in *. rewrite len_app, len_cons in Hl.
  pose proof (lower_len_ge s Hs) as Hge. unfold Multiword.lower in Hge.
  unfold lower1. destruct (lower_c c) as [|x [|y r]]; [congruence| |].
  - simpl. f_equal. apply IH. rewrite len_cons, len_nil in Hl. lia.
  - rewrite !len_cons in Hl. pose proof (len_nonneg r). lia.
Qed.

Lemma working_aligned s : lowne s -> working lower_c true s = L s.
Proof.
  intros H. unfold working, lower_aligned. destruct (len (lower s) =? len s) eqn:E; [|reflexivity].
  apply Z.eqb_eq in E. now apply lower_same_len.
Qed.

Lemma L_len s : len (L s) = len s.
Proof. unfold len. now rewrite map_length. Qed.

Lemma L_split w rest z : L rest = w ++ z -> exists r1 r2, rest = r1 ++ r2 /\ L r1 = w /\ L r2 = z.
Proof. apply map_eq_app. Qed.

End Aligned.

Section Alpha.
Variables isalpha isupper : N -> bool.
Variable lower_c : N -> str.
Notation L := (map (lower1 lower_c)).

Lemma alpha_words_spec s : forall words l1 done rest l3 secs masks,
  s = l1 ++ done ++ rest ++ l3 -> concat words = L rest ->
  alpha_words isupper s (len l1 + len done) words = (secs, masks) ->
  exists pieces, concat pieces = rest /\ map L pieces = words /\
    secs = map (fun pc => (pc, Some (LA (len pc)))) pieces /\ masks = map (case_mask isupper) pieces.
Proof.
  induction words as [|w ws IH]; intros l1 done rest l3 secs masks Es Hc H; simpl in H.
  - injection H as <- <-. simpl in Hc. exists []. repeat split.
    symmetry in Hc. apply map_eq_nil in Hc. now subst.
  - simpl in Hc. symmetry in Hc. destruct (L_split lower_c w rest (concat ws) Hc) as (r1 & r2 & -> & H1 & H2).
    assert (Hlw : len w = len r1) by (rewrite <- H1; apply L_len).
    destruct (alpha_words isupper s (len l1 + len done + len w) ws) as [secs' masks'] eqn:Er.
    injection H as <- <-.
    assert (Epiece : slice s (len l1 + len done) (len l1 + len done + len w) = r1).
    { subst s. rewrite Hlw. replace (len l1 + len done) with (len (l1 ++ done)) by (rewrite len_app; lia).
      replace (l1 ++ done ++ (r1 ++ r2) ++ l3) with ((l1 ++ done) ++ r1 ++ (r2 ++ l3)) by (now rewrite <- !app_assoc).
      apply slice_app3. }
    destruct (IH l1 (done ++ r1) r2 l3 secs' masks') as (pieces & Hcp & Hmp & -> & ->).
    + subst s. now rewrite <- !app_assoc.
    + now symmetry.
    + rewrite len_app, <- Hlw. rewrite <- Er. f_equal. lia.
    + exists (r1 :: pieces). simpl. rewrite Epiece, Hcp, Hmp, H1, Hlw. repeat split.
Qed.

Variable mwparse : str -> option (bool * list str).
Hypothesis mw_concat : forall x b ws, mwparse x = Some (b, ws) -> concat ws = x.

Lemma detect_alpha_spec s p f : lowne lower_c s ->
  detect_alpha isalpha isupper lower_c true mwparse s = DYes p f ->
  exists l1 l2 l3 pieces b, s = l1 ++ l2 ++ l3 /\ l2 <> [] /\
    forallb (fun c => negb (isalpha c)) (L l1) = true /\ forallb isalpha (L l2) = true /\
    stops isalpha (L l3) /\
    mwparse (L l2) = Some (b, map L pieces) /\ concat pieces = l2 /\ pieces <> [] /\
    p = osec l1 ++ map (fun pc => (pc, Some (LA (len pc)))) pieces ++ osec l3 /\
    f = (map L pieces, map (case_mask isupper) pieces).
Proof.
  intros Hp. unfold detect_alpha. rewrite (working_aligned lower_c s Hp).
  destruct (first_run isalpha (L s)) as [[a b]|] eqn:E; [|discriminate].
  apply first_run_spec in E. destruct E as (L1 & L2 & L3 & Es & H1 & H2 & Hne & H3 & -> & ->).
  destruct (L_split lower_c L1 s (L2 ++ L3) Es) as (l1 & r & -> & El1 & Er).
  destruct (L_split lower_c L2 r L3 Er) as (l2 & l3 & -> & El2 & El3).
  assert (Hl1 : len L1 = len l1) by (rewrite <- El1; apply L_len).
  assert (Hl2 : len L2 = len l2) by (rewrite <- El2; apply L_len).
  replace (len L1 + len L2 - 1 + 1) with (len L1 + len L2) by lia.
  rewrite Es, slice_app3.
  destruct (mwparse L2) as [[b words]|] eqn:Em; [|discriminate].
  destruct (alpha_words isupper (l1 ++ l2 ++ l3) (len L1) words) as [secs masks] eqn:Ea.
  destruct (nonempty words) eqn:Enw; [|discriminate]. apply nonempty_true in Enw.
  intros H. injection H as <- <-.
  assert (Hl2ne : l2 <> []). { intros ->. apply Hne. now rewrite <- El2. }
  pose proof (mw_concat _ _ _ Em) as Hcw.
  destruct (alpha_words_spec (l1 ++ l2 ++ l3) words l1 [] l2 l3 secs masks) as (pieces & Hcp & Hmp & -> & ->).
  - reflexivity.
  - now rewrite Hcw, El2.
  - rewrite len_nil, Z.add_0_r, <- Hl1. exact Ea.
  - exists l1, l2, l3, pieces, b. subst words. rewrite El2.
    repeat split; try assumption; try (now rewrite ?El1, ?El2, ?El3).
    + intros ->. now apply Enw.
    + rewrite Hl1. rewrite (pre_osec (l1 ++ l2 ++ l3) l1 (l2 ++ l3) eq_refl). f_equal.
      rewrite Hl2, sfrom_app3. f_equal.
      rewrite !len_app. pose proof (len_nonneg l3).
      destruct l3 as [|c l3]; simpl.
      * rewrite len_nil. replace (len l1 + len l2 - 1 =? len l1 + (len l2 + 0) - 1) with true; [reflexivity|].
        symmetry. apply Z.eqb_eq. lia.
      * rewrite len_cons. pose proof (len_nonneg l3).
        replace (len l1 + len l2 - 1 =? len l1 + (len l2 + (1 + len l3)) - 1) with false; [reflexivity|].
        symmetry. apply Z.eqb_neq. lia.
Qed.

Lemma detect_alpha_none s : lowne lower_c s ->
  detect_alpha isalpha isupper lower_c true mwparse s = DNo ->
  (forall x, x <> [] -> mwparse x <> None) -> (forall x b, mwparse x <> Some (b, [])) ->
  forallb (fun c => negb (isalpha c)) (L s) = true.
Proof.
  unfold detect_alpha. intros Hp H Htot Hne. rewrite (working_aligned lower_c s Hp) in H.
  destruct (first_run isalpha (L s)) as [[a b]|] eqn:E; [|now apply first_run_none].
  exfalso. destruct (mwparse (slice (L s) a (b + 1))) as [[bb words]|] eqn:Em; [|discriminate].
  destruct (alpha_words isupper s a words) as [secs masks].
  destruct words as [|w ws]; [|discriminate]. now apply (Hne _ _ Em).
Qed.

End Alpha.

Lemma detect_alpha_no_err isalpha isupper lower_c aligned mwparse s :
  (forall x, mwparse x <> None) -> detect_alpha isalpha isupper lower_c aligned mwparse s <> DErr.
Proof.
  intros Htot. unfold detect_alpha.
  destruct (first_run isalpha (working lower_c aligned s)) as [[a b]|]; [|discriminate].
  destruct (mwparse _) as [[bb words]|] eqn:Em; [|now apply Htot in Em].
  destruct (alpha_words isupper s a words). destruct (nonempty words); discriminate.
Qed.

(* ---------------------------------------------------------------- context *)

Section Context.
Variable isdigit : N -> bool.

Lemma detect_context_spec : forall rs s p f, detect_context isdigit rs s = DYes p f ->
  exists l1 l3, s = l1 ++ f ++ l3 /\ In f rs /\ f <> [] /\ p = osec l1 ++ [(f, Some LX)] ++ osec l3.
Proof.
  induction rs as [|r rs IH]; intros s p f H; simpl in H; [discriminate|].
  destruct (find s r =? -1) eqn:Ef.
  { destruct (IH _ _ _ H) as (l1 & l3 & ? & ? & ?). exists l1, l3. repeat split; try tauto. now right. }
  apply Z.eqb_neq in Ef.
  destruct (find_spec s r _ eq_refl Ef) as (l1 & l3 & Es & Ei).
  match type of H with match ?fp with _ => _ end = _ => destruct fp as [[|]|] eqn:Efp end; [| |discriminate].
  { destruct (IH _ _ _ H) as (l1' & l3' & ? & ? & ?). exists l1', l3'. repeat split; try tauto. now right. }
  destruct (nonempty r) eqn:Enr; [|discriminate]. apply nonempty_true in Enr.
  injection H as <- <-. exists l1, l3. rewrite Ei.
  rewrite (pre_osec s l1 (r ++ l3) Es). subst s. rewrite slice_app3, sfrom_app3.
  repeat split; try assumption; [now left|]. f_equal. f_equal.
  rewrite !len_app. destruct l3 as [|c l3]; simpl.
  - rewrite len_nil. replace (len l1 + len r <? len l1 + (len r + 0)) with false; [reflexivity|].
    symmetry. apply Z.ltb_ge. lia.
  - rewrite len_cons. pose proof (len_nonneg l3).
    replace (len l1 + len r <? len l1 + (len r + (1 + len l3))) with true; [reflexivity|].
    symmetry. apply Z.ltb_lt. lia.
Qed.

Lemma detect_context_no_err : forall rs s, detect_context isdigit rs s <> DErr.
Proof.
  induction rs as [|r rs IH]; intros s; simpl; [discriminate|].
  destruct (find s r =? -1) eqn:Ef; [apply IH|]. apply Z.eqb_neq in Ef.
  destruct (find_bounds s r _ eq_refl Ef) as (H0 & Hb).
  destruct (str_eqb r hash_one).
  - destruct (find s r <? len s - 3) eqn:El.
    + apply Z.ltb_lt in El. destruct (getc_some s (find s r + 3) ltac:(lia)) as (a & x & c & _ & _ & ->).
      destruct (isdigit x); [apply IH|]. destruct (nonempty r); discriminate.
    + destruct (nonempty r); discriminate.
  - destruct (nonempty r); discriminate.
Qed.

End Context.

(* ------------------------------------------------------------------- year *)

Section Year.
Variable isdigit : N -> bool.

(* what the year loop accepts at position i *)
Definition year_at (ws prefix : str) (i : Z) : Prop :=
  exists l1 c2 c3 l3, ws = l1 ++ (prefix ++ [c2; c3]) ++ l3 /\ len l1 = i /\ len prefix = 2 /\
    isdigit c2 = true /\ isdigit c3 = true.

Lemma year_loop_spec : forall fuel ws prefix start i, len prefix = 2 -> 0 <= start ->
  year_loop isdigit fuel ws prefix start = Some (Some i) -> year_at ws prefix i.
Proof.
  induction fuel as [|f IH]; intros ws prefix start i Hpl Hs H; simpl in H; [discriminate|].
  destruct (find (sfrom ws start) prefix =? -1) eqn:Ef; [discriminate|]. apply Z.eqb_neq in Ef.
  set (si := find (sfrom ws start) prefix + start) in *.
  destruct (len ws <? si + 4) eqn:El; [discriminate|]. apply Z.ltb_ge in El.
  destruct (find_bounds _ _ _ eq_refl Ef) as (Hf0 & Hfb).
  assert (Hsl : start <= len ws) by (destruct (Z_le_gt_dec start (len ws)); [assumption|]; rewrite sfrom_over in Hfb by lia; rewrite len_nil in Hfb; lia).
  assert (Hcut : slice ws 0 start ++ sfrom ws start = ws) by (apply slice_cut2; lia).
  destruct (find_spec _ _ _ eq_refl Ef) as (a & c & Esf & Ea).
  assert (Hrec : forall r, year_loop isdigit f ws prefix (si + 2) = Some (Some r) -> year_at ws prefix r)
    by (intros r; apply IH; [assumption|unfold si; lia]).
  (* the two characters after the prefix *)
  assert (Hlen_a : len (slice ws 0 start) = start) by (rewrite slice_len; lia).
  assert (Ews : ws = (slice ws 0 start ++ a) ++ prefix ++ c) by (rewrite <- app_assoc, <- Esf; now symmetry).
  assert (Hsi : si = len (slice ws 0 start ++ a)) by (unfold si; rewrite len_app; lia).
  assert (Hc : 2 <= len c).
  { assert (len ws = len (slice ws 0 start ++ a) + (len prefix + len c)) by (rewrite Ews at 1; now rewrite !len_app). lia. }
  destruct c as [|c2 [|c3 l3]]; try (rewrite ?len_cons, ?len_nil in Hc; lia).
  assert (G2 : getc ws (si + 2) = Some c2).
  { rewrite Ews, Hsi. replace (len (slice ws 0 start ++ a) + 2) with (len ((slice ws 0 start ++ a) ++ prefix)) by (rewrite (len_app _ prefix); lia).
    rewrite app_assoc. apply getc_app_mid. }
  assert (G3 : getc ws (si + 3) = Some c3).
  { rewrite Ews, Hsi.
    replace (len (slice ws 0 start ++ a) + 3) with (len ((slice ws 0 start ++ a) ++ prefix ++ [c2])) by (rewrite !len_app, len_cons, len_nil; lia).
    replace ((slice ws 0 start ++ a) ++ prefix ++ c2 :: c3 :: l3) with (((slice ws 0 start ++ a) ++ prefix ++ [c2]) ++ c3 :: l3)
      by (rewrite <- !app_assoc; reflexivity).
    apply getc_app_mid. }
  match type of H with match ?pd with _ => _ end = _ => destruct pd as [[|]|] eqn:Epd end; [now apply Hrec| |discriminate].
  match type of H with match ?nd with _ => _ end = _ => destruct nd as [[|]|] eqn:End end; [now apply Hrec| |discriminate].
  rewrite G2 in H. destruct (isdigit c2) eqn:E2; [|now apply Hrec].
  rewrite G3 in H. destruct (isdigit c3) eqn:E3; [|now apply Hrec].
  injection H as <-. exists (slice ws 0 start ++ a), c2, c3, l3. repeat split; try assumption.
  - rewrite Ews at 1. now rewrite <- !app_assoc.
  - now symmetry.
Qed.

Lemma year_loop_fuel : forall fuel ws prefix start, 0 <= start ->
  (Z.to_nat (len ws + 1 - start) < fuel)%nat -> year_loop isdigit fuel ws prefix start <> None.
Proof.
  induction fuel as [|f IH]; intros ws prefix start Hs Hf; [lia|]. simpl.
  destruct (find (sfrom ws start) prefix =? -1) eqn:Ef; [discriminate|]. apply Z.eqb_neq in Ef.
  destruct (find_ge (sfrom ws start) prefix) as [?|Hge]; [congruence|].
  set (si := find (sfrom ws start) prefix + start) in *.
  destruct (len ws <? si + 4) eqn:El; [discriminate|]. apply Z.ltb_ge in El.
  assert (Hrec : year_loop isdigit f ws prefix (si + 2) <> None) by (apply IH; unfold si in *; lia).
  assert (Hsi : 0 <= si) by (unfold si; lia).
  destruct (si =? 0) eqn:E0.
  - destruct (si + 4 <? len ws) eqn:E4.
    + apply Z.ltb_lt in E4. destruct (getc_some ws (si + 4) ltac:(lia)) as (? & dg4 & ? & _ & _ & ->).
      destruct (isdigit dg4); [assumption|].
      destruct (getc_some ws (si + 2) ltac:(lia)) as (? & dg2 & ? & _ & _ & ->).
      destruct (isdigit dg2); [|assumption].
      destruct (getc_some ws (si + 3) ltac:(lia)) as (? & dg3 & ? & _ & _ & ->).
      destruct (isdigit dg3); [discriminate|assumption].
    + destruct (getc_some ws (si + 2) ltac:(lia)) as (? & dg2 & ? & _ & _ & ->).
      destruct (isdigit dg2); [|assumption].
      destruct (getc_some ws (si + 3) ltac:(lia)) as (? & dg3 & ? & _ & _ & ->).
      destruct (isdigit dg3); [discriminate|assumption].
  - apply Z.eqb_neq in E0. destruct (getc_some ws (si - 1) ltac:(lia)) as (? & dg1 & ? & _ & _ & ->).
    destruct (isdigit dg1); [assumption|].
    destruct (si + 4 <? len ws) eqn:E4.
    + apply Z.ltb_lt in E4. destruct (getc_some ws (si + 4) ltac:(lia)) as (? & dg4 & ? & _ & _ & ->).
      destruct (isdigit dg4); [assumption|].
      destruct (getc_some ws (si + 2) ltac:(lia)) as (? & dg2 & ? & _ & _ & ->).
      destruct (isdigit dg2); [|assumption].
      destruct (getc_some ws (si + 3) ltac:(lia)) as (? & dg3 & ? & _ & _ & ->).
      destruct (isdigit dg3); [discriminate|assumption].
    + destruct (getc_some ws (si + 2) ltac:(lia)) as (? & dg2 & ? & _ & _ & ->).
      destruct (isdigit dg2); [|assumption].
      destruct (getc_some ws (si + 3) ltac:(lia)) as (? & dg3 & ? & _ & _ & ->).
      destruct (isdigit dg3); [discriminate|assumption].
Qed.

End Year.

Section Year2.
Variable isdigit : N -> bool.

Lemma detect_year_spec : forall prefixes s p f,
  Forall (fun q => len q = 2) prefixes -> detect_year isdigit prefixes s = DYes p f ->
  exists prefix l1 c2 c3 l3, In prefix prefixes /\ s = l1 ++ f ++ l3 /\ f = prefix ++ [c2; c3] /\
    isdigit c2 = true /\ isdigit c3 = true /\ p = osec l1 ++ [(f, Some LY)] ++ osec l3.
Proof.
  induction prefixes as [|q ps IH]; intros s p f Hq H; cbn [detect_year] in H; [discriminate|].
  inversion Hq as [|? ? Hq2 Hps]; subst.
  destruct (year_loop isdigit (S (S (length s))) s q 0) as [[i|]|] eqn:Ey; [| |discriminate].
  - apply year_loop_spec in Ey; [|assumption|lia].
    destruct Ey as (l1 & c2 & c3 & l3 & Es & Hl1 & _ & H2 & H3).
    assert (Hmid : len (q ++ [c2; c3]) = 4) by (rewrite len_app, !len_cons, len_nil; lia).
    assert (Esl : slice s i (i + 4) = q ++ [c2; c3]).
    { rewrite Es, <- Hl1, <- Hmid. apply slice_app3. }
    rewrite Esl in H. simpl nonempty in H.
    destruct (nonempty (q ++ [c2; c3])) eqn:En; [|destruct q; discriminate].
    injection H as <- <-. exists q, l1, c2, c3, l3. repeat split; try assumption; [now left|].
    rewrite <- Hl1. rewrite (pre_osec s l1 _ Es). f_equal. f_equal.
    rewrite Es. replace (len l1 + 4) with (len l1 + len (q ++ [c2; c3])) by lia.
    rewrite sfrom_app3. pose proof (len_nonneg l3).
    destruct l3 as [|c l3].
    + match goal with |- context [?a <? ?b] => replace (a <? b) with false
        by (symmetry; apply Z.ltb_ge; rewrite ?len_app, ?len_cons, ?len_nil in *; lia) end. reflexivity.
    + pose proof (len_nonneg l3).
      match goal with |- context [?a <? ?b] => replace (a <? b) with true
        by (symmetry; apply Z.ltb_lt; rewrite ?len_app, ?len_cons, ?len_nil in *; lia) end. reflexivity.
  - destruct (IH _ _ _ Hps H) as (prefix & l1 & c2 & c3 & l3 & Hin & ?). exists prefix, l1, c2, c3, l3.
    split; [now right|assumption].
Qed.

Lemma detect_year_no_err : forall prefixes s, detect_year isdigit prefixes s <> DErr.
Proof.
  induction prefixes as [|q ps IH]; intros s; cbn [detect_year]; [discriminate|].
  destruct (year_loop isdigit (S (S (length s))) s q 0) as [[i|]|] eqn:Ey.
  - destruct (nonempty (slice s i (i + 4))); discriminate.
  - apply IH.
  - exfalso. revert Ey. apply year_loop_fuel; [lia|]. unfold len. lia.
Qed.

End Year2.
