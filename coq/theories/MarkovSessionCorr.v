(* Correspondence helpers for the combined Markov session model (C15): the
   harness writes, per generated ruleset, the loaded tables, the OMEN model and
   what the REAL CrackingSession did for a quit after the j-th guess of a Markov
   level and for the following run(load_session=True); these functions run
   MarkovSession.interrupted / resumed_session on the same history and compare.
   Everything here is evaluated by vm_compute. *)
From Coq Require Import List Arith Bool Floats NArith ZArith.
From Pcfg Require Import ProbAlg F64 Next NextSpec Corr Expand ExpandCorr OmenSpec Omen OmenCorr MarkovSession.
From PcfgGen Require Import Consts_gen.
Import ListNotations.

(* grammar[v][i] as (category code, values): 0 = 'M', 1 = 'C', 2 = other (ExpandCorr.cat_of) *)
Definition term_table := list (list (nat * list str)).

Definition term_of (tbl : term_table) (v i : nat) : slot :=
  match nth_error tbl v with
  | Some row =>
      match nth_error row i with
      | Some p => {| scat := cat_of (fst p); svals := snd p |}
      | None => {| scat := CatPlain; svals := [] |}
      end
  | None => {| scat := CatPlain; svals := [] |}
  end.

Definition mk_g (rs : ruleset F64) (tbl : term_table) (G : omen) : sgram F64 :=
  mk_sgram rs (term_of tbl) G.

(* An observed pop with the base-structure LINE it descends from (Next.v's ghost
   tag; the harness follows it through the implementation by object identity).
   Two identical grammar.txt lines give items that are equal as
   (pt, base_prob, prob): matched by those alone, the order-following queue would
   match an entry of [order] that the first copy already consumed and pop the
   second copy too early.  With the line the key is unique (NoDup of
   all_preterminals). *)
Definition tobs := (nat * obs)%type.
Definition tobs_of (it : item F64) : tobs := (itag it, obs_of it).
Definition tobs_eqb (a b : tobs) : bool := Nat.eqb (fst a) (fst b) && obs_eqb (snd a) (snd b).

(* the model's queue follows the order in which the implementation popped *)
Definition follow (order : list tobs) : queue F64 -> option (item F64 * queue F64) :=
  pop_follow (fun x o => tobs_eqb (tobs_of x) o) order.

Definition saved_eqb (a b : saved) : bool :=
  match a, b with
  | (T1, ip1, ln1, t1, f1), (T2, ip2, ln2, t2, f2) =>
      Z.eqb T1 T2 && Nat.eqb (fst ip1) (fst ip2) && Nat.eqb (snd ip1) (snd ip2) &&
      Nat.eqb (fst ln1) (fst ln2) && Nat.eqb (snd ln1) (snd ln2) && tree_eqb t1 t2 && Bool.eqb f1 f2
  end.

Definition onat_eqb (a b : option nat) : bool :=
  match a, b with Some x, Some y => Nat.eqb x y | None, None => true | _, _ => false end.
Definition osaved_eqb (a b : option saved) : bool :=
  match a, b with Some x, Some y => saved_eqb x y | None, None => true | _, _ => false end.

(* one observed cut *)
Record ms_case := mk_ms_case {
  ms_k      : nat;                              (* pre-terminals generated in full before the level *)
  ms_j      : nat;                              (* the quit was seen after the j-th guess of the level *)
  ms_order1 : list tobs;                         (* pops of the interrupted run *)
  ms_out1   : list str;                         (* what the interrupted run printed *)
  ms_file   : option (float * nat * saved);     (* max_probability, omen_guess_number, .omn; None: nothing saved *)
  ms_order2 : list tobs;                         (* pops of the resumed run *)
  ms_out2   : list str;                         (* what the resumed run printed *)
  ms_rest   : nat                               (* how many of these restore_omen printed *)
}.

Definition check_ms (up : list (N * str)) (g : sgram F64) (k : ms_case) : bool :=
  let upc := upper_of up in
  match interrupted upc omen_optimizer_max_length omen_first_object_extra session_quit_check_after_pop
                    (follow (ms_order1 k)) g (ms_k k) (ms_j k) cempty, ms_file k with
  | NotSaved out, None => strs_eqb out (ms_out1 k)
  | Saved out f, Some (mp, num, st) =>
      strs_eqb out (ms_out1 k) && feq (sf_max_prob f) mp &&
      onat_eqb (sv_number (sf_omen f)) (Some num) && osaved_eqb (sv_omn (sf_omen f)) (Some st) &&
      match resumed_session omen_optimizer_max_length omen_first_object_extra
                            parent_around_strict omen_number_cleared
                            (follow (ms_order2 k)) g f (S (length (ms_out2 k))) cempty
                            (S (length (ms_order2 k))) with
      | Some r =>
          strs_eqb (resumed_out upc session_omen_restored_before_loop g r) (ms_out2 k) &&
          Nat.eqb (length (rr_rest r)) (ms_rest k) &&
          list_eqb tobs_eqb (map tobs_of (resumed_pops r)) (ms_order2 k) &&
          is_nil (pending (rr_queue r))
      | None => false
      end
  | _, _ => false
  end.

(* cases of one ruleset *)
Definition check_ms_all (up : list (N * str)) (g : sgram F64) (ks : list ms_case) : list nat :=
  ofailing (check_ms up g) ks.
