(* Lemmas about the runtime of the generated OMEN code (OmenRt.v): what Python's
   slices and subscripts are inside their range.  Shared by OmenLevelGenProofs.v
   and OmenKeyspaceGenProofs.v. *)
From Coq Require Import List Arith Bool NArith ZArith Lia.
From Pcfg Require Import KernelRt OmenSpec OmenLevel OmenRt.
Import ListNotations.

(* ------------------------------------------------------------------ *)
(* the runtime: slices and subscripts inside their range                *)
(* ------------------------------------------------------------------ *)

Lemma firstn_min_length {X} (l : list X) a : firstn (Nat.min a (length l)) l = firstn a l.
Proof.
  destruct (Nat.le_ge_cases a (length l)) as [H|H].
  - now rewrite Nat.min_l.
  - rewrite Nat.min_r by exact H. rewrite firstn_all. symmetry. now apply firstn_all2.
Qed.

(* s[0:b], b >= 0 *)
Lemma pyslice_prefix {X} (s : list X) b : (0 <= b)%Z ->
  pyslice s (Some 0%Z) (Some b) = firstn (Z.to_nat b) s.
Proof.
  intro Hb. unfold pyslice, slice_bound, zlen. cbn [Z.ltb Z.compare].
  replace (b <? 0)%Z with false by (symmetry; apply Z.ltb_ge; exact Hb).
  replace (Z.min 0 (Z.of_nat (length s))) with 0%Z by lia. cbn [Z.to_nat skipn]. rewrite Z.sub_0_r.
  replace (Z.to_nat (Z.min b (Z.of_nat (length s)))) with (Nat.min (Z.to_nat b) (length s)) by lia.
  apply firstn_min_length.
Qed.

(* s[a:b], 0 <= a <= b <= len(s) *)
Lemma pyslice_window {X} (s : list X) a b : (0 <= a)%Z -> (a <= b)%Z -> (b <= zlen s)%Z ->
  pyslice s (Some a) (Some b) = firstn (Z.to_nat (b - a)) (skipn (Z.to_nat a) s).
Proof.
  intros Ha Hab Hb. unfold pyslice, slice_bound. fold (zlen s).
  replace (a <? 0)%Z with false by (symmetry; apply Z.ltb_ge; exact Ha).
  replace (b <? 0)%Z with false by (symmetry; apply Z.ltb_ge; lia).
  rewrite !Z.min_l by lia. reflexivity.
Qed.

(* s[:-1] *)
Lemma pyslice_removelast {X} (s : list X) : pyslice s None (Some (-1)%Z) = removelast s.
Proof.
  unfold pyslice, slice_bound, zlen. cbn [Z.ltb Z.compare Z.to_nat skipn]. rewrite Z.sub_0_r.
  rewrite removelast_firstn_len. f_equal. lia.
Qed.

(* s[1:] *)
Lemma pyslice_tl {X} (s : list X) : pyslice s (Some 1%Z) None = tl s.
Proof.
  unfold pyslice, slice_bound, zlen. cbn [Z.ltb Z.compare]. destruct s as [|x r].
  - reflexivity.
  - cbn [length tl]. rewrite Z.min_l by lia. cbn [Z.to_nat Pos.to_nat Pos.iter_op Nat.add skipn].
    replace (Z.to_nat (Z.of_nat (S (length r)) - 1)) with (length r) by lia. apply firstn_all.
Qed.

(* l[i], 0 <= i < len(l) *)
Lemma pyindex_in {X} (l : list X) i x : (0 <= i)%Z -> nth_error l (Z.to_nat i) = Some x -> pyindex l i = Ok x.
Proof.
  intros Hi Hn. unfold pyindex, zlen.
  assert (Z.to_nat i < length l) by (apply nth_error_Some; congruence).
  replace (i <? 0)%Z with false by (symmetry; apply Z.ltb_ge; exact Hi).
  replace (i <? 0)%Z with false by (symmetry; apply Z.ltb_ge; exact Hi).
  replace (Z.of_nat (length l) <=? i)%Z with false by (symmetry; apply Z.leb_gt; lia).
  cbn [orb]. now rewrite Hn.
Qed.

(* l[-1] of a non-empty list *)
Lemma pyindex_last {X} (l : list X) d : l <> [] -> pyindex l (-1)%Z = Ok (last l d).
Proof.
  intro Hl. unfold pyindex, zlen. cbn [Z.ltb Z.compare].
  assert (0 < length l) by (destruct l; [congruence | cbn; lia]).
  replace (-1 + Z.of_nat (length l) <? 0)%Z with false by (symmetry; apply Z.ltb_ge; lia).
  replace (Z.of_nat (length l) <=? -1 + Z.of_nat (length l))%Z with false by (symmetry; apply Z.leb_gt; lia).
  cbn [orb]. replace (Z.to_nat (-1 + Z.of_nat (length l))) with (length l - 1) by lia.
  destruct (exists_last Hl) as (l' & a & ->). rewrite last_last, app_length. cbn [length].
  rewrite nth_error_app2 by lia. replace (length l' + 1 - 1 - length l') with 0 by lia. reflexivity.
Qed.

Lemma skipn_S_cons {X} (s : list X) : forall j c r, c :: r = skipn j s -> r = skipn (S j) s.
Proof.
  induction s as [|x s IH]; intros j c r H.
  - destruct j; discriminate.
  - destruct j as [|j]; cbn [skipn] in *.
    + now inversion H.
    + destruct s as [|y s']; [destruct j; discriminate|]. apply IH in H. exact H.
Qed.

Lemma levelZ_oadd a b : levelZ (oadd a b) =
  match a, b with Some x, Some y => (Z.of_nat x + Z.of_nat y)%Z | _, _ => (-1)%Z end.
Proof. destruct a, b; cbn; try reflexivity. lia. Qed.


(* s[:b] is s[0:b] *)
Lemma pyslice_no_lower {X} (s : list X) b : pyslice s None b = pyslice s (Some 0%Z) b.
Proof.
  unfold pyslice, slice_bound. cbn [Z.ltb Z.compare]. replace (Z.min 0 (zlen s)) with 0%Z by (unfold zlen; lia). reflexivity.
Qed.

(* range(a, b) *)
Lemma zrange_nil a b : (b <= a)%Z -> zrange a b = [].
Proof. intro H. unfold zrange. replace (Z.to_nat (b - a)) with 0 by lia. reflexivity. Qed.

Lemma zrange_cons a b : (a < b)%Z -> zrange a b = a :: zrange (a + 1) b.
Proof.
  intro H. unfold zrange. replace (Z.to_nat (b - a)) with (S (Z.to_nat (b - (a + 1)))) by lia.
  cbn [seq map]. f_equal; [lia|]. rewrite <- seq_shift, map_map. apply map_ext. intro i. lia.
Qed.
