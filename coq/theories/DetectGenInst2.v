(* The C05 theorems transported to the generated detectors of the second translator
   (gen/DetectMw_gen.v, gen/DetectEmail_gen.v, gen/DetectWeb_gen.v, gen/DetectKbd_gen.v:
   the translation of the current Python source of the multi-word detector and of the
   e-mail / website / keyboard-walk detectors), through the equalities of
   DetectGenProofsMw.v etc.  The instance is the one the correspondence runs
   (constants of gen/Consts_gen.v, Unicode facts of gen/Unicode_gen.v). *)
From Coq Require Import List ZArith NArith Bool Lia.
From Pcfg Require Import Str Multiword Detect Segment SegCorr DetectRt DetectRt2 DetectProofsStr DetectProofsDrive DetectProofsMw
     DetectProofsSeg DetectProofsWeb DetectProofsInst DetectGenProofs DetectGenInst DetectGenProofsMw DetectGenProofsEmail
     DetectGenProofsWeb DetectGenProofsKbd.
From PcfgGen Require Import Consts_gen Unicode_gen Detect_gen DetectMw_gen DetectEmail_gen DetectWeb_gen DetectKbd_gen.
Import ListNotations.
Open Scope Z_scope.

(* ------------------------------------------------------------------ *)
(* the multi-word detector                                             *)
(* ------------------------------------------------------------------ *)

(* the translated methods with the constructor arguments of run_trainer.py and
   the character tables of the running interpreter *)
Definition py_mwtrain_c (t : trie) (set_threshold : bool) (pw : str) : option trie :=
  py_mw_train c_isalpha c_lower c_threshold c_min_len c_max_len t pw set_threshold.
Definition py_mwcount_c (t : trie) (w : str) : option Z := py_mw_get_count c_lower t w.
Definition py_mwparse_c (t : trie) (s : str) : option (bool * list str) :=
  py_mw_parse c_lower c_threshold c_min_len c_max_len t s.

(* train(pw) without the second argument *)
Lemma side_default_set_threshold : py_mw_train_default_set_threshold = false.
Proof. reflexivity. Qed.

(* a training history: the calls train(pw, set_threshold) made on a fresh detector *)
Fixpoint py_mw_history (t : trie) (h : list (bool * str)) : option trie :=
  match h with
  | [] => Some t
  | (st, pw) :: r => match py_mwtrain_c t st pw with Some t' => py_mw_history t' r | None => None end
  end.
Definition mw_history (m : mwmap) (h : list (bool * str)) : mwmap :=
  fold_left (fun m x => train_c m (fst x) (snd x)) h m.

(* train never raises, and the trie it leaves represents the model's map *)
Theorem py_mwtrain_c_is_model t m st pw : mw_rep t m ->
  exists t', py_mwtrain_c t st pw = Some t' /\ mw_rep t' (train_c m st pw).
Proof. apply py_mw_train_eq. Qed.

Theorem py_mw_history_is_model : forall h t m, mw_rep t m ->
  exists t', py_mw_history t h = Some t' /\ mw_rep t' (mw_history m h).
Proof.
  induction h as [|[st pw] h IH]; intros t m Hr; cbn [py_mw_history mw_history fold_left fst snd]; [eauto|].
  destruct (py_mwtrain_c_is_model t m st pw Hr) as (t1 & -> & Hr1). now apply IH.
Qed.

(* every state of the detector reachable from the constructor by calls of train *)
Definition mw_reachable (t : trie) : Prop := exists h, py_mw_history t_empty h = Some t.

Lemma mw_reachable_rep t : mw_reachable t -> exists m, mw_rep t m.
Proof.
  intros (h & E). destruct (py_mw_history_is_model h t_empty [] rep_empty) as (t' & E' & Hr).
  rewrite E in E'. injection E' as <-. eauto.
Qed.

Theorem py_mwcount_c_is_model t m w : mw_rep t m -> py_mwcount_c t w = Some (mwcount_c m w).
Proof. apply py_mw_get_count_eq. Qed.

Theorem py_mwparse_c_is_model t m s : mw_rep t m -> py_mwparse_c t s = mwparse_c m s.
Proof. intros Hr. now apply py_mw_parse_eq. Qed.

(* C05_sound_multiword for the translated detector, in terms of the translated
   _get_count only: for EVERY reachable state, parse returns the word itself or a
   split into >= 2 parts that concatenate to it, each seen >= threshold times and of
   length >= min_len, of a word seen < threshold times; and it never raises (the
   fuel of the recursion suffices) *)
Definition py_base_word (t : trie) (w : str) : Prop :=
  exists v, py_mwcount_c t w = Some v /\ c_threshold <= v /\ c_min_len <= len w.

Theorem py_mwparse_c_sound t s b ws : mw_reachable t -> py_mwparse_c t s = Some (b, ws) ->
  ws = [s] \/ (concat ws = s /\ Forall (py_base_word t) ws /\ (2 <= length ws)%nat /\
               exists v, py_mwcount_c t s = Some v /\ v < c_threshold).
Proof.
  intros Hre H. destruct (mw_reachable_rep t Hre) as (m & Hr).
  rewrite (py_mwparse_c_is_model t m s Hr) in H.
  destruct (mw_parse_spec c_lower c_threshold c_min_len c_max_len side_min_len m s b ws H) as [->|((Hc & Hf & Hl) & Hlt)];
    [now left|right].
  repeat split; try assumption.
  - eapply Forall_impl; [|exact Hf]. intros w (H1 & H2). exists (mwcount_c m w). split; [now apply py_mwcount_c_is_model|]. split; assumption.
  - exists (mwcount_c m s). split; [now apply py_mwcount_c_is_model|assumption].
Qed.

Theorem py_mwparse_c_never_raises t s : mw_reachable t -> py_mwparse_c t s <> None.
Proof.
  intros Hre. destruct (mw_reachable_rep t Hre) as (m & Hr). rewrite (py_mwparse_c_is_model t m s Hr).
  apply mw_parse_total. exact side_min_len.
Qed.

(* the generated code runs: train('pass', True), train('word', True), train('x1pass!word'),
   then parse('password') = (True, ['pass', 'word']), parse('passwork') = (False, ['passwork']) *)
Definition h_demo : list (bool * str) :=
  [(true, [112; 97; 115; 115]%N); (true, [119; 111; 114; 100]%N);
   (false, [120; 49; 112; 97; 115; 115; 33; 119; 111; 114; 100]%N)].
Lemma demo_py_mw :
  exists t, py_mw_history t_empty h_demo = Some t /\
    py_mwcount_c t [112; 97; 115; 115]%N = Some (c_threshold + 1) /\
    py_mwparse_c t [112; 97; 115; 115; 119; 111; 114; 100]%N = Some (true, [[112; 97; 115; 115]; [119; 111; 114; 100]]%N) /\
    py_mwparse_c t [112; 97; 115; 115; 119; 111; 114; 107]%N = Some (false, [[112; 97; 115; 115; 119; 111; 114; 107]]%N).
Proof. eexists. split; [vm_compute; reflexivity|]. repeat split; vm_compute; reflexivity. Qed.

(* ------------------------------------------------------------------ *)
(* the e-mail and website detectors                                    *)
(* ------------------------------------------------------------------ *)

(* one call of the translated detector on an unlabelled section, read as
   email_detection / website_detection read it (`if email:` / `if url:`) *)
Definition py_detect_email_c (s : str) : dres (str * str) :=
  dres_email (py_detect_email c_lower tld_list (s, None)).
Definition py_detect_website_c (s : str) : dres (str * str * option str) :=
  dres_web (py_detect_website c_isalpha c_lower tld_list (s, None)).

Theorem py_detect_email_c_is_model s : py_detect_email_c s = detect_email c_lower true tld_list s.
Proof. exact (py_detect_email_eq c_lower tld_list (s, None)). Qed.
Theorem py_detect_website_c_is_model s : py_detect_website_c s = detect_website c_isalpha c_lower true tld_list s.
Proof. exact (py_detect_website_eq c_isalpha c_lower tld_list (s, None) side_tlds_nonempty). Qed.

Lemma det_split_ok_ext {F} (d1 d2 : str -> dres F) : (forall s, d1 s = d2 s) ->
  det_split_ok c_isalpha c_isdigit c_lower c_kbs c_min_run year_prefixes context_strings d2 ->
  det_split_ok c_isalpha c_isdigit c_lower c_kbs c_min_run year_prefixes context_strings d1.
Proof.
  intros E (H1 & H2). split.
  - intros s Hg. rewrite E. now apply H1.
  - intros s p f Hg Hs D. rewrite E in D. now apply (H2 s p f).
Qed.

(* email_split_ok / website_split_ok for the translated detectors: no exception on a
   good section, and what they return splits the section into sound tiles *)
Theorem py_email_split_ok :
  det_split_ok c_isalpha c_isdigit c_lower c_kbs c_min_run year_prefixes context_strings py_detect_email_c.
Proof.
  apply (det_split_ok_ext _ _ py_detect_email_c_is_model).
  exact (email_split_ok_proved c_isalpha c_isdigit c_lower c_kbs c_min_run tld_list year_prefixes context_strings).
Qed.
Theorem py_website_split_ok :
  det_split_ok c_isalpha c_isdigit c_lower c_kbs c_min_run year_prefixes context_strings py_detect_website_c.
Proof.
  apply (det_split_ok_ext _ _ py_detect_website_c_is_model).
  exact (website_split_ok_proved c_isalpha c_isdigit c_lower c_kbs c_min_run tld_list year_prefixes context_strings
           side_tlds_nonempty).
Qed.

(* the translated loops never raise (in particular their fuel suffices) and return the
   model's section list and found lists *)
Theorem py_email_detection_c_is_model sl :
  py_email_detection c_lower tld_list sl =
  match drive_all (detect_email c_lower true tld_list) false sl with
  | None => None
  | Some (out, fs) => Some (out, map fst fs, map (fun f => Some (snd f)) fs)
  end.
Proof. apply py_email_detection_eq. Qed.
Theorem py_website_detection_c_is_model sl :
  py_website_detection c_isalpha c_lower tld_list sl =
  match drive_all (detect_website c_isalpha c_lower true tld_list) false sl with
  | None => None
  | Some (out, fs) => Some (out, map (fun f => fst (fst f)) fs, map (fun f => Some (snd (fst f))) fs, map snd fs)
  end.
Proof. apply py_website_detection_eq. exact side_tlds_nonempty. Qed.

(* the generated code runs: 'bob@hotmail.com123' and 'xxwww.rockyou.com/abc' *)
Lemma demo_py_email_web :
  py_detect_email c_lower tld_list ([98; 111; 98; 64; 104; 111; 116; 109; 97; 105; 108; 46; 99; 111; 109; 49; 50; 51]%N, None) =
    Some (PList [([98; 111; 98; 64; 104; 111; 116; 109; 97; 105; 108; 46; 99; 111; 109]%N, Some LE); ([49; 50; 51]%N, None)],
          Some [98; 111; 98; 64; 104; 111; 116; 109; 97; 105; 108; 46; 99; 111; 109]%N,
          Some [104; 111; 116; 109; 97; 105; 108; 46; 99; 111; 109]%N) /\
  py_website_detection c_isalpha c_lower tld_list
    [([120; 120; 119; 119; 119; 46; 114; 111; 99; 107; 121; 111; 117; 46; 99; 111; 109; 47; 97; 98; 99]%N, None)] =
    Some ([([120; 120]%N, None);
           ([119; 119; 119; 46; 114; 111; 99; 107; 121; 111; 117; 46; 99; 111; 109; 47; 97; 98; 99]%N, Some LW)],
          [[119; 119; 119; 46; 114; 111; 99; 107; 121; 111; 117; 46; 99; 111; 109; 47; 97; 98; 99]%N],
          [Some [114; 111; 99; 107; 121; 111; 117; 46; 99; 111; 109]%N], [Some [119; 119; 119; 46]%N]).
Proof. split; vm_compute; reflexivity. Qed.

(* ------------------------------------------------------------------ *)
(* PCFGPasswordParser.parse over the translated detectors              *)
(* ------------------------------------------------------------------ *)

(* the model's driver and alpha detector only apply their oracles *)
Lemma drive_ext {F} (d1 d2 : str -> dres F) reex : (forall s, d1 s = d2 s) ->
  forall fuel todo, drive d1 reex fuel todo = drive d2 reex fuel todo.
Proof.
  intros E. induction fuel as [|f IH]; intros todo; destruct todo as [|[s [l|]] rest]; cbn [drive]; try reflexivity.
  - now rewrite IH.
  - rewrite E. destruct (d2 s) as [| |p found]; [reflexivity|now rewrite IH|].
    destruct reex; [now rewrite IH|]. destruct (p ++ rest); [reflexivity|now rewrite IH].
Qed.

Lemma detect_alpha_ext isalpha isupper lower_c aligned (f g : str -> option (bool * list str)) :
  (forall x, f x = g x) -> forall s, detect_alpha isalpha isupper lower_c aligned f s = detect_alpha isalpha isupper lower_c aligned g s.
Proof. intros E s. unfold detect_alpha. cbv zeta. destruct (first_run _ _) as [[a b]|]; [|reflexivity]. now rewrite E. Qed.

Section ParseExt.
Variables isalpha isdigit isupper : N -> bool.
Variable lower_c : N -> str.
Variable kbs : list board.
Variable fp_words : list str.
Variable min_run : Z.
Variable tlds : list str.
Variables thr minl maxl : Z.

(* py_parse_eq for ANY implementations of the four parameters of the generated parse that
   agree with the model's: multiword_detector.parse, and the effect of detect_keyboard_walk /
   email_detection / website_detection on the section list *)
Theorem py_parse_eq_ext (m : mwmap) (mwp : str -> option (bool * list str))
        (kw : str -> option (list section)) (em web : list section -> option (list section)) (pw : str) :
  (forall x, mwp x = mwparse lower_c thr minl maxl m x) ->
  kw pw = model_keyboard_walk isalpha isdigit lower_c kbs fp_words min_run pw ->
  (forall sl, em sl = model_email_detection lower_c tlds sl) ->
  (forall sl, web sl = model_website_detection isalpha lower_c tlds sl) ->
  py_parse isalpha isdigit isupper lower_c mwp kw em web pw =
  parse_view (parse isalpha isdigit isupper lower_c true kbs fp_words min_run tlds year_prefixes context_strings
                    thr minl maxl m pw).
Proof.
  intros Hmw Hkw Hem Hweb.
  rewrite <- (py_parse_eq isalpha isdigit isupper lower_c kbs fp_words min_run tlds thr minl maxl m pw).
  unfold py_parse. rewrite Hkw.
  destruct (model_keyboard_walk isalpha isdigit lower_c kbs fp_words min_run pw) as [sl0|]; cbn [call]; [|reflexivity].
  rewrite Hem. destruct (model_email_detection lower_c tlds sl0) as [sl1|]; cbn [call]; [|reflexivity].
  rewrite Hweb. destruct (model_website_detection isalpha lower_c tlds sl1) as [sl2|]; cbn [call]; [|reflexivity].
  destruct (py_year_detection isdigit sl2) as [[sl3 ys]|]; cbn [call]; [|reflexivity].
  destruct (py_context_sensitive_detection isdigit sl3) as [[sl4 cs]|]; cbn [call]; [|reflexivity].
  rewrite !py_alpha_detection_eq. unfold drive_all.
  rewrite (drive_ext _ _ false (detect_alpha_ext isalpha isupper lower_c true _ _ Hmw)).
  reflexivity.
Qed.
End ParseExt.

(* the pipeline as the source has it: the translated parse over the translated multi-word
   detector, e-mail and website stages (the keyboard-walk stage: see below) *)
Definition py_email_stage_c (sl : list section) : option (list section) :=
  option_map (fun r => fst (fst r)) (py_email_detection c_lower tld_list sl).
Definition py_website_stage_c (sl : list section) : option (list section) :=
  option_map (fun r => fst (fst (fst r))) (py_website_detection c_isalpha c_lower tld_list sl).

Lemma py_email_stage_c_is_model sl : py_email_stage_c sl = model_email_detection c_lower tld_list sl.
Proof.
  unfold py_email_stage_c, model_email_detection. rewrite py_email_detection_c_is_model.
  now destruct (drive_all _ _ sl) as [[out fs]|].
Qed.
Lemma py_website_stage_c_is_model sl : py_website_stage_c sl = model_website_detection c_isalpha c_lower tld_list sl.
Proof.
  unfold py_website_stage_c, model_website_detection. rewrite py_website_detection_c_is_model.
  now destruct (drive_all _ _ sl) as [[out fs]|].
Qed.

(* ------------------------------------------------------------------ *)
(* the keyboard-walk detector                                          *)
(* ------------------------------------------------------------------ *)

(* the layouts as the translator reads them off the dict literals of _get_us_keyboard /
   _get_jcuken_keyboard are the rows the constants extractor got by calling them, and the
   default of min_keyboard_run is the extracted one *)
Lemma side_py_kbs : py_kbs = c_kbs.
Proof. vm_compute. reflexivity. Qed.
Lemma side_min_run_4 : c_min_run = 4.
Proof. reflexivity. Qed.

(* detect_keyboard_walk(password) as parse() calls it (the translated loops carry their own
   fuel, one more than the length of the password) *)
Definition py_keyboard_walk_c (pw : str) : option (list section * list str * list str) :=
  py_detect_keyboard_walk c_isalpha c_isdigit c_lower pw py_detect_keyboard_walk_default_min_keyboard_run.

(* the default the source gives min_keyboard_run is the one the recursive call and the model use *)
Lemma side_default_min_run : py_detect_keyboard_walk_default_min_keyboard_run = 4.
Proof. reflexivity. Qed.

Theorem py_keyboard_walk_c_is_model pw :
  kw_view (py_keyboard_walk_c pw) =
  detect_keyboard_walk c_isalpha c_isdigit c_lower c_kbs kb_false_positive_words c_min_run (length pw) pw.
Proof. unfold py_keyboard_walk_c. rewrite side_default_min_run, py_detect_keyboard_walk_eq, side_py_kbs. reflexivity. Qed.

(* keyboard_split_ok for the translated detector: it does not raise (the fuel of the
   recursion suffices), its sections tile the password and are soundly labelled *)
Theorem py_keyboard_split_ok : forall pw, pw <> [] ->
  exists sl f dk, py_keyboard_walk_c pw = Some (sl, f, dk) /\ tiles c_pm pw sl /\ Forall c_sound sl.
Proof.
  intros pw H. destruct (kw_c_ok pw H) as (sl & f & E & Ht & Hs).
  rewrite <- py_keyboard_walk_c_is_model in E.
  destruct (py_keyboard_walk_c pw) as [[[sl' f'] dk]|]; [|discriminate]. cbn in E. injection E as -> ->.
  exists sl, f, dk. auto.
Qed.

(* R24: for EVERY password (the empty one and one of a thousand walks included) the
   translated detect_keyboard_walk returns: no exception, and the fuel of its two loops
   suffices.  For every oracle: py_detect_keyboard_walk_total. *)
Theorem py_keyboard_walk_c_total : forall pw, py_keyboard_walk_c pw <> None.
Proof. intros pw. unfold py_keyboard_walk_c. rewrite side_default_min_run. apply py_detect_keyboard_walk_total. Qed.

Definition py_keyboard_stage_c (pw : str) : option (list section) :=
  option_map (fun r => fst (fst r)) (py_keyboard_walk_c pw).

Lemma py_keyboard_stage_c_is_model pw :
  py_keyboard_stage_c pw = model_keyboard_walk c_isalpha c_isdigit c_lower c_kbs kb_false_positive_words c_min_run pw.
Proof.
  unfold py_keyboard_stage_c, model_keyboard_walk. rewrite <- py_keyboard_walk_c_is_model.
  now destruct (py_keyboard_walk_c pw) as [[[sl f] dk]|].
Qed.

(* ------------------------------------------------------------------ *)
(* the whole pipeline, translated                                      *)
(* ------------------------------------------------------------------ *)

(* PCFGPasswordParser.parse over the translated detect_keyboard_walk, email_detection,
   website_detection and MultiWordDetector.parse (t: the trie of the detector object):
   nothing of the trainer's segmentation is a model parameter any more *)
Definition py_parse_full_c (t : trie) (pw : str) :=
  py_parse c_isalpha c_isdigit c_isupper c_lower (py_mwparse_c t)
           py_keyboard_stage_c py_email_stage_c py_website_stage_c pw.

Theorem py_parse_full_c_is_model t m pw : mw_rep t m -> py_parse_full_c t pw = parse_view (parse_c m pw).
Proof.
  intros Hr. unfold py_parse_full_c, parse_c, parse_gen. rewrite side_lower_aligned.
  apply py_parse_eq_ext.
  - intros x. now apply py_mwparse_c_is_model.
  - apply py_keyboard_stage_c_is_model.
  - apply py_email_stage_c_is_model.
  - apply py_website_stage_c_is_model.
Qed.

(* C05 for the fully translated pipeline, for every reachable state of the detector *)
Theorem py_parse_full_c_tiling : forall t pw, mw_reachable t -> pw <> [] ->
  exists sl ys cs al ms ds os, py_parse_full_c t pw = Some (sl, ys, cs, al, ms, ds, os) /\
    tiles c_pm pw sl /\ Forall c_sound sl /\ Forall (fun y => snd y <> None) sl.
Proof.
  intros t pw Hre H. destruct (mw_reachable_rep t Hre) as (m & Hr).
  rewrite (py_parse_full_c_is_model t m pw Hr), <- py_parse_c_is_model. now apply py_parse_c_tiling.
Qed.

Theorem py_parse_full_c_never_raises : forall t pw, mw_reachable t -> pw <> [] -> py_parse_full_c t pw <> None.
Proof.
  intros t pw Hre H. destruct (py_parse_full_c_tiling t pw Hre H) as (sl & ys & cs & al & ms & ds & os & E & _). now rewrite E.
Qed.

(* the generated code runs: '1qaz2019#1pass!' through the fully translated pipeline,
   and 'test1qaztest' through the translated keyboard-walk detector *)
Lemma demo_py_parse_full :
  py_parse_full_c t_empty w_demo =
  Some ([([49; 113; 97; 122]%N, Some (LK 4)); ([50; 48; 49; 57]%N, Some LY); ([35; 49]%N, Some LX);
         ([112; 97; 115; 115]%N, Some (LA 4)); ([33]%N, Some (LO 1))],
        [[50; 48; 49; 57]%N], [[35; 49]%N], [[112; 97; 115; 115]%N], [[76; 76; 76; 76]%N], [], [[33]%N]) /\
  py_keyboard_walk_c [116; 101; 115; 116; 49; 113; 97; 122; 116; 101; 115; 116]%N =
  Some ([([116; 101; 115; 116]%N, None); ([49; 113; 97; 122]%N, Some (LK 4)); ([116; 101; 115; 116]%N, None)],
        [[49; 113; 97; 122]%N], [[113; 119; 101; 114; 116; 121]%N]).
Proof. split; vm_compute; reflexivity. Qed.
