(* The C05 theorems transported to the generated detectors of the second translator
   (gen/DetectMw_gen.v, gen/DetectEmail_gen.v, gen/DetectWeb_gen.v, gen/DetectKbd_gen.v:
   the translation of the current Python source of the multi-word detector and of the
   e-mail / website / keyboard-walk detectors), through the equalities of
   DetectGenProofsMw.v etc.  The instance is the one the correspondence runs
   (constants of gen/Consts_gen.v, Unicode facts of gen/Unicode_gen.v). *)
From Coq Require Import List ZArith NArith Bool Lia.
From Pcfg Require Import Str Multiword Detect Segment SegCorr DetectRt DetectRt2 DetectProofsStr DetectProofsMw
     DetectProofsInst DetectGenProofs DetectGenProofsMw.
From PcfgGen Require Import Consts_gen Unicode_gen DetectMw_gen.
Import ListNotations.
Open Scope Z_scope.

(* ------------------------------------------------------------------ *)
(* the multi-word detector                                             *)
(* ------------------------------------------------------------------ *)

(* the translated methods with the constructor arguments of run_trainer.py and
   the character tables of the running interpreter *)
Definition py_mwtrain_c (t : trie) (set_threshold : bool) (pw : str) : option trie :=
  py_mw_train c_isalpha c_lower c_threshold c_min_len c_max_len t pw set_threshold.
Definition py_mwcount_c (t : trie) (w : str) : option Z := py_mw_get_count c_lower t w.
Definition py_mwparse_c (t : trie) (s : str) : option (bool * list str) :=
  py_mw_parse c_lower c_threshold c_min_len c_max_len t s.

(* a training history: the calls train(pw, set_threshold) made on a fresh detector *)
Fixpoint py_mw_history (t : trie) (h : list (bool * str)) : option trie :=
  match h with
  | [] => Some t
  | (st, pw) :: r => match py_mwtrain_c t st pw with Some t' => py_mw_history t' r | None => None end
  end.
Definition mw_history (m : mwmap) (h : list (bool * str)) : mwmap :=
  fold_left (fun m x => train_c m (fst x) (snd x)) h m.

(* train never raises, and the trie it leaves represents the model's map *)
Theorem py_mwtrain_c_is_model t m st pw : mw_rep t m ->
  exists t', py_mwtrain_c t st pw = Some t' /\ mw_rep t' (train_c m st pw).
Proof. apply py_mw_train_eq. Qed.

Theorem py_mw_history_is_model : forall h t m, mw_rep t m ->
  exists t', py_mw_history t h = Some t' /\ mw_rep t' (mw_history m h).
Proof.
  induction h as [|[st pw] h IH]; intros t m Hr; cbn [py_mw_history mw_history fold_left fst snd]; [eauto|].
  destruct (py_mwtrain_c_is_model t m st pw Hr) as (t1 & -> & Hr1). now apply IH.
Qed.

(* every state of the detector reachable from the constructor by calls of train *)
Definition mw_reachable (t : trie) : Prop := exists h, py_mw_history t_empty h = Some t.

Lemma mw_reachable_rep t : mw_reachable t -> exists m, mw_rep t m.
Proof.
  intros (h & E). destruct (py_mw_history_is_model h t_empty [] rep_empty) as (t' & E' & Hr).
  rewrite E in E'. injection E' as <-. eauto.
Qed.

Theorem py_mwcount_c_is_model t m w : mw_rep t m -> py_mwcount_c t w = Some (mwcount_c m w).
Proof. apply py_mw_get_count_eq. Qed.

Theorem py_mwparse_c_is_model t m s : mw_rep t m -> py_mwparse_c t s = mwparse_c m s.
Proof. intros Hr. now apply py_mw_parse_eq. Qed.

(* C05_sound_multiword for the translated detector, in terms of the translated
   _get_count only: for EVERY reachable state, parse returns the word itself or a
   split into >= 2 parts that concatenate to it, each seen >= threshold times and of
   length >= min_len, of a word seen < threshold times; and it never raises (the
   fuel of the recursion suffices) *)
Definition py_base_word (t : trie) (w : str) : Prop :=
  exists v, py_mwcount_c t w = Some v /\ c_threshold <= v /\ c_min_len <= len w.

Theorem py_mwparse_c_sound t s b ws : mw_reachable t -> py_mwparse_c t s = Some (b, ws) ->
  ws = [s] \/ (concat ws = s /\ Forall (py_base_word t) ws /\ (2 <= length ws)%nat /\
               exists v, py_mwcount_c t s = Some v /\ v < c_threshold).
Proof.
  intros Hre H. destruct (mw_reachable_rep t Hre) as (m & Hr).
  rewrite (py_mwparse_c_is_model t m s Hr) in H.
  destruct (mw_parse_spec c_lower c_threshold c_min_len c_max_len side_min_len m s b ws H) as [->|((Hc & Hf & Hl) & Hlt)];
    [now left|right].
  repeat split; try assumption.
  - eapply Forall_impl; [|exact Hf]. intros w (H1 & H2). exists (mwcount_c m w). split; [now apply py_mwcount_c_is_model|]. split; assumption.
  - exists (mwcount_c m s). split; [now apply py_mwcount_c_is_model|assumption].
Qed.

Theorem py_mwparse_c_never_raises t s : mw_reachable t -> py_mwparse_c t s <> None.
Proof.
  intros Hre. destruct (mw_reachable_rep t Hre) as (m & Hr). rewrite (py_mwparse_c_is_model t m s Hr).
  apply mw_parse_total. exact side_min_len.
Qed.

(* the generated code runs: train('pass', True), train('word', True), train('x1pass!word'),
   then parse('password') = (True, ['pass', 'word']), parse('passwork') = (False, ['passwork']) *)
Definition h_demo : list (bool * str) :=
  [(true, [112; 97; 115; 115]%N); (true, [119; 111; 114; 100]%N);
   (false, [120; 49; 112; 97; 115; 115; 33; 119; 111; 114; 100]%N)].
Lemma demo_py_mw :
  exists t, py_mw_history t_empty h_demo = Some t /\
    py_mwcount_c t [112; 97; 115; 115]%N = Some (c_threshold + 1) /\
    py_mwparse_c t [112; 97; 115; 115; 119; 111; 114; 100]%N = Some (true, [[112; 97; 115; 115]; [119; 111; 114; 100]]%N) /\
    py_mwparse_c t [112; 97; 115; 115; 119; 111; 114; 107]%N = Some (false, [[112; 97; 115; 115; 119; 111; 114; 107]]%N).
Proof. eexists. split; [vm_compute; reflexivity|]. repeat split; vm_compute; reflexivity. Qed.
