(* TrainerRunModel.v - the hand-written model of the trainer's orchestration that the translated
   run_trainer / parse_command_line / main (gen/TrainerRun_gen.v) are proved equal to
   (TrainerRunGenProofs.v), for every instantiation of the collaborators.  Definitions only.

   The model says what the property texts say about the three passes:
   * the training file is opened and read ONCE ([reading]); the three passes are three folds over that one
     sequence ([pass]), each followed by the reader's own ending;
   * pass 1 feeds every password to the alphabet generator, then to the multi-word detector (after the
     optional pre-training list, read with the same encoding and without count prefix);
     N = num_passwords of the reader of pass 1;
   * pass 2 feeds every password to the OMEN trainer, then to ONE PCFG parser made from the detector as
     pass 1 left it; nothing touches that parser before print_statistics, the Markov pseudo-count
     (Counters.with_markov on its count_base_structures) and the three writers, in this order;
   * pass 3 evaluates the OMEN level of every password against the smoothed OMEN trainer;
   * an exception in pass 1 returns False, in pass 2 / 3 returns None, anywhere else it propagates;
     nothing is written unless the three passes completed. *)
From Coq Require Import String Ascii.
From Coq Require Import List NArith ZArith Bool.
From Pcfg Require Import TextFile Counters WriterRt TrainerRunRt.
Import ListNotations.

(* a loop of a pass: a fold that stops at the first exception *)
Fixpoint fold_res {S X : Type} (step : S -> X -> res S) (l : list X) (s : S) : res S :=
  match l with
  | [] => Ok s
  | x :: r => match step s x with
              | Ok s' => fold_res step r s'
              | Raise e => Raise e
              end
  end.

Definition rbind {A B : Type} (r : res A) (k : A -> res B) : res B :=
  match r with
  | Ok a => k a
  | Raise e => Raise e
  end.

(* an exception outside the try blocks leaves run_trainer, the world as it is *)
Definition rlet {A R W : Type} (r : res A) (w : W) (k : A -> res R * W) : res R * W :=
  match r with
  | Ok a => k a
  | Raise e => (Raise e, w)
  end.

(* the Markov block: without OMEN n-grams and with a coverage other than 1 nothing is saved *)
Definition m_markov {O : numops} (cov : num O) (n : N) (omen c : counter O) : out bool (counter O) :=
  match omen with
  | [] => if neqb O cov (none O) then Norm c else Retn false
  | _ :: _ => Norm (with_markov cov n c)
  end.

Section Model.
Context {O : numops} (C : collab O).

(* one opening and reading of a file: the sequence, how the reader ends, the reader afterwards *)
Definition reading (name enc : option str) (prefix : bool) (w : c_W C) : res (list str * option exn * c_FI C) :=
  rbind (c_TrainerFileInput C name enc prefix w) (fun fi => Ok (c_read_password C fi w)).

(* a pass over a reading *)
Definition pass {S : Type} (rd : list str * option exn * c_FI C) (step : S -> str -> res S) (s : S) : res (c_FI C * S) :=
  rbind (fold_res step (fst (fst rd)) s) (fun s' =>
  match snd (fst rd) with
  | Some e => Raise e
  | None => Ok (snd rd, s')
  end).

Definition step_pre (mw : c_MW C) (word : str) : res (c_MW C) := c_mw_train C mw word true.

Definition step1 (s : c_AG C * c_MW C) (pw : str) : res (c_AG C * c_MW C) :=
  rbind (c_process_password C (fst s) pw) (fun ag =>
  rbind (c_mw_train C (snd s) pw false) (fun mw => Ok (ag, mw))).

Definition step2 (s : c_OT C * c_PP C) (pw : str) : res (c_OT C * c_PP C) :=
  rbind (c_ot_parse C (fst s) pw) (fun ot =>
  rbind (c_pp_parse C (snd s) pw) (fun pp => Ok (ot, pp))).

Definition step3 (ot : c_OT C) (lc : list (Z * N)) (pw : str) : res (list (Z * N)) :=
  rbind (c_find_omen_level C ot pw) (fun level => Ok (zcnt_add level 1 lc)).

(* --multiword: the detector after the pre-training list *)
Definition pretrain (pi : pinfo O) (mw : c_MW C) (w : c_W C) : res (c_MW C) :=
  if ostr_truthy (pi_multiword pi) then
    rbind (reading (pi_multiword pi) (pi_encoding pi) false w) (fun rd =>
    rbind (pass rd step_pre mw) (fun r => Ok (snd r)))
  else Ok mw.

(* the three writers, in the order of the source; the first False / exception ends the run *)
Definition save_all (pi : pinfo O) (base : path) (fi : c_FI C) (ot : c_OT C) (ks : c_KS C) (lc : list (Z * N)) (n : N)
    (pp : c_PP C) (w : c_W C) : res (option bool) * c_W C :=
  match c_save_config_file C base pi fi pp w with
  | (Raise e, w1) => (Raise e, w1)
  | (Ok false, w1) => (Ok (Some false), w1)
  | (Ok true, w1) =>
      match c_save_omen_rules_to_disk C ot ks lc n base pi w1 with
      | (Raise e, w2) => (Raise e, w2)
      | (Ok false, w2) => (Ok (Some false), w2)
      | (Ok true, w2) =>
          match c_save_pcfg_data C base pp (pi_encoding pi) (pi_save_sensitive pi) w2 with
          | (Raise e, w3) => (Raise e, w3)
          | (Ok b, w3) => (Ok (Some b), w3)
          end
      end
  end.

(* what the passes hand to the writers *)
Record trained_objs := {
  to_pinfo : pinfo O;                (* program_info with the learned alphabet *)
  to_reader : c_FI C;                (* the reader of pass 3 when it is exhausted *)
  to_omen : c_OT C;                  (* after pass 2 and smoothing *)
  to_keyspace : c_KS C;
  to_levels : list (Z * N);          (* pass 3 *)
  to_n : N;                          (* num_passwords of the reader of pass 1 *)
  to_parser : c_PP C                 (* after pass 2 and print_statistics *)
}.

(* the three passes.  Ok (inl b): run_trainer returns b without a ruleset *)
Definition passes (pi : pinfo O) (w : c_W C) : res (option bool + trained_objs) :=
  rbind (reading (pi_training_file pi) (pi_encoding pi) (pi_prefixcount pi) w) (fun rd =>
  rbind (c_AlphabetGenerator C (pi_alphabet_size pi) (pi_ngram pi)) (fun ag0 =>
  rbind (c_MultiWordDetector C 5 4 21) (fun mw0 =>
  rbind (pretrain pi mw0 w) (fun mw1 =>
  match pass rd step1 (ag0, mw1) with
  | Raise _ => Ok (inl (Some false))
  | Ok (fi1, (ag1, mw2)) =>
      rbind (c_get_alphabet C ag1) (fun alpha =>
      let n := c_num_passwords C fi1 in
      if N.eqb n 0 then Ok (inl (Some false)) else
      rbind (c_AlphabetLookup C alpha (pi_ngram pi) 1 (pi_max_len pi)) (fun ot0 =>
      rbind (c_PCFGPasswordParser C mw2) (fun pp0 =>
      match pass rd step2 (ot0, pp0) with
      | Raise _ => Ok (inl None)
      | Ok (_, (ot1, pp1)) =>
          rbind (c_apply_smoothing C ot1) (fun ot2 =>
          rbind (c_calc_omen_keyspace C ot2 18 10000000000) (fun ks =>
          match pass rd (step3 ot2) [] with
          | Raise _ => Ok (inl None)
          | Ok (fi3, lc) =>
              rbind (c_print_statistics C pp1) (fun pp2 =>
              Ok (inr {| to_pinfo := set_pi_alphabet pi alpha; to_reader := fi3; to_omen := ot2; to_keyspace := ks;
                         to_levels := lc; to_n := n; to_parser := pp2 |}))
          end))
      end)))
  end)))).

(* the Markov pseudo-count on the parser's count_base_structures, then the writers *)
Definition finish (base : path) (t : trained_objs) (w : c_W C) : res (option bool) * c_W C :=
  let pp := to_parser t in
  match m_markov (pi_coverage (to_pinfo t)) (to_n t) (c_ks_counter C (to_keyspace t))
                 (po_count_base_structures (c_pp_view C pp)) with
  | Exc e => (Raise e, w)
  | Retn b => (Ok (Some b), w)
  | Norm cbs =>
      save_all (to_pinfo t) base (to_reader t) (to_omen t) (to_keyspace t) (to_levels t) (to_n t)
               (c_pp_update C pp (set_po_count_base_structures (c_pp_view C pp) cbs)) w
  end.

Definition m_run_trainer (pi : pinfo O) (base : path) (w : c_W C) : res (option bool) * c_W C :=
  match passes pi w with
  | Raise e => (Raise e, w)
  | Ok (inl b) => (Ok b, w)
  | Ok (inr t) => finish base t w
  end.

End Model.
Arguments to_pinfo {O C}. Arguments to_reader {O C}. Arguments to_omen {O C}. Arguments to_keyspace {O C}.
Arguments to_levels {O C}. Arguments to_n {O C}. Arguments to_parser {O C}.

(* ---------------------------------------------------------------- print_statistics, the parser's start *)

Definition empty_parser {O : numops} : parser_obj O :=
  {| po_count_keyboard := []; po_count_emails := []; po_count_email_providers := []; po_count_website_urls := [];
     po_count_website_hosts := []; po_count_website_prefixes := []; po_count_years := []; po_count_context_sensitive := [];
     po_count_alpha := []; po_count_alpha_masks := []; po_count_digits := []; po_count_other := [];
     po_count_base_structures := []; po_count_raw_base_structures := []; po_count_prince := [] |}.

(* ---------------------------------------------------------------- the command line *)

Definition expected_cli_options : list cli_opt :=
  let opt flags dest ty act req def ch :=
      {| co_flags := flags; co_dest := dest; co_type := ty; co_action := act; co_required := req; co_default := def;
         co_choices := ch |} in
  [ opt ["--rule"; "-r"] "rule" TyStr ActStore false (DInfo "rule_name") None;
    opt ["--training"; "-t"] "training" TyStr ActStore true DNone None;
    opt ["--encoding"; "-e"] "encoding" TyStr ActStore false DNone None;
    opt ["--comments"] "comments" TyStr ActStore false (DInfo "comments") None;
    opt ["--save_sensitive"] "save_sensitive" TyStr ActStoreTrue false (DBool false) None;
    opt ["--prefixcount"] "prefixcount" TyStr ActStoreTrue false (DInfo "prefixcount") None;
    opt ["--ngram"; "-n"] "ngram" TyInt ActStore false (DInfo "ngram") (Some [2; 3; 4; 5]%Z);
    opt ["--alphabet"; "-a"] "alphabet" TyInt ActStore false (DInfo "alphabet_size") None;
    opt ["--coverage"; "-c"] "coverage" TyFloat ActStore false (DInfo "coverage") None;
    opt ["--multiword"; "-m"] "multiword" TyStr ActStore false DNone None ]%string.

(* program_info after parse_command_line: every option lands in its key, the other keys stay *)
Definition cli_pinfo {O : numops} (a : cli_args O) (pi : pinfo O) : pinfo O :=
  {| pi_name := pi_name pi; pi_version := pi_version pi; pi_author := pi_author pi; pi_contact := pi_contact pi;
     pi_rule_name := a_rule a; pi_training_file := a_training a; pi_encoding := a_encoding a; pi_comments := a_comments a;
     pi_save_sensitive := a_save_sensitive a; pi_prefixcount := a_prefixcount a;
     pi_ngram := a_ngram a; pi_alphabet_size := a_alphabet a; pi_alphabet := pi_alphabet pi;
     pi_smoothing := pi_smoothing pi; pi_coverage := a_coverage a; pi_max_len := pi_max_len pi;
     pi_multiword := a_multiword a |}.

(* the coverage is refused iff it is below 0 or above 1 (0 and 1 themselves are accepted) *)
Definition coverage_ok {O : numops} (cov : num O) : bool :=
  negb (nltb O cov (nzero O) || nltb O (none O) cov).

Definition m_parse_command_line {O : numops} (a : cli_args O) (pi : pinfo O) : bool * pinfo O :=
  (coverage_ok (a_coverage a), cli_pinfo a pi).

Section Main.
Context {O : numops} (C : main_collab O).

(* the encoding of the run: the one given, else the first candidate of the auto-detection *)
Definition m_encoding (pi : pinfo O) (w : mc_W C) : res (option (option str)) :=
  match pi_encoding pi with
  | Some e => Ok (Some (Some e))
  | None =>
      rbind (mc_detect_file_encoding C (pi_training_file pi) [] 500000 w) (fun r =>
      if fst r then match snd r with
                    | [] => Raise IndexError
                    | e :: _ => Ok (Some (Some e))
                    end
      else Ok None)
  end.

Definition m_main (defaults : pinfo O) (script_dir : path) (w : mc_W C) : res unit * mc_W C :=
  rlet (mc_parse_args C expected_cli_options w) w (fun a =>
  if negb (coverage_ok (a_coverage a)) then (Ok tt, w) else
  let pi := cli_pinfo a defaults in
  rlet (m_encoding pi w) w (fun enc =>
  match enc with
  | None => (Ok tt, w)
  | Some e =>
      let pi' := set_pi_encoding pi e in
      let base := path_join (path_join script_dir (str_of_string "Rules")) (pi_rule_name pi') in
      match mc_create_rule_folders C base w with
      | (Raise x, w1) => (Raise x, w1)
      | (Ok false, w1) => (Ok tt, w1)
      | (Ok true, w1) =>
          match mc_run_trainer C pi' base w1 with
          | (Raise x, w2) => (Raise x, w2)
          | (Ok _, w2) => (Ok tt, w2)
          end
      end
  end)).
End Main.
