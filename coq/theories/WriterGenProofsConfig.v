(* The generated create_filename_list, add_* and create_config_file (gen/WriterConfig_gen.v: the
   translation of the Python text of lib_trainer/config_file.py, redone on every run) build a
   configuration whose `filenames` lists and `directory` entries are exactly
   Counters.config_lists / config_dirs (plus the START section: grammar.txt in Grammar).

   The statements are about membership (`In`), so the order in which the sections are added does
   not matter; the proofs compute the configuration with the file-name lists kept symbolic. *)
From Coq Require Import String Ascii.
From Coq Require Import List NArith Bool Lia.
From Pcfg Require Import TextFile Counters CountersProofs WriterRt WriterSpec WriterRtProofs.
From PcfgGen Require Import WriterConfig_gen.
Import ListNotations.
Open Scope N_scope.
Local Notation s_ := str_of_string.

(* two spellings are recognised: the in-place loop `for i, name in enumerate(l): l[i] = str(name) + '.txt'`
   and the comprehension `[str(name) + '.txt' for name in d]` *)
Theorem config_filename_list_eq : forall (O : numops) (d : list (pykey * counter O)),
  py_create_filename_list O d = Ok (name_list d).
Proof.
  intros O d. unfold py_create_filename_list, name_list. cbv zeta.
  first
    [ rewrite (for_enum_cur_map (KInt 0) (fun k => KStr (file_name (py_str k)))) by (intros i x l; reflexivity);
      cbn [bind run_fn]; rewrite map_map; reflexivity
    | cbn [bind run_fn]; rewrite ?map_map; reflexivity ].
Qed.

Lemma name_list_strs {V : Type} (d : list (pykey * V)) : map py_str (name_list d) = filename_list (str_keys d).
Proof. unfold name_list, filename_list, str_keys. rewrite !map_map. reflexivity. Qed.

Theorem config_create_eq : forall (O : numops) (pp : parser_obj O),
  exists cfg, py_create_config_file O tt tt pp = Ok cfg /\
    (forall sec names, In (sec, names) (cfg_names cfg) <-> In (sec, names) (expected_names pp)) /\
    (forall sec dir, In (sec, dir) (cfg_dirs cfg) <-> In (sec, dir) expected_dirs).
Proof.
  intros O pp. unfold py_create_config_file. cbv zeta.
  rewrite !config_filename_list_eq. unfold expected_names, expected_dirs, config_dirs.
  generalize (name_list (po_count_alpha pp)) as fa, (name_list (po_count_digits pp)) as fd,
    (name_list (po_count_other pp)) as fo, (name_list (po_count_keyboard pp)) as fk,
    (name_list (po_count_alpha_masks pp)) as fc.
  intros fa fd fo fk fc.
  eexists. split.
  - vm_compute. reflexivity.
  - split; intros a b; vm_compute; tauto.
Qed.

(* the model's lists are the str() of the expected ones *)
Lemma expected_names_model : forall (O : numops) (P : pcounters) (base : counter O),
  map (fun sn => (fst sn, map py_str (snd sn))) (tl (expected_names (parser_of O P base))) = config_lists O P.
Proof.
  intros O P base. unfold expected_names, config_lists, parser_of, name_list, filename_list, lkeys, klkeys.
  cbn [tl map fst snd po_count_alpha po_count_digits po_count_other po_count_keyboard po_count_alpha_masks py_str].
  rewrite !map_map. reflexivity.
Qed.

Example config_example :
  let pp : parser_obj QNum :=
    parser_of QNum {| pc_keyboard := []; pc_emails := []; pc_email_providers := []; pc_website_urls := [];
                      pc_website_hosts := []; pc_website_prefixes := []; pc_years := []; pc_context := [];
                      pc_alpha := [(4, [([112;97;115;115], 1)])]; pc_masks := [(4, [([76;76;76;76], 1)])];
                      pc_digits := [(2, [([49;50], 1)]); (1, [([55], 2)])]; pc_other := [];
                      pc_structs := {| sc_base := []; sc_raw := []; sc_prince := [] |} |} [] in
  exists cfg, py_create_config_file QNum tt tt pp = Ok cfg /\
    In (s_ "BASE_D", [KStr (s_ "2.txt"); KStr (s_ "1.txt")]) (cfg_names cfg) /\
    In (s_ "BASE_D", s_ "Digits") (cfg_dirs cfg).
Proof. cbv zeta. eexists. split; [vm_compute; reflexivity|]. split; vm_compute; tauto. Qed.
