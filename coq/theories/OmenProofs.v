(* OmenProofs.v -- lemmas about the OMEN generator model (Omen.v) against the
   specification (OmenSpec.v).  Part 1: the indexed CP table, the memo table,
   _find_cp and _fill_out_parse_tree ("fill is the first completion, for every
   cache that only holds first completions"). *)
From Coq Require Import List Arith Bool NArith ZArith Lia.
From Pcfg Require Import OmenSpec Omen.
Import ListNotations.

(* ------------------------------------------------------------------ *)
(* equality tests                                                       *)

Lemma ostr_eqb_eq : forall a b, ostr_eqb a b = true <-> a = b.
Proof.
  induction a as [|x a IH]; destruct b as [|y b]; simpl; split; intro H; try discriminate; auto.
  - apply andb_true_iff in H. destruct H as [H1 H2]. apply N.eqb_eq in H1. apply IH in H2. subst. reflexivity.
  - inversion H; subst. apply andb_true_iff. split; [apply N.eqb_refl | apply IH; reflexivity].
Qed.

Lemma ostr_eqb_refl : forall a, ostr_eqb a a = true.
Proof. intro a. apply ostr_eqb_eq. reflexivity. Qed.

Lemma ostr_eqb_neq : forall a b, ostr_eqb a b = false <-> a <> b.
Proof.
  intros a b. split; intro H.
  - intro E. apply ostr_eqb_eq in E. congruence.
  - destruct (ostr_eqb a b) eqn:E; [|reflexivity]. apply ostr_eqb_eq in E. contradiction.
Qed.

Lemma ckey_eqb_eq : forall a b, ckey_eqb a b = true <-> a = b.
Proof.
  intros [[k1 p1] l1] [[k2 p2] l2]. simpl. rewrite !andb_true_iff, Nat.eqb_eq, Z.eqb_eq, ostr_eqb_eq.
  split; [intros [[? ?] ?]; subst; reflexivity | intro H; inversion H; auto].
Qed.

Lemma ckey_eqb_refl : forall a, ckey_eqb a a = true.
Proof. intro a. apply ckey_eqb_eq. reflexivity. Qed.

(* ------------------------------------------------------------------ *)
(* the indexed CP table equals the file lookup                          *)

Lemma lvl_lookup_insert : forall l0 ch m l,
  lvl_lookup l (lvl_insert l0 ch m) = if Nat.eqb l0 l then ch :: lvl_lookup l m else lvl_lookup l m.
Proof.
  intros l0 ch m l. induction m as [|[l' cs] r IH]; simpl.
  - destruct (Nat.eqb l0 l); reflexivity.
  - destruct (Nat.eqb l' l0) eqn:E1; simpl.
    + apply Nat.eqb_eq in E1. subst l'. destruct (Nat.eqb l0 l); reflexivity.
    + destruct (Nat.eqb l' l) eqn:E2.
      * apply Nat.eqb_eq in E2. subst l'. rewrite Nat.eqb_sym in E1. rewrite E1. reflexivity.
      * exact IH.
Qed.

Lemma idx_lookup_insert : forall p0 l0 ch t p l,
  idx_lookup (idx_insert p0 l0 ch t) p l =
  if ostr_eqb p0 p && Nat.eqb l0 l then ch :: idx_lookup t p l else idx_lookup t p l.
Proof.
  intros p0 l0 ch t p l. induction t as [|[p' m] r IH]; simpl.
  - destruct (ostr_eqb p0 p); simpl; [|reflexivity]. destruct (Nat.eqb l0 l); reflexivity.
  - destruct (ostr_eqb p' p0) eqn:E1; simpl.
    + apply ostr_eqb_eq in E1. subst p'. destruct (ostr_eqb p0 p) eqn:E2; simpl; [|reflexivity].
      apply lvl_lookup_insert.
    + destruct (ostr_eqb p' p) eqn:E2.
      * apply ostr_eqb_eq in E2. subst p'.
        assert (ostr_eqb p0 p = false) as ->.
        { apply ostr_eqb_neq. apply ostr_eqb_neq in E1. congruence. }
        reflexivity.
      * exact IH.
Qed.

Theorem cp_fast_ok : forall G p l, cp_fast G p l = cp_at G p l.
Proof.
  intros G p l. unfold cp_fast, cp_at. induction (og_cp G) as [|[l0 s] r IH]; simpl; [reflexivity|].
  unfold cp_line_matches at 1. simpl. destruct s as [|c s']; simpl fst; simpl snd.
  - rewrite andb_false_r. simpl. exact IH.
  - rewrite idx_lookup_insert. rewrite IH. simpl is_nil. simpl negb. rewrite andb_true_r.
    rewrite (andb_comm (Nat.eqb l0 l)).
    destruct (ostr_eqb (removelast (c :: s')) p && Nat.eqb l0 l); reflexivity.
Qed.

(* ------------------------------------------------------------------ *)
(* the memo table                                                       *)

Lemma clookup_cupdate : forall c k v k',
  clookup (cupdate c k v) k' = if ckey_eqb k k' then Some v else clookup c k'.
Proof.
  intros c [[k p] l] v [[k' p'] l']. induction c as [|[q b] r IH].
  - simpl. rewrite (andb_comm _ (ostr_eqb p p')). destruct (ostr_eqb p p'); [|reflexivity]. simpl.
    destruct (Nat.eqb k k' && Z.eqb l l'); reflexivity.
  - simpl. destruct (ostr_eqb q p) eqn:E1.
    + apply ostr_eqb_eq in E1. subst q. simpl.
      rewrite (andb_comm _ (ostr_eqb p p')). destruct (ostr_eqb p p') eqn:E2; [|reflexivity]. simpl.
      destruct (Nat.eqb k k' && Z.eqb l l'); reflexivity.
    + simpl. destruct (ostr_eqb q p') eqn:E2.
      * apply ostr_eqb_eq in E2. subst q.
        assert (ostr_eqb p p' = false) as ->.
        { apply ostr_eqb_neq. apply ostr_eqb_neq in E1. congruence. }
        rewrite andb_false_r. reflexivity.
      * exact IH.
Qed.

(* ------------------------------------------------------------------ *)
(* generic list facts                                                   *)

Lemma hd_error_app_l : forall {X} (a b : list X),
  hd_error (a ++ b) = match hd_error a with Some x => Some x | None => hd_error b end.
Proof. intros X [|x a] b; reflexivity. Qed.

Lemma hd_error_map : forall {X Y} (f : X -> Y) l, hd_error (map f l) = option_map f (hd_error l).
Proof. intros X Y f [|x l]; reflexivity. Qed.

Lemma flat_map_nil_all : forall {X Y} (g : X -> list Y) l, (forall x, In x l -> g x = []) -> flat_map g l = [].
Proof.
  intros X Y g l H. induction l as [|x r IH]; simpl; [reflexivity|].
  rewrite (H x (or_introl eq_refl)). simpl. apply IH. intros y Hy. apply H. right. exact Hy.
Qed.

Lemma in_down_from : forall n L, In L (down_from n) <-> L <= n.
Proof.
  induction n as [|n IH]; intro L; simpl.
  - split; [intros [H|[]]; lia | intro; left; lia].
  - rewrite IH. split; [intros [H|H]; lia | intro H; destruct (Nat.eq_dec L (S n)); [left; lia | right; lia]].
Qed.

Lemma in_levels_down : forall maxl lvl L,
  In L (levels_down maxl lvl) <-> (Z.of_nat L <= lvl)%Z /\ L <= maxl.
Proof.
  intros maxl lvl L. unfold levels_down. destruct (lvl <? 0)%Z eqn:E.
  - apply Z.ltb_lt in E. split; [intros [] | intros [H _]; lia].
  - apply Z.ltb_ge in E. rewrite in_down_from. lia.
Qed.

Lemma indexed_nil : forall {X} (l : list X), indexed l = [] <-> l = [].
Proof. intros X [|x l]; unfold indexed; simpl; split; intro H; try reflexivity; discriminate. Qed.

Lemma hd_error_indexed : forall {X} (l : list X),
  hd_error (indexed l) = match l with [] => None | x :: _ => Some (0, x) end.
Proof. intros X [|x l]; reflexivity. Qed.

(* first_st computes the head of a flat_map when each step computes the head
   of its own part and preserves the invariant on the threaded state *)
Lemma first_st_spec : forall {X S R} (I : S -> Prop) (g : X -> list R) (f : S -> X -> option R * S) xs s,
  (forall s x, In x xs -> I s -> fst (f s x) = hd_error (g x) /\ I (snd (f s x))) ->
  I s ->
  fst (first_st f s xs) = hd_error (flat_map g xs) /\ I (snd (first_st f s xs)).
Proof.
  intros X S R I g f xs. induction xs as [|x r IH]; intros s Hf Hs; simpl.
  - split; [reflexivity | exact Hs].
  - destruct (Hf s x (or_introl eq_refl) Hs) as [H1 H2].
    rewrite hd_error_app_l. destruct (f s x) as [[y|] s'] eqn:E; simpl in *.
    + rewrite <- H1. split; [reflexivity | exact H2].
    + rewrite <- H1. apply IH; [|exact H2]. intros s0 x0 Hx. apply Hf. right. exact Hx.
Qed.

(* ------------------------------------------------------------------ *)
Section Fill.
  Variable cpf : ostr -> nat -> list N.
  Variable maxl : nat.
  Variable optmax : nat.

  Notation compl := (completions_f cpf maxl).
  Notation fill := (fill cpf maxl optmax).
  Notation find_cp := (find_cp cpf maxl).

  (* every stored value is the first completion for its key *)
  Definition cache_ok (c : cache) : Prop :=
    forall k p lvl v, clookup c (k, p, lvl) = Some v -> v = hd_error (compl k p lvl).

  Lemma cache_ok_empty : cache_ok cempty.
  Proof. intros k p lvl v H. discriminate. Qed.

  Lemma cache_ok_update : forall c k p lvl,
    cache_ok c -> cache_ok (cupdate c (k, p, lvl) (hd_error (compl k p lvl))).
  Proof.
    intros c k p lvl Hc k' p' lvl' v H. rewrite clookup_cupdate in H.
    destruct (ckey_eqb (k, p, lvl) (k', p', lvl')) eqn:E.
    - apply ckey_eqb_eq in E. inversion E; subst. inversion H. reflexivity.
    - apply Hc. exact H.
  Qed.

  (* ---- _find_cp ---- *)
  Lemma scan_down_spec : forall p n bottom L,
    scan_down cpf p n bottom = Some L <->
    L <= n /\ (bottom <= Z.of_nat L)%Z /\ cpf p L <> [] /\
    (forall L', L < L' <= n -> cpf p L' = []).
  Proof.
    intros p n bottom. induction n as [|n IH]; intro L; cbn [scan_down].
    - destruct (Z.of_nat 0 <? bottom)%Z eqn:E.
      + apply Z.ltb_lt in E. split; [discriminate | intros (H1 & H2 & _); lia].
      + apply Z.ltb_ge in E. change (Z.of_nat 0) with 0%Z in *. destruct (cpf p 0) eqn:E0; simpl.
        * split; [discriminate|]. intros (H1 & _ & H3 & _). assert (L = 0) by lia. subst. congruence.
        * split.
          -- intro H. inversion H; subst. repeat split; try lia; try congruence; try (intros; lia).
          -- intros (H1 & _). f_equal. lia.
    - destruct (Z.of_nat (S n) <? bottom)%Z eqn:E.
      + apply Z.ltb_lt in E. split; [discriminate | intros (H1 & H2 & _); lia].
      + apply Z.ltb_ge in E. destruct (cpf p (S n)) eqn:E0; simpl.
        * rewrite IH. split.
          -- intros (H1 & H2 & H3 & H4). repeat split; try lia; try assumption.
             intros L' HL'. destruct (Nat.eq_dec L' (S n)); [subst; exact E0 | apply H4; lia].
          -- intros (H1 & H2 & H3 & H4). assert (L <> S n) by (intro; subst; congruence).
             repeat split; try lia; try assumption. intros L' HL'. apply H4. lia.
        * split.
          -- intro H. inversion H; subst. repeat split; try lia; try congruence; try (intros; lia).
          -- intros (H1 & H2 & H3 & H4). f_equal. destruct (Nat.eq_dec L (S n)); [auto|].
             exfalso. assert (cpf p (S n) = []) by (apply H4; lia). congruence.
  Qed.

  (* _find_cp(p, top, bottom) = the highest level in [bottom, min top maxl] with an entry *)
  Lemma find_cp_spec : forall p top bottom L,
    find_cp p top bottom = Some L <->
    (Z.of_nat L <= top)%Z /\ L <= maxl /\ (bottom <= Z.of_nat L)%Z /\ cpf p L <> [] /\
    (forall L', L < L' -> (Z.of_nat L' <= top)%Z -> L' <= maxl -> cpf p L' = []).
  Proof.
    intros p top bottom L. unfold Omen.find_cp. destruct (top <? 0)%Z eqn:E.
    - apply Z.ltb_lt in E. split; [discriminate | intros (H & _); lia].
    - apply Z.ltb_ge in E. rewrite scan_down_spec. split.
      + intros (H1 & H2 & H3 & H4). repeat split; try lia; try assumption. intros L' Ha Hb Hc. apply H4. lia.
      + intros (H1 & H2 & H3 & H4 & H5). repeat split; try lia; try assumption. intros L' Ha. apply H5; lia.
  Qed.

  (* ---- completions of one transition ---- *)
  Lemma compl_1 : forall p lvl,
    compl 1 p lvl =
    if ((0 <=? lvl) && (lvl <=? Z.of_nat maxl))%Z
    then map (fun ic => [(p, Z.to_nat lvl, fst ic)]) (indexed (cpf p (Z.to_nat lvl)))
    else [].
  Proof.
    intros p lvl. simpl.
    assert (Hin : forall L, flat_map (fun ic : nat * N => map (cons (p, L, fst ic))
                    (if (lvl - Z.of_nat L =? 0)%Z then [[]] else [])) (indexed (cpf p L)) =
                  if (lvl - Z.of_nat L =? 0)%Z then map (fun ic => [(p, L, fst ic)]) (indexed (cpf p L)) else []).
    { intro L. destruct (lvl - Z.of_nat L =? 0)%Z.
      - induction (indexed (cpf p L)) as [|x r IH]; simpl; [reflexivity | f_equal; exact IH].
      - apply flat_map_nil_all. reflexivity. }
    rewrite (flat_map_ext _ _ Hin). clear Hin.
    unfold levels_down. destruct (lvl <? 0)%Z eqn:E0.
    - apply Z.ltb_lt in E0. assert ((0 <=? lvl)%Z = false) as -> by (apply Z.leb_gt; lia). reflexivity.
    - apply Z.ltb_ge in E0. assert ((0 <=? lvl)%Z = true) as -> by (apply Z.leb_le; lia). simpl.
      destruct (lvl <=? Z.of_nat maxl)%Z eqn:E1.
      + apply Z.leb_le in E1. replace (Nat.min (Z.to_nat lvl) maxl) with (Z.to_nat lvl) by lia.
        remember (Z.to_nat lvl) as n. destruct n as [|n]; simpl.
        * replace (lvl - 0 =? 0)%Z with true by (symmetry; apply Z.eqb_eq; lia). rewrite app_nil_r. reflexivity.
        * replace (lvl - Z.pos (Pos.of_succ_nat n) =? 0)%Z with true by (symmetry; apply Z.eqb_eq; lia).
          rewrite flat_map_nil_all; [rewrite app_nil_r; reflexivity|].
          intros L HL. apply in_down_from in HL.
          replace (lvl - Z.of_nat L =? 0)%Z with false by (symmetry; apply Z.eqb_neq; lia). reflexivity.
      + apply Z.leb_gt in E1. apply flat_map_nil_all. intros L HL. apply in_down_from in HL.
        replace (lvl - Z.of_nat L =? 0)%Z with false by (symmetry; apply Z.eqb_neq; lia). reflexivity.
  Qed.

  Lemma fill_1 : forall c p lvl, fill 1 c p lvl = (hd_error (compl 1 p lvl), c).
  Proof.
    intros c p lvl. rewrite compl_1. simpl.
    destruct (find_cp p lvl lvl) as [L|] eqn:E.
    - apply find_cp_spec in E. destruct E as (H1 & H2 & H3 & H4 & _).
      assert (lvl = Z.of_nat L) by lia. subst lvl.
      replace ((0 <=? Z.of_nat L) && (Z.of_nat L <=? Z.of_nat maxl))%Z with true
        by (symmetry; apply andb_true_iff; split; apply Z.leb_le; lia).
      rewrite Nat2Z.id. rewrite hd_error_map, hd_error_indexed.
      destruct (cpf p L); [congruence | reflexivity].
    - destruct ((0 <=? lvl) && (lvl <=? Z.of_nat maxl))%Z eqn:E1; [|reflexivity].
      apply andb_true_iff in E1. destruct E1 as [Ha Hb]. apply Z.leb_le in Ha. apply Z.leb_le in Hb.
      rewrite hd_error_map, hd_error_indexed.
      destruct (cpf p (Z.to_nat lvl)) eqn:E2; [reflexivity|]. exfalso.
      assert (find_cp p lvl lvl = Some (Z.to_nat lvl)) as Hx; [|congruence].
      apply find_cp_spec. repeat split; try lia; try congruence; try (intros; lia).
  Qed.

  (* ---- _fill_out_parse_tree returns the FIRST completion; every cache that
     only holds first completions stays such a cache (so the result does not
     depend on what the cache holds) ---- *)
  Theorem fill_is_first : forall k c p lvl,
    1 <= k -> cache_ok c ->
    fst (fill k c p lvl) = hd_error (compl k p lvl) /\ cache_ok (snd (fill k c p lvl)).
  Proof.
    induction k as [|k' IH]; intros c p lvl Hk Hc; [lia|].
    destruct k' as [|k''].
    - rewrite fill_1. split; [reflexivity | exact Hc].
    - change (fill (S (S k'')) c p lvl) with
        (let cached := if Nat.leb (S (S k'')) optmax then clookup c (S (S k''), p, lvl) else None in
         match cached with
         | Some r => (r, c)
         | None =>
             let '(r, c') :=
               first_st (fun c1 L =>
                 first_st (fun c2 ic =>
                   let '(r2, c3) := fill (S k'') c2 (shift p (snd ic)) (lvl - Z.of_nat L) in
                   (option_map (cons (p, L, fst ic)) r2, c3))
                   c1 (indexed (cpf p L)))
                 c (levels_down maxl lvl) in
             (r, if Nat.leb (S (S k'')) optmax then cupdate c' (S (S k''), p, lvl) r else c')
         end).
      cbv zeta.
      assert (Hsearch :
        let res := first_st (fun c1 L =>
                 first_st (fun c2 ic =>
                   let '(r2, c3) := fill (S k'') c2 (shift p (snd ic)) (lvl - Z.of_nat L) in
                   (option_map (cons (p, L, fst ic)) r2, c3))
                   c1 (indexed (cpf p L)))
                 c (levels_down maxl lvl) in
        fst res = hd_error (compl (S (S k'')) p lvl) /\ cache_ok (snd res)).
      { cbv zeta. change (compl (S (S k'')) p lvl) with
          (flat_map (fun L => flat_map (fun ic : nat * N => map (cons (p, L, fst ic))
             (compl (S k'') (shift p (snd ic)) (lvl - Z.of_nat L))) (indexed (cpf p L))) (levels_down maxl lvl)).
        apply (first_st_spec cache_ok); [|exact Hc].
        intros c1 L _ Hc1. apply (first_st_spec cache_ok); [|exact Hc1].
        intros c2 ic _ Hc2.
        destruct (IH c2 (shift p (snd ic)) (lvl - Z.of_nat L)%Z ltac:(lia) Hc2) as [H1 H2].
        destruct (fill (S k'') c2 (shift p (snd ic)) (lvl - Z.of_nat L)) as [r2 c3]. cbn [fst snd] in *.
        rewrite hd_error_map. rewrite H1. split; [reflexivity | exact H2]. }
      cbv zeta in Hsearch.
      destruct (Nat.leb (S (S k'')) optmax) eqn:Eopt.
      + destruct (clookup c (S (S k''), p, lvl)) as [r|] eqn:Ecl.
        * cbn [fst snd]. split; [apply Hc; exact Ecl | exact Hc].
        * destruct (first_st _ c (levels_down maxl lvl)) as [r c'] eqn:Efs. cbn [fst snd] in *.
          destruct Hsearch as [H1 H2]. split; [exact H1|]. rewrite H1. apply cache_ok_update. exact H2.
      + destruct (first_st _ c (levels_down maxl lvl)) as [r c'] eqn:Efs. cbn [fst snd] in *. exact Hsearch.
  Qed.

  Corollary fill_cache_independent : forall k c1 c2 p lvl,
    1 <= k -> cache_ok c1 -> cache_ok c2 -> fst (fill k c1 p lvl) = fst (fill k c2 p lvl).
  Proof.
    intros k c1 c2 p lvl Hk H1 H2.
    rewrite (proj1 (fill_is_first k c1 p lvl Hk H1)), (proj1 (fill_is_first k c2 p lvl Hk H2)). reflexivity.
  Qed.
End Fill.
