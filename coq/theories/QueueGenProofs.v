(* The generated priority-queue object (gen/Queue_gen.v: the translation of the Python
   text of class QueueItem, of PcfgQueue.__init__ / next / insert_queue /
   restore_base_item / update_save_config and of PcfgGrammar.restore_prob_order, redone
   on every run by harness/translate_queue.py) equals the hand-written model of
   QueueModel.v, and the C01 / C02 / C08 theorems hold for sessions that call the
   generated functions.

   Part 1 (Section Eq): generated = model, for all inputs and every push / pop; no
   hypothesis except, for next, that pop fails exactly on the empty heap.  These are
   the lemmas that break when the Python text changes its meaning.
   Part 2 (Section Sem): on a well-formed ruleset the functions of gen/Kernel_gen.v the
   object calls are the model's (KernelGenProofs), so the generated constructor builds
   q_start / q_resume and the generated next is the model's next on every state a run
   goes through.
   Part 3: C01 / C02 / C08 for the runs of the generated object. *)
From Coq Require Import String.
From Coq Require Import List Arith Bool NArith Lia Sorting.Permutation Sorting.Sorted Floats.
From Pcfg Require Import ProbAlg F64 Next NextSpec NextProofs NextFacts RestoreProofs RestoreFacts.
From Pcfg Require Import KernelRt KernelGenProofs QueueRt QueueModel QueueProofs.
From PcfgGen Require Import Kernel_gen Queue_gen.
Import ListNotations.

(* ------------------------------------------------------------------ *)
(* Part 1: generated = model                                           *)
(* ------------------------------------------------------------------ *)
Section Eq.
Context {A : palg}.
Notation P := (ProbAlg.P A).
Notation item := (Next.item A).
Notation heap := (heap A).
Notation pcfg_queue := (pcfg_queue A).
Notation config := (config A).
Notation ruleset := (Next.ruleset A).

(* ---- QueueItem: the six comparison methods.  Stated on ok probabilities (no
   NaN): there the ways of writing one comparison through the others agree. ---- *)
Ltac dunder a b Ha Hb :=
  cbv beta zeta delta [py_QueueItem_lt py_QueueItem_le py_QueueItem_eq py_QueueItem_ne py_QueueItem_gt
                       py_QueueItem_ge py_QueueItem_init QueueItem unwrap q_lt q_le q_eq q_ne q_gt q_ge plt peq];
  destruct (ple (iprob a) (iprob b)) eqn:E1; destruct (ple (iprob b) (iprob a)) eqn:E2;
  cbn [negb andb orb]; try reflexivity;
  exfalso; destruct (ple_total A _ _ Ha Hb); congruence.

Theorem queue_item_lt_eq (a b : item) :
  okb (iprob a) = true -> okb (iprob b) = true -> py_QueueItem_lt a b = q_lt a b.
Proof. intros Ha Hb. dunder a b Ha Hb. Qed.
Theorem queue_item_le_eq (a b : item) :
  okb (iprob a) = true -> okb (iprob b) = true -> py_QueueItem_le a b = q_le a b.
Proof. intros Ha Hb. dunder a b Ha Hb. Qed.
Theorem queue_item_eq_eq (a b : item) :
  okb (iprob a) = true -> okb (iprob b) = true -> py_QueueItem_eq a b = q_eq a b.
Proof. intros Ha Hb. dunder a b Ha Hb. Qed.
Theorem queue_item_ne_eq (a b : item) :
  okb (iprob a) = true -> okb (iprob b) = true -> py_QueueItem_ne a b = q_ne a b.
Proof. intros Ha Hb. dunder a b Ha Hb. Qed.
Theorem queue_item_gt_eq (a b : item) :
  okb (iprob a) = true -> okb (iprob b) = true -> py_QueueItem_gt a b = q_gt a b.
Proof. intros Ha Hb. dunder a b Ha Hb. Qed.
Theorem queue_item_ge_eq (a b : item) :
  okb (iprob a) = true -> okb (iprob b) = true -> py_QueueItem_ge a b = q_ge a b.
Proof. intros Ha Hb. dunder a b Ha Hb. Qed.

Theorem queue_item_wrapper (x : item) : unwrap (py_QueueItem_init x) = x.
Proof. reflexivity. Qed.

(* heapq over the translated __lt__ is the queue contract of Next.v *)
Theorem queue_heap_contract (pop : heap -> option (item * heap)) :
  heap_ok py_QueueItem_lt pop <-> pop_ok_okb pop.
Proof.
  rewrite <- heap_ok_q_lt. split; apply heap_ok_ext; intros a b Ha Hb;
    [|symmetry]; now apply queue_item_lt_eq.
Qed.

(* ---- the object's attributes under the setters ---- *)
Ltac obj := cbv beta iota zeta delta [set_p_queue set_max_probability set_min_probability set_max_queue_size new_object
                                      p_queue max_probability min_probability max_queue_size heappush
                                      py_QueueItem_init QueueItem unwrap q_push_all py_str fst snd].

Lemma set_p_queue_id (q : pcfg_queue) : set_p_queue q (p_queue q) = q.
Proof. now destruct q. Qed.

(* a loop of insert_queue calls: the elements are pushed in order *)
Lemma fold_insert (f : pcfg_queue -> item -> pcfg_queue) (push : heap -> item -> heap) :
  (forall q x, f q x = set_p_queue q (push (p_queue q) x)) ->
  forall l q, fold_left f l q = set_p_queue q (q_push_all push (p_queue q) l).
Proof.
  intros Hf. induction l as [|a l IH]; intros q; simpl.
  - symmetry. apply set_p_queue_id.
  - rewrite IH, Hf. reflexivity.
Qed.

(* a loop of restore_base_item calls: per root, the saved items are pushed; the walk
   is given the object's max / min probability, which the loop does not change *)
Lemma fold_restore (f : pcfg_queue -> item -> pcfg_queue) (push : heap -> item -> heap)
      (w : item -> P -> P -> list item) :
  (forall q it, f q it = set_p_queue q (q_push_all push (p_queue q) (w it (max_probability q) (min_probability q)))) ->
  forall l q, fold_left f l q =
    set_p_queue q (fold_left (fun h it => q_push_all push h (w it (max_probability q) (min_probability q))) l (p_queue q)).
Proof.
  intros Hf. induction l as [|a l IH]; intros q; simpl.
  - symmetry. apply set_p_queue_id.
  - rewrite IH, Hf. reflexivity.
Qed.

(* ---- insert_queue ---- *)
Theorem queue_insert_eq (push : heap -> item -> heap) (q : pcfg_queue) (x : item) :
  py_PcfgQueue_insert_queue push q x = set_p_queue q (push (p_queue q) x).
Proof. reflexivity. Qed.

(* ---- PcfgGrammar.restore_prob_order: the recursive walk from left_index 0, True ---- *)
Theorem queue_restore_prob_order_eq (up : P) (un : var * nat) (fuel : nat) (rs : ruleset) (it : item) (m mn : P) :
  py_restore_prob_order up un fuel rs it m mn = (true, py_restore up un fuel rs it m mn 0).
Proof. reflexivity. Qed.

(* ---- restore_base_item ---- *)
Theorem queue_restore_base_item_eq (up : P) (un : var * nat) (push : heap -> item -> heap) (fuel : nat)
        (rs : ruleset) (q : pcfg_queue) (it : item) :
  py_PcfgQueue_restore_base_item up un push fuel rs q it =
  set_p_queue q (q_push_all push (p_queue q) (py_restore up un fuel rs it (max_probability q) (min_probability q) 0)).
Proof.
  unfold py_PcfgQueue_restore_base_item, with_callback. cbv zeta.
  rewrite queue_restore_prob_order_eq. cbn [fst snd].
  rewrite (fold_insert _ push (queue_insert_eq push)). reflexivity.
Qed.

(* ---- __init__, new session ---- *)
Theorem queue_init_new_eq (up : P) (un : var * nat) (flit : float -> P) (push : heap -> item -> heap)
        (fuel : nat) (rs : ruleset) :
  py_PcfgQueue_init up un flit push fuel rs None =
  q_new push (flit 1%float) (flit 0%float) 50000%N (py_initalize_base_structures up rs).
Proof.
  unfold py_PcfgQueue_init, q_new, for_each. cbv zeta.
  rewrite (for_from_fold _ 0 _ (fun s x => set_p_queue s (push (p_queue s) x))); [|reflexivity].
  rewrite (fold_insert _ push (fun q x => eq_refl)). reflexivity.
Qed.

(* ---- __init__, restored session ---- *)
Theorem queue_init_restore_eq (up : P) (un : var * nat) (flit : float -> P) (push : heap -> item -> heap)
        (fuel : nat) (rs : ruleset) (cfg : config) :
  py_PcfgQueue_init up un flit push fuel rs (Some cfg) =
  q_restored push 50000%N (py_initalize_base_structures up rs)
             (fun it m mn => py_restore up un fuel rs it m mn 0)
             (cfg_max up cfg) (cfg_min up cfg).
Proof.
  unfold py_PcfgQueue_init, q_restored, for_each. cbv zeta.
  rewrite (for_from_fold _ 0 _ (fun s it => py_PcfgQueue_restore_base_item up un push fuel rs s it)); [|reflexivity].
  rewrite (fold_restore _ push (fun it m mn => py_restore up un fuel rs it m mn 0)
             (queue_restore_base_item_eq up un push fuel rs)).
  reflexivity.
Qed.

(* ---- next ---- *)
Theorem queue_next_eq (up : P) (un : var * nat) (ui : item) (push : heap -> item -> heap)
        (pop : heap -> option (item * heap)) (rs : ruleset) (q : pcfg_queue) :
  (forall h, pop h = None <-> h = []) ->
  py_PcfgQueue_next up un ui push pop rs q = q_next push pop (py_find_children up un rs) q.
Proof.
  intros Hnone. unfold py_PcfgQueue_next, q_next, heappop, for_each. cbv zeta.
  destruct (p_queue q) as [|a l] eqn:Eq.
  - rewrite (proj2 (Hnone []) eq_refl). reflexivity.
  - cbn [length Nat.eqb Nat.leb Nat.ltb negb].
    destruct (pop (a :: l)) as [[x r]|] eqn:Ep; [|apply Hnone in Ep; discriminate].
    rewrite (for_from_fold _ 0 _ (fun s c => py_PcfgQueue_insert_queue push s c)); [|reflexivity].
    rewrite (fold_insert _ push (queue_insert_eq push)). reflexivity.
Qed.

(* ---- update_save_config: reads of the written config (the order of the two
   `set` calls does not matter, what a later getfloat sees does) ---- *)
Theorem queue_update_save_config_eq (q : pcfg_queue) (cfg : config) (d : P) (s k : string) :
  cfg_getfloat d (py_PcfgQueue_update_save_config q cfg) s k = cfg_getfloat d (q_saved q cfg) s k.
Proof.
  unfold py_PcfgQueue_update_save_config, q_saved, cfg_set, py_str. cbv zeta. cbn [cfg_getfloat].
  destruct (String.eqb_spec s "guessing_info"); cbn [andb]; [|reflexivity].
  destruct (String.eqb_spec k "min_probability"); destruct (String.eqb_spec k "max_probability");
    subst; try discriminate; reflexivity.
Qed.

(* what update_save_config writes is what a constructor reads back *)
Theorem queue_save_reads (q : pcfg_queue) (cfg : config) (d : P) :
  cfg_max d (py_PcfgQueue_update_save_config q cfg) = max_probability q /\
  cfg_min d (py_PcfgQueue_update_save_config q cfg) = min_probability q.
Proof. unfold cfg_max, cfg_min. rewrite !queue_update_save_config_eq. apply q_saved_reads. Qed.

End Eq.

(* ------------------------------------------------------------------ *)
(* Part 2: on a well-formed ruleset                                    *)
(* ------------------------------------------------------------------ *)
Section Sem.
Context {A : palg}.
Notation P := (ProbAlg.P A).
Notation item := (Next.item A).
Notation heap := (heap A).
Notation pcfg_queue := (pcfg_queue A).
Notation config := (config A).
Notation ruleset := (Next.ruleset A).
Context (up : P) (un : var * nat) (ui : item) (flit : float -> P).
Variable rs : ruleset.
Hypothesis Hwf : wf rs.

Lemma fold_left_ext_In {X S : Type} (f g : S -> X -> S) (l : list X) :
  (forall s x, In x l -> f s x = g s x) -> forall s, fold_left f l s = fold_left g l s.
Proof.
  induction l as [|a l IH]; intros H s; simpl; [reflexivity|].
  rewrite (H s a (or_introl eq_refl)). apply IH. intros s' x Hx. apply H. now right.
Qed.

(* PcfgQueue(pcfg) *)
Theorem queue_init_new_model (push : heap -> item -> heap) (fuel : nat) :
  py_PcfgQueue_init up un flit push fuel rs None = q_start push (flit 1%float) (flit 0%float) 50000%N rs.
Proof. rewrite queue_init_new_eq. unfold q_start. now rewrite (kernel_init_eq_wf up rs Hwf). Qed.

(* PcfgQueue(pcfg, save_config): min_probability below every ok probability (the
   model's walk has no min_prob), fuel for the deepest walk *)
Theorem queue_init_restore_model (push : heap -> item -> heap) (fuel : nat) (cfg : config) :
  let m := cfg_max up cfg in
  let mn := cfg_min up cfg in
  (forall p, okb p = true -> ple mn p = true) ->
  (forall it, In it (init_items rs) -> restore_fuel rs it <= fuel) ->
  py_PcfgQueue_init up un flit push fuel rs (Some cfg) = q_resume push 50000%N rs m mn.
Proof.
  intros m mn Hmn Hfuel. rewrite queue_init_restore_eq. fold m mn.
  unfold q_resume, q_restored. rewrite (kernel_init_eq_wf up rs Hwf). f_equal.
  apply fold_left_ext_In. intros h it Hit. f_equal.
  pose proof Hit as Hit'. apply (In_init_items rs Hwf) in Hit'. destruct Hit' as [Hall _].
  apply In_all_preterminals in Hall. destruct (good_ok rs Hwf it Hall) as [Hb Ht].
  rewrite (kernel_restore_eq_ok up un rs m mn fuel it 0 Hmn Ht Hb (good_iprob_ok rs Hwf it Hall)).
  apply (restore_fuel_enough_root rs Hwf m false it fuel 0 Hit (Hfuel it Hit)).
Qed.

(* next, on a heap of pre-terminals of the grammar *)
Theorem queue_next_model (push : heap -> item -> heap) (pop : heap -> option (item * heap)) (q : pcfg_queue) :
  pop_ok_okb pop -> (forall x, In x (p_queue q) -> good rs x) ->
  py_PcfgQueue_next up un ui push pop rs q = q_next push pop (find_children rs) q.
Proof.
  intros [Hnone Hpop] Hg. rewrite (queue_next_eq up un ui push pop rs q Hnone). unfold q_next.
  destruct (pop (p_queue q)) as [[x r]|] eqn:E; [|reflexivity].
  assert (Hok : Forall (fun y => okb (iprob y) = true) (p_queue q)).
  { apply Forall_forall. intros y Hy. apply (good_iprob_ok rs Hwf). now apply Hg. }
  destruct (Hpop _ _ _ Hok E) as [Hperm _].
  assert (Hx : In x (p_queue q)).
  { eapply Permutation_in; [apply Permutation_sym; exact Hperm|now left]. }
  now rewrite (kernel_find_children_eq up un rs x (good_inrange rs x (Hg x Hx))).
Qed.

(* a session over the generated next goes through the states of the model's session *)
Theorem queue_run_model (push : heap -> item -> heap) (pop : heap -> option (item * heap)) (inS : item -> bool)
        (q0 : pcfg_queue) n :
  push_ok push -> pop_ok_okb pop -> down_closed rs inS ->
  Permutation (p_queue q0) (closure_frontier rs inS) ->
  q_run (py_PcfgQueue_next up un ui push pop rs) n ([], q0) = q_run (q_next push pop (find_children rs)) n ([], q0).
Proof.
  intros Hpush Hpop H1 Hq0.
  apply (q_run_ext (fun s => Inv rs inS (q_view s))).
  - intros s HI. apply queue_next_model; [exact Hpop|].
    intros x Hx. apply (SS_good rs inS). apply (inv_sub _ _ _ HI). apply in_app_iff. right. exact Hx.
  - intros s HI. now apply (Inv_q_step push pop Hpush Hpop rs Hwf inS H1).
  - apply Inv_init. exact Hq0.
Qed.

End Sem.

(* ------------------------------------------------------------------ *)
(* Part 3: C01 / C02 / C08 for sessions over the generated object      *)
(* ------------------------------------------------------------------ *)
Section Props.
Context {A : palg}.
Notation P := (ProbAlg.P A).
Notation item := (Next.item A).
Notation heap := (heap A).
Notation pcfg_queue := (pcfg_queue A).
Notation config := (config A).
Notation ruleset := (Next.ruleset A).
Context (up : P) (un : var * nat) (ui : item) (flit : float -> P).

(* a session: the object PcfgQueue(pcfg [, save_config]) and n calls of next;
   (what next returned, newest first; the object) *)
Definition py_session (push : heap -> item -> heap) (pop : heap -> option (item * heap)) (fuel : nat)
           (rs : ruleset) (save : option config) (n : nat) : list item * pcfg_queue :=
  q_run (py_PcfgQueue_next up un ui push pop rs) n ([], py_PcfgQueue_init up un flit push fuel rs save).

Section WithWf.
Variable rs : ruleset.
Hypothesis Hwf : wf rs.
Variable push : heap -> item -> heap.
Variable pop : heap -> option (item * heap).
Hypothesis Hpush : push_ok push.
Hypothesis Hpop : pop_ok_okb pop.
Variable fuel : nat.

Lemma py_session_new n :
  py_session push pop fuel rs None n =
  q_run (q_next push pop (find_children rs)) n ([], q_start push (flit 1%float) (flit 0%float) 50000%N rs).
Proof.
  unfold py_session. rewrite (queue_init_new_model up un flit rs Hwf).
  apply (queue_run_model up un ui rs Hwf push pop (fun _ => true)); auto.
  - apply all_down_closed.
  - unfold q_start, q_new. cbn [p_queue].
    eapply perm_trans; [apply (q_push_all_perm push Hpush)|]. rewrite app_nil_r. apply (roots_perm rs Hwf).
Qed.

(* C01: every prefix of what next returns is non-increasing, nothing in the heap is
   more probable than anything returned, and max_probability is the probability of
   the item returned last *)
Theorem queue_sorted_every_prefix n :
  let s := py_session push pop fuel rs None n in
  nonincreasing (rev (fst s)) /\
  (forall e q, In e (fst s) -> In q (p_queue (snd s)) -> ple (iprob q) (iprob e) = true) /\
  match fst s with
  | x :: _ => max_probability (snd s) = iprob x
  | [] => max_probability (snd s) = flit 1%float
  end.
Proof.
  cbv zeta. rewrite py_session_new.
  destruct (q_whole_run push pop Hpush Hpop rs Hwf (flit 1%float) (flit 0%float) 50000%N) as (Ha & Hb & _).
  split; [apply (Ha n)|]. split; [apply (Hb n)|].
  destruct (q_run_attrs push pop rs n ([], q_start push (flit 1%float) (flit 0%float) 50000%N rs)) as (_ & _ & Hm).
  apply Hm. reflexivity.
Qed.

Theorem queue_prob_is_product n it :
  let s := py_session push pop fuel rs None n in
  In it (fst s ++ p_queue (snd s)) ->
  iprob it = py_find_prob up rs (ipt it) (ibase it) /\ In it (all_preterminals rs).
Proof.
  cbv zeta. rewrite py_session_new. intros Hin.
  destruct (q_whole_run push pop Hpush Hpop rs Hwf (flit 1%float) (flit 0%float) 50000%N) as (_ & _ & _ & Hd & _).
  pose proof (Hd n it Hin) as Hall. split; [|exact Hall].
  apply In_all_preterminals in Hall. rewrite (kernel_find_prob_eq up rs _ _ (good_inrange rs it Hall)).
  destruct Hall as [b [_ [_ [_ [_ Hp]]]]]. exact Hp.
Qed.

(* C02: run to exhaustion, every pre-terminal exactly once; nothing is ever held
   twice; then next returns None *)
Theorem queue_exactly_once :
  let s := py_session push pop fuel rs None (total rs) in
  Permutation (fst s) (all_preterminals rs) /\ p_queue (snd s) = [] /\
  fst (py_PcfgQueue_next up un ui push pop rs (snd s)) = None.
Proof.
  cbv zeta. rewrite py_session_new.
  destruct (q_whole_run push pop Hpush Hpop rs Hwf (flit 1%float) (flit 0%float) 50000%N) as (_ & _ & _ & _ & _ & Hp & Hq).
  unfold q_view in Hp, Hq. cbn [emitted pending] in Hp, Hq.
  generalize dependent (q_run (q_next push pop (find_children rs)) (total rs)
                              ([], q_start push (flit 1%float) (flit 0%float) 50000%N rs)).
  intros sN Hp Hq. split; [exact Hp|]. split; [exact Hq|].
  rewrite (queue_next_eq up un ui push pop rs _ (proj1 Hpop)). unfold q_next. rewrite Hq.
  now rewrite (proj2 (proj1 Hpop []) eq_refl).
Qed.

Theorem queue_frontier_nodup n :
  let s := py_session push pop fuel rs None n in
  NoDup (fst s ++ p_queue (snd s)) /\ (n <= total rs -> length (fst s) = n).
Proof.
  cbv zeta. rewrite py_session_new.
  destruct (q_whole_run push pop Hpush Hpop rs Hwf (flit 1%float) (flit 0%float) 50000%N) as (_ & _ & Hn & _ & Hl & _).
  split; [apply (Hn n)|apply (Hl n)].
Qed.

(* C08: the object restored from a config *)
Section Restored.
Variable cfg : config.
Let m := cfg_max up cfg.
Let mn := cfg_min up cfg.
Hypothesis Hmn : forall p, okb p = true -> ple mn p = true.
Hypothesis Hfuel : forall it, In it (init_items rs) -> restore_fuel rs it <= fuel.
Hypothesis Hm : okb m = true.

Lemma py_session_restored n :
  py_session push pop fuel rs (Some cfg) n =
  q_run (q_next push pop (find_children rs)) n ([], q_resume push 50000%N rs m mn).
Proof.
  unfold py_session. rewrite (queue_init_restore_model up un flit rs Hwf push fuel cfg Hmn Hfuel). fold m mn.
  apply (queue_run_model up un ui rs Hwf push pop (below m)); auto.
  - now apply below_down_closed.
  - eapply perm_trans; [apply (q_resume_heap push Hpush)|]. exact (restore_frontier rs Hwf m Hm).
Qed.

(* the heap right after the constructor is the frontier of the saved probability *)
Theorem queue_restore_frontier :
  Permutation (p_queue (py_PcfgQueue_init up un flit push fuel rs (Some cfg)))
              (filter (frontierb rs m) (all_preterminals rs)) /\
  max_probability (py_PcfgQueue_init up un flit push fuel rs (Some cfg)) = m.
Proof.
  rewrite (queue_init_restore_model up un flit rs Hwf push fuel cfg Hmn Hfuel). fold m mn. split; [|reflexivity].
  eapply perm_trans; [apply (q_resume_heap push Hpush)|]. exact (restore_frontier rs Hwf m Hm).
Qed.

(* the resumed session returns exactly the pre-terminals at or below the saved
   probability, each once, in non-increasing order, and then None *)
Theorem queue_resume_exact :
  let SS := filter (below m) (all_preterminals rs) in
  let s := fun n => py_session push pop fuel rs (Some cfg) n in
  (forall n, nonincreasing (rev (fst (s n)))) /\
  (forall n, NoDup (fst (s n) ++ p_queue (snd (s n)))) /\
  (forall n x, In x (fst (s n) ++ p_queue (snd (s n))) -> In x SS) /\
  (forall n, n <= length SS -> length (fst (s n)) = n) /\
  Permutation (fst (s (length SS))) SS /\
  p_queue (snd (s (length SS))) = [].
Proof.
  cbv zeta.
  destruct (q_resumed_run push pop Hpush Hpop rs Hwf 50000%N m mn Hm) as (R1 & _ & R2 & R3 & R4 & R5 & R6).
  unfold q_view in *. cbn [emitted pending] in *.
  split; [|split; [|split; [|split; [|split]]]].
  - intros n. rewrite py_session_restored. apply R1.
  - intros n. rewrite py_session_restored. apply R2.
  - intros n x. rewrite py_session_restored. apply R3.
  - intros n. rewrite py_session_restored. apply R4.
  - rewrite py_session_restored. exact R5.
  - rewrite py_session_restored. exact R6.
Qed.

End Restored.
End WithWf.

(* C08, the property's sentence over two generated objects: session 1 is new and
   runs to exhaustion (U = what it returns, oldest first); it is quit when next has
   just returned x (after U1) and update_save_config writes cfg; session 2, possibly
   over another heap, is constructed from cfg.  Then session 2 returns x and
   everything after it, nothing above the saved probability, nothing twice, and what
   it repeats from U1 has exactly the saved probability. *)
Theorem queue_suffix_and_repeats (rs : ruleset) (push push' : heap -> item -> heap)
        (pop pop' : heap -> option (item * heap)) (fuel fuel' : nat) (cfg0 : config) k U1 x U2 :
  wf rs -> push_ok push -> push_ok push' -> pop_ok_okb pop -> pop_ok_okb pop' ->
  (forall p, okb p = true -> ple (flit 0%float) p = true) ->
  (forall it, In it (init_items rs) -> restore_fuel rs it <= fuel') ->
  rev (fst (py_session push pop fuel rs None (total rs))) = U1 ++ x :: U2 ->
  fst (py_session push pop fuel rs None k) = x :: rev U1 ->
  let cfg := py_PcfgQueue_update_save_config (snd (py_session push pop fuel rs None k)) cfg0 in
  let m := iprob x in
  let B := fst (py_session push' pop' fuel' rs (Some cfg) (length (filter (below m) (all_preterminals rs)))) in
  (forall y, In y (x :: U2) -> In y B) /\
  (forall y, In y B -> ple (iprob y) m = true) /\
  NoDup B /\
  (forall y, In y B -> In y U1 -> peq (iprob y) m = true) /\
  nonincreasing (rev B).
Proof.
  intros Hwf Hpush Hpush' Hpop Hpop' Hzero Hfuel HU Hk cfg m B.
  (* what session 1 recorded when it was quit *)
  assert (Hmax : cfg_max up cfg = m /\ cfg_min up cfg = flit 0%float).
  { unfold cfg, cfg_max, cfg_min.
    rewrite (queue_update_save_config_eq _ cfg0 up "guessing_info" "max_probability"),
            (queue_update_save_config_eq _ cfg0 up "guessing_info" "min_probability").
    destruct (q_saved_reads up (snd (py_session push pop fuel rs None k)) cfg0) as [-> ->].
    revert Hk. rewrite (py_session_new rs Hwf push pop Hpush Hpop fuel k). intros Hk.
    destruct (q_run_attrs push pop rs k ([], q_start push (flit 1%float) (flit 0%float) 50000%N rs)) as (Hmin & _ & Hm).
    specialize (Hm eq_refl). rewrite Hk in Hm. split; [exact Hm|exact Hmin]. }
  destruct Hmax as [Hmax Hmin].
  assert (Hx : In x (all_preterminals rs)).
  { destruct (queue_exactly_once rs Hwf push pop Hpush Hpop fuel) as [Hperm _].
    eapply Permutation_in; [exact Hperm|]. apply in_rev. rewrite HU. apply in_app_iff. right. now left. }
  assert (Hm : okb m = true) by (apply (good_iprob_ok rs Hwf), In_all_preterminals, Hx).
  revert HU. rewrite (py_session_new rs Hwf push pop Hpush Hpop fuel (total rs)). intros HU.
  unfold B. rewrite (py_session_restored rs Hwf push' pop' Hpush' Hpop' fuel' cfg);
    rewrite ?Hmax, ?Hmin; auto.
  exact (q_suffix_and_repeats rs push push' pop pop' (flit 1%float) (flit 0%float) (flit 0%float) 50000%N 50000%N
           U1 x U2 Hwf Hpush Hpush' Hpop Hpop' HU).
Qed.

End Props.

(* ------------------------------------------------------------------ *)
(* binary64, and the hypotheses are satisfiable: the demo ruleset of    *)
(* NextFacts, a list heap (push = cons, pop = pop_first_max), nan /     *)
(* (7, 7) / a junk item as the undefined values                         *)
(* ------------------------------------------------------------------ *)
Definition list_push {A : palg} (h : heap A) (x : Next.item A) : heap A := x :: h.

Lemma list_push_ok {A : palg} : push_ok (@list_push A).
Proof. intros h x. apply Permutation_refl. Qed.

(* float literals are themselves; 0.0 is below every ok double *)
Theorem queue_binary64_min_probability (p : ProbAlg.P F64) : okb p = true -> @ple F64 ((fun x : float => x) 0%float) p = true.
Proof. exact (F64_zero_below_ok p). Qed.

(* C08's sentence for binary64: the literal 0.0 of __init__ is below every ok double *)
Theorem queue_suffix_and_repeats_F64 (up : ProbAlg.P F64) (un : var * nat) (ui : Next.item F64)
        (rs : Next.ruleset F64) (push push' : heap F64 -> Next.item F64 -> heap F64)
        (pop pop' : heap F64 -> option (Next.item F64 * heap F64)) (fuel fuel' : nat) (cfg0 : config F64) k U1 x U2 :
  wf rs -> push_ok push -> push_ok push' -> pop_ok_okb pop -> pop_ok_okb pop' ->
  (forall it, In it (init_items rs) -> restore_fuel rs it <= fuel') ->
  rev (fst (@py_session F64 up un ui (fun f => f) push pop fuel rs None (total rs))) = U1 ++ x :: U2 ->
  fst (@py_session F64 up un ui (fun f => f) push pop fuel rs None k) = x :: rev U1 ->
  let cfg := py_PcfgQueue_update_save_config (snd (@py_session F64 up un ui (fun f => f) push pop fuel rs None k)) cfg0 in
  let m := iprob x in
  let B := fst (@py_session F64 up un ui (fun f => f) push' pop' fuel' rs (Some cfg)
                            (length (filter (below m) (all_preterminals rs)))) in
  (forall y, In y (x :: U2) -> In y B) /\
  (forall y, In y B -> ple (iprob y) m = true) /\
  NoDup B /\
  (forall y, In y B -> In y U1 -> peq (iprob y) m = true) /\
  nonincreasing (rev B).
Proof.
  intros Hwf Hpush Hpush' Hpop Hpop' Hfuel.
  exact (@queue_suffix_and_repeats F64 up un ui (fun f => f) rs push push' pop pop' fuel fuel' cfg0 k U1 x U2
           Hwf Hpush Hpush' Hpop Hpop' queue_binary64_min_probability Hfuel).
Qed.

Definition demo_junk : Next.item F64 := @Build_item F64 9 [] nan nan.
Definition demo_session (save : option (config F64)) (n : nat) :=
  @py_session F64 nan (7, 7) demo_junk (fun x => x) list_push pop_first_max 20 demo_rs save n.

Example queue_hypotheses_satisfiable :
  wf demo_rs /\ push_ok (@list_push F64) /\ pop_ok_okb (@pop_first_max F64) /\
  (forall it, In it (init_items demo_rs) -> restore_fuel demo_rs it <= 20) /\
  length (fst (demo_session None 44)) = 44 /\
  (* quit after 7 pops, save, restore, run: 41 come (the 37 not yet returned, the one returned last and 3 tied with it) *)
  (let cfg := py_PcfgQueue_update_save_config (snd (demo_session None 7)) [] in
   length (fst (demo_session (Some cfg) 60)) = 41 /\
   @okb F64 (@cfg_max F64 nan cfg) = true).
Proof.
  split; [exact demo_wf|]. split; [exact list_push_ok|]. split; [exact pop_first_max_ok_partial|].
  split.
  - intros it Hit. apply Nat.leb_le. revert it Hit. apply forallb_forall. vm_compute. reflexivity.
  - split; [vm_compute; reflexivity|]. cbv zeta. split; vm_compute; reflexivity.
Qed.
