(* Runtime of the generated rule-file loaders (gen/Loader_gen.v, written on every
   run by harness/translate_loader.py from the Python text of
     lib_guesser/grammar_io.py   _load_from_file, _load_base_structures, load_omen_keyspace
     lib_scorer/grammar_io.py    _load_from_file).
   The translator emits lets, ifs, record literals, lambdas and the combinators
   below, so that the generated text is a line-by-line image of the Python.
   Definitions only; the lemmas about them are in LoaderGenProofs.v.

   Conventions of the translation (see the translator's docstring):
   * A Python str is the list of its code points ([pstr]); a character is a str
     of length one.  A Python int is a [Z].  A Python float is a value of the
     carrier [F fo] of a record of float operations [fo : fops] (instantiated by
     binary64 and by the abstract probability operations of Loader.v).
   * An exception is a value: an expression that can raise is an [outcome]
     ([Done v] / [Fail e]); [rt_bind r h k] evaluates r, continues with k on a
     value and with the handler h of the enclosing context on an exception.
     At function level the handler is [Fail]; inside `try:` it is the chain of
     `except` clauses ([rt_isa] decides which clause catches: Python's class
     hierarchy on the exceptions modelled), which ends in the enclosing handler.
     [EOutOfFuel] has no counterpart in Python (`while` gets a fuel argument)
     and is caught by no clause.
   * Control flow is continuation passing: [rt_join f k] runs the statement f
     (which calls its argument where it falls through) and then the rest k;
     a loop body says per iteration [LCont s] (next iteration, loop-carried
     variables s; also `continue`), [LBrk s] (`break`) or [LRet r] (the
     enclosing block is left with r: `return`, or an exception on its way to its
     handler); the `else:` block of a loop gets the rest as its second argument.
   * A text file opened for reading is the list of the lines the iteration
     `for line in file` yields (decoding and line splitting are the oracles of
     TextFile.v) plus a cursor: [rt_file].  `file.seek(0)` rewinds; leaving a
     loop by `break` leaves the cursor behind the line just read.
   * Mutation of a list / dict is a functional update of the variable that owns
     it; the translator refuses aliasing (a mutable value has one name at a
     time).  `a[i][k].append(x)` is the nested update [upd_index a i (fun t =>
     upd_values t (fun t0 => Done (rt_append t0 x)))]: read on the way down (a
     subscript out of range raises), write back on the way up. *)
From Coq Require Import List Arith ZArith NArith Bool.
From Pcfg Require Import TextFile.
Import ListNotations.

Definition pstr := list N.

(* ---------------------------------------------------------------- exceptions *)

Inductive pyexn :=
| EIO                               (* IOError = OSError: a file cannot be opened *)
| EIndex                            (* IndexError *)
| EKey                              (* KeyError *)
| EValue                            (* ValueError: float() / int() of a malformed text *)
| EZeroDiv                          (* ZeroDivisionError *)
| EUnbound                          (* UnboundLocalError: a local read before any assignment *)
| EUnicodeEncode (reason : pstr)    (* UnicodeEncodeError, with its .reason *)
| EOutOfFuel.                       (* no counterpart in Python *)

(* the class named in an `except` clause *)
Inductive pyclass :=
| CException | CIOError | CLookupError | CIndexError | CKeyError | CValueError | CArithmeticError
| CZeroDivisionError | CNameError | CUnboundLocalError | CUnicodeError | CUnicodeEncodeError.

(* isinstance(e, c) *)
Definition rt_isa (c : pyclass) (e : pyexn) : bool :=
  match e with
  | EOutOfFuel => false
  | EIO => match c with CException | CIOError => true | _ => false end
  | EIndex => match c with CException | CLookupError | CIndexError => true | _ => false end
  | EKey => match c with CException | CLookupError | CKeyError => true | _ => false end
  | EValue => match c with CException | CValueError => true | _ => false end
  | EZeroDiv => match c with CException | CArithmeticError | CZeroDivisionError => true | _ => false end
  | EUnbound => match c with CException | CNameError | CUnboundLocalError => true | _ => false end
  | EUnicodeEncode _ => match c with CException | CValueError | CUnicodeError | CUnicodeEncodeError => true | _ => false end
  end.

(* e.reason of a UnicodeEncodeError *)
Definition rt_reason (e : pyexn) : pstr :=
  match e with EUnicodeEncode r => r | _ => [] end.

Inductive outcome (X : Type) : Type :=
| Done (x : X)
| Fail (e : pyexn).
Arguments Done {X} x.
Arguments Fail {X} e.

Definition rt_bind {X Y : Type} (r : outcome X) (h : pyexn -> Y) (k : X -> Y) : Y :=
  match r with Done x => k x | Fail e => h e end.

(* a lookup that may fail *)
Definition rt_opt {X : Type} (e : pyexn) (o : option X) : outcome X :=
  match o with Some x => Done x | None => Fail e end.

(* ---------------------------------------------------------------- control flow *)

(* statement; rest *)
Definition rt_join {St R : Type} (f : (St -> R) -> R) (k : St -> R) : R := f k.

Inductive lctl (R St : Type) : Type :=
| LCont (s : St)
| LBrk (s : St)
| LRet (r : R).
Arguments LCont {R St} s.
Arguments LBrk {R St} s.
Arguments LRet {R St} r.

(* for x in l: body  else: orelse   ; k *)
Fixpoint rt_for {X R St : Type} (l : list X) (body : X -> St -> lctl R St) (s : St)
         (orelse : St -> (St -> R) -> R) (k : St -> R) : R :=
  match l with
  | [] => orelse s k
  | x :: r =>
      match body x s with
      | LCont s' => rt_for r body s' orelse k
      | LBrk s' => k s'
      | LRet v => v
      end
  end.

(* a loop without `else:` *)
Definition rt_no_else {St R : Type} (s : St) (k : St -> R) : R := k s.

(* for x in l: body   where the body changes the element x in place (through x
   or an alias of one of its parts) and never the list itself: the body returns
   the element as it is at the end of the iteration; k gets the list rebuilt *)
Fixpoint rt_for_mut {X R St : Type} (done l : list X) (body : X -> St -> lctl R (X * St)) (s : St)
         (k : list X -> St -> R) : R :=
  match l with
  | [] => k done s
  | x :: r =>
      match body x s with
      | LCont (x', s') => rt_for_mut (done ++ [x']) r body s' k
      | LBrk (x', s') => k (done ++ x' :: r) s'
      | LRet v => v
      end
  end.

(* while cond: body  else: orelse  ; k      (fuel: no counterpart in Python) *)
Fixpoint rt_while {R St : Type} (fuel : nat) (cond : St -> bool) (body : St -> lctl R St) (s : St)
         (orelse : St -> (St -> R) -> R) (k : St -> R) (nofuel : R) : R :=
  match fuel with
  | O => nofuel
  | S fuel' =>
      if cond s then
        match body s with
        | LCont s' => rt_while fuel' cond body s' orelse k nofuel
        | LBrk s' => k s'
        | LRet v => v
        end
      else orelse s k
  end.

(* ---------------------------------------------------------------- text files *)

Record rt_file := { f_all : list pstr; f_rest : list pstr }.

(* the file object just opened, given the lines its iteration yields *)
Definition rt_fopen (l : list pstr) : rt_file := {| f_all := l; f_rest := l |}.
(* file.seek(0) *)
Definition rt_seek0 (f : rt_file) : rt_file := {| f_all := f_all f; f_rest := f_all f |}.

(* the body of a loop over a file additionally says, when it breaks, whether it
   called file.seek(0) before (the translator accepts the call inside such a
   loop only directly before `break`) *)
Inductive fctl (R St : Type) : Type :=
| FCont (s : St)
| FBrk (seeked : bool) (s : St)
| FRet (r : R).
Arguments FCont {R St} s.
Arguments FBrk {R St} seeked s.
Arguments FRet {R St} r.

Fixpoint rt_for_lines {R St : Type} (all rest : list pstr) (body : pstr -> St -> fctl R St) (s : St)
         (orelse : rt_file -> St -> (rt_file -> St -> R) -> R) (k : rt_file -> St -> R) : R :=
  match rest with
  | [] => orelse {| f_all := all; f_rest := [] |} s k
  | x :: r =>
      match body x s with
      | FCont s' => rt_for_lines all r body s' orelse k
      | FBrk seeked s' => k (if seeked then rt_fopen all else {| f_all := all; f_rest := r |}) s'
      | FRet v => v
      end
  end.

(* for line in file: body  else: orelse  ; k      (the file variable is handed to
   the else block and to the rest explicitly) *)
Definition rt_for_file {R St : Type} (f : rt_file) (body : pstr -> St -> fctl R St) (s : St)
           (orelse : rt_file -> St -> (rt_file -> St -> R) -> R) (k : rt_file -> St -> R) : R :=
  rt_for_lines (f_all f) (f_rest f) body s orelse k.

Definition rt_no_else_file {St R : Type} (f : rt_file) (s : St) (k : rt_file -> St -> R) : R := k f s.

(* ---------------------------------------------------------------- floats *)

Record fops := {
  F : Type;
  f_one : F;                  (* the literal 1.0 *)
  f_mone : F;                 (* the literal -1.0 *)
  f_zero : F;                 (* the literal 0.0 *)
  f_eqb : F -> F -> bool;     (* a == b *)
  f_sub : F -> F -> F;        (* a - b *)
  f_div : F -> F -> F;        (* a / b for b different from zero *)
  f_iszero : F -> bool;       (* b == 0.0 (also -0.0): a / b raises ZeroDivisionError *)
}.

Definition rt_fdiv (fo : fops) (a b : F fo) : outcome (F fo) :=
  if f_iszero fo b then Fail EZeroDiv else Done (f_div fo a b).

(* float(s): [pfloat] is the interpreter's float() on text, None = ValueError *)
Definition rt_float {T : Type} (pfloat : pstr -> option T) (s : pstr) : outcome T := rt_opt EValue (pfloat s).
(* int(s) *)
Definition rt_int (pint : pstr -> option Z) (s : pstr) : outcome Z := rt_opt EValue (pint s).

(* line.encode(encoding): [enc_err encoding line] = None when the codec can
   encode the line, Some reason when it raises UnicodeEncodeError(reason).  The
   bytes are never used by the translated code *)
Definition rt_encode (enc_err : pstr -> pstr -> option pstr) (line encoding : pstr) : outcome unit :=
  match enc_err encoding line with
  | None => Done tt
  | Some reason => Fail (EUnicodeEncode reason)
  end.

(* codecs.open(name, 'r', encoding=e, errors='surrogateescape') / open(name, 'r'):
   the oracle gives the lines the iteration yields, None = IOError *)
Definition rt_open (o : option (list pstr)) : outcome rt_file :=
  match o with Some l => Done (rt_fopen l) | None => Fail EIO end.

(* ---------------------------------------------------------------- sequences *)

Definition rt_len {X : Type} (l : list X) : Z := Z.of_nat (length l).

(* position meant by the index i in a sequence of length n; None = IndexError *)
Definition rt_pos (n : nat) (i : Z) : option nat :=
  let j := if Z.ltb i 0 then Z.add i (Z.of_nat n) else i in
  if Z.ltb j 0 then None
  else if Z.leb (Z.of_nat n) j then None
  else Some (Z.to_nat j).

(* l[i] *)
Definition rt_index {X : Type} (l : list X) (i : Z) : outcome X :=
  match rt_pos (length l) i with
  | Some j => rt_opt EIndex (nth_error l j)
  | None => Fail EIndex
  end.

(* s[i] on a str: a str of length one *)
Definition rt_str_index (s : pstr) (i : Z) : outcome pstr :=
  rt_bind (rt_index s i) (fun e => Fail e) (fun c => Done [c]).

(* a slice bound i on a sequence of length n: negative counts from the end, then clamped to 0..n *)
Definition rt_bound (n i : Z) : Z :=
  if (i <? 0)%Z then Z.max 0 (i + n) else Z.min i n.

(* s[a:b]; None = bound left out *)
Definition rt_slice {X : Type} (s : list X) (a b : option Z) : list X :=
  let n := rt_len s in
  let lo := match a with None => 0%Z | Some i => rt_bound n i end in
  let hi := match b with None => n | Some i => rt_bound n i end in
  firstn (Z.to_nat (hi - lo)) (skipn (Z.to_nat lo) s).

(* l.append(x) *)
Definition rt_append {X : Type} (l : list X) (x : X) : list X := l ++ [x].

(* l.insert(i, x): the position is clamped like a slice bound *)
Definition rt_insert {X : Type} (l : list X) (i : Z) (x : X) : list X :=
  let j := Z.to_nat (rt_bound (rt_len l) i) in
  firstn j l ++ x :: skipn j l.

Fixpoint rt_set_nth {X : Type} (l : list X) (i : nat) (x : X) : list X :=
  match l, i with
  | [], _ => []
  | _ :: r, O => x :: r
  | y :: r, S j => y :: rt_set_nth r j x
  end.

(* l[i] = f(l[i])  (read, compute, write back; IndexError when i is out of range) *)
Definition upd_index {X : Type} (l : list X) (i : Z) (f : X -> outcome X) : outcome (list X) :=
  match rt_pos (length l) i with
  | Some j =>
      match nth_error l j with
      | Some x => rt_bind (f x) (fun e => Fail e) (fun x' => Done (rt_set_nth l j x'))
      | None => Fail EIndex
      end
  | None => Fail EIndex
  end.

(* for c in s: the characters of a str, each a str of length one *)
Definition rt_chars (s : pstr) : list pstr := map (fun c => [c]) s.

(* s.isalpha(): non-empty and every character alphabetic ([isalpha]: the
   interpreter's str.isalpha on one character) *)
Definition rt_isalpha (isalpha : N -> bool) (s : pstr) : bool :=
  match s with [] => false | _ => forallb isalpha s end.

(* x in l  for a list of str *)
Definition rt_in (x : pstr) (l : list pstr) : bool := existsb (str_eqb x) l.

(* s * n *)
Definition rt_repeat (s : pstr) (n : Z) : pstr := concat (repeat s (Z.to_nat n)).

(* ---------------------------------------------------------------- dicts *)

(* a dict with a fixed set of string keys is a record; the two shapes the
   loaders build *)
Record rt_item (T : Type) := { it_values : list pstr; it_prob : T }.
Arguments it_values {T} _.
Arguments it_prob {T} _.
Record rt_base (T : Type) := { bs_prob : T; bs_repl : list pstr }.
Arguments bs_prob {T} _.
Arguments bs_repl {T} _.

(* d['values'] = f(d['values'])  etc. (a key of a record is always there) *)
Definition upd_values {T : Type} (d : rt_item T) (f : list pstr -> outcome (list pstr)) : outcome (rt_item T) :=
  rt_bind (f (it_values d)) (fun e => Fail e) (fun v => Done {| it_values := v; it_prob := it_prob d |}).
Definition upd_prob {T : Type} (d : rt_item T) (f : T -> outcome T) : outcome (rt_item T) :=
  rt_bind (f (it_prob d)) (fun e => Fail e) (fun p => Done {| it_values := it_values d; it_prob := p |}).
Definition upd_repl {T : Type} (d : rt_base T) (f : list pstr -> outcome (list pstr)) : outcome (rt_base T) :=
  rt_bind (f (bs_repl d)) (fun e => Fail e) (fun v => Done {| bs_prob := bs_prob d; bs_repl := v |}).
Definition upd_bprob {T : Type} (d : rt_base T) (f : T -> outcome T) : outcome (rt_base T) :=
  rt_bind (f (bs_prob d)) (fun e => Fail e) (fun p => Done {| bs_prob := p; bs_repl := bs_repl d |}).

(* a dict with computed keys: association list in insertion order;
   d[k] = v replaces the value in place when the key exists, else appends *)
Fixpoint rt_dset {K V : Type} (eqb : K -> K -> bool) (k : K) (v : V) (d : list (K * V)) : list (K * V) :=
  match d with
  | [] => [(k, v)]
  | (k', v') :: r => if eqb k k' then (k, v) :: r else (k', v') :: rt_dset eqb k v r
  end.

Fixpoint rt_dget {K V : Type} (eqb : K -> K -> bool) (k : K) (d : list (K * V)) : outcome V :=
  match d with
  | [] => Fail EKey
  | (k', v') :: r => if eqb k k' then Done v' else rt_dget eqb k r
  end.
