(* Hand-written model of the priority-queue object of lib_guesser/priority_queue.py
   (class QueueItem: the order heapq sees; class PcfgQueue: __init__ for a new and
   for a restored session, next, update_save_config) over the runtime record of
   QueueRt.v.  The heap is abstract: [push] / [pop] are parameters (heapq is library
   code; its contract is QueueRt.push_ok / heap_ok).  Definitions only: QueueProofs.v
   relates this model to Next.v (step / start / restored_gen: the heap as a list up
   to permutation) and carries the C01 / C02 / C08 theorems over to it;
   QueueGenProofs.v proves the translated source (gen/Queue_gen.v) equal to it. *)
From Coq Require Import String.
From Coq Require Import List Arith Bool NArith.
From Pcfg Require Import ProbAlg Next NextSpec KernelRt QueueRt.
Import ListNotations.

Section QueueModel.
Context {A : palg}.
Notation P := (ProbAlg.P A).
Notation item := (Next.item A).
Notation heap := (heap A).
Notation pcfg_queue := (pcfg_queue A).
Notation config := (config A).

(* ---- QueueItem: the six comparisons.  heapq is a min-heap, so "less than" is
   "more probable": q_lt a b  <->  prob a > prob b. ---- *)
Definition q_lt (a b : item) : bool := plt (iprob b) (iprob a).
Definition q_le (a b : item) : bool := ple (iprob b) (iprob a).
Definition q_eq (a b : item) : bool := peq (iprob a) (iprob b).
Definition q_ne (a b : item) : bool := negb (peq (iprob a) (iprob b)).
Definition q_gt (a b : item) : bool := plt (iprob a) (iprob b).
Definition q_ge (a b : item) : bool := ple (iprob a) (iprob b).

(* ---- PcfgQueue ---- *)
Variable push : heap -> item -> heap.
Variable pop : heap -> option (item * heap).

(* insert_queue, once per element of l *)
Definition q_push_all (h : heap) (l : list item) : heap := fold_left push l h.

(* PcfgQueue(pcfg): the roots pushed on an empty heap; top / bot / size are the
   initial max_probability / min_probability / max_queue_size *)
Definition q_new (top bot : P) (size : N) (roots : list item) : pcfg_queue :=
  {| p_queue := q_push_all [] roots; max_probability := top; min_probability := bot;
     max_queue_size := size |}.

(* PcfgQueue(pcfg, save_config): per root, the items the restore walk saves are
   pushed; m / mn are the saved max_probability / min_probability *)
Definition q_restored (size : N) (roots : list item) (walk : item -> P -> P -> list item)
           (m mn : P) : pcfg_queue :=
  {| p_queue := fold_left (fun h it => q_push_all h (walk it m mn)) roots [];
     max_probability := m; min_probability := mn; max_queue_size := size |}.

(* next: None on an empty heap; else pop, record the popped probability, push
   the children, return the popped item.  fc = find_children *)
Definition q_next (fc : item -> list item) (q : pcfg_queue) : option item * pcfg_queue :=
  match pop (p_queue q) with
  | None => (None, q)
  | Some (x, r) =>
      (Some x, {| p_queue := q_push_all r (fc x); max_probability := iprob x;
                  min_probability := min_probability q; max_queue_size := max_queue_size q |})
  end.

(* update_save_config *)
Definition q_saved (q : pcfg_queue) (cfg : config) : config :=
  cfg_set (cfg_set cfg "guessing_info" "min_probability" (min_probability q))
          "guessing_info" "max_probability" (max_probability q).

(* what a constructor reads back from a config *)
Definition cfg_max (d : P) (cfg : config) : P := cfg_getfloat d cfg "guessing_info" "max_probability".
Definition cfg_min (d : P) (cfg : config) : P := cfg_getfloat d cfg "guessing_info" "min_probability".

(* what a session does with the object: call next n times, keep what it returned
   (newest first) *)
Definition q_step (nx : pcfg_queue -> option item * pcfg_queue) (s : list item * pcfg_queue)
  : list item * pcfg_queue :=
  match nx (snd s) with
  | (Some x, q') => (x :: fst s, q')
  | (None, q') => (fst s, q')
  end.

Fixpoint q_run (nx : pcfg_queue -> option item * pcfg_queue) (n : nat) (s : list item * pcfg_queue)
  : list item * pcfg_queue :=
  match n with
  | O => s
  | S k => q_run nx k (q_step nx s)
  end.

(* the state of Next.v such a session is in *)
Definition q_view (s : list item * pcfg_queue) : state A :=
  {| emitted := fst s; pending := p_queue (snd s) |}.

(* the model's instances: the roots and the walk of Next.v *)
Definition q_start (top bot : P) (size : N) (rs : ruleset A) : pcfg_queue :=
  q_new top bot size (init_items rs).

Definition q_resume (size : N) (rs : ruleset A) (m mn : P) : pcfg_queue :=
  q_restored size (init_items rs) (fun it m _ => restore_gen false (restore_fuel rs it) rs it m 0) m mn.

End QueueModel.
