(* Runtime of the generated ruleset writers (gen/Writer_gen.v, gen/WriterStruct_gen.v,
   gen/WriterConfig_gen.v, written on every run by harness/translate_writer.py from the
   Python text of
     lib_trainer/save_pcfg_data.py   calculate_and_save_counter, save_indexed_counters, save_pcfg_data
     lib_trainer/base_structure.py   base_structure_creation
     lib_trainer/prince_metrics.py   prince_evaluation
     lib_trainer/pcfg_password_parser.py   the tail of PCFGPasswordParser.parse (counting the structure)
     lib_trainer/run_trainer.py      the Markov pseudo-count block, the order of the calls
     lib_trainer/config_file.py      create_filename_list, add_*, create_config_file).
   The translator emits lets, ifs, matches on options, tuples, record projections and the
   combinators below, so that the generated text is a line-by-line image of the Python.
   Definitions only; the lemmas are in WriterRtProofs.v / WriterGenProofs*.v.

   Conventions (see the translator's docstring):
   * A statement sequence is a value of [out R A]: it falls through with the variables
     that are live afterwards ([Norm]), executes `return r` ([Retn]) or raises ([Exc]).
     `s1; s2` is [bind].  A function as a whole is [run_fn] of its body: [Ok r] / [Raise e].
   * Functions that touch the file system are state transformers over [fsys]
     ([SM R A = fsys -> out R A * fsys]; combinators with the suffix S).  What an
     exception leaves on disk stays there.
   * Exceptions are values; `except Exception` catches every one of them.
   * Strings are code point lists; ints are N; numbers (counts after the pseudo-count,
     probabilities) are the carrier of a Counters.numops; a Counter / dict is an
     insertion-ordered association list.
   * The file system is a finite map from paths (lists of components) to text; there
     are no directory entries, no permissions, no failing open. *)
From Coq Require Import String Ascii.
From Coq Require Import List NArith Bool.
From Pcfg Require Import TextFile Counters.
Import ListNotations.
Open Scope N_scope.

(* ---------------------------------------------------------------- control *)

Inductive exn := ValueError | TypeError | IndexError | KeyError | UnicodeEncodeError | OSError | ConfigError.

Inductive out (R A : Type) : Type :=
| Norm (a : A)
| Retn (r : R)
| Exc (e : exn).
Arguments Norm {R A} a.
Arguments Retn {R A} r.
Arguments Exc {R A} e.

Definition bind {R A B : Type} (m : out R A) (k : A -> out R B) : out R B :=
  match m with
  | Norm a => k a
  | Retn r => Retn r
  | Exc e => Exc e
  end.

(* try: body / except Exception [as e]: handler *)
Definition try_except {R A : Type} (body : out R A) (handler : exn -> out R A) : out R A :=
  match body with
  | Exc e => handler e
  | o => o
  end.

(* for x in l: body       (state = the variables the body assigns that exist before the loop) *)
Fixpoint for_each {R X St : Type} (l : list X) (body : X -> St -> out R St) (s : St) : out R St :=
  match l with
  | [] => Norm s
  | x :: r => bind (body x s) (for_each r body)
  end.

(* for i, x in enumerate(l): body *)
Fixpoint for_enum_from {R X St : Type} (i : N) (l : list X) (body : N -> X -> St -> out R St) (s : St) : out R St :=
  match l with
  | [] => Norm s
  | x :: r => bind (body i x s) (for_enum_from (i + 1) r body)
  end.
Definition for_enum {R X St : Type} (l : list X) (body : N -> X -> St -> out R St) (s : St) : out R St :=
  for_enum_from 0 l body s.

(* for i, x in enumerate(l): body    where the body stores items of l itself (`l[j] = e`,
   the only mutation of an iterated list the translator accepts: it keeps the length).
   Python's list iterator reads l[i] from the CURRENT list at the start of iteration i;
   [cur] projects the list out of the loop state, [d] is never read (i < len l) *)
Definition for_enum_cur {R X St : Type} (d : X) (l : list X) (cur : St -> list X)
           (body : N -> X -> St -> out R St) (s : St) : out R St :=
  for_each (map N.of_nat (seq 0 (length l))) (fun i s' => body i (nth (N.to_nat i) (cur s') d) s') s.

(* what the caller of a function sees *)
Inductive res (R : Type) : Type :=
| Ok (r : R)
| Raise (e : exn).
Arguments Ok {R} r.
Arguments Raise {R} e.

(* a function body; falling off the end returns the value the translator put there
   (None, or the final value of the objects the function updates in place) *)
Definition run_fn {R : Type} (m : out R R) : res R :=
  match m with
  | Norm a => Ok a
  | Retn r => Ok r
  | Exc e => Raise e
  end.

(* the call of a translated function *)
Definition call {R A : Type} (r : res A) : out R A :=
  match r with
  | Ok a => Norm a
  | Raise e => Exc e
  end.

(* ---------------------------------------------------------------- values *)

(* a dict key / an element of a list that is an int or a str *)
Inductive pykey := KInt (n : N) | KStr (s : str).

Definition pykey_eqb (a b : pykey) : bool :=
  match a, b with
  | KInt x, KInt y => N.eqb x y
  | KStr x, KStr y => str_eqb x y
  | _, _ => false
  end.

(* str(k) *)
Definition py_str (k : pykey) : str :=
  match k with
  | KInt n => dec_of_N n
  | KStr s => s
  end.

(* d[k] = v on a dict keyed by ints / strs *)
Fixpoint kdict_set {V : Type} (k : pykey) (v : V) (d : list (pykey * V)) : list (pykey * V) :=
  match d with
  | [] => [(k, v)]
  | (k', v') :: r => if pykey_eqb k k' then (k, v) :: r else (k', v') :: kdict_set k v r
  end.

(* counter[k] += n on a Counter of ints *)
Fixpoint cnt_add (k : str) (n : N) (c : list (str * N)) : list (str * N) :=
  match c with
  | [] => [(k, n)]
  | (k', m) :: r => if str_eqb k k' then (k', m + n) :: r else (k', m) :: cnt_add k n r
  end.

(* a section of a parsed password: (text, label or None); labels are strings here ('A4' 'E' ...) *)
Definition section := (str * option str)%type.

(* a Counter key that is None is represented by its str(): the files show str(key) anyway and no
   label / terminal the parser produces is the string 'None' (Pipeline.prefix_key does the same) *)
Definition none_text : str := [78; 111; 110; 101].
Definition key_of_opt (o : option str) : str :=
  match o with
  | Some s => s
  | None => none_text
  end.

(* e where a str is needed and e may be None: TypeError *)
Definition the {R A : Type} (o : option A) : out R A :=
  match o with
  | Some a => Norm a
  | None => Exc TypeError
  end.

(* s[i] on a string: a one-character string, IndexError when out of range *)
Definition str_item {R : Type} (s : str) (i : N) : out R str :=
  match nth_error s (N.to_nat i) with
  | Some c => Norm [c]
  | None => Exc IndexError
  end.

(* x in l for a list of strings *)
Definition s_in (x : str) (l : list str) : bool := existsb (str_eqb x) l.

(* truth value of a list / str *)
Definition nonempty {X : Type} (l : list X) : bool := match l with [] => false | _ => true end.

(* l[i] = x on a fresh local list *)
Fixpoint set_nth {X : Type} (l : list X) (i : nat) (x : X) : list X :=
  match l, i with
  | [], _ => []
  | _ :: r, O => x :: r
  | y :: r, S j => y :: set_nth r j x
  end.
Definition list_store {R X : Type} (l : list X) (i : N) (x : X) : out R (list X) :=
  if Nat.ltb (N.to_nat i) (length l) then Norm (set_nth l (N.to_nat i) x) else Exc IndexError.

(* ---------------------------------------------------------------- file system *)

Definition path := list str.
Definition fsys := list (path * str).

Fixpoint path_eqb (a b : path) : bool :=
  match a, b with
  | [], [] => true
  | x :: a', y :: b' => str_eqb x y && path_eqb a' b'
  | _, _ => false
  end.

(* os.path.join(d, n) for a relative name without separator *)
Definition path_join (d : path) (n : str) : path := d ++ [n].

Definition fs_mem (p : path) (fs : fsys) : bool := existsb (fun e => path_eqb p (fst e)) fs.
Definition fs_remove (p : path) (fs : fsys) : fsys := filter (fun e => negb (path_eqb p (fst e))) fs.

(* open(p, 'w'): created or truncated *)
Fixpoint fs_set (p : path) (t : str) (fs : fsys) : fsys :=
  match fs with
  | [] => [(p, t)]
  | (q, u) :: r => if path_eqb p q then (p, t) :: r else (q, u) :: fs_set p t r
  end.

(* f.write(t) on a file opened for writing *)
Fixpoint fs_append (p : path) (t : str) (fs : fsys) : fsys :=
  match fs with
  | [] => [(p, t)]
  | (q, u) :: r => if path_eqb p q then (q, u ++ t) :: r else (q, u) :: fs_append p t r
  end.

Fixpoint is_prefix (a b : path) : bool :=
  match a, b with
  | [], _ => true
  | x :: a', y :: b' => str_eqb x y && is_prefix a' b'
  | _ :: _, [] => false
  end.

(* p lies (at any depth) below the directory [folder] *)
Definition is_under (folder p : path) : bool := is_prefix folder p && Nat.ltb (length folder) (length p).

Definition parent (p : path) : path := removelast p.
Definition basename (p : path) : str := last p [].

Fixpoint nodup_paths (l : list path) : list path :=
  match l with
  | [] => []
  | x :: r => x :: filter (fun y => negb (path_eqb x y)) (nodup_paths r)
  end.

Fixpoint nodup_strs (l : list str) : list str :=
  match l with
  | [] => []
  | x :: r => x :: filter (fun y => negb (str_eqb x y)) (nodup_strs r)
  end.

(* os.walk(folder): one (root, dirs, files) per directory below (or equal to) folder that holds a file;
   directories in the order their first file appears (os.walk is top-down with the order of scandir:
   the order is not modelled); dirs = the sub-directories of root that hold files, at any depth *)
Definition walk (fs : fsys) (folder : path) : list (path * list str * list str) :=
  let ps := filter (is_under folder) (map fst fs) in
  map (fun d => (d,
                 nodup_strs (map (fun p => nth (length d) p []) (filter (fun p => is_under d (parent p)) ps)),
                 map basename (filter (fun p => path_eqb (parent p) d) ps)))
      (nodup_paths (map parent ps)).

(* ---------------------------------------------------------------- stateful control *)

Definition SM (R A : Type) : Type := fsys -> out R A * fsys.

Definition NormS {R A : Type} (a : A) : SM R A := fun fs => (Norm a, fs).
Definition RetnS {R A : Type} (r : R) : SM R A := fun fs => (Retn r, fs).
Definition ExcS {R A : Type} (e : exn) : SM R A := fun fs => (Exc e, fs).

Definition bindS {R A B : Type} (m : SM R A) (k : A -> SM R B) : SM R B :=
  fun fs => match m fs with
            | (Norm a, fs') => k a fs'
            | (Retn r, fs') => (Retn r, fs')
            | (Exc e, fs') => (Exc e, fs')
            end.

Definition try_exceptS {R A : Type} (body : SM R A) (handler : exn -> SM R A) : SM R A :=
  fun fs => match body fs with
            | (Exc e, fs') => handler e fs'
            | o => o
            end.

Fixpoint for_eachS {R X St : Type} (l : list X) (body : X -> St -> SM R St) (s : St) : SM R St :=
  match l with
  | [] => NormS s
  | x :: r => bindS (body x s) (for_eachS r body)
  end.

Definition run_fnS {R : Type} (m : SM R R) : fsys -> res R * fsys :=
  fun fs => match m fs with
            | (Norm a, fs') => (Ok a, fs')
            | (Retn r, fs') => (Ok r, fs')
            | (Exc e, fs') => (Raise e, fs')
            end.

(* the call of a translated function that touches the file system / that does not *)
Definition callS {R A : Type} (f : fsys -> res A * fsys) : SM R A :=
  fun fs => match f fs with
            | (Ok a, fs') => (Norm a, fs')
            | (Raise e, fs') => (Exc e, fs')
            end.
Definition liftS {R A : Type} (m : out R A) : SM R A := fun fs => (m, fs).

(* ---------------------------------------------------------------- files *)

Record handle := { h_path : path; h_enc : str }.

(* with codecs.open(p, 'w', encoding=enc) as h: body
   the file exists and is empty from the open on; what was written before an exception stays *)
Definition with_open_w {R A : Type} (p : path) (enc : str) (body : handle -> SM R A) : SM R A :=
  fun fs => body {| h_path := p; h_enc := enc |} (fs_set p [] fs).

(* h.write(s): the codec encodes the whole string or raises ([encb enc c]: the codec can encode c) *)
Definition fwrite {R : Type} (encb : str -> N -> bool) (h : handle) (s : str) : SM R unit :=
  fun fs => if forallb (encb (h_enc h)) s then (Norm tt, fs_append (h_path h) s fs)
            else (Exc UnicodeEncodeError, fs).

(* os.walk(folder), listed when the loop starts *)
Definition os_walk {R : Type} (folder : path) : SM R (list (path * list str * list str)) :=
  fun fs => (Norm (walk fs folder), fs).

(* os.unlink(p) *)
Definition os_unlink {R : Type} (p : path) : SM R unit :=
  fun fs => if fs_mem p fs then (Norm tt, fs_remove p fs) else (Exc OSError, fs).

(* ---------------------------------------------------------------- the parser object *)

(* PCFGPasswordParser as save_pcfg_data / create_config_file see it: the length-indexed
   counters are dicts keyed by ints, the others Counters; counts are numbers (the
   pseudo-count of 'M' may be a float) *)
Record parser_obj (O : numops) := {
  po_count_keyboard : list (pykey * counter O);
  po_count_emails : counter O;
  po_count_email_providers : counter O;
  po_count_website_urls : counter O;
  po_count_website_hosts : counter O;
  po_count_website_prefixes : counter O;
  po_count_years : counter O;
  po_count_context_sensitive : counter O;
  po_count_alpha : list (pykey * counter O);
  po_count_alpha_masks : list (pykey * counter O);
  po_count_digits : list (pykey * counter O);
  po_count_other : list (pykey * counter O);
  po_count_base_structures : counter O;
  po_count_raw_base_structures : counter O;
  po_count_prince : counter O
}.
Arguments po_count_keyboard {O}. Arguments po_count_emails {O}. Arguments po_count_email_providers {O}.
Arguments po_count_website_urls {O}. Arguments po_count_website_hosts {O}. Arguments po_count_website_prefixes {O}.
Arguments po_count_years {O}. Arguments po_count_context_sensitive {O}. Arguments po_count_alpha {O}.
Arguments po_count_alpha_masks {O}. Arguments po_count_digits {O}. Arguments po_count_other {O}.
Arguments po_count_base_structures {O}. Arguments po_count_raw_base_structures {O}. Arguments po_count_prince {O}.

(* ---------------------------------------------------------------- config.ini *)

(* an option value: a string constant, json.dumps of a list of names, or a string the
   translator does not look into (program details, comments, uuid, json of the replacements) *)
Inductive cval := VStr (s : str) | VNames (l : list pykey) | VOpaque.

Definition config := list (str * list (str * cval)).

Definition cfg_has (sec : str) (c : config) : bool := existsb (fun e => str_eqb sec (fst e)) c.

(* config.add_section(sec): DuplicateSectionError when it exists *)
Definition cfg_add_section {R : Type} (sec : str) (c : config) : out R config :=
  if cfg_has sec c then Exc ConfigError else Norm (c ++ [(sec, [])]).

Fixpoint cfg_set_in (sec key : str) (v : cval) (c : config) : config :=
  match c with
  | [] => []
  | (s, kv) :: r => if str_eqb sec s then (s, dict_set key v kv) :: r else (s, kv) :: cfg_set_in sec key v r
  end.

(* config.set(sec, key, value): NoSectionError when the section is missing *)
Definition cfg_set {R : Type} (sec key : str) (v : cval) (c : config) : out R config :=
  if cfg_has sec c then Norm (cfg_set_in sec key v c) else Exc ConfigError.

(* what config.ini says: section -> names of its files / its directory *)
Definition cfg_names (c : config) : list (str * list pykey) :=
  flat_map (fun e => match dict_get (str_of_string "filenames"%string) (snd e) with
                     | Some (VNames l) => [(fst e, l)]
                     | _ => []
                     end) c.
Definition cfg_dirs (c : config) : list (str * str) :=
  flat_map (fun e => match dict_get (str_of_string "directory"%string) (snd e) with
                     | Some (VStr d) => [(fst e, d)]
                     | _ => []
                     end) c.
