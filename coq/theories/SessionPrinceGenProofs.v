(* The generated PRINCE-LING wordlist loop (gen/SessionPrince_gen.v: the translation of
   the Python text of lib_princeling/wordlist_generation.py create_prince_wordlist, redone
   on every run by harness/translate_session.py) equals the hand-written model
   Session.prince with the remaining size passed on (prince true), the model the
   theorems of C17 are about.

   Main names: prince_eq (generated = model: for EVERY world in which the queue hands out
   a list of pre-terminals and create_guesses meets its contract [limit_take]: the first
   l guesses of the pre-terminal, all of them for None / 0; every --size None / n; fuel >
   number of pre-terminals), prince_never_out_of_fuel, source_size_exact (C17_size_exact
   transported), list_world_* (the hypotheses are satisfiable: the world of Session.v, a
   list of groups; the generated code computes).

   The proof symbolically executes one iteration of the generated loop body against the
   model's step ([prince_step]) and then runs the model's induction; it does not mention
   the generated text, so it survives renamings, comments, reformatting and rewrites that
   leave an iteration arithmetically the same, and breaks when an iteration changes its
   meaning (`<=` for `<`, no limit passed, the count not added, ...). *)
From Coq Require Import List Arith ZArith NArith Bool Lia.
From Pcfg Require Import KernelRt ExpandRt Session SessionProofs SessionRt SessionRtProofs.
From PcfgGen Require Import SessionPrince_gen.
Import ListNotations.

Section PrinceEq.
Context {W Item Pt : Type}.
Context (new_queue : W -> W) (queue_next : W -> option Item * W) (item_pt : Item -> Pt).
Context (create_guesses : Pt -> bool -> option Z -> W -> sres Z * list nat * W).
(* what the world means: the pre-terminals the queue will still return, and the complete
   expansion of a pre-terminal *)
Context (pending : W -> list Item) (expansion : Pt -> list nat).

Definition queue_contract : Prop := forall w,
  fst (queue_next w) = hd_error (pending w) /\ pending (snd (queue_next w)) = tl (pending w).

Definition create_guesses_contract : Prop := forall pt l w,
  fst (create_guesses pt false l w) = (SOk (len (limit_take l (expansion pt))), limit_take l (expansion pt)) /\
  pending (snd (create_guesses pt false l w)) = pending w.

Context (Hq : queue_contract) (Hc : create_guesses_contract).

Definition groups (w : W) : list (list nat) := map (fun it => expansion (item_pt it)) (pending w).

Definition zsize (size : option nat) : option Z := option_map Z.of_nat size.

(* does the model's loop go on? *)
Definition goes_on (size : option nat) (g : nat) : bool :=
  match size with None => true | Some n => Nat.ltb g n end.
(* what the model emits for one group *)
Definition emits (size : option nat) (g : nat) (gs : list nat) : list nat :=
  match size with None => gs | Some n => firstn (n - g) gs end.

Lemma prince_unfold size g gs rest :
  prince true (gs :: rest) g size =
  if goes_on size g then emits size g gs ++ prince true rest (g + length (emits size g gs)) size else [].
Proof. destruct size as [n|]; reflexivity. Qed.

Lemma prince_stop size g pts : goes_on size g = false -> prince true pts g size = [].
Proof.
  destruct size as [n|]; [|discriminate]. cbn [goes_on]. intros H.
  destruct pts; cbn [prince]; [reflexivity|]. now rewrite H.
Qed.

(* the loop of the generated function, whatever its text is: [body], [k], [oof] are
   taken from the goal *)
Section Loop.
Context (size : option nat).
Context (body : W * list nat * Z -> lctl (sres unit * list nat * W) (W * list nat * Z)).
Context (k oof : W * list nat * Z -> sres unit * list nat * W).

(* one iteration against the model *)
Definition prince_step : Prop := forall w printed g,
  (goes_on size g = false -> body (w, printed, Z.of_nat g) = LBreak (w, printed, Z.of_nat g)) /\
  (goes_on size g = true -> pending w = [] ->
     exists w', body (w, printed, Z.of_nat g) = LBreak (w', printed, Z.of_nat g)) /\
  (goes_on size g = true -> forall it r, pending w = it :: r ->
     exists w', pending w' = r /\
       body (w, printed, Z.of_nat g) =
       LContinue (w', printed ++ emits size g (expansion (item_pt it)),
                  Z.of_nat (g + length (emits size g (expansion (item_pt it)))))).

Lemma prince_loop : prince_step ->
  (forall w printed z, k (w, printed, z) = (SOk tt, printed, w)) ->
  forall pts fuel w printed g, pending w = pts -> length pts < fuel ->
  exists w', while_loop fuel body (w, printed, Z.of_nat g) k oof =
             (SOk tt, printed ++ prince true (map (fun it => expansion (item_pt it)) pts) g size, w').
Proof.
  intros Hs Hk. induction pts as [|it r IH]; intros fuel w printed g Hp Hf;
    (destruct fuel as [|fuel]; [cbn in Hf; lia|]); rewrite while_loop_S;
    destruct (Hs w printed g) as [S1 [S2 S3]]; destruct (goes_on size g) eqn:Eg.
  - destruct (S2 eq_refl Hp) as [w' ->]. rewrite Hk. exists w'. cbn. now rewrite app_nil_r.
  - rewrite (S1 eq_refl), Hk. exists w. cbn. now rewrite app_nil_r.
  - destruct (S3 eq_refl it r Hp) as [w' [Hp' ->]].
    destruct (IH fuel w' (printed ++ emits size g (expansion (item_pt it)))
                 (g + length (emits size g (expansion (item_pt it)))) Hp') as [w'' ->]; [cbn in Hf; lia|].
    exists w''. cbn [map]. rewrite prince_unfold, Eg, app_assoc. reflexivity.
  - rewrite (S1 eq_refl), Hk. exists w. cbn [map]. rewrite prince_stop by exact Eg. now rewrite app_nil_r.
Qed.
End Loop.

(* the limit the generated code hands to create_guesses, against the model's firstn *)
Lemma take_remaining n g (gs : list nat) : g < n ->
  limit_take (Some (Z.of_nat n - Z.of_nat g)%Z) gs = firstn (n - g) gs.
Proof.
  intros H. rewrite <- Nat2Z.inj_sub by lia. apply limit_take_pos. lia.
Qed.

(* symbolic execution of the generated body: reduce the combinators, split every arithmetic
   test into its outcomes (the impossible ones die by lia), and replace a collaborator that is
   run by what its contract says; the new world is a fresh [w'] with a fact about what is
   pending in it *)
Ltac norm := cbv beta iota zeta delta [is_none_or is_some_and if_none zsize option_map sbind extend goes_on emits].

Ltac norm_in H := cbv beta iota zeta delta [is_none_or is_some_and if_none zsize option_map sbind extend goes_on emits] in H.

Ltac run_queue :=
  match goal with
  | Hp : pending ?w = _ |- context [queue_next ?w] =>
      let o := fresh "o" in let w' := fresh "w" in let Ho := fresh "Ho" in let Hw := fresh "Hw" in
      destruct (Hq w) as [Ho Hw]; destruct (queue_next w) as [o w']; cbn [fst snd] in Ho, Hw;
      rewrite Hp in Ho, Hw; cbn [hd_error tl] in Ho, Hw; subst o; clear Hp
  end.

Ltac run_create :=
  match goal with
  | |- context [create_guesses ?pt false ?l ?w] =>
      let w' := fresh "w" in let E := fresh "E" in let Hw := fresh "Hw" in
      destruct (Hc pt l w) as [E Hw]; destruct (create_guesses pt false l w) as [[? ?] w'];
      cbn [fst snd] in E, Hw; injection E as -> ->
  end.

Ltac exec := repeat first [ progress norm | run_queue | run_create | split_test; try lia ].

Theorem prince_eq : forall (size : option nat) (fuel : nat) (w : W),
  length (pending (new_queue w)) < fuel ->
  exists w', py_create_prince_wordlist new_queue queue_next item_pt create_guesses fuel (zsize size) w =
             (SOk tt, prince true (groups (new_queue w)) 0 size, w').
Proof.
  intros size fuel w Hf. unfold py_create_prince_wordlist.
  match goal with |- context [while_loop fuel ?b _ ?k ?o] => set (body := b); set (kk := k); set (oo := o) end.
  change 0%Z with (Z.of_nat 0).
  assert (Hstep : prince_step size body); [|
    destruct (prince_loop size body kk oo Hstep (fun _ _ _ => eq_refl) (pending (new_queue w)) fuel (new_queue w) [] 0
                eq_refl Hf) as [w' H]; exists w'; exact H].
  (* one iteration of the generated body against the model *)
  intros w0 printed g. subst body. repeat split.
  - (* the size has been reached: the loop is left, nothing is popped *)
    destruct size as [n|]; [|discriminate]. norm. intros Hg. zb Hg. exec. reflexivity.
  - (* the queue is empty *)
    intros Hg Hp. destruct size as [n|]; norm_in Hg; [zb Hg|]; exec; eexists; reflexivity.
  - (* one pre-terminal *)
    intros Hg it r Hp. destruct size as [n|]; norm_in Hg; [zb Hg|]; exec.
    + match goal with |- context [limit_take (Some ?z)] => replace z with (Z.of_nat n - Z.of_nat g)%Z by lia end.
      rewrite take_remaining by exact Hg.
      eexists. split; [|unfold len; repeat f_equal; lia]. congruence.
    + rewrite limit_take_none.
      eexists. split; [|unfold len; repeat f_equal; lia]. congruence.
Qed.

(* termination: fuel above the number of pre-terminals is never exhausted (prince_eq
   returns SOk); stated on its own for the fuel the harness / examples use *)
Corollary prince_never_out_of_fuel : forall size w,
  fst (fst (py_create_prince_wordlist new_queue queue_next item_pt create_guesses
              (S (length (pending (new_queue w)))) (zsize size) w)) = SOk tt.
Proof.
  intros size w. destruct (prince_eq size (S (length (pending (new_queue w)))) w) as [w' ->]; [lia|]. reflexivity.
Qed.

(* C17_size_exact for the translated source: exactly the first n words of the stream *)
Corollary source_size_exact : forall (n fuel : nat) (w : W),
  length (pending (new_queue w)) < fuel ->
  snd (fst (py_create_prince_wordlist new_queue queue_next item_pt create_guesses fuel (Some (Z.of_nat n)) w))
  = firstn n (concat (groups (new_queue w))).
Proof.
  intros n fuel w Hf. destruct (prince_eq (Some n) fuel w Hf) as [w' H]. cbn [zsize option_map] in H.
  rewrite H. cbn [fst snd]. apply C17_size_exact.
Qed.

Corollary source_size_none : forall (fuel : nat) (w : W),
  length (pending (new_queue w)) < fuel ->
  snd (fst (py_create_prince_wordlist new_queue queue_next item_pt create_guesses fuel None w))
  = concat (groups (new_queue w)).
Proof.
  intros fuel w Hf. destruct (prince_eq None fuel w Hf) as [w' H]. cbn [zsize option_map] in H.
  rewrite H. cbn [fst snd]. apply C17_size_none.
Qed.
End PrinceEq.

(* ---- the hypotheses are satisfiable: the world of Session.v.  The world is the list of
   groups the queue still holds (a pre-terminal is its list of guesses); PcfgQueue(pcfg)
   leaves it as it is, next() pops, create_guesses writes the first l guesses. ---- *)
Definition lw_next (w : list (list nat)) : option (list nat) * list (list nat) := (hd_error w, tl w).
Definition lw_create (gs : list nat) (_ : bool) (l : option Z) (w : list (list nat)) : sres Z * list nat * list (list nat) :=
  (SOk (len (limit_take l gs)), limit_take l gs, w).

Lemma list_world_queue : queue_contract lw_next (fun w => w).
Proof. intros w. split; reflexivity. Qed.

Lemma list_world_create : create_guesses_contract lw_create (fun w => w) (fun gs => gs).
Proof. intros pt l w. split; reflexivity. Qed.

Theorem list_world_prince_eq : forall (size : option nat) (pts : list (list nat)),
  exists w', py_create_prince_wordlist (fun w => w) lw_next (fun gs => gs) lw_create (S (length pts)) (zsize size) pts
             = (SOk tt, prince true pts 0 size, w').
Proof.
  intros size pts.
  destruct (prince_eq (fun w => w) lw_next (fun gs => gs) lw_create (fun w => w) (fun gs => gs)
              list_world_queue list_world_create size (S (length pts)) pts) as [w' H]; [lia|].
  exists w'. rewrite H. unfold groups. now rewrite map_id.
Qed.

Example list_world_example :
  py_create_prince_wordlist (fun w => w) lw_next (fun gs => gs) lw_create 4 (Some 4%Z) [[1;2;3];[4;5;6];[7]]
  = (SOk tt, [1;2;3;4], [[7]]) /\
  py_create_prince_wordlist (fun w => w) lw_next (fun gs => gs) lw_create 4 None [[1;2;3];[4;5;6];[7]]
  = (SOk tt, [1;2;3;4;5;6;7], []).
Proof. split; vm_compute; reflexivity. Qed.
