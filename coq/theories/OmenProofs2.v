(* OmenProofs2.v -- the canonical list of completions: its members, the part
   that follows a member ([rem]), uniqueness, and the bottom-up view of [rem]
   that GuessStructure.next_guess walks ([alts]). *)
From Coq Require Import List Arith Bool NArith ZArith Lia.
From Pcfg Require Import OmenSpec Omen OmenProofs.
Import ListNotations.

(* ------------------------------------------------------------------ *)
(* generic list facts                                                   *)

Lemma flat_map_flat_map : forall {X Y Z} (g : Y -> list Z) (h : X -> list Y) xs,
  flat_map g (flat_map h xs) = flat_map (fun x => flat_map g (h x)) xs.
Proof.
  intros X Y Z g h xs. induction xs as [|x r IH]; simpl; [reflexivity|].
  rewrite flat_map_app, IH. reflexivity.
Qed.

Lemma flat_map_map : forall {X Y Z} (g : Y -> list Z) (h : X -> Y) xs,
  flat_map g (map h xs) = flat_map (fun x => g (h x)) xs.
Proof. intros X Y Z g h xs. induction xs as [|x r IH]; simpl; [reflexivity | rewrite IH; reflexivity]. Qed.

Lemma map_flat_map : forall {X Y Z} (f : Y -> Z) (g : X -> list Y) xs,
  map f (flat_map g xs) = flat_map (fun x => map f (g x)) xs.
Proof. intros X Y Z f g xs. induction xs as [|x r IH]; simpl; [reflexivity | rewrite map_app, IH; reflexivity]. Qed.

Lemma nth_error_split_skipn : forall {X} (l : list X) i x,
  nth_error l i = Some x -> l = firstn i l ++ x :: skipn (S i) l.
Proof.
  intros X l. induction l as [|y l IH]; intros [|i] x H; simpl in *; try discriminate.
  - inversion H. reflexivity.
  - f_equal. apply IH. exact H.
Qed.

Lemma hd_error_skipn : forall {X} (l : list X) j, hd_error (skipn j l) = nth_error l j.
Proof. intros X l. induction l as [|y l IH]; intros [|j]; simpl; auto. Qed.

Lemma nth_error_combine_seq : forall {X} (l : list X) a i,
  nth_error (combine (seq a (length l)) l) i = option_map (pair (a + i)) (nth_error l i).
Proof.
  intros X l. induction l as [|y l IH]; intros a [|i]; simpl; try reflexivity.
  - rewrite Nat.add_0_r. reflexivity.
  - rewrite IH. replace (S a + i) with (a + S i) by lia. reflexivity.
Qed.

Lemma nth_error_indexed : forall {X} (l : list X) i,
  nth_error (indexed l) i = option_map (pair i) (nth_error l i).
Proof. intros X l i. unfold indexed. rewrite nth_error_combine_seq. reflexivity. Qed.

Lemma in_indexed : forall {X} (l : list X) i x, In (i, x) (indexed l) <-> nth_error l i = Some x.
Proof.
  intros X l i x. split; intro H.
  - apply In_nth_error in H. destruct H as [j Hj]. rewrite nth_error_indexed in Hj.
    destruct (nth_error l j) eqn:E; simpl in Hj; [|discriminate]. inversion Hj; subst. exact E.
  - apply nth_error_In with (n := i). rewrite nth_error_indexed, H. reflexivity.
Qed.

Lemma NoDup_app_intro : forall {X} (a b : list X),
  NoDup a -> NoDup b -> (forall z, In z a -> ~ In z b) -> NoDup (a ++ b).
Proof.
  intros X a b Ha Hb Hd. induction Ha as [|x a Hx Ha IH]; simpl; [exact Hb|].
  constructor.
  - intro H. apply in_app_or in H. destruct H as [H|H]; [contradiction|]. apply (Hd x); [left; reflexivity | exact H].
  - apply IH. intros z Hz. apply Hd. right. exact Hz.
Qed.

Lemma NoDup_flat_map_disj : forall {X Y} (g : X -> list Y) xs,
  NoDup xs -> (forall x, In x xs -> NoDup (g x)) ->
  (forall x y z, In x xs -> In y xs -> In z (g x) -> In z (g y) -> x = y) ->
  NoDup (flat_map g xs).
Proof.
  intros X Y g xs Hn. induction Hn as [|x r Hx Hr IH]; intros Hg Hd; simpl; [constructor|].
  apply NoDup_app_intro.
  - apply Hg. left. reflexivity.
  - apply IH; [intros y Hy; apply Hg; right; exact Hy|].
    intros a b z Ha Hb. apply Hd; right; assumption.
  - intros z Hz Hz'. apply in_flat_map in Hz'. destruct Hz' as [y [Hy Hzy]].
    assert (x = y) by (apply (Hd x y z); [left; reflexivity | right; exact Hy | exact Hz | exact Hzy]).
    subst. contradiction.
Qed.

Lemma NoDup_map_inj : forall {X Y} (f : X -> Y) l,
  (forall a b, f a = f b -> a = b) -> NoDup l -> NoDup (map f l).
Proof.
  intros X Y f l Hf Hn. induction Hn as [|x r Hx Hr IH]; simpl; constructor; [|exact IH].
  intro H. apply in_map_iff in H. destruct H as [y [Hy Hin]]. apply Hf in Hy. subst. contradiction.
Qed.

Lemma NoDup_split_unique : forall {X} (l a b a' b' : list X) x,
  NoDup l -> l = a ++ x :: b -> l = a' ++ x :: b' -> b = b'.
Proof.
  intros X l a. revert l. induction a as [|y a IH]; intros l b a' b' x Hn H1 H2.
  - destruct a' as [|y' a']; simpl in *.
    + rewrite H1 in H2. inversion H2. reflexivity.
    + subst l. inversion H2; subst. apply NoDup_cons_iff in Hn. destruct Hn as [Hni _].
      exfalso. apply Hni. apply in_or_app. right. left. reflexivity.
  - destruct a' as [|y' a']; simpl in *.
    + subst l. inversion H2; subst. apply NoDup_cons_iff in Hn. destruct Hn as [Hni _].
      exfalso. apply Hni. apply in_or_app. right. left. reflexivity.
    + subst l. inversion H2; subst. apply NoDup_cons_iff in Hn. destruct Hn as [_ Hn'].
      apply (IH (a ++ x :: b) b a' b' x); auto.
Qed.

Lemma NoDup_down_from : forall n, NoDup (down_from n).
Proof.
  induction n as [|n IH]; simpl.
  - constructor; [intros [] | constructor].
  - constructor; [|exact IH]. intro H. apply in_down_from in H. lia.
Qed.

Lemma NoDup_levels_down : forall m z, NoDup (levels_down m z).
Proof. intros m z. unfold levels_down. destruct (z <? 0)%Z; [constructor | apply NoDup_down_from]. Qed.

Definition lower (L : nat) : list nat := match L with 0 => [] | S m => down_from m end.

Lemma in_lower : forall L L', In L' (lower L) <-> L' < L.
Proof. intros [|m] L'; simpl; [split; [intros [] | lia] | rewrite in_down_from; lia]. Qed.

Lemma down_from_split : forall n L, L <= n -> exists pre, down_from n = pre ++ L :: lower L.
Proof.
  induction n as [|n IH]; intros L HL.
  - assert (L = 0) by lia. subst. exists []. reflexivity.
  - destruct (Nat.eq_dec L (S n)) as [->|Hne].
    + exists []. reflexivity.
    + destruct (IH L ltac:(lia)) as [pre Hp]. exists (S n :: pre). simpl. rewrite Hp. reflexivity.
Qed.

(* ------------------------------------------------------------------ *)
Section Succ.
  Variable cpf : ostr -> nat -> list N.
  Variable maxl : nat.

  Notation compl := (completions_f cpf maxl).

  (* the (level, (index, character)) choices at one position, in order *)
  Definition choices (p : ostr) (lvl : Z) : list (nat * (nat * N)) :=
    flat_map (fun L => map (pair L) (indexed (cpf p L))) (levels_down maxl lvl).

  (* all completions through one choice *)
  Definition ext (p : ostr) (k : nat) (lvl : Z) (ch : nat * (nat * N)) : list tree :=
    map (cons (p, fst ch, fst (snd ch)))
        (compl k (shift p (snd (snd ch))) (lvl - Z.of_nat (fst ch))).

  Lemma compl_S : forall k p lvl, compl (S k) p lvl = flat_map (ext p k lvl) (choices p lvl).
  Proof.
    intros k p lvl. unfold choices. rewrite flat_map_flat_map. simpl.
    apply flat_map_ext. intro L. rewrite flat_map_map. reflexivity.
  Qed.

  Lemma in_choices : forall p lvl L i c,
    In (L, (i, c)) (choices p lvl) <-> In L (levels_down maxl lvl) /\ nth_error (cpf p L) i = Some c.
  Proof.
    intros p lvl L i c. unfold choices. rewrite in_flat_map. split.
    - intros [L' [H1 H2]]. apply in_map_iff in H2. destruct H2 as [[i' c'] [E H2]]. inversion E; subst.
      split; [exact H1 | apply in_indexed; exact H2].
    - intros [H1 H2]. exists L. split; [exact H1|]. apply in_map_iff. exists (i, c). split; [reflexivity|].
      apply in_indexed. exact H2.
  Qed.

  Lemma choices_split : forall p lvl L i c,
    In (L, (i, c)) (choices p lvl) ->
    exists pre, choices p lvl = pre ++ (L, (i, c)) :: later_choices cpf p L i.
  Proof.
    intros p lvl L i c H. apply in_choices in H. destruct H as [HL Hc].
    unfold choices, levels_down in *. destruct (lvl <? 0)%Z; [destruct HL|].
    apply in_down_from in HL. destruct (down_from_split _ _ HL) as [preL Hp]. rewrite Hp.
    rewrite flat_map_app. cbn [flat_map].
    assert (Hi : nth_error (indexed (cpf p L)) i = Some (i, c)) by (rewrite nth_error_indexed, Hc; reflexivity).
    assert (Hm : map (pair L) (indexed (cpf p L)) =
                 map (pair L) (firstn i (indexed (cpf p L))) ++
                 (L, (i, c)) :: map (pair L) (skipn (S i) (indexed (cpf p L)))).
    { transitivity (map (pair L) (firstn i (indexed (cpf p L)) ++ (i, c) :: skipn (S i) (indexed (cpf p L)))).
      - f_equal. apply nth_error_split_skipn. exact Hi.
      - rewrite map_app. reflexivity. }
    rewrite Hm.
    exists (flat_map (fun L0 => map (pair L0) (indexed (cpf p L0))) preL ++ map (pair L) (firstn i (indexed (cpf p L)))).
    unfold later_choices. fold (lower L). rewrite <- !app_assoc. cbn [app]. reflexivity.
  Qed.

  Lemma NoDup_indexed : forall {X} (l : list X), NoDup (indexed l).
  Proof.
    intros X l. unfold indexed. generalize 0. induction l as [|x l IH]; intro a; simpl; constructor; [|apply IH].
    intro H. apply in_combine_l in H. apply in_seq in H. lia.
  Qed.

  Lemma NoDup_choices : forall p lvl, NoDup (choices p lvl).
  Proof.
    intros p lvl. unfold choices. apply NoDup_flat_map_disj.
    - apply NoDup_levels_down.
    - intros L _. apply NoDup_map_inj; [intros a b H; inversion H; reflexivity | apply NoDup_indexed].
    - intros L L' z _ _ H1 H2. apply in_map_iff in H1. apply in_map_iff in H2.
      destruct H1 as [a [E1 _]]. destruct H2 as [b [E2 _]]. subst z. inversion E2. reflexivity.
  Qed.

  (* ---------------- members ---------------- *)
  Lemma in_compl_S : forall k p lvl t,
    In t (compl (S k) p lvl) <->
    exists L i c t', t = (p, L, i) :: t' /\ In (L, (i, c)) (choices p lvl) /\
                     In t' (compl k (shift p c) (lvl - Z.of_nat L)).
  Proof.
    intros k p lvl t. rewrite compl_S, in_flat_map. split.
    - intros [[L [i c]] [H1 H2]]. unfold ext in H2. simpl in H2. apply in_map_iff in H2.
      destruct H2 as [t' [E H2]]. exists L, i, c, t'. auto.
    - intros (L & i & c & t' & E & H1 & H2). exists (L, (i, c)). split; [exact H1|].
      unfold ext. simpl. apply in_map_iff. exists t'. auto.
  Qed.

  Lemma in_compl_0 : forall p lvl t, In t (compl 0 p lvl) <-> t = [] /\ lvl = 0%Z.
  Proof.
    intros p lvl t. simpl. destruct (lvl =? 0)%Z eqn:E.
    - apply Z.eqb_eq in E. simpl. split; [intros [H|[]]; auto | intros [H _]; left; auto].
    - apply Z.eqb_neq in E. simpl. split; [intros [] | intros [_ H]; contradiction].
  Qed.

  Lemma compl_length : forall k p lvl t, In t (compl k p lvl) -> length t = k.
  Proof.
    induction k as [|k IH]; intros p lvl t H.
    - apply in_compl_0 in H. destruct H; subst. reflexivity.
    - apply in_compl_S in H. destruct H as (L & i & c & t' & E & _ & H). subst. simpl. f_equal. eapply IH. exact H.
  Qed.

  Lemma compl_head : forall k p lvl r t, In (r :: t) (compl k p lvl) -> row_prefix r = p.
  Proof.
    intros [|k] p lvl r t H.
    - apply in_compl_0 in H. destruct H; discriminate.
    - apply in_compl_S in H. destruct H as (L & i & c & t' & E & _). inversion E. reflexivity.
  Qed.

  Definition sumlev (l : list row) : Z := fold_right (fun r a => (Z.of_nat (row_level r) + a)%Z) 0%Z l.

  Lemma sumlev_app : forall a b, sumlev (a ++ b) = (sumlev a + sumlev b)%Z.
  Proof. induction a as [|x a IH]; intro b; simpl; [reflexivity | rewrite IH; lia]. Qed.

  Lemma sumlev_rev : forall a, sumlev (rev a) = sumlev a.
  Proof. induction a as [|x a IH]; simpl; [reflexivity | rewrite sumlev_app, IH; simpl; lia]. Qed.

  Lemma compl_sum : forall k p lvl t, In t (compl k p lvl) -> sumlev t = lvl.
  Proof.
    induction k as [|k IH]; intros p lvl t H.
    - apply in_compl_0 in H. destruct H; subst. reflexivity.
    - apply in_compl_S in H. destruct H as (L & i & c & t' & E & _ & H). subst. simpl.
      apply IH in H. unfold row_level. simpl. lia.
  Qed.

  (* consecutive rows: the lower row's prefix without its last character is the
     upper row's prefix without its first one (what element[0][0:-1] relies on) *)
  Definition adj_ok (a b : row) : Prop := removelast (row_prefix b) = tl (row_prefix a).

  Fixpoint chain_dn (t : tree) : Prop :=
    match t with
    | a :: (b :: _) as t' => adj_ok a b /\ chain_dn t'
    | _ => True
    end.

  Fixpoint chain_up (st : list row) : Prop :=
    match st with
    | b :: (a :: _) as st' => adj_ok a b /\ chain_up st'
    | _ => True
    end.

  Lemma chain_up_snoc : forall st a,
    chain_up st -> (match rev st with [] => True | b :: _ => adj_ok a b end) -> chain_up (st ++ [a]).
  Proof.
    induction st as [|x st IH]; intros a H1 H2; simpl; [exact I|].
    destruct st as [|y st'].
    - simpl in *. split; [exact H2 | exact I].
    - change ((y :: st') ++ [a]) with (y :: (st' ++ [a])). simpl in H1. destruct H1 as [H1 H1'].
      split; [exact H1|]. apply IH; [exact H1'|].
      simpl in H2. simpl. destruct (rev st' ++ [y]) eqn:E.
      + destruct (rev st'); discriminate.
      + simpl in H2. exact H2.
  Qed.

  Lemma chain_dn_rev : forall t, chain_dn t -> chain_up (rev t).
  Proof.
    induction t as [|a t IH]; intro H; simpl; [exact I|].
    apply chain_up_snoc.
    - apply IH. destruct t; [exact I | destruct H; assumption].
    - rewrite rev_involutive. destruct t as [|b t]; [exact I | destruct H; assumption].
  Qed.

  Lemma compl_chain : forall k p lvl t, In t (compl k p lvl) -> chain_dn t.
  Proof.
    induction k as [|k IH]; intros p lvl t H.
    - apply in_compl_0 in H. destruct H; subst. exact I.
    - apply in_compl_S in H. destruct H as (L & i & c & t' & E & _ & H). subst.
      destruct t' as [|b t'']; [exact I|]. split; [|eapply IH; exact H].
      apply compl_head in H. unfold adj_ok. rewrite H. unfold shift. simpl. apply removelast_last.
  Qed.

  (* ---------------- no tree twice ---------------- *)
  Lemma NoDup_compl : forall k p lvl, NoDup (compl k p lvl).
  Proof.
    induction k as [|k IH]; intros p lvl.
    - simpl. destruct (lvl =? 0)%Z; [constructor; [intros [] | constructor] | constructor].
    - rewrite compl_S. apply NoDup_flat_map_disj.
      + apply NoDup_choices.
      + intros ch _. unfold ext. apply NoDup_map_inj; [intros a b H; inversion H; reflexivity | apply IH].
      + intros [L [i c]] [L' [i' c']] z H1 H2 Hz1 Hz2. unfold ext in *. simpl in *.
        apply in_map_iff in Hz1. apply in_map_iff in Hz2.
        destruct Hz1 as [a [E1 _]]. destruct Hz2 as [b [E2 _]]. subst z. inversion E2; subst.
        apply in_choices in H1. apply in_choices in H2. destruct H1 as [_ H1]. destruct H2 as [_ H2].
        rewrite H1 in H2. inversion H2. reflexivity.
  Qed.

  (* ---------------- what follows a member ---------------- *)
  Fixpoint rem (k : nat) (lvl : Z) (t : tree) : list tree :=
    match k, t with
    | S k', (p, L, i) :: t' =>
        map (cons (p, L, i)) (rem k' (lvl - Z.of_nat L) t') ++
        flat_map (ext p k' lvl) (later_choices cpf p L i)
    | _, _ => []
    end.

  Lemma rem_spec : forall k p lvl t,
    In t (compl k p lvl) -> exists pre, compl k p lvl = pre ++ t :: rem k lvl t.
  Proof.
    induction k as [|k IH]; intros p lvl t H.
    - apply in_compl_0 in H. destruct H; subst. exists []. reflexivity.
    - pose proof H as H0. apply in_compl_S in H. destruct H as (L & i & c & t' & E & Hc & Ht). subst t.
      destruct (choices_split _ _ _ _ _ Hc) as [prec Hs].
      destruct (IH _ _ _ Ht) as [pre' Hp].
      rewrite compl_S, Hs, flat_map_app. simpl.
      unfold ext at 2. simpl. rewrite Hp. rewrite map_app. simpl.
      exists (flat_map (ext p k lvl) prec ++ map (cons (p, L, i)) pre').
      rewrite <- !app_assoc. simpl. reflexivity.
  Qed.

  Lemma rem_next : forall k p lvl t t' ys,
    In t (compl k p lvl) -> rem k lvl t = t' :: ys ->
    In t' (compl k p lvl) /\ rem k lvl t' = ys.
  Proof.
    intros k p lvl t t' ys H E.
    destruct (rem_spec _ _ _ _ H) as [pre Hp]. rewrite E in Hp.
    assert (Hin : In t' (compl k p lvl)).
    { rewrite Hp. apply in_or_app. right. right. left. reflexivity. }
    split; [exact Hin|].
    destruct (rem_spec _ _ _ _ Hin) as [pre' Hp'].
    apply (NoDup_split_unique (compl k p lvl) pre' (rem k lvl t') (pre ++ [t]) ys t' (NoDup_compl k p lvl) Hp').
    rewrite Hp at 1. rewrite <- app_assoc. reflexivity.
  Qed.

  Lemma compl_hd_in : forall k p lvl t, hd_error (compl k p lvl) = Some t -> In t (compl k p lvl).
  Proof. intros k p lvl t H. destruct (compl k p lvl); inversion H. left. reflexivity. Qed.

  Lemma rem_of_hd : forall k p lvl t ys, compl k p lvl = t :: ys -> rem k lvl t = ys.
  Proof.
    intros k p lvl t ys E.
    assert (Hin : In t (compl k p lvl)) by (rewrite E; left; reflexivity).
    destruct (rem_spec _ _ _ _ Hin) as [pre Hp].
    apply (NoDup_split_unique (compl k p lvl) pre (rem k lvl t) [] ys t (NoDup_compl k p lvl) Hp). exact E.
  Qed.

  (* ---------------- the bottom-up view ---------------- *)
  (* st = the tree reversed (deepest row first); m = rows needed below the head *)
  Fixpoint alts (lvl : Z) (st : list row) (m : nat) : list tree :=
    match st with
    | [] => []
    | (p, L, i) :: rest =>
        map (app (rev rest)) (flat_map (ext p m (lvl - sumlev rest)) (later_choices cpf p L i))
        ++ alts lvl rest (S m)
    end.

  Lemma alts_snoc : forall st lvl m p1 L1 i1,
    alts lvl (st ++ [(p1, L1, i1)]) m =
    map (cons (p1, L1, i1)) (alts (lvl - Z.of_nat L1) st m) ++
    flat_map (ext p1 (m + length st) lvl) (later_choices cpf p1 L1 i1).
  Proof.
    induction st as [|[[p L] i] rest IH]; intros lvl m p1 L1 i1.
    - simpl. rewrite app_nil_r, Nat.add_0_r, Z.sub_0_r. rewrite map_id. reflexivity.
    - change (((p, L, i) :: rest) ++ [(p1, L1, i1)]) with ((p, L, i) :: (rest ++ [(p1, L1, i1)])).
      cbn [alts]. rewrite IH. rewrite rev_app_distr. simpl rev. rewrite sumlev_app.
      replace (lvl - (sumlev rest + sumlev [(p1, L1, i1)]))%Z with (lvl - Z.of_nat L1 - sumlev rest)%Z
        by (simpl; unfold row_level; simpl; lia).
      rewrite map_app. rewrite <- app_assoc. f_equal.
      + rewrite map_map. apply map_ext. intro a. reflexivity.
      + f_equal. simpl length. replace (S m + length rest) with (m + S (length rest)) by lia. reflexivity.
  Qed.

  Lemma rem_alts : forall k p lvl t, In t (compl k p lvl) -> rem k lvl t = alts lvl (rev t) 0.
  Proof.
    induction k as [|k IH]; intros p lvl t H.
    - apply in_compl_0 in H. destruct H; subst. reflexivity.
    - apply in_compl_S in H. destruct H as (L & i & c & t' & E & _ & H). subst t.
      simpl rev. rewrite alts_snoc. cbn [rem]. rewrite (IH _ _ _ H).
      rewrite rev_length, (compl_length _ _ _ _ H). reflexivity.
  Qed.

  (* the deepest position: only later indices of the same level remain *)
  Lemma ext_last : forall p L i,
    flat_map (ext p 0 (Z.of_nat L)) (later_choices cpf p L i) =
    map (fun ic => [(p, L, fst ic)]) (skipn (S i) (indexed (cpf p L))).
  Proof.
    intros p L i. unfold later_choices. rewrite flat_map_app.
    rewrite (flat_map_nil_all _ (flat_map _ _)).
    - rewrite app_nil_r. rewrite flat_map_map. unfold ext. simpl.
      rewrite Z.sub_diag. simpl.
      induction (skipn (S i) (indexed (cpf p L))) as [|x r IH]; simpl; [reflexivity | f_equal; exact IH].
    - intros [L' ic] H. apply in_flat_map in H. destruct H as [L'' [H1 H2]].
      apply in_map_iff in H2. destruct H2 as [ic' [E _]]. inversion E; subst.
      assert (L' < L) by (destruct L; [destruct H1 | apply in_down_from in H1; lia]).
      unfold ext. simpl.
      replace (Z.of_nat L - Z.of_nat L' =? 0)%Z with false by (symmetry; apply Z.eqb_neq; lia). reflexivity.
  Qed.
End Succ.
