(* ReaderProofs.v - the three forms of a training line (plain, $HEX[...],
   count-prefixed) read to the same passwords; what is skipped, what is
   counted; collapsing repeated lines in first-occurrence order leaves every
   counter (keys, key order, counts) unchanged. *)
From Coq Require Import String Ascii.
From Coq Require Import List NArith ZArith Bool Lia Permutation.
From Pcfg Require Import TextFile Counters Reader TextFileProofs CountersProofs CollapseProofs.
Import ListNotations.
Open Scope N_scope.

(* ---------------------------------------------------------------- small facts *)

Lemma starts_with_app p s : starts_with p (p ++ s) = true.
Proof. induction p as [|x p IH]; [reflexivity|]. simpl. rewrite N.eqb_refl. exact IH. Qed.

Lemma ends_with_app p s : ends_with p (s ++ p) = true.
Proof. unfold ends_with. rewrite rev_app_distr. apply starts_with_app. Qed.

(* hex digits *)
Lemma hexdigit_facts n : n < 16 ->
  hexval (hexdigit n) = Some n /\ is_ascii_space (hexdigit n) = false /\ (128 <=? hexdigit n) = false /\
  is_crlf (hexdigit n) = false.
Proof.
  intro H.
  assert (A : forallb (fun n => match hexval (hexdigit n) with Some m => N.eqb m n | None => false end &&
                                negb (is_ascii_space (hexdigit n)) && negb (128 <=? hexdigit n) &&
                                negb (is_crlf (hexdigit n)))
                      (map N.of_nat (seq 0 16)) = true) by reflexivity.
  rewrite forallb_forall in A. specialize (A n).
  assert (Hin : In n (map N.of_nat (seq 0 16))).
  { apply in_map_iff. exists (N.to_nat n). split; [apply N2Nat.id|]. apply in_seq. lia. }
  specialize (A Hin). repeat (apply andb_true_iff in A; destruct A as [A ?]).
  destruct (hexval (hexdigit n)) as [m|]; [|discriminate]. apply N.eqb_eq in A. subst m.
  repeat split; match goal with H : negb ?x = true |- ?x = false => destruct x; [discriminate | reflexivity] end.
Qed.

Definition is_byte (x : N) : bool := x <? 256.

Lemma byte_split x : is_byte x = true -> x / 16 < 16 /\ x mod 16 < 16 /\ x / 16 * 16 + x mod 16 = x.
Proof.
  unfold is_byte. intro H. apply N.ltb_lt in H. repeat split.
  - apply N.div_lt_upper_bound; lia.
  - apply N.mod_lt. lia.
  - rewrite N.mul_comm. symmetry. apply N.div_mod. lia.
Qed.

Lemma hex_of_bytes_cons x b : hex_of_bytes (x :: b) = hexdigit (x / 16) :: hexdigit (x mod 16) :: hex_of_bytes b.
Proof. reflexivity. Qed.

Lemma fromhex_go_hex : forall b, forallb is_byte b = true -> fromhex_go (hex_of_bytes b) = Some b.
Proof.
  induction b as [|x b IH]; intro H; [reflexivity|].
  simpl in H. apply andb_true_iff in H. destruct H as [Hx Hb].
  destruct (byte_split x Hx) as (H1 & H2 & H3).
  destruct (hexdigit_facts _ H1) as (V1 & S1 & _ & _). destruct (hexdigit_facts _ H2) as (V2 & _ & _ & _).
  rewrite hex_of_bytes_cons. simpl fromhex_go. rewrite S1, V1, V2, (IH Hb). simpl. rewrite H3. reflexivity.
Qed.

Lemma hex_of_bytes_ascii : forall b, forallb is_byte b = true -> existsb (fun c => 128 <=? c) (hex_of_bytes b) = false.
Proof.
  induction b as [|x b IH]; intro H; [reflexivity|].
  simpl in H. apply andb_true_iff in H. destruct H as [Hx Hb].
  destruct (byte_split x Hx) as (H1 & H2 & _).
  destruct (hexdigit_facts _ H1) as (_ & _ & A1 & _). destruct (hexdigit_facts _ H2) as (_ & _ & A2 & _).
  rewrite hex_of_bytes_cons. simpl existsb. rewrite A1, A2, (IH Hb). reflexivity.
Qed.

Theorem fromhex_hex : forall b, forallb is_byte b = true -> fromhex (hex_of_bytes b) = Some b.
Proof. intros b H. unfold fromhex. rewrite hex_of_bytes_ascii by assumption. apply fromhex_go_hex. assumption. Qed.

Lemma hex_of_bytes_no_crlf : forall b, forallb is_byte b = true -> none_of is_crlf (hex_of_bytes b) = true.
Proof.
  induction b as [|x b IH]; intro H; [reflexivity|].
  simpl in H. apply andb_true_iff in H. destruct H as [Hx Hb].
  destruct (byte_split x Hx) as (H1 & H2 & _).
  destruct (hexdigit_facts _ H1) as (_ & _ & _ & A1). destruct (hexdigit_facts _ H2) as (_ & _ & _ & A2).
  rewrite hex_of_bytes_cons. rewrite !none_of_cons, A1, A2, (IH Hb). reflexivity.
Qed.

(* the body of a $HEX line (without the line end) *)
Definition hex_body (b : list N) : str := hex_prefix ++ hex_of_bytes b ++ [93].

Lemma hex_body_shaped b : is_hex_shaped (hex_body b) = true.
Proof.
  unfold is_hex_shaped, hex_body. rewrite starts_with_app.
  rewrite (app_assoc hex_prefix (hex_of_bytes b) [93]). rewrite ends_with_app. reflexivity.
Qed.

Lemma hex_body_payload b : hex_payload (hex_body b) = hex_of_bytes b.
Proof. unfold hex_payload, hex_body. simpl. apply removelast_last. Qed.

Lemma hex_body_no_crlf b : forallb is_byte b = true -> none_of is_crlf (hex_body b) = true.
Proof.
  intro H. unfold hex_body. rewrite none_of_app, none_of_app, (hex_of_bytes_no_crlf b H). reflexivity.
Qed.

(* every character of a $HEX line comes from a fixed alphabet *)
Definition hex_alphabet : list N :=
  [36; 72; 69; 88; 91; 93; 48; 49; 50; 51; 52; 53; 54; 55; 56; 57; 97; 98; 99; 100; 101; 102].

Lemma hexdigit_alphabet n : n < 16 -> In (hexdigit n) hex_alphabet.
Proof.
  intro H.
  assert (A : forallb (fun n => memN (hexdigit n) hex_alphabet) (map N.of_nat (seq 0 16)) = true) by reflexivity.
  rewrite forallb_forall in A. specialize (A n).
  assert (Hin : In n (map N.of_nat (seq 0 16))).
  { apply in_map_iff. exists (N.to_nat n). split; [apply N2Nat.id|]. apply in_seq. lia. }
  specialize (A Hin). unfold memN in A. apply existsb_exists in A. destruct A as [x [Hx E]].
  apply N.eqb_eq in E. subst x. exact Hx.
Qed.

Lemma hex_of_bytes_alphabet : forall b, forallb is_byte b = true -> forall c, In c (hex_of_bytes b) -> In c hex_alphabet.
Proof.
  induction b as [|x b IH]; intros H c Hc; [contradiction|].
  simpl in H. apply andb_true_iff in H. destruct H as [Hx Hb].
  destruct (byte_split x Hx) as (H1 & H2 & _).
  rewrite hex_of_bytes_cons in Hc. destruct Hc as [E|[E|Hc]].
  - subst c. apply hexdigit_alphabet. assumption.
  - subst c. apply hexdigit_alphabet. assumption.
  - apply IH; assumption.
Qed.

Lemma hex_body_none (f : N -> bool) b : none_of f hex_alphabet = true -> forallb is_byte b = true ->
  none_of f (hex_body b) = true.
Proof.
  intros Hf Hb. unfold none_of. apply forallb_forall. intros c Hc.
  assert (Hin : In c hex_alphabet).
  { unfold hex_body in Hc. apply in_app_or in Hc. destruct Hc as [Hc|Hc].
    - unfold hex_prefix in Hc. simpl in Hc. unfold hex_alphabet. simpl. tauto.
    - apply in_app_or in Hc. destruct Hc as [Hc|Hc].
      + apply (hex_of_bytes_alphabet b Hb). assumption.
      + simpl in Hc. destruct Hc as [E|[]]. subst c. unfold hex_alphabet. simpl. tauto. }
  unfold none_of in Hf. rewrite forallb_forall in Hf. apply Hf. assumption.
Qed.

(* ---------------------------------------------------------------- one line *)

Section Reader.
  Variable C : rcfg.
  Hypothesis lb_LF : r_lb C LF = true.
  Hypothesis lb_CR : r_lb C CR = true.

  Definition valid (p : str) : Prop := check_valid (r_rej C) (r_rej_empty C) p = true.
  Definition enc_ok (p : str) : Prop := forallb (r_encb C) p = true.
  Definition no_lb (s : str) : Prop := none_of (r_lb C) s = true.

  Lemma no_lb_no_crlf s : no_lb s -> none_of is_crlf s = true.
  Proof.
    unfold no_lb, none_of. rewrite !forallb_forall. intros H c Hc. specialize (H c Hc).
    unfold is_crlf. destruct (N.eqb c CR) eqn:E1.
    - apply N.eqb_eq in E1. subst c. rewrite lb_CR in H. discriminate.
    - destruct (N.eqb c LF) eqn:E2; [|reflexivity]. apply N.eqb_eq in E2. subst c. rewrite lb_LF in H. discriminate.
  Qed.

  (* what a payload (the text after the optional count) turns into *)
  Lemma unhex_plain p : is_hex_shaped p = false -> unhex C p = Some p.
  Proof. intro H. unfold unhex. rewrite H. reflexivity. Qed.

  Lemma unhex_hex b : forallb is_byte b = true -> unhex C (hex_body b) = r_dec C b.
  Proof.
    intro H. unfold unhex. rewrite hex_body_shaped, hex_body_payload, fromhex_hex by assumption. reflexivity.
  Qed.

  (* a line without count prefix; [eol] is LF or CR LF *)
  Lemma read_line_body body p eol :
    r_prefix C = false -> none_of is_crlf body = true -> forallb is_crlf eol = true ->
    unhex C body = Some p -> enc_ok p -> valid p ->
    read_line C (body ++ eol) = Yield p 1.
  Proof.
    intros Hp Hb He Hu Henc Hv. unfold read_line, take_count. rewrite Hp.
    rewrite rstrip_app_all by assumption. rewrite rstrip_none by assumption.
    rewrite Hu. unfold enc_ok in Henc. rewrite Henc. simpl. unfold valid in Hv. rewrite Hv. reflexivity.
  Qed.

  (* a line with count prefix: blanks, digits, ONE space, payload *)
  Section Count.
    Hypothesis ws_digit : forall c, ascii_digit c = true -> r_ws C c = false.
    Hypothesis dz_ascii : forall c, ascii_digit c = true -> digit_val (r_dz C) c = Some (c - 48).
    Hypothesis iws_digit : forall c, ascii_digit c = true -> r_iws C c = false.

    Lemma digits_not_space ds : forallb ascii_digit ds = true -> none_of (N.eqb SP) ds = true.
    Proof.
      intro H. unfold none_of. rewrite forallb_forall in *. intros c Hc. specialize (H c Hc).
      unfold ascii_digit in H. apply andb_true_iff in H. destruct H as [H1 H2]. apply N.leb_le in H1, H2.
      replace (N.eqb SP c) with false; [reflexivity|]. symmetry. apply N.eqb_neq. unfold SP. lia.
    Qed.

    Lemma digits_not_crlf ds : forallb ascii_digit ds = true -> none_of is_crlf ds = true.
    Proof.
      intro H. unfold none_of. rewrite forallb_forall in *. intros c Hc. specialize (H c Hc).
      unfold ascii_digit in H. apply andb_true_iff in H. destruct H as [H1 H2]. apply N.leb_le in H1, H2.
      unfold is_crlf. replace (N.eqb c CR) with false by (symmetry; apply N.eqb_neq; unfold CR; lia).
      replace (N.eqb c LF) with false by (symmetry; apply N.eqb_neq; unfold LF; lia). reflexivity.
    Qed.

    Lemma take_count_line pad ds payload :
      r_prefix C = true -> forallb (r_ws C) pad = true -> ds <> [] -> forallb ascii_digit ds = true ->
      take_count C (pad ++ ds ++ SP :: payload) = Some (Z.of_N (digits_value ds), payload).
    Proof.
      intros Hp Hpad Hne Hd. unfold take_count. rewrite Hp.
      rewrite lstrip_app_all by assumption.
      destruct ds as [|d ds']; [contradiction|].
      assert (Hd0 : ascii_digit d = true) by (simpl in Hd; apply andb_true_iff in Hd; tauto).
      change ((d :: ds') ++ SP :: payload) with (d :: (ds' ++ SP :: payload)).
      rewrite lstrip_head by (apply ws_digit; assumption).
      change (d :: ds' ++ SP :: payload) with ((d :: ds') ++ SP :: payload).
      rewrite split_on_app by (apply digits_not_space; assumption).
      simpl hd. simpl tl.
      rewrite (parse_int_digits (r_iws C) (r_dz C) dz_ascii iws_digit) by assumption.
      rewrite join_split. reflexivity.
    Qed.

    Lemma read_line_count pad ds payload p eol :
      r_prefix C = true -> forallb (r_ws C) pad = true -> none_of is_crlf pad = true ->
      ds <> [] -> forallb ascii_digit ds = true ->
      none_of is_crlf payload = true -> forallb is_crlf eol = true ->
      unhex C payload = Some p -> enc_ok p -> valid p ->
      read_line C (count_line pad ds payload ++ eol) = Yield p (Z.of_N (digits_value ds)).
    Proof.
      intros Hp Hpad Hpc Hne Hd Hpl He Hu Henc Hv. unfold read_line, count_line.
      rewrite rstrip_app_all by assumption.
      rewrite rstrip_none.
      2:{ rewrite !none_of_app, none_of_cons, Hpc, Hpl, (digits_not_crlf ds Hd). reflexivity. }
      rewrite take_count_line by assumption.
      rewrite Hu. unfold enc_ok in Henc. rewrite Henc. simpl. unfold valid in Hv. rewrite Hv. reflexivity.
    Qed.
  End Count.

  (* ---------------------------------------------------------------- skipping *)

  (* nothing that check_valid refuses or the encoding cannot represent is ever yielded *)
  Theorem yielded_is_valid line p n : read_line C line = Yield p n -> valid p /\ enc_ok p.
  Proof.
    unfold read_line. destruct (take_count C (rstrip is_crlf line)) as [[k c1]|]; [|discriminate].
    destruct (unhex C c1) as [c2|]; [|discriminate].
    destruct (forallb (r_encb C) c2) eqn:E; simpl; [|discriminate].
    destruct (check_valid (r_rej C) (r_rej_empty C) c2) eqn:V; [|discriminate].
    intro H. inversion H; subst. split; assumption.
  Qed.

  Lemma check_valid_rejects p c : In c p -> memN c (r_rej C) = true -> check_valid (r_rej C) (r_rej_empty C) p = false.
  Proof.
    intros Hin Hr. unfold check_valid. apply andb_false_iff. right.
    destruct (forallb (fun c0 => negb (memN c0 (r_rej C))) p) eqn:E; [|reflexivity].
    rewrite forallb_forall in E. specialize (E c Hin). rewrite Hr in E. discriminate.
  Qed.

  (* a blank line *)
  Theorem skip_blank eol : r_prefix C = false -> r_rej_empty C = true -> forallb is_crlf eol = true ->
    read_line C eol = Skip.
  Proof.
    intros Hp Hr He. unfold read_line, take_count. rewrite Hp.
    replace (rstrip is_crlf eol) with (@nil N) by (rewrite <- (app_nil_l eol), rstrip_app_all by assumption; reflexivity).
    simpl. unfold check_valid. rewrite Hr. reflexivity.
  Qed.

  (* a line holding a character check_valid rejects (TAB, a control character, ...):
     skipped; counted as an encoding error only if it also fails to encode *)
  Theorem skip_rejected body c eol :
    r_prefix C = false -> none_of is_crlf body = true -> forallb is_crlf eol = true ->
    is_hex_shaped body = false -> In c body -> memN c (r_rej C) = true ->
    read_line C (body ++ eol) = if forallb (r_encb C) body then Skip else SkipErr 1.
  Proof.
    intros Hp Hb He Hh Hin Hr. unfold read_line, take_count. rewrite Hp.
    rewrite rstrip_app_all by assumption. rewrite rstrip_none by assumption.
    rewrite unhex_plain by assumption.
    destruct (forallb (r_encb C) body); simpl; [|reflexivity].
    rewrite (check_valid_rejects body c Hin Hr). reflexivity.
  Qed.

  (* undecodable bytes (escaped to lone surrogates by the decoder): skipped and counted *)
  Theorem skip_undecodable body eol :
    r_prefix C = false -> none_of is_crlf body = true -> forallb is_crlf eol = true ->
    is_hex_shaped body = false -> forallb (r_encb C) body = false ->
    read_line C (body ++ eol) = SkipErr 1.
  Proof.
    intros Hp Hb He Hh Hn. unfold read_line, take_count. rewrite Hp.
    rewrite rstrip_app_all by assumption. rewrite rstrip_none by assumption.
    rewrite unhex_plain by assumption. rewrite Hn. reflexivity.
  Qed.

  (* a $HEX[...] line whose payload is not hex or does not decode: skipped and counted *)
  Theorem skip_bad_hex body eol :
    r_prefix C = false -> none_of is_crlf body = true -> forallb is_crlf eol = true ->
    is_hex_shaped body = true ->
    (fromhex (hex_payload body) = None \/ exists b, fromhex (hex_payload body) = Some b /\ r_dec C b = None) ->
    read_line C (body ++ eol) = SkipErr 1.
  Proof.
    intros Hp Hb He Hh Hbad. unfold read_line, take_count. rewrite Hp.
    rewrite rstrip_app_all by assumption. rewrite rstrip_none by assumption.
    unfold unhex. rewrite Hh. destruct Hbad as [E|[b [E1 E2]]]; [rewrite E | rewrite E1, E2]; reflexivity.
  Qed.

  (* a line without a count under --prefixcount: skipped silently *)
  Theorem skip_no_count line : r_prefix C = true ->
    parse_int (r_iws C) (r_dz C) (hd [] (split_on SP (lstrip (r_ws C) (rstrip is_crlf line)))) = None ->
    read_line C line = Skip.
  Proof. intros Hp H. unfold read_line, take_count. rewrite Hp, H. reflexivity. Qed.

  (* ---------------------------------------------------------------- whole files *)

  Definition line_count (r : lres) : Z := match r with Yield _ n => n | _ => 0%Z end.
  Definition line_err (r : lres) : Z := match r with SkipErr n => n | _ => 0%Z end.
  Definition line_out (r : lres) : list str := match r with Yield p n => repeat p (Z.to_nat n) | _ => [] end.
  Definition zsum (l : list Z) : Z := fold_right Z.add 0%Z l.

  (* the reader is the line-wise sum of read_line: no state survives a line *)
  Theorem read_lines_spec : forall ls,
    out (read_lines C ls) = flat_map (fun l => line_out (read_line C l)) ls /\
    npw (read_lines C ls) = zsum (map (fun l => line_count (read_line C l)) ls) /\
    nerr (read_lines C ls) = zsum (map (fun l => line_err (read_line C l)) ls).
  Proof.
    induction ls as [|l ls (IH1 & IH2 & IH3)]; [repeat split|].
    simpl. destruct (read_line C l) as [p n|n|]; simpl; rewrite ?IH1, ?IH2, ?IH3; repeat split; lia.
  Qed.

  (* num_passwords is the number of passwords yielded when no count is negative *)
  Theorem count_is_length : forall ls,
    (forall l, In l ls -> (0 <= line_count (read_line C l))%Z) ->
    npw (read_lines C ls) = Z.of_nat (length (out (read_lines C ls))).
  Proof.
    induction ls as [|l ls IH]; intro H; [reflexivity|].
    assert (H0 := H l (or_introl eq_refl)).
    assert (IH' := IH (fun l' Hl' => H l' (or_intror Hl'))).
    simpl. destruct (read_line C l) as [p n|n|]; simpl in *; try exact IH'.
    rewrite app_length, repeat_length, IH'. lia.
  Qed.

  (* a file made of lines [body ++ LF] whose bodies contain no line break is read
     line by line *)
  Theorem read_text_lines : forall bodies, Forall no_lb bodies ->
    read_text C (flat_map (fun b => b ++ [LF]) bodies) = read_lines C (map (fun b => b ++ [LF]) bodies).
  Proof.
    intros bodies H. unfold read_text. rewrite (lines_keep_lines (r_lb C) lb_LF); [reflexivity|].
    eapply Forall_impl; [|exact H]. intros b Hb. exact Hb.
  Qed.

  (* files whose lines denote the same (password, count) sequence read alike *)
  Theorem read_text_denotes : forall (ls : list (str * (str * Z))),
    Forall (fun e => no_lb (fst e) /\ read_line C (fst e ++ [LF]) = Yield (fst (snd e)) (snd (snd e))) ls ->
    out (read_text C (flat_map (fun e => fst e ++ [LF]) ls)) =
      flat_map (fun e => repeat (fst (snd e)) (Z.to_nat (snd (snd e)))) ls /\
    npw (read_text C (flat_map (fun e => fst e ++ [LF]) ls)) = zsum (map (fun e => snd (snd e)) ls) /\
    nerr (read_text C (flat_map (fun e => fst e ++ [LF]) ls)) = 0%Z.
  Proof.
    intros ls H.
    replace (flat_map (fun e => fst e ++ [LF]) ls) with (flat_map (fun b => b ++ [LF]) (map fst ls))
      by (rewrite flat_map_concat_map, map_map, <- flat_map_concat_map; reflexivity).
    rewrite read_text_lines.
    2:{ apply Forall_forall. intros b Hb. apply in_map_iff in Hb. destruct Hb as [e [E He]]. subst b.
        rewrite Forall_forall in H. apply (H e He). }
    destruct (read_lines_spec (map (fun b => b ++ [LF]) (map fst ls))) as (E1 & E2 & E3).
    rewrite E1, E2, E3. clear E1 E2 E3.
    induction ls as [|e ls IH]; [repeat split|].
    inversion H as [|? ? [Hn Hr] Hl]; subst. specialize (IH Hl). destruct IH as (I1 & I2 & I3).
    simpl. rewrite Hr. simpl. rewrite I1, I2, I3. repeat split.
  Qed.
End Reader.

(* ---------------------------------------------------------------- collapsing *)

(* A Python Counter filled from an item sequence is determined by the
   first-occurrence order of the items and their multiplicities (tally_spec);
   collapsing the training list to (password, count) pairs in first-occurrence
   order and reading it back changes neither, whatever the items of a password
   are: every counter is the same list, ties included. *)
Theorem collapse_same_counter : forall (f : str -> list str) (A : list str),
  tally (flat_map f (expand (collapse A))) = tally (flat_map f A).
Proof.
  intros f A. rewrite !tally_spec. rewrite collapse_key_order.
  apply map_ext. intro k. rewrite collapse_counts. reflexivity.
Qed.

(* an arbitrary reordering keeps every count; only the order of keys (hence of
   ties in the written lists) may change *)
Theorem permuted_same_counts : forall (f : str -> list str) (A B : list str) k n,
  Permutation A B -> In (k, n) (tally (flat_map f A)) -> In (k, n) (tally (flat_map f B)).
Proof.
  intros f A B k n HP Hin. rewrite tally_spec in *. apply in_map_iff in Hin. destruct Hin as [k' [E Hk]].
  inversion E; subst k' n. apply in_map_iff. exists k. split.
  - rewrite (permutation_counts f A B k HP). reflexivity.
  - apply (proj2 (nodup_first_in _ _)). apply (proj1 (nodup_first_in _ _)) in Hk.
    eapply Permutation_in; [apply Permutation_flat_map; exact HP | exact Hk].
Qed.

(* the number of valid passwords (N of the coverage arithmetic) is kept too *)
Theorem collapse_same_length : forall A : list str, length (expand (collapse A)) = length A.
Proof. intro A. apply Permutation_length. apply expand_collapse_perm. Qed.
