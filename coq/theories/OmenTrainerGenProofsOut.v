(* The generated writer (gen/OmenTrainerOut_gen.v: the translation of _save_alphabet and
   save_omen_rules_to_disk of lib_trainer/omen/omen_file_output.py, redone on every run)
   equals the model OmenTrainer.save_rules: for a smoothed trainer object with table view
   T (ttab_of) the level files hold the line lists of OmenLevel.write T, each line
   rendered as str(level) TAB string LF; then alphabet.txt, omen_keyspace.txt,
   omen_pws_per_level.txt and pcfg_omen_prob.txt.

   The loop lemmas take the translated loop bodies as they are generated (matched from
   the goal) and ask only for the text one iteration appends. *)
From Coq Require Import List Arith Bool NArith ZArith Floats Lia.
From Pcfg Require Import KernelRt OmenSpec OmenLevel OmenKeyspace OmenTrainer OmenTrainerRt OmenTrainerRtProofs TextFile.
From PcfgGen Require Import OmenTrainerOut_gen.
Import ListNotations.

Lemma app_cons_assoc {X} (a : list X) x b : a ++ x :: b = (a ++ [x]) ++ b.
Proof. rewrite <- app_assoc. reflexivity. Qed.

Ltac text_norm := repeat rewrite <- app_assoc; cbn [app].

Section Loops.
Context {R : Type}.

Lemma ip_loop A T (body : ostr * gentry -> ostr -> tres (ctl R ostr)) :
  ttab_of A = Some T ->
  (forall key data file il, ge_ip_level data = Some il ->
     body (key, data) file = TOk (Continue (file ++ dec_of_Z il ++ TAB_c :: key ++ [LF_c]))) ->
  forall file (K : ostr -> tres R), tfor (al_grammar A) body file K = K (file ++ level_text (write_ip T)).
Proof.
  intros HT Hb file K. destruct (ttab_of_inv A T HT) as (Hg & _).
  unfold write_ip. revert file. induction Hg as [|[k e] te g G H0 _ IH]; intro file; simpl.
  - rewrite app_nil_r. reflexivity.
  - destruct (tentry_of_inv k e te H0) as (Hk & Hi & _). rewrite (Hb k e file _ Hi), IH.
    unfold level_text at 2. simpl. unfold level_line at 1. simpl. rewrite Hk. f_equal. text_norm. reflexivity.
Qed.

Lemma ep_loop A T (body : ostr * gentry -> ostr -> tres (ctl R ostr)) :
  ttab_of A = Some T ->
  (forall key data file el, ge_ep_level data = Some el ->
     body (key, data) file = TOk (Continue (file ++ dec_of_Z el ++ TAB_c :: key ++ [LF_c]))) ->
  forall file (K : ostr -> tres R), tfor (al_grammar A) body file K = K (file ++ level_text (write_ep T)).
Proof.
  intros HT Hb file K. destruct (ttab_of_inv A T HT) as (Hg & _).
  unfold write_ep. revert file. induction Hg as [|[k e] te g G H0 _ IH]; intro file; simpl.
  - rewrite app_nil_r. reflexivity.
  - destruct (tentry_of_inv k e te H0) as (Hk & _ & Hp & _). rewrite (Hb k e file _ Hp), IH.
    unfold level_text at 2. simpl. unfold level_line at 1. simpl. rewrite Hk. f_equal. text_norm. reflexivity.
Qed.

(* what the inner loop of CP.level appends for one entry *)
Definition cp_entry_text (key : ostr) (nx : list (N * nval)) : ostr :=
  flat_map (fun cv => match snd cv with
                      | NLevel l _ => dec_of_Z l ++ TAB_c :: key ++ [fst cv; LF_c]
                      | NCount _ => []
                      end) nx.

Lemma cp_inner (key : ostr) (body : N * nval -> ostr -> tres (ctl R ostr)) nx :
  (forall c l cnt file, body (c, NLevel l cnt) file = TOk (Continue (file ++ dec_of_Z l ++ TAB_c :: key ++ [c; LF_c]))) ->
  Forall (fun cv => exists l c, snd cv = NLevel l c) nx ->
  forall file (K : ostr -> tres R), tfor nx body file K = K (file ++ cp_entry_text key nx).
Proof.
  intros Hb Hall. induction Hall as [|[c v] nx (l & cnt & Hv) _ IH]; intros file K; simpl.
  - rewrite app_nil_r. reflexivity.
  - simpl in Hv. subst v. rewrite Hb, IH. simpl. f_equal. text_norm. reflexivity.
Qed.

Lemma cp_entry_text_eq k nxt nx :
  Forall2 (fun (cv : N * nval) (cl : N * nat) => fst cl = fst cv /\ exists c, snd cv = NLevel (Z.of_nat (snd cl)) c) nxt nx ->
  cp_entry_text k nxt = flat_map level_line (map (fun cl => (snd cl, k ++ [fst cl])) nx).
Proof.
  unfold cp_entry_text. induction 1 as [|[c v] [c' l] nxt nx (Hc & cnt & Hv) _ IH]; simpl; [reflexivity|].
  simpl in Hc, Hv. subst c' v. rewrite IH. unfold level_line. simpl. text_norm. reflexivity.
Qed.

Lemma cp_loop A T (body : ostr * gentry -> ostr -> tres (ctl R ostr)) :
  ttab_of A = Some T ->
  (forall key data file, Forall (fun cv => exists l c, snd cv = NLevel l c) (ge_next data) ->
     body (key, data) file = TOk (Continue (file ++ cp_entry_text key (ge_next data)))) ->
  forall file (K : ostr -> tres R), tfor (al_grammar A) body file K = K (file ++ level_text (write_cp T)).
Proof.
  intros HT Hb file K. destruct (ttab_of_inv A T HT) as (Hg & _).
  unfold write_cp. revert file. induction Hg as [|[k e] te g G H0 _ IH]; intro file; simpl.
  - rewrite app_nil_r. reflexivity.
  - destruct (tentry_of_inv k e te H0) as (Hk & _ & _ & Hn).
    assert (Hall : Forall (fun cv => exists l c, snd cv = NLevel l c) (ge_next e)).
    { clear -Hn. induction Hn as [|cv cl ? ? (_ & c & Hc)]; constructor; eauto. }
    rewrite (Hb k e file Hall), IH, (cp_entry_text_eq k _ _ Hn). unfold level_text. rewrite flat_map_app, app_assoc.
    unfold entry_cp_lines. rewrite Hk. reflexivity.
Qed.

Lemma ln_loop A T (body : Z * nval -> ostr -> tres (ctl R ostr)) :
  ttab_of A = Some T ->
  (forall i l cnt file, body (i, NLevel l cnt) file = TOk (Continue (file ++ dec_of_Z l ++ [LF_c]))) ->
  forall file (K : ostr -> tres R),
  tfor (tenumerate (al_ln_lookup A)) body file K = K (file ++ ln_text (OmenLevel.write_ln T)).
Proof.
  intros HT Hb file K. destruct (ttab_of_inv A T HT) as (_ & Hl & _).
  unfold OmenLevel.write_ln, tenumerate.
  assert (G : forall s file, tfor (combine (map Z.of_nat (seq s (length (al_ln_lookup A)))) (al_ln_lookup A)) body file K =
                             K (file ++ ln_text (tt_ln T))); [|apply G].
  induction Hl as [|v n ln ln' (c & Hv) _ IH]; intros s file'; simpl.
  - rewrite app_nil_r. reflexivity.
  - subst v. rewrite Hb, IH. f_equal. text_norm. reflexivity.
Qed.

End Loops.

Section Writer.
Variable repr : float -> ostr.
Variable sc : ostr -> ostr -> pinfo -> fsys -> option fsys.

Theorem gen_save_alphabet_eq : forall file_name directory alphabet encoding fs,
  py_save_alphabet repr sc file_name directory alphabet encoding fs =
  TOk (true, fs_put fs (path_join directory file_name) (alphabet_text alphabet)).
Proof.
  intros. unfold py_save_alphabet. cbv zeta.
  rewrite (tfor_append (fun c => [c; LF_c])); [reflexivity|].
  intros x file _. reflexivity.
Qed.

Lemma prob_loop {R} ks lc nvalid (body : Z * Z -> list (Z * float) -> tres (ctl R (list (Z * float)))) :
  (forall level keyspace acc,
     body (level, keyspace) acc =
     if (keyspace =? 0)%Z then TOk (Continue acc)
     else match int_truediv (zcount lc level) nvalid with
          | TOk q => TOk (Continue (aset Z.eqb level (PrimFloat.div q (zfloat keyspace)) acc))
          | TRaise e => TRaise e
          end) ->
  forall (K : list (Z * float) -> tres R),
  tfor ks body [] K = (p <~ prob_counter ks lc nvalid ;; K p).
Proof.
  intros Hb K. unfold prob_counter. rewrite (tfor_fold (fun acc e =>
            if (snd e =? 0)%Z then TOk acc
            else q <~ int_truediv (zcount lc (fst e)) nvalid ;;
                 TOk (aset Z.eqb (fst e) (PrimFloat.div q (zfloat (snd e))) acc))); [reflexivity|].
  intros [l k] s _. rewrite Hb. simpl. destruct (k =? 0)%Z; [reflexivity|].
  destruct (int_truediv (zcount lc l) nvalid); reflexivity.
Qed.

Theorem gen_save_omen_rules_eq : forall A T ks lc nvalid base pi fs,
  ttab_of A = Some T ->
  py_save_omen_rules_to_disk repr sc A ks lc nvalid base pi fs = save_rules repr sc T ks lc nvalid base pi fs.
Proof.
  intros A T ks lc nvalid base pi fs HT. unfold py_save_omen_rules_to_disk, save_rules. cbv zeta.
  rewrite ttry_continue.
  rewrite (ip_loop A T) by (first [exact HT | intros key data file il Hl; cbv beta; rewrite Hl; cbn [tget tbind]; cbv zeta; unfold pystr_int; text_norm; reflexivity]).
  rewrite ttry_continue.
  rewrite (ep_loop A T) by (first [exact HT | intros key data file el Hl; cbv beta; rewrite Hl; cbn [tget tbind]; cbv zeta; unfold pystr_int; text_norm; reflexivity]).
  rewrite ttry_continue.
  rewrite (cp_loop A T); [| exact HT |].
  2:{ intros key data file Hall. cbv beta. rewrite (cp_inner key) with (nx := ge_next data); [reflexivity | | exact Hall].
      intros c l cnt file'. cbn [nv_item Z.eqb tbind]. cbv zeta. unfold pystr_int. text_norm. reflexivity. }
  rewrite ttry_continue.
  rewrite (ln_loop A T); [| exact HT |].
  2:{ intros i l cnt file. cbn [nv_item Z.eqb tbind]. cbv zeta. unfold pystr_int. text_norm. reflexivity. }
  rewrite ttry_continue. cbn [tbind]. unfold call_save_config. cbn [app put_files fold_left fst snd].
  fold n_Omen n_IP n_EP n_CP n_LN n_config n_alphabet.
  match goal with |- context [sc ?d ?f ?p ?s] => destruct (sc d f p s) as [fs2|] end; cbn [negb]; [|reflexivity].
  rewrite gen_save_alphabet_eq. cbn [tbind negb].
  rewrite (tfor_append zz_line) by (intros [x1 x2] file _; unfold zz_line, pystr_int; cbn [fst snd]; text_norm; reflexivity).
  rewrite ttry_continue.
  rewrite (tfor_append zz_line) by (intros [x1 x2] file _; unfold zz_line, pystr_int; cbn [fst snd]; text_norm; reflexivity).
  rewrite ttry_continue.
  rewrite (prob_loop ks lc nvalid).
  - destruct (prob_counter ks lc nvalid) as [p|e]; [|reflexivity]. cbn [tbind].
    rewrite (tfor_append (zf_line repr)) by (intros [x1 x2] file _; unfold zf_line, pystr_int; cbn [fst snd]; text_norm; reflexivity).
    rewrite ttry_continue. reflexivity.
  - intros level keyspace acc. cbv beta zeta. cbn [fst snd]. destruct (keyspace =? 0)%Z eqn:E; [reflexivity|].
    unfold zcnt_get. fold (zcount lc level). destruct (int_truediv (zcount lc level) nvalid) as [q|e]; [|reflexivity].
    cbn [tbind]. unfold float_div_int. rewrite E. reflexivity.
Qed.

End Writer.
