(* Correspondence helpers for C09 / C12 / C17. *)
From Coq Require Import List Arith Bool.
From Pcfg Require Import Session.
Import ListNotations.

Definition sched_of (l : list (nat * list ev)) : schedule :=
  fun t => match find (fun p => Nat.eqb (fst p) t) l with Some p => snd p | None => [] end.

Definition nat_list_eqb (a b : list nat) : bool :=
  Nat.eqb (length a) (length b) && forallb (fun p => Nat.eqb (fst p) (snd p)) (combine a b).
Definition onat_eqb (a b : option nat) : bool :=
  match a, b with Some x, Some y => Nat.eqb x y | None, None => true | _, _ => false end.
Definition opair_eqb (a b : option (nat * nat)) : bool :=
  match a, b with Some (x, y), Some (u, v) => Nat.eqb x u && Nat.eqb y v | None, None => true | _, _ => false end.

(* pre-terminals given as (markov, number of guesses); ids are consecutive *)
Fixpoint mk_pts (l : list (bool * nat)) (pid0 next : nat) : list pterm :=
  match l with
  | [] => []
  | (m, n) :: r => {| pid := pid0; markov := m; guesses := seq next n |} :: mk_pts r (S pid0) (next + n)
  end.

(* one observed run: schedule, number of guesses written (they are a prefix of
   the reference stream: checked by the harness), saved pre-terminal, Markov
   interruption, finished *)
Definition obs_run := (list (nat * list ev) * nat * option nat * option (nat * nat) * bool)%type.

Definition check_run (polls : bool) (pts : list pterm) (r : obs_run) : bool :=
  match r with (sl, n, sv, om, fin) =>
    let o := run_session polls (sched_of sl) pts in
    nat_list_eqb (out o) (seq 0 n) && onat_eqb (saved_at o) sv && opair_eqb (omen_saved o) om &&
    Bool.eqb (finished o) fin
  end.

Definition failing {X} (f : X -> bool) (l : list X) : list nat :=
  map fst (filter (fun kx => negb (f (snd kx))) (combine (seq 0 (length l)) l)).
