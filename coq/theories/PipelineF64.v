(* PipelineF64.v - property C03 for the binary64 instance of the pipeline model
   WITH the real disk stage (the text the trainer writes, read back by the
   guesser's loader: TextFile.write_file / load_guesser / lines_text / parse_line).

   The real disk stage coincides with the ideal one on the files of a ruleset
   trained from accepted, encodable passwords (values cannot hold a TAB or a
   line break; repr / float() round trip: PipelineDisk.io_ok); the remaining
   hypothesis is a computable sanity check of the float arithmetic on the
   pipeline's own intermediate values (f64_arith_ok: the hypotheses of
   CountersF64.calc_probs_F64_wf on every counter, P(M) < 1 in binary64, the
   rescaled base probabilities finite), evaluated by the correspondence on
   every case. *)
From Coq Require Import String List NArith ZArith Bool Floats Lia Sorting.Permutation Sorting.Sorted.
From Pcfg Require Import ProbAlg F64 Str Multiword Detect Segment TextFile TextFileProofs Counters CountersProofs LtallyProofs
     CountersF64 Reader Loader Next NextSpec NextProofs Expand IoCorr IoFacts
     DetectProofsDrive DetectProofsSeg DetectProofsPipe
     Pipeline PipelineStr PipelineTrain PipelineLoad PipelineProofs PipelineDisk PipelineGroups.
Import ListNotations.
Local Open Scope nat_scope.

(* ------------------------------------------------------------------ *)
(* A. the loader only depends on the disk stage through the files it reads *)
(* ------------------------------------------------------------------ *)

Section Ext.
Context {A : palg}.
Variable R : parith A.
Variable E : env.
Variables disk disk' : list (TextFile.str * P A) -> option (list (list TextFile.str * P A)).
Variables dbase dbase' : list (TextFile.str * P A) -> option (list (TextFile.str * P A)).
Variable s : saved R.

Lemma load_files_ext letter dir : forall names g,
  (forall f lines, In f names -> lookup_file R s dir f = Some lines -> disk lines = disk' lines) ->
  load_files R disk s letter dir names g = load_files R disk' s letter dir names g.
Proof.
  induction names as [|f names IH]; intros g H; [reflexivity|]. simpl.
  destruct (lookup_file R s dir f) as [lines|] eqn:El; [|reflexivity].
  rewrite (H f lines (or_introl eq_refl) El). destruct (disk' lines); [|reflexivity].
  apply IH. intros f' l' Hf'. apply H. now right.
Qed.

Lemma load_sections_ext : forall secs g,
  (forall sec letter names dir f lines, In (sec, letter) secs -> dict_get sec (s_lists s) = Some names ->
     dict_get sec (config_dirs : list (TextFile.str * TextFile.str)) = Some dir -> In f names ->
     lookup_file R s dir f = Some lines -> disk lines = disk' lines) ->
  load_sections R disk s secs g = load_sections R disk' s secs g.
Proof.
  induction secs as [|[sec letter] secs IH]; intros g H; [reflexivity|]. cbn [load_sections].
  destruct (dict_get sec (s_lists s)) as [names|] eqn:En; [|reflexivity].
  destruct (dict_get sec (config_dirs : list (TextFile.str * TextFile.str))) as [dir|] eqn:Ed; [|reflexivity].
  rewrite (load_files_ext letter dir names g).
  - destruct (load_files R disk' s letter dir names g); [|reflexivity]. apply IH.
    intros sec' l' n' d' f lines Hin. apply (H sec' l' n' d' f lines). now right.
  - intros f lines Hf Hl. apply (H sec letter names dir f lines); auto. now left.
Qed.

Lemma load_ext :
  (forall sec letter names dir f lines, In (sec, letter) guesser_sections -> dict_get sec (s_lists s) = Some names ->
     dict_get sec (config_dirs : list (TextFile.str * TextFile.str)) = Some dir -> In f names ->
     lookup_file R s dir f = Some lines -> disk lines = disk' lines) ->
  (forall lines, lookup_file R s (str_of_string "Grammar") (str_of_string "grammar.txt") = Some lines ->
     dbase lines = dbase' lines) ->
  load R E disk dbase s = load R E disk' dbase' s.
Proof.
  intros H1 H2. unfold load. rewrite (load_sections_ext guesser_sections [] H1).
  destruct (load_sections R disk' s guesser_sections []); [|reflexivity].
  unfold load_base_structures.
  destruct (lookup_file R s (str_of_string "Grammar") (str_of_string "grammar.txt")) as [lines|] eqn:El; [|reflexivity].
  now rewrite (H2 lines eq_refl).
Qed.
End Ext.

(* ------------------------------------------------------------------ *)
(* B. the files the loader reads are the files of the terminal counters *)
(* ------------------------------------------------------------------ *)

Section Saved.
Context {A : palg}.
Variable R : parith A.
Notation OPS := (ops_of R).

Lemma indexed_file letter (d : list (N * list (TextFile.str * N))) f lines :
  dict_get f (save_indexed [] (@lkeys OPS d)) = Some lines ->
  exists n c, In (n, c) d /\ lines = calc_probs (@of_counts OPS c) /\ In (letter :: dec_of_N n, c) (lnamed letter d).
Proof.
  intros H. apply dict_get_in in H. unfold save_indexed, lkeys in H. rewrite map_map in H. apply in_map_iff in H.
  destruct H as ([n c] & Heq & Hin). cbn [fst snd] in Heq. injection Heq as _ <-.
  exists n, c. split; [assumption|]. split; [reflexivity|]. unfold lnamed. apply in_map_iff. now exists (n, c).
Qed.

Lemma saved_lookup (t : trained A) sec letter names dir f lines :
  In (sec, letter) guesser_sections -> dict_get sec (s_lists (save R t)) = Some names ->
  dict_get sec (config_dirs : list (TextFile.str * TextFile.str)) = Some dir ->
  lookup_file R (save R t) dir f = Some lines ->
  exists name cnt, In (name, cnt) (term_counters (t_counters t)) /\ lines = calc_probs (@of_counts OPS cnt).
Proof.
  intros Hsec _ Hdir Hl. unfold guesser_sections in Hsec. cbn [map fst snd] in Hsec. unfold term_counters.
  repeat (destruct Hsec as [Hsec|Hsec]; [injection Hsec as <- <-; vm_compute in Hdir; injection Hdir as <-|]); try contradiction.
  - change (dict_get f (save_indexed [] (@lkeys OPS (pc_alpha (t_counters t)))) = Some lines) in Hl.
    destruct (indexed_file 65%N _ f lines Hl) as (n & c & _ & -> & Hin). exists (65%N :: dec_of_N n), c. rewrite !in_app_iff. tauto.
  - change (dict_get f (save_indexed [] (@lkeys OPS (pc_masks (t_counters t)))) = Some lines) in Hl.
    destruct (indexed_file 67%N _ f lines Hl) as (n & c & _ & -> & Hin). exists (67%N :: dec_of_N n), c. rewrite !in_app_iff. tauto.
  - change (dict_get f (save_indexed [] (@lkeys OPS (pc_digits (t_counters t)))) = Some lines) in Hl.
    destruct (indexed_file 68%N _ f lines Hl) as (n & c & _ & -> & Hin). exists (68%N :: dec_of_N n), c. rewrite !in_app_iff. tauto.
  - change (dict_get f (save_indexed [] (@lkeys OPS (pc_other (t_counters t)))) = Some lines) in Hl.
    destruct (indexed_file 79%N _ f lines Hl) as (n & c & _ & -> & Hin). exists (79%N :: dec_of_N n), c. rewrite !in_app_iff. tauto.
  - change (dict_get f (save_indexed [] (@lkeys OPS (pc_keyboard (t_counters t)))) = Some lines) in Hl.
    destruct (indexed_file 75%N _ f lines Hl) as (n & c & _ & -> & Hin). exists (75%N :: dec_of_N n), c. rewrite !in_app_iff. tauto.
  - change (dict_get f (save_indexed [] [([49%N], @of_counts OPS (pc_years (t_counters t)))]) = Some lines) in Hl.
    apply dict_get_in in Hl. destruct Hl as [Hl|[]]. injection Hl as _ <-.
    exists [89; 49]%N, (pc_years (t_counters t)). rewrite !in_app_iff. simpl. tauto.
  - change (dict_get f (save_indexed [] [([49%N], @of_counts OPS (pc_context (t_counters t)))]) = Some lines) in Hl.
    apply dict_get_in in Hl. destruct Hl as [Hl|[]]. injection Hl as _ <-.
    exists [88; 49]%N, (pc_context (t_counters t)). rewrite !in_app_iff. simpl. tauto.
Qed.
End Saved.

(* ------------------------------------------------------------------ *)
(* C. every value in a terminal file comes from an accepted password   *)
(* ------------------------------------------------------------------ *)

Section Values.
Variable E : env.
Hypothesis HE : env_ok E.
Notation e_pm := (pm (e_lower E)).
Notation L1 := (lower1 (e_lower E)).
Notation e_sound := (sound (e_isalpha E) (e_isdigit E) (e_kbs E) (e_min_run E) (e_year_prefixes E) (e_context E)).

Definition piece_of (pw v : Str.str) : Prop := exists pre post, pw = pre ++ v ++ post.

Lemma tiles_piece pw sl x : tiles e_pm pw sl -> In x sl -> snd x <> Some LW -> piece_of pw (fst x).
Proof.
  intros (pieces & <- & HF) Hx Hn. induction HF as [|pc y ps ys Hpm _ IH]; [contradiction|].
  destruct Hx as [->|Hx].
  - exists [], (concat ps). simpl. f_equal. unfold pm in Hpm. destruct (snd x) as [[]|]; congruence.
  - destruct (IH Hx) as (pre & post & Eq). exists (pc ++ pre), post. simpl. rewrite Eq. now rewrite app_assoc.
Qed.

(* the parsed result of an accepted line of the training file *)
Definition origin (raw : list Str.str) (r : parsed) : Prop :=
  exists pw, In pw raw /\ accepted_pw E pw = true /\ tiles e_pm pw (p_sections r).

Inductive value_from (pw v : Str.str) : Prop :=
| vf_piece : piece_of pw v -> value_from pw v
| vf_lower t : piece_of pw t -> forallb (e_isalpha E) t = true -> v = map L1 t -> value_from pw v
| vf_mask t : v = case_mask (e_isupper E) t -> value_from pw v.

Lemma isC_notW k x : isC k x = true -> k <> 2 -> snd x <> Some LW.
Proof.
  unfold isC. destruct (snd x) as [l|]; [|discriminate]. intros H Hk E'. injection E' as ->.
  change (cls LW) with 2 in H. apply Nat.eqb_eq in H. congruence.
Qed.

Lemma in_texts_inv k sl v : In v (texts k sl) -> exists x, In x sl /\ isC k x = true /\ v = fst x.
Proof.
  unfold texts. intros H. apply in_map_iff in H. destruct H as (x & <- & Hx). apply filter_In in Hx. destruct Hx. now exists x.
Qed.

Lemma lnamed_items letter items name cnt v :
  In (name, cnt) (lnamed letter (ltally items)) -> In v (map fst cnt) -> In v items.
Proof.
  unfold lnamed. intros H Hv. apply in_map_iff in H. destruct H as ([n c] & Heq & Hin). injection Heq as _ <-.
  now destruct (ltally_items_have_length items n c v Hin Hv).
Qed.

Lemma train_origin (A : palg) (o : options A) raw tr : train E o raw = Some tr ->
  exists rs, tr = trained_of E o raw rs /\ Forall (fun r => parsed_ok E r /\ origin raw r) rs.
Proof.
  intros H. destruct (train_inv E o raw tr H) as (rs & HF & _ & ->). exists rs. split; [reflexivity|].
  assert (Hall : Forall (fun pw => In pw raw /\ accepted_pw E pw = true) (train_pws E raw)).
  { apply Forall_forall. intros pw Hpw. apply filter_In in Hpw. exact Hpw. }
  clear H. induction HF as [|pw r pws rs Hpr _ IH]; [constructor|]. inversion Hall as [|? ? (Hin & Hacc) Hall']; subst.
  constructor; [|now apply IH].
  destruct (parse_pw_facts E HE (train_map E o raw) pw (accepted_nonempty E pw (ok_rej_empty E HE) Hacc)) as (r' & Er' & Ht & Hok).
  assert (r' = r) by congruence. subst r'. split; [assumption|]. now exists pw.
Qed.

Theorem found_value raw rs : Forall (fun r => parsed_ok E r /\ origin raw r) rs ->
  forall name cnt v, In (name, cnt) (term_counters (counters_of rs)) -> In v (map fst cnt) ->
  exists pw, In pw raw /\ accepted_pw E pw = true /\ value_from pw v.
Proof.
  intros Hrs name cnt v Hin Hv. rewrite Forall_forall in Hrs.
  assert (Hplain : forall (f : parsed -> list Str.str) k, k <> 2 ->
            (forall r, parsed_ok E r -> Permutation (f r) (texts k (p_sections r))) ->
            In v (flat_map f rs) -> exists pw, In pw raw /\ accepted_pw E pw = true /\ value_from pw v).
  { intros f k Hk Hperm Hf. apply in_flat_map in Hf. destruct Hf as (r & Hr & Hvr).
    destruct (Hrs r Hr) as (Hok & pw & Hpw & Hacc & Ht).
    pose proof (Permutation_in _ (Hperm r Hok) Hvr) as Hvt. apply in_texts_inv in Hvt. destruct Hvt as (x & Hx & Hc & ->).
    exists pw. split; [assumption|]. split; [assumption|]. apply vf_piece. eapply tiles_piece; [eassumption|assumption|].
    eapply isC_notW; eassumption. }
  unfold term_counters, counters_of in Hin. cbn [pc_alpha pc_masks pc_digits pc_other pc_keyboard pc_years pc_context] in Hin.
  rewrite !in_app_iff in Hin. destruct Hin as [Hin|[Hin|[Hin|[Hin|[Hin|[Hin|Hin]]]]]].
  - (* alpha words *)
    pose proof (lnamed_items _ _ _ _ _ Hin Hv) as Hf. apply in_flat_map in Hf. destruct Hf as (r & Hr & Hvr).
    destruct (Hrs r Hr) as (Hok & pw & Hpw & Hacc & Ht). pose proof Hok as (Hs & _ & Hc).
    destruct Hc as (_ & _ & _ & _ & _ & _ & _ & _ & _ & _ & _ & _ & _ & _ & _ & C5 & _). rewrite C5 in Hvr.
    apply in_map_iff in Hvr. destruct Hvr as (t & <- & Htx). apply in_texts_inv in Htx. destruct Htx as (x & Hx & Hcx & ->).
    exists pw. split; [assumption|]. split; [assumption|]. apply (vf_lower pw _ (fst x)); [| |reflexivity].
    + eapply tiles_piece; [eassumption|assumption|]. eapply isC_notW; [eassumption|discriminate].
    + rewrite Forall_forall in Hs. destruct (Hs x Hx) as (_ & Hsx). unfold isC in Hcx.
      destruct (snd x) as [[]|]; try discriminate. tauto.
  - (* masks *)
    pose proof (lnamed_items _ _ _ _ _ Hin Hv) as Hf. apply in_flat_map in Hf. destruct Hf as (r & Hr & Hvr).
    destruct (Hrs r Hr) as (Hok & pw & Hpw & Hacc & Ht). pose proof Hok as (Hs & _ & Hc).
    destruct Hc as (_ & _ & _ & _ & _ & _ & _ & _ & _ & _ & _ & _ & _ & _ & _ & _ & C5m). rewrite C5m in Hvr.
    apply in_map_iff in Hvr. destruct Hvr as (t & <- & _).
    exists pw. split; [assumption|]. split; [assumption|]. now apply (vf_mask pw _ t).
  - apply (Hplain p_digits 6); [discriminate| |eapply lnamed_items; eassumption].
    intros r (_ & _ & Hc). now destruct Hc as (_ & _ & _ & _ & _ & _ & _ & C6 & _).
  - apply (Hplain p_other 7); [discriminate| |eapply lnamed_items; eassumption].
    intros r (_ & _ & Hc). now destruct Hc as (_ & _ & _ & _ & _ & _ & _ & _ & C7 & _).
  - apply (Hplain p_walks 0); [discriminate| |eapply lnamed_items; eassumption].
    intros r (_ & _ & Hc). now destruct Hc as (C0 & _).
  - destruct Hin as [Hin|[]]. injection Hin as _ <-. apply (Hplain p_years 3); [discriminate| |now apply tally_keys_in].
    intros r (_ & _ & Hc). now destruct Hc as (_ & _ & _ & C3 & _).
  - destruct Hin as [Hin|[]]. injection Hin as _ <-. apply (Hplain p_context 4); [discriminate| |now apply tally_keys_in].
    intros r (_ & _ & Hc). now destruct Hc as (_ & _ & _ & _ & C4 & _).
Qed.

(* ---- such a value can be written to and read back from a ruleset file *)

Variable io : fileio.

Record io_env_ok : Prop := {
  ie_io : io_ok io;
  (* check_valid rejects TAB and every code point the line iteration splits on (C07_linebreaks_rejected) *)
  ie_rejected : forall c, LB c || N.eqb TAB c = true -> memN c (e_rejected E) = true;
  (* none of them is a letter *)
  ie_alpha : forall c, LB c || N.eqb TAB c = true -> e_isalpha E c = false;
  (* the ruleset encoding can encode the lower case of what it can encode *)
  ie_lower : forall c, f_encb io c = true -> f_encb io (L1 c) = true
}.
Hypothesis HIO : io_env_ok.

Lemma accepted_chars pw c : accepted_pw E pw = true -> In c pw -> LB c || N.eqb TAB c = false.
Proof.
  intros Hacc Hc. unfold accepted_pw, check_valid in Hacc. apply andb_true_iff in Hacc. destruct Hacc as (_ & Hall).
  rewrite forallb_forall in Hall. specialize (Hall c Hc).
  destruct (LB c || N.eqb TAB c) eqn:Eb; [|reflexivity]. rewrite (ie_rejected HIO c Eb) in Hall. discriminate.
Qed.

Lemma piece_in pw v c : piece_of pw v -> In c v -> In c pw.
Proof. intros (pre & post & ->) Hc. rewrite !in_app_iff. tauto. Qed.

Lemma value_ok pw v : accepted_pw E pw = true -> forallb (f_encb io) pw = true -> value_from pw v ->
  safe v = true /\ forallb (f_encb io) v = true.
Proof.
  intros Hacc Henc Hv. unfold safe, safe_value, none_of. rewrite forallb_forall in Henc.
  destruct Hv as [Hp|t Hp Ha ->|t ->].
  - split; apply forallb_forall; intros c Hc.
    + now rewrite (accepted_chars pw c Hacc (piece_in pw v c Hp Hc)).
    + apply Henc. eapply piece_in; eassumption.
  - rewrite forallb_forall in Ha. split; apply forallb_forall; intros c Hc; apply in_map_iff in Hc; destruct Hc as (d & <- & Hd).
    + destruct (LB (L1 d) || N.eqb TAB (L1 d)) eqn:Eb; [|reflexivity]. exfalso.
      pose proof (ie_alpha HIO _ Eb) as Hna. destruct (ok_good E HE d) as (_ & Hal & _). rewrite Hal, (Ha d Hd) in Hna. discriminate.
    + apply (ie_lower HIO). apply Henc. eapply piece_in; eassumption.
  - split; apply forallb_forall; intros c Hc; unfold case_mask in Hc; apply in_map_iff in Hc; destruct Hc as (d & <- & _);
      destruct (e_isupper E d).
    + reflexivity.
    + reflexivity.
    + apply (io_ascii io (ie_io HIO)). reflexivity.
    + apply (io_ascii io (ie_io HIO)). reflexivity.
Qed.

End Values.

(* ------------------------------------------------------------------ *)
(* D/E. the binary64 instance                                          *)
(* ------------------------------------------------------------------ *)

Lemma sorted_strong {A : palg} (l : list (P A)) :
  Forall (fun p => okb p = true) l -> Sorted (fun a b : P A => ple b a = true) l ->
  StronglySorted (fun a b : P A => ple b a = true) l.
Proof.
  induction l as [|a l IH]; intros Hok Hs; [constructor|].
  inversion Hok as [|? ? Ha Hl]; subst. inversion Hs as [|? ? Hsl Hhd]; subst.
  pose proof (IH Hl Hsl) as Hss. constructor; [assumption|].
  destruct l as [|b l']; [constructor|]. inversion Hhd as [|? ? Hba]; subst. inversion Hss as [|? ? _ Hall]; subst.
  inversion Hl as [|? ? Hb Hl']; subst. constructor; [assumption|].
  rewrite Forall_forall in *. intros c Hc. apply (ple_trans A c b a); auto.
Qed.

Lemma sorted_map_snd (l : list (TextFile.str * float)) :
  Sorted prob_desc l -> Sorted (fun a b : P F64 => @ple F64 b a = true) (map snd l).
Proof.
  induction 1 as [|x l Hs IH Hhd]; simpl; [constructor|]. constructor; [assumption|].
  destruct l as [|y l']; simpl; constructor. inversion Hhd; subst. assumption.
Qed.


Section Final.
Variable E : env.
Hypothesis HE : env_ok E.
Variable io : fileio.
Hypothesis HIO : io_env_ok E io.

Notation f64_arith_ok := (PipelineSpec.f64_arith_ok E).

Lemma arith_parts tr : f64_arith_ok tr = true ->
  PrimFloat.eqb (t_cov tr) 0%float = false /\
  (forall name cnt, In (name, cnt) (term_counters (t_counters tr)) -> cnt <> [] -> f64_wf_hyps (@of_counts FNum cnt) = true) /\
  f64_wf_hyps (base_counter RF tr) = true /\
  no_zero_div RF tr /\
  (forall b, In b (loaded_bases RF E tr) -> okbF (fst b) = true).
Proof.
  unfold f64_arith_ok. rewrite !andb_true_iff, !negb_true_iff, !forallb_forall. intros ((((H1 & H2) & H3) & H4) & H5).
  split; [assumption|]. split; [|split; [assumption|split; [exact H4|exact H5]]].
  intros name cnt Hin Hne. specialize (H2 _ Hin). cbn [snd] in H2. destruct cnt; [congruence|exact H2].
Qed.

Lemma unitbF_okbF p : unitbF p = true -> okbF p = true.
Proof. exact (unit_ok F64 p). Qed.

(* D1: the lines of every terminal file can be written and read back *)
Lemma term_lines_ok (o : options F64) raw rs :
  Forall (fun r => parsed_ok E r /\ origin E raw r) rs -> Forall (fun p => forallb (f_encb io) p = true) raw ->
  f64_arith_ok (trained_of E o raw rs) = true ->
  forall name cnt, In (name, cnt) (term_counters (counters_of rs)) ->
  Forall (line_ok io) (calc_probs (@of_counts FNum cnt)).
Proof.
  intros Hrs Henc Har name cnt Hin. destruct (arith_parts _ Har) as (_ & Hc & _). apply Forall_forall. intros [k p] Hkp.
  assert (Hk : In k (map fst cnt)).
  { assert (Hk' : In k (map fst (calc_probs (@of_counts FNum cnt)))) by (apply in_map_iff; now exists (k, p)).
    apply (proj1 (calc_probs_keys_in FNum _ _)) in Hk'. unfold of_counts in Hk'. rewrite map_map in Hk'. exact Hk'. }
  destruct (found_value E raw rs Hrs name cnt k Hin Hk) as (pw & Hpw & Hacc & Hv).
  rewrite Forall_forall in Henc.
  destruct (value_ok E HE io HIO pw k Hacc (Henc pw Hpw) Hv) as (Hs & He).
  split; [exact Hs|]. split; [exact He|]. cbn [snd].
  assert (Hne : cnt <> []) by (intros ->; exact Hk).
  destruct (f64_wf_hyps_ok _ (Hc name cnt Hin Hne)) as (_ & Hu). rewrite Forall_forall in Hu.
  apply unitbF_okbF. exact (Hu (k, p) Hkp).
Qed.

(* D2: Grammar/grammar.txt *)
Lemma digit_safe c : is_digit c = true -> LB c || N.eqb TAB c = false.
Proof.
  intros H. rewrite (digit_LB c H). unfold is_digit in H. apply andb_true_iff in H. destruct H as (H1 & _).
  apply N.leb_le in H1. cbn [orb]. apply (proj2 (N.eqb_neq TAB c)). unfold TAB. lia.
Qed.

Lemma digits_safe s : forallb is_digit s = true -> safe s = true.
Proof.
  intros H. unfold safe, safe_value, none_of. apply forallb_forall. intros c Hc. rewrite forallb_forall in H.
  now rewrite (digit_safe c (H c Hc)).
Qed.

Lemma label_safe l : label_nonneg l -> safe (label_str l) = true.
Proof.
  assert (Hcons : forall c s, LB c || N.eqb TAB c = false -> safe s = true -> safe (c :: s) = true).
  { intros c s Hc Hs. unfold safe, safe_value in *. rewrite none_of_cons. cbv beta. now rewrite Hc, Hs. }
  destruct l; intros Hn; try reflexivity; cbn [label_str]; (apply Hcons; [reflexivity|apply digits_safe; apply dec_of_Z_digits; exact Hn]).
Qed.

Lemma concat_safe ls : Forall (fun s => safe s = true) ls -> safe (concat ls) = true.
Proof.
  induction 1 as [|s ls Hs _ IH]; [reflexivity|]. simpl. unfold safe, safe_value in *. now rewrite none_of_app, Hs, IH.
Qed.

Lemma base_lines_ok (o : options F64) raw rs :
  Forall (parsed_ok E) rs -> f64_arith_ok (trained_of E o raw rs) = true ->
  Forall (fun it : TextFile.str * float => safe (fst it) = true /\ okbF (snd it) = true) (base_file RF (trained_of E o raw rs)).
Proof.
  intros Hrs Har. destruct (arith_parts _ Har) as (_ & _ & Hb & _). destruct (f64_wf_hyps_ok _ Hb) as (_ & Hu).
  apply Forall_forall. intros [k p] Hkp. cbn [fst snd]. split.
  - assert (Hk : In k (map fst (base_file RF (trained_of E o raw rs)))) by (apply in_map_iff; now exists (k, p)).
    destruct (base_file_keys RF E o raw rs k Hk) as [->|(r & Hr & _ & ->)]; [reflexivity|].
    unfold structure_of, structure. apply concat_safe. apply Forall_forall. intros s Hs. apply in_map_iff in Hs.
    destruct Hs as (l & <- & Hl). apply label_safe. rewrite Forall_forall in Hrs.
    pose proof (base_nonneg E r (Hrs r Hr)) as Hnn. rewrite Forall_forall in Hnn. now apply Hnn.
  - apply unitbF_okbF. rewrite Forall_forall in Hu. exact (Hu (k, p) Hkp).
Qed.

(* the real disk stage = the ideal one on a trained ruleset *)
Theorem load_real_is_ideal (o : options F64) raw rs :
  Forall (fun r => parsed_ok E r /\ origin E raw r) rs -> Forall (fun p => forallb (f_encb io) p = true) raw ->
  f64_arith_ok (trained_of E o raw rs) = true ->
  load RF E (disk_F64 io) (disk_base_F64 io) (save RF (trained_of E o raw rs)) =
  load RF E (disk_ideal RF) (@disk_base_ideal F64) (save RF (trained_of E o raw rs)).
Proof.
  intros Hrs Henc Har. apply load_ext.
  - intros sec letter names dir f lines Hsec Hn Hd _ Hl.
    destruct (saved_lookup RF (trained_of E o raw rs) sec letter names dir f lines Hsec Hn Hd Hl) as (name & cnt & Hin & ->).
    apply (disk_F64_is_ideal io _ (ie_io E io HIO)). exact (term_lines_ok o raw rs Hrs Henc Har name cnt Hin).
  - intros lines Hl. rewrite lookup_grammar in Hl. injection Hl as <-.
    apply (disk_base_F64_is_ideal io _ (ie_io E io HIO)). apply base_lines_ok; [|assumption].
    eapply Forall_impl; [|exact Hrs]. intros r (H & _). exact H.
Qed.

Lemma vars_of_Forall2 (g : grammar F64) : forall names vs, vars_of g names = Some vs ->
  Forall2 (fun n v => var_of g n = Some v) names vs.
Proof.
  induction names as [|n names IH]; intros vs H; simpl in H; [injection H as <-; constructor|].
  destruct (var_of g n) as [v|] eqn:Ev; [|discriminate]. destruct (vars_of g names) as [vs'|]; [|discriminate].
  injection H as <-. constructor; [assumption|now apply IH].
Qed.

(* E: the loaded ruleset is well formed *)
Theorem loaded_wf_F64 (o : options F64) raw rs bl :
  Forall (parsed_ok E) rs -> f64_arith_ok (trained_of E o raw rs) = true ->
  Forall2 (fun b x => bprob x = fst b /\ vars_of (grammar_of RF (counters_of rs)) (snd b) = Some (brepl x))
          (loaded_bases RF E (trained_of E o raw rs)) bl ->
  @wf F64 {| tbl := map (fun e => map snd (snd e)) (grammar_of RF (counters_of rs)); bases := bl |}.
Proof.
  intros Hrs Har HF. destruct (arith_parts _ Har) as (_ & Hc & _ & _ & Hb).
  pose proof (loaded_bases_names RF E HE o raw rs Hrs) as Hnames.
  set (T := map (fun e : TextFile.str * list (list TextFile.str * P F64) => map snd (snd e)) (grammar_of RF (counters_of rs))).
  assert (Hgoal : Forall (fun b : bstruct F64 => okb (bprob b) = true /\
                            Forall (fun v => @wf_groups F64 (nth v T [])) (brepl b)) bl).
  2:{ exact Hgoal. }
  revert Hnames Hb. induction HF as [|b x bs bl' (Hp & Hv) _ IH]; intros Hnames Hb; [constructor|].
  inversion Hnames as [|? ? Hnb Hnbs]; subst. constructor; [|apply IH; [assumption|intros b' Hb'; apply Hb; now right]].
  split; [rewrite Hp; apply (Hb b); now left|].
  pose proof (vars_of_Forall2 _ _ _ Hv) as HV. clear Hv Hp.
  induction HV as [|n v ns vs Hnv _ IHV]; [constructor|]. inversion Hnb as [|? ? (items & Hne & Hin) Hns]; subst.
  constructor; [|now apply IHV].
  destruct (loaded_var_groups RF rs [] n (Counters.tally items) v Hin Hnv) as (Hg & _).
  change (nth v T [] = map snd (groups_of RF (Counters.tally items))) in Hg.
  rewrite Hg. unfold groups_of.
  assert (Hcne : Counters.tally items <> []).
  { intros Hnil. destruct items as [|i items']; [congruence|].
    assert (In i (map fst (Counters.tally (i :: items')))) by (apply tally_keys_in; now left). rewrite Hnil in H. exact H. }
  destruct (f64_wf_hyps_ok _ (Hc n _ Hin Hcne)) as (Hs & Hu).
  apply (wf_groups_lines RF).
  - intros Hnil. destruct items as [|i items']; [congruence|].
    assert (Hk : In i (map fst (calc_probs (@of_counts (ops_of RF) (Counters.tally (i :: items')))))).
    { apply (proj2 (calc_probs_keys_in (ops_of RF) _ _)). unfold of_counts. rewrite map_map. cbn [fst].
      apply tally_keys_in. now left. }
    rewrite Hnil in Hk. exact Hk.
  - apply sorted_strong; [|now apply sorted_map_snd].
    apply Forall_forall. intros p Hp. apply in_map_iff in Hp. destruct Hp as (kv & <- & Hkv).
    rewrite Forall_forall in Hu. apply unitbF_okbF. now apply Hu.
  - apply Forall_forall. intros p Hp. apply in_map_iff in Hp. destruct Hp as (kv & <- & Hkv).
    rewrite Forall_forall in Hu. now apply Hu.
Qed.

(* ------------------------------------------------------------------ *)
(* C03 for the code's own arithmetic and file format                   *)
(* ------------------------------------------------------------------ *)

Theorem C03_reproduced_F64 (o : options F64) raw tr pw :
  train E o raw = Some tr -> In pw raw -> accepted_pw E pw = true -> supported_pw E o raw pw = true ->
  case_ok_pw E pw -> Forall (fun p => forallb (f_encb io) p = true) raw -> f64_arith_ok tr = true ->
  exists L, pipeline_F64 E io o raw = Some L /\
    forall pop, pop_ok_okb pop ->
      (exists it, In it (session pop L) /\ exists out k, guesses_of RF E L it = Some (out, k) /\ In pw out) /\
      In pw (printed RF E pop L).
Proof.
  intros Htr Hin Hacc Hsup Hcase Henc Har.
  destruct (train_origin E HE F64 o raw tr Htr) as (rs & Etr & Hrs).
  assert (Hrs' : Forall (parsed_ok E) rs) by (eapply Forall_impl; [|exact Hrs]; intros r (H & _); exact H).
  subst tr. destruct (arith_parts _ Har) as (Hcov & _ & _ & Hz & _).
  destruct (reproduced_emitted RF E HE o raw _ pw Htr Hin Hacc Hsup Hcase Hcov Hz) as (L & HL & Hrun).
  exists L. split.
  - unfold pipeline_F64, pipeline. rewrite Htr. rewrite (load_real_is_ideal o raw rs Hrs Henc Har). exact HL.
  - apply Hrun. destruct (load_saved RF E HE o raw rs Hrs' Hz) as (bl & Hload & HF).
    rewrite Hload in HL. injection HL as <-. cbn [l_rs]. now apply (loaded_wf_F64 o raw rs bl Hrs' Har).
Qed.

End Final.
