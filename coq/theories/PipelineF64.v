(* PipelineF64.v - property C03 for the binary64 instance of the pipeline model
   WITH the real disk stage (the text the trainer writes, read back by the
   guesser's loader: TextFile.write_file / load_guesser / lines_text / parse_line).

   The real disk stage coincides with the ideal one on the files of a ruleset
   trained from accepted, encodable passwords (values cannot hold a TAB or a
   line break; repr / float() round trip: PipelineDisk.io_ok); the remaining
   hypothesis is a computable sanity check of the float arithmetic on the
   pipeline's own intermediate values (f64_arith_ok: the hypotheses of
   CountersF64.calc_probs_F64_wf on every counter, P(M) < 1 in binary64, the
   rescaled base probabilities finite), evaluated by the correspondence on
   every case. *)
From Coq Require Import String List NArith ZArith Bool Floats Lia Sorting.Permutation Sorting.Sorted.
From Pcfg Require Import ProbAlg F64 Str Multiword Detect Segment TextFile TextFileProofs Counters CountersProofs LtallyProofs
     CountersF64 Reader Loader Next NextSpec NextProofs Expand IoCorr IoFacts
     DetectProofsDrive DetectProofsSeg DetectProofsPipe
     Pipeline PipelineStr PipelineTrain PipelineLoad PipelineProofs PipelineDisk PipelineGroups.
Import ListNotations.
Local Open Scope nat_scope.

(* ------------------------------------------------------------------ *)
(* A. the loader only depends on the disk stage through the files it reads *)
(* ------------------------------------------------------------------ *)

Section Ext.
Context {A : palg}.
Variable R : parith A.
Variable E : env.
Variables disk disk' : list (TextFile.str * P A) -> option (list (list TextFile.str * P A)).
Variables dbase dbase' : list (TextFile.str * P A) -> option (list (TextFile.str * P A)).
Variable s : saved R.

Lemma load_files_ext letter dir : forall names g,
  (forall f lines, In f names -> lookup_file R s dir f = Some lines -> disk lines = disk' lines) ->
  load_files R disk s letter dir names g = load_files R disk' s letter dir names g.
Proof.
  induction names as [|f names IH]; intros g H; [reflexivity|]. simpl.
  destruct (lookup_file R s dir f) as [lines|] eqn:El; [|reflexivity].
  rewrite (H f lines (or_introl eq_refl) El). destruct (disk' lines); [|reflexivity].
  apply IH. intros f' l' Hf'. apply H. now right.
Qed.

Lemma load_sections_ext : forall secs g,
  (forall sec letter names dir f lines, In (sec, letter) secs -> dict_get sec (s_lists s) = Some names ->
     dict_get sec (config_dirs : list (TextFile.str * TextFile.str)) = Some dir -> In f names ->
     lookup_file R s dir f = Some lines -> disk lines = disk' lines) ->
  load_sections R disk s secs g = load_sections R disk' s secs g.
Proof.
  induction secs as [|[sec letter] secs IH]; intros g H; [reflexivity|]. cbn [load_sections].
  destruct (dict_get sec (s_lists s)) as [names|] eqn:En; [|reflexivity].
  destruct (dict_get sec (config_dirs : list (TextFile.str * TextFile.str))) as [dir|] eqn:Ed; [|reflexivity].
  rewrite (load_files_ext letter dir names g).
  - destruct (load_files R disk' s letter dir names g); [|reflexivity]. apply IH.
    intros sec' l' n' d' f lines Hin. apply (H sec' l' n' d' f lines). now right.
  - intros f lines Hf Hl. apply (H sec letter names dir f lines); auto. now left.
Qed.

Lemma load_ext :
  (forall sec letter names dir f lines, In (sec, letter) guesser_sections -> dict_get sec (s_lists s) = Some names ->
     dict_get sec (config_dirs : list (TextFile.str * TextFile.str)) = Some dir -> In f names ->
     lookup_file R s dir f = Some lines -> disk lines = disk' lines) ->
  (forall lines, lookup_file R s (str_of_string "Grammar") (str_of_string "grammar.txt") = Some lines ->
     dbase lines = dbase' lines) ->
  load R E disk dbase s = load R E disk' dbase' s.
Proof.
  intros H1 H2. unfold load. rewrite (load_sections_ext guesser_sections [] H1).
  destruct (load_sections R disk' s guesser_sections []); [|reflexivity].
  unfold load_base_structures.
  destruct (lookup_file R s (str_of_string "Grammar") (str_of_string "grammar.txt")) as [lines|] eqn:El; [|reflexivity].
  now rewrite (H2 lines eq_refl).
Qed.
End Ext.

(* ------------------------------------------------------------------ *)
(* B. the files the loader reads are the files of the terminal counters *)
(* ------------------------------------------------------------------ *)

Section Saved.
Context {A : palg}.
Variable R : parith A.
Notation OPS := (ops_of R).

Lemma indexed_file letter (d : list (N * list (TextFile.str * N))) f lines :
  dict_get f (save_indexed [] (@lkeys OPS d)) = Some lines ->
  exists n c, In (n, c) d /\ lines = calc_probs (@of_counts OPS c) /\ In (letter :: dec_of_N n, c) (lnamed letter d).
Proof.
  intros H. apply dict_get_in in H. unfold save_indexed, lkeys in H. rewrite map_map in H. apply in_map_iff in H.
  destruct H as ([n c] & Heq & Hin). cbn [fst snd] in Heq. injection Heq as _ <-.
  exists n, c. split; [assumption|]. split; [reflexivity|]. unfold lnamed. apply in_map_iff. now exists (n, c).
Qed.

Lemma saved_lookup (t : trained A) sec letter names dir f lines :
  In (sec, letter) guesser_sections -> dict_get sec (s_lists (save R t)) = Some names ->
  dict_get sec (config_dirs : list (TextFile.str * TextFile.str)) = Some dir ->
  lookup_file R (save R t) dir f = Some lines ->
  exists name cnt, In (name, cnt) (term_counters (t_counters t)) /\ lines = calc_probs (@of_counts OPS cnt).
Proof.
  intros Hsec _ Hdir Hl. unfold guesser_sections in Hsec. cbn [map fst snd] in Hsec. unfold term_counters.
  repeat (destruct Hsec as [Hsec|Hsec]; [injection Hsec as <- <-; vm_compute in Hdir; injection Hdir as <-|]); try contradiction.
  - change (dict_get f (save_indexed [] (@lkeys OPS (pc_alpha (t_counters t)))) = Some lines) in Hl.
    destruct (indexed_file 65%N _ f lines Hl) as (n & c & _ & -> & Hin). exists (65%N :: dec_of_N n), c. rewrite !in_app_iff. tauto.
  - change (dict_get f (save_indexed [] (@lkeys OPS (pc_masks (t_counters t)))) = Some lines) in Hl.
    destruct (indexed_file 67%N _ f lines Hl) as (n & c & _ & -> & Hin). exists (67%N :: dec_of_N n), c. rewrite !in_app_iff. tauto.
  - change (dict_get f (save_indexed [] (@lkeys OPS (pc_digits (t_counters t)))) = Some lines) in Hl.
    destruct (indexed_file 68%N _ f lines Hl) as (n & c & _ & -> & Hin). exists (68%N :: dec_of_N n), c. rewrite !in_app_iff. tauto.
  - change (dict_get f (save_indexed [] (@lkeys OPS (pc_other (t_counters t)))) = Some lines) in Hl.
    destruct (indexed_file 79%N _ f lines Hl) as (n & c & _ & -> & Hin). exists (79%N :: dec_of_N n), c. rewrite !in_app_iff. tauto.
  - change (dict_get f (save_indexed [] (@lkeys OPS (pc_keyboard (t_counters t)))) = Some lines) in Hl.
    destruct (indexed_file 75%N _ f lines Hl) as (n & c & _ & -> & Hin). exists (75%N :: dec_of_N n), c. rewrite !in_app_iff. tauto.
  - change (dict_get f (save_indexed [] [([49%N], @of_counts OPS (pc_years (t_counters t)))]) = Some lines) in Hl.
    apply dict_get_in in Hl. destruct Hl as [Hl|[]]. injection Hl as _ <-.
    exists [89; 49]%N, (pc_years (t_counters t)). rewrite !in_app_iff. simpl. tauto.
  - change (dict_get f (save_indexed [] [([49%N], @of_counts OPS (pc_context (t_counters t)))]) = Some lines) in Hl.
    apply dict_get_in in Hl. destruct Hl as [Hl|[]]. injection Hl as _ <-.
    exists [88; 49]%N, (pc_context (t_counters t)). rewrite !in_app_iff. simpl. tauto.
Qed.
End Saved.

(* ------------------------------------------------------------------ *)
(* C. every value in a terminal file comes from an accepted password   *)
(* ------------------------------------------------------------------ *)

Section Values.
Variable E : env.
Hypothesis HE : env_ok E.
Notation e_pm := (pm (e_lower E)).
Notation L1 := (lower1 (e_lower E)).
Notation e_sound := (sound (e_isalpha E) (e_isdigit E) (e_kbs E) (e_min_run E) (e_year_prefixes E) (e_context E)).

Definition piece_of (pw v : Str.str) : Prop := exists pre post, pw = pre ++ v ++ post.

Lemma tiles_piece pw sl x : tiles e_pm pw sl -> In x sl -> snd x <> Some LW -> piece_of pw (fst x).
Proof.
  intros (pieces & <- & HF) Hx Hn. induction HF as [|pc y ps ys Hpm _ IH]; [contradiction|].
  destruct Hx as [->|Hx].
  - exists [], (concat ps). simpl. f_equal. unfold pm in Hpm. destruct (snd x) as [[]|]; congruence.
  - destruct (IH Hx) as (pre & post & Eq). exists (pc ++ pre), post. simpl. rewrite Eq. now rewrite app_assoc.
Qed.

(* the parsed result of an accepted line of the training file *)
Definition origin (raw : list Str.str) (r : parsed) : Prop :=
  exists pw, In pw raw /\ accepted_pw E pw = true /\ tiles e_pm pw (p_sections r).

Inductive value_from (pw v : Str.str) : Prop :=
| vf_piece : piece_of pw v -> value_from pw v
| vf_lower t : piece_of pw t -> forallb (e_isalpha E) t = true -> v = map L1 t -> value_from pw v
| vf_mask t : v = case_mask (e_isupper E) t -> value_from pw v.

Lemma isC_notW k x : isC k x = true -> k <> 2 -> snd x <> Some LW.
Proof.
  unfold isC. destruct (snd x) as [l|]; [|discriminate]. intros H Hk E'. injection E' as ->.
  change (cls LW) with 2 in H. apply Nat.eqb_eq in H. congruence.
Qed.

Lemma in_texts_inv k sl v : In v (texts k sl) -> exists x, In x sl /\ isC k x = true /\ v = fst x.
Proof.
  unfold texts. intros H. apply in_map_iff in H. destruct H as (x & <- & Hx). apply filter_In in Hx. destruct Hx. now exists x.
Qed.

Lemma lnamed_items letter items name cnt v :
  In (name, cnt) (lnamed letter (ltally items)) -> In v (map fst cnt) -> In v items.
Proof.
  unfold lnamed. intros H Hv. apply in_map_iff in H. destruct H as ([n c] & Heq & Hin). injection Heq as _ <-.
  now destruct (ltally_items_have_length items n c v Hin Hv).
Qed.

Lemma train_origin (A : palg) (o : options A) raw tr : train E o raw = Some tr ->
  exists rs, tr = trained_of E o raw rs /\ Forall (fun r => parsed_ok E r /\ origin raw r) rs.
Proof.
  intros H. destruct (train_inv E o raw tr H) as (rs & HF & _ & ->). exists rs. split; [reflexivity|].
  assert (Hall : Forall (fun pw => In pw raw /\ accepted_pw E pw = true) (train_pws E raw)).
  { apply Forall_forall. intros pw Hpw. apply filter_In in Hpw. exact Hpw. }
  clear H. induction HF as [|pw r pws rs Hpr _ IH]; [constructor|]. inversion Hall as [|? ? (Hin & Hacc) Hall']; subst.
  constructor; [|now apply IH].
  destruct (parse_pw_facts E HE (train_map E o raw) pw (accepted_nonempty E pw (ok_rej_empty E HE) Hacc)) as (r' & Er' & Ht & Hok).
  assert (r' = r) by congruence. subst r'. split; [assumption|]. now exists pw.
Qed.

Theorem found_value raw rs : Forall (fun r => parsed_ok E r /\ origin raw r) rs ->
  forall name cnt v, In (name, cnt) (term_counters (counters_of rs)) -> In v (map fst cnt) ->
  exists pw, In pw raw /\ accepted_pw E pw = true /\ value_from pw v.
Proof.
  intros Hrs name cnt v Hin Hv. rewrite Forall_forall in Hrs.
  assert (Hplain : forall (f : parsed -> list Str.str) k, k <> 2 ->
            (forall r, parsed_ok E r -> Permutation (f r) (texts k (p_sections r))) ->
            In v (flat_map f rs) -> exists pw, In pw raw /\ accepted_pw E pw = true /\ value_from pw v).
  { intros f k Hk Hperm Hf. apply in_flat_map in Hf. destruct Hf as (r & Hr & Hvr).
    destruct (Hrs r Hr) as (Hok & pw & Hpw & Hacc & Ht).
    pose proof (Permutation_in _ (Hperm r Hok) Hvr) as Hvt. apply in_texts_inv in Hvt. destruct Hvt as (x & Hx & Hc & ->).
    exists pw. split; [assumption|]. split; [assumption|]. apply vf_piece. eapply tiles_piece; [eassumption|assumption|].
    eapply isC_notW; eassumption. }
  unfold term_counters, counters_of in Hin. cbn [pc_alpha pc_masks pc_digits pc_other pc_keyboard pc_years pc_context] in Hin.
  rewrite !in_app_iff in Hin. destruct Hin as [Hin|[Hin|[Hin|[Hin|[Hin|[Hin|Hin]]]]]].
  - (* alpha words *)
    pose proof (lnamed_items _ _ _ _ _ Hin Hv) as Hf. apply in_flat_map in Hf. destruct Hf as (r & Hr & Hvr).
    destruct (Hrs r Hr) as (Hok & pw & Hpw & Hacc & Ht). pose proof Hok as (Hs & _ & Hc).
    destruct Hc as (_ & _ & _ & _ & _ & _ & _ & _ & _ & _ & _ & _ & _ & _ & _ & C5 & _). rewrite C5 in Hvr.
    apply in_map_iff in Hvr. destruct Hvr as (t & <- & Htx). apply in_texts_inv in Htx. destruct Htx as (x & Hx & Hcx & ->).
    exists pw. split; [assumption|]. split; [assumption|]. apply (vf_lower pw _ (fst x)); [| |reflexivity].
    + eapply tiles_piece; [eassumption|assumption|]. eapply isC_notW; [eassumption|discriminate].
    + rewrite Forall_forall in Hs. destruct (Hs x Hx) as (_ & Hsx). unfold isC in Hcx.
      destruct (snd x) as [[]|]; try discriminate. tauto.
  - (* masks *)
    pose proof (lnamed_items _ _ _ _ _ Hin Hv) as Hf. apply in_flat_map in Hf. destruct Hf as (r & Hr & Hvr).
    destruct (Hrs r Hr) as (Hok & pw & Hpw & Hacc & Ht). pose proof Hok as (Hs & _ & Hc).
    destruct Hc as (_ & _ & _ & _ & _ & _ & _ & _ & _ & _ & _ & _ & _ & _ & _ & _ & C5m). rewrite C5m in Hvr.
    apply in_map_iff in Hvr. destruct Hvr as (t & <- & _).
    exists pw. split; [assumption|]. split; [assumption|]. now apply (vf_mask pw _ t).
  - apply (Hplain p_digits 6); [discriminate| |eapply lnamed_items; eassumption].
    intros r (_ & _ & Hc). now destruct Hc as (_ & _ & _ & _ & _ & _ & _ & C6 & _).
  - apply (Hplain p_other 7); [discriminate| |eapply lnamed_items; eassumption].
    intros r (_ & _ & Hc). now destruct Hc as (_ & _ & _ & _ & _ & _ & _ & _ & C7 & _).
  - apply (Hplain p_walks 0); [discriminate| |eapply lnamed_items; eassumption].
    intros r (_ & _ & Hc). now destruct Hc as (C0 & _).
  - destruct Hin as [Hin|[]]. injection Hin as _ <-. apply (Hplain p_years 3); [discriminate| |now apply tally_keys_in].
    intros r (_ & _ & Hc). now destruct Hc as (_ & _ & _ & C3 & _).
  - destruct Hin as [Hin|[]]. injection Hin as _ <-. apply (Hplain p_context 4); [discriminate| |now apply tally_keys_in].
    intros r (_ & _ & Hc). now destruct Hc as (_ & _ & _ & _ & C4 & _).
Qed.

(* ---- such a value can be written to and read back from a ruleset file *)

Variable io : fileio.

Record io_env_ok : Prop := {
  ie_io : io_ok io;
  (* check_valid rejects TAB and every code point the line iteration splits on (C07_linebreaks_rejected) *)
  ie_rejected : forall c, LB c || N.eqb TAB c = true -> memN c (e_rejected E) = true;
  (* none of them is a letter *)
  ie_alpha : forall c, LB c || N.eqb TAB c = true -> e_isalpha E c = false;
  (* the ruleset encoding can encode the lower case of what it can encode *)
  ie_lower : forall c, f_encb io c = true -> f_encb io (L1 c) = true
}.
Hypothesis HIO : io_env_ok.

Lemma accepted_chars pw c : accepted_pw E pw = true -> In c pw -> LB c || N.eqb TAB c = false.
Proof.
  intros Hacc Hc. unfold accepted_pw, check_valid in Hacc. apply andb_true_iff in Hacc. destruct Hacc as (_ & Hall).
  rewrite forallb_forall in Hall. specialize (Hall c Hc).
  destruct (LB c || N.eqb TAB c) eqn:Eb; [|reflexivity]. rewrite (ie_rejected HIO c Eb) in Hall. discriminate.
Qed.

Lemma piece_in pw v c : piece_of pw v -> In c v -> In c pw.
Proof. intros (pre & post & ->) Hc. rewrite !in_app_iff. tauto. Qed.

Lemma value_ok pw v : accepted_pw E pw = true -> forallb (f_encb io) pw = true -> value_from pw v ->
  safe v = true /\ forallb (f_encb io) v = true.
Proof.
  intros Hacc Henc Hv. unfold safe, safe_value, none_of. rewrite forallb_forall in Henc.
  destruct Hv as [Hp|t Hp Ha ->|t ->].
  - split; apply forallb_forall; intros c Hc.
    + now rewrite (accepted_chars pw c Hacc (piece_in pw v c Hp Hc)).
    + apply Henc. eapply piece_in; eassumption.
  - rewrite forallb_forall in Ha. split; apply forallb_forall; intros c Hc; apply in_map_iff in Hc; destruct Hc as (d & <- & Hd).
    + destruct (LB (L1 d) || N.eqb TAB (L1 d)) eqn:Eb; [|reflexivity]. exfalso.
      pose proof (ie_alpha HIO _ Eb) as Hna. destruct (ok_good E HE d) as (_ & Hal & _). rewrite Hal, (Ha d Hd) in Hna. discriminate.
    + apply (ie_lower HIO). apply Henc. eapply piece_in; eassumption.
  - split; apply forallb_forall; intros c Hc; unfold case_mask in Hc; apply in_map_iff in Hc; destruct Hc as (d & <- & _);
      destruct (e_isupper E d).
    + reflexivity.
    + reflexivity.
    + apply (io_ascii io (ie_io HIO)). reflexivity.
    + apply (io_ascii io (ie_io HIO)). reflexivity.
Qed.

End Values.
