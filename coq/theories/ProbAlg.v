(* Probability algebra: the carrier the guesser multiplies and compares.
   All order / completeness theorems are proved over this record and
   instantiated with binary64 (F64.v) and with exact rationals (QProb.v). *)
From Coq Require Import Bool List.
Import ListNotations.

Record palg := {
  P      : Type;
  ple    : P -> P -> bool;
  pmul   : P -> P -> P;
  okb    : P -> bool;          (* finite and >= 0 : base probabilities, accumulators *)
  unitb  : P -> bool;          (* okb and <= 1   : terminal / group probabilities    *)
  unit_ok   : forall a, unitb a = true -> okb a = true;
  ple_refl  : forall a, okb a = true -> ple a a = true;
  ple_trans : forall a b c, okb a = true -> okb b = true -> okb c = true ->
              ple a b = true -> ple b c = true -> ple a c = true;
  ple_total : forall a b, okb a = true -> okb b = true ->
              ple a b = true \/ ple b a = true;
  pmul_ok   : forall a b, okb a = true -> unitb b = true -> okb (pmul a b) = true;
  pmul_mono : forall a a' b b', okb a = true -> okb a' = true ->
              unitb b = true -> unitb b' = true ->
              ple a a' = true -> ple b b' = true ->
              ple (pmul a b) (pmul a' b') = true
}.

Arguments ple {_} _ _.
Arguments pmul {_} _ _.
Arguments okb {_} _.
Arguments unitb {_} _.

Section Derived.
  Context {A : palg}.
  (* Python's  a < b  and  a == b  on the carrier, expressed with ple only.
     On ok values (no NaN) these coincide with the float comparisons; the
     coincidence for binary64 is proved in F64.v (plt_F64, peq_F64). *)
  Definition plt (a b : P A) : bool := negb (ple b a).
  Definition peq (a b : P A) : bool := ple a b && ple b a.

  Lemma plt_irrefl a : okb a = true -> plt a a = false.
  Proof. intros H. unfold plt. now rewrite (ple_refl A a H). Qed.

  Lemma plt_ple a b : okb a = true -> okb b = true -> plt a b = true -> ple a b = true.
  Proof.
    intros Ha Hb H. unfold plt in H. destruct (ple_total A a b Ha Hb) as [H1|H1]; auto.
    rewrite H1 in H. discriminate.
  Qed.

  Lemma not_plt_ple a b : plt a b = false -> ple b a = true.
  Proof. unfold plt. destruct (ple b a); simpl; congruence. Qed.

  Lemma ple_not_plt a b : ple b a = true -> plt a b = false.
  Proof. unfold plt. intros ->. reflexivity. Qed.

  Lemma plt_trans_le a b c : okb a = true -> okb b = true -> okb c = true ->
    plt a b = true -> ple b c = true -> plt a c = true.
  Proof.
    intros Ha Hb Hc H1 H2. unfold plt in *.
    destruct (ple c a) eqn:E; auto.
    assert (ple b a = true) by (eapply (ple_trans A b c a); eauto).
    rewrite H in H1. discriminate.
  Qed.

  Lemma ple_trans_lt a b c : okb a = true -> okb b = true -> okb c = true ->
    ple a b = true -> plt b c = true -> plt a c = true.
  Proof.
    intros Ha Hb Hc H1 H2. unfold plt in *.
    destruct (ple c a) eqn:E; auto.
    assert (ple c b = true) by (eapply (ple_trans A c a b); eauto).
    rewrite H in H2. discriminate.
  Qed.

  Lemma peq_refl a : okb a = true -> peq a a = true.
  Proof. intros H. unfold peq. now rewrite (ple_refl A a H). Qed.

  Lemma peq_sym a b : peq a b = peq b a.
  Proof. unfold peq. apply andb_comm. Qed.

  Lemma trichotomy a b : okb a = true -> okb b = true ->
    (plt a b = true /\ peq a b = false) \/
    (peq a b = true /\ plt a b = false /\ plt b a = false) \/
    (plt b a = true /\ peq a b = false).
  Proof.
    intros Ha Hb. unfold plt, peq.
    destruct (ple a b) eqn:E1, (ple b a) eqn:E2; simpl; auto.
  Qed.
End Derived.
