(* Lemmas about the runtime of the generated ruleset writers (WriterRt.v) and the glue of
   WriterSpec.v, independent of the generated text. *)
From Coq Require Import String Ascii.
From Coq Require Import List NArith Bool Lia Arith.
From Pcfg Require Import TextFile Counters CountersProofs WriterRt WriterSpec.
Import ListNotations.
Open Scope N_scope.

(* ---------------------------------------------------------------- loops *)

Lemma for_each_norm {R X St : Type} (f : X -> St -> St) (body : X -> St -> out R St) :
  forall (l : list X) (s : St),
    (forall x st, In x l -> body x st = Norm (f x st)) ->
    for_each l body s = Norm (fold_left (fun st x => f x st) l s).
Proof.
  induction l as [|x r IH]; intros s H; [reflexivity|].
  cbn [for_each fold_left]. rewrite (H x s (or_introl eq_refl)). cbn [bind].
  apply IH. intros y st Hy. apply H. right. exact Hy.
Qed.

Lemma for_each_ext {R X St : Type} (b1 b2 : X -> St -> out R St) :
  forall (l : list X) (s : St), (forall x st, In x l -> b1 x st = b2 x st) -> for_each l b1 s = for_each l b2 s.
Proof.
  induction l as [|x r IH]; intros s H; [reflexivity|].
  cbn [for_each]. rewrite (H x s (or_introl eq_refl)). destruct (b2 x s); cbn [bind]; try reflexivity.
  apply IH. intros y st Hy. apply H. right. exact Hy.
Qed.

(* a loop that meets an element on which the body raises, after elements on which it goes on, raises *)
Lemma for_each_exc {R X St : Type} (body : X -> St -> out R St) :
  forall (l : list X) (s : St),
    (forall x st, In x l -> (exists st', body x st = Norm st') \/ (exists e, body x st = Exc e)) ->
    (exists x, In x l /\ forall st, exists e, body x st = Exc e) ->
    exists e, for_each l body s = Exc e.
Proof.
  induction l as [|x r IH]; intros s H [y [Hy Hexc]]; [contradiction|].
  cbn [for_each]. destruct (H x s (or_introl eq_refl)) as [[st' E]|[e E]]; rewrite E; cbn [bind].
  - destruct Hy as [Hy|Hy].
    + subst y. destruct (Hexc s) as [e E']. rewrite E in E'. discriminate.
    + apply IH; [intros z st Hz; apply H; right; exact Hz | exists y; split; assumption].
  - exists e. reflexivity.
Qed.

Lemma fold_left_map {A B C : Type} (f : A -> B -> A) (g : C -> B) : forall (l : list C) (a : A),
  fold_left f (map g l) a = fold_left (fun a c => f a (g c)) l a.
Proof. induction l as [|x r IH]; intro a; [reflexivity|]. cbn [map fold_left]. apply IH. Qed.

(* ---------------------------------------------------------------- counters *)

Lemma cnt_add_one : forall k c, cnt_add k 1 c = incr k c.
Proof.
  intros k c. induction c as [|[k' m] r IH]; [reflexivity|].
  cbn [cnt_add incr]. destruct (str_eqb k k'); [reflexivity|]. rewrite IH. reflexivity.
Qed.

Lemma ins_desc_not_nil (O : numops) (x : str * num O) (l : counter O) : ins_desc x l <> [].
Proof. destruct l as [|y r]; cbn [ins_desc]; [discriminate|]. destruct (nltb O (snd x) (snd y)); discriminate. Qed.

Lemma most_common_nonempty (O : numops) (c : counter O) : nonempty (most_common c) = nonempty c.
Proof.
  destruct c as [|x r]; [reflexivity|]. unfold most_common. cbn [fold_right nonempty].
  destruct (ins_desc x (fold_right ins_desc [] r)) eqn:E; [|reflexivity].
  exfalso. exact (ins_desc_not_nil O x _ E).
Qed.

Lemma firstn_nonempty {X : Type} (n : nat) (l : list X) : nonempty (firstn (S n) l) = nonempty l.
Proof. destruct l; reflexivity. Qed.

(* ---------------------------------------------------------------- section lists *)

Lemma labelled_iff s : labelledb s = true <-> labelled s.
Proof.
  unfold labelledb, labelled. destruct s as [t [[|c l]|]]; cbn [snd]; split; intro H; try discriminate.
  - destruct H as [l [E Hl]]. inversion E. subst. contradiction.
  - exists (c :: l). split; [reflexivity|discriminate].
  - reflexivity.
  - destruct H as [l [E _]]. discriminate.
Qed.

Lemma labels_of_sections_of : forall ls, labels_of (sections_of ls) = ls.
Proof. induction ls as [|l r IH]; [reflexivity|]. unfold labels_of, sections_of in *. cbn [map snd key_of_opt]. rewrite IH. reflexivity. Qed.

Lemma sections_of_labelled : forall ls, Forall (fun l => l <> []) ls -> Forall labelled (sections_of ls).
Proof.
  induction 1 as [|l r Hl _ IH]; [constructor|]. constructor; [|exact IH].
  exists l. split; [reflexivity|exact Hl].
Qed.
