(* Lemmas about the runtime of the generated ruleset writers (WriterRt.v) and the glue of
   WriterSpec.v, independent of the generated text. *)
From Coq Require Import String Ascii.
From Coq Require Import List NArith Bool Lia Arith.
From Pcfg Require Import TextFile Counters CountersProofs WriterRt WriterSpec.
Import ListNotations.
Open Scope N_scope.

(* ---------------------------------------------------------------- loops *)

Lemma for_each_norm {R X St : Type} (f : X -> St -> St) (body : X -> St -> out R St) :
  forall (l : list X) (s : St),
    (forall x st, In x l -> body x st = Norm (f x st)) ->
    for_each l body s = Norm (fold_left (fun st x => f x st) l s).
Proof.
  induction l as [|x r IH]; intros s H; [reflexivity|].
  cbn [for_each fold_left]. rewrite (H x s (or_introl eq_refl)). cbn [bind].
  apply IH. intros y st Hy. apply H. right. exact Hy.
Qed.

Lemma for_each_ext {R X St : Type} (b1 b2 : X -> St -> out R St) :
  forall (l : list X) (s : St), (forall x st, In x l -> b1 x st = b2 x st) -> for_each l b1 s = for_each l b2 s.
Proof.
  induction l as [|x r IH]; intros s H; [reflexivity|].
  cbn [for_each]. rewrite (H x s (or_introl eq_refl)). destruct (b2 x s); cbn [bind]; try reflexivity.
  apply IH. intros y st Hy. apply H. right. exact Hy.
Qed.

(* a loop that meets an element on which the body raises, after elements on which it goes on, raises *)
Lemma for_each_exc {R X St : Type} (body : X -> St -> out R St) :
  forall (l : list X) (s : St),
    (forall x st, In x l -> (exists st', body x st = Norm st') \/ (exists e, body x st = Exc e)) ->
    (exists x, In x l /\ forall st, exists e, body x st = Exc e) ->
    exists e, for_each l body s = Exc e.
Proof.
  induction l as [|x r IH]; intros s H [y [Hy Hexc]]; [contradiction|].
  cbn [for_each]. destruct (H x s (or_introl eq_refl)) as [[st' E]|[e E]]; rewrite E; cbn [bind].
  - destruct Hy as [Hy|Hy].
    + subst y. destruct (Hexc s) as [e E']. rewrite E in E'. discriminate.
    + apply IH; [intros z st Hz; apply H; right; exact Hz | exists y; split; assumption].
  - exists e. reflexivity.
Qed.

Lemma fold_left_map {A B C : Type} (f : A -> B -> A) (g : C -> B) : forall (l : list C) (a : A),
  fold_left f (map g l) a = fold_left (fun a c => f a (g c)) l a.
Proof. induction l as [|x r IH]; intro a; [reflexivity|]. cbn [map fold_left]. apply IH. Qed.

(* ---------------------------------------------------------------- counters *)

Lemma cnt_add_one : forall k c, cnt_add k 1 c = incr k c.
Proof.
  intros k c. induction c as [|[k' m] r IH]; [reflexivity|].
  cbn [cnt_add incr]. destruct (str_eqb k k'); [reflexivity|]. rewrite IH. reflexivity.
Qed.

Lemma ins_desc_not_nil (O : numops) (x : str * num O) (l : counter O) : ins_desc x l <> [].
Proof. destruct l as [|y r]; cbn [ins_desc]; [discriminate|]. destruct (nltb O (snd x) (snd y)); discriminate. Qed.

Lemma most_common_nonempty (O : numops) (c : counter O) : nonempty (most_common c) = nonempty c.
Proof.
  destruct c as [|x r]; [reflexivity|]. unfold most_common. cbn [fold_right nonempty].
  destruct (ins_desc x (fold_right ins_desc [] r)) eqn:E; [|reflexivity].
  exfalso. exact (ins_desc_not_nil O x _ E).
Qed.

Lemma firstn_nonempty {X : Type} (n : nat) (l : list X) : nonempty (firstn (S n) l) = nonempty l.
Proof. destruct l; reflexivity. Qed.

(* ---------------------------------------------------------------- section lists *)

Lemma labelled_iff s : labelledb s = true <-> labelled s.
Proof.
  unfold labelledb, labelled. destruct s as [t [[|c l]|]]; cbn [snd]; split; intro H; try discriminate.
  - destruct H as [l [E Hl]]. inversion E. subst. contradiction.
  - exists (c :: l). split; [reflexivity|discriminate].
  - reflexivity.
  - destruct H as [l [E _]]. discriminate.
Qed.

Lemma labels_of_sections_of : forall ls, labels_of (sections_of ls) = ls.
Proof. induction ls as [|l r IH]; [reflexivity|]. unfold labels_of, sections_of in *. cbn [map snd key_of_opt]. rewrite IH. reflexivity. Qed.

Lemma sections_of_labelled : forall ls, Forall (fun l => l <> []) ls -> Forall labelled (sections_of ls).
Proof.
  induction 1 as [|l r Hl _ IH]; [constructor|]. constructor; [|exact IH].
  exists l. split; [reflexivity|exact Hl].
Qed.

(* ---------------------------------------------------------------- paths *)

Lemma path_eqb_eq : forall a b : path, path_eqb a b = true <-> a = b.
Proof.
  induction a as [|x a IH]; destruct b as [|y b]; cbn [path_eqb]; split; intro H; try discriminate; try reflexivity.
  - apply andb_true_iff in H. destruct H as [H1 H2]. apply str_eqb_eq in H1. apply IH in H2. subst. reflexivity.
  - inversion H. subst. rewrite str_eqb_refl. cbn. apply IH. reflexivity.
Qed.

Lemma path_eqb_refl : forall a, path_eqb a a = true.
Proof. intro a. apply path_eqb_eq. reflexivity. Qed.

Lemma path_eqb_neq : forall a b : path, path_eqb a b = false <-> a <> b.
Proof.
  intros a b. split; intro H.
  - intro E. apply path_eqb_eq in E. rewrite E in H. discriminate.
  - destruct (path_eqb a b) eqn:E; [|reflexivity]. apply path_eqb_eq in E. contradiction.
Qed.

Lemma path_eqb_sym : forall a b, path_eqb a b = path_eqb b a.
Proof.
  intros a b. destruct (path_eqb a b) eqn:E.
  - apply path_eqb_eq in E. subst. symmetry. apply path_eqb_refl.
  - symmetry. apply path_eqb_neq. apply path_eqb_neq in E. congruence.
Qed.

Lemma is_prefix_app : forall a b, is_prefix a (a ++ b) = true.
Proof. induction a as [|x a IH]; intro b; [reflexivity|]. cbn. rewrite str_eqb_refl. apply IH. Qed.

Lemma is_prefix_split : forall a p, is_prefix a p = true -> exists r, p = a ++ r.
Proof.
  induction a as [|x a IH]; intros p H.
  - exists p. reflexivity.
  - destruct p as [|y p]; [discriminate|]. cbn in H. apply andb_true_iff in H. destruct H as [H1 H2].
    apply str_eqb_eq in H1. subst y. destruct (IH p H2) as [r E]. exists r. subst p. reflexivity.
Qed.

Lemma is_under_iff : forall folder p, is_under folder p = true <-> exists r, r <> [] /\ p = folder ++ r.
Proof.
  intros folder p. unfold is_under. split.
  - intro H. apply andb_true_iff in H. destruct H as [H1 H2]. destruct (is_prefix_split _ _ H1) as [r E].
    exists r. split; [|exact E]. intro Hr. subst. rewrite app_nil_r in H2. apply Nat.ltb_lt in H2. lia.
  - intros [r [Hr E]]. subst p. rewrite is_prefix_app. cbn. apply Nat.ltb_lt. rewrite app_length.
    destruct r; [contradiction|]. cbn. lia.
Qed.

Lemma is_under_join : forall folder n, is_under folder (path_join folder n) = true.
Proof. intros. apply is_under_iff. exists [n]. split; [discriminate|reflexivity]. Qed.

Lemma parent_join : forall d n, parent (path_join d n) = d.
Proof. intros. unfold parent, path_join. apply removelast_last. Qed.

Lemma basename_join : forall d n, basename (path_join d n) = n.
Proof. intros. unfold basename, path_join. apply last_last. Qed.

Lemma join_parent_basename : forall p, p <> [] -> path_join (parent p) (basename p) = p.
Proof. intros p H. unfold path_join, parent, basename. symmetry. apply app_removelast_last. exact H. Qed.

Lemma path_join_inj : forall d n m, path_join d n = path_join d m -> n = m.
Proof. intros d n m H. unfold path_join in H. apply app_inv_head in H. inversion H. reflexivity. Qed.

(* a file directly in a folder lies below it *)
Lemma child_is_under : forall folder p, p <> [] -> parent p = folder -> is_under folder p = true.
Proof. intros folder p Hp E. rewrite <- (join_parent_basename p Hp), E. apply is_under_join. Qed.

(* ---------------------------------------------------------------- the file system *)

Lemma fs_mem_in : forall p fs, fs_mem p fs = true <-> In p (map fst fs).
Proof.
  intros p fs. unfold fs_mem. rewrite existsb_exists. split.
  - intros [e [He E]]. apply path_eqb_eq in E. subst. apply in_map. exact He.
  - intro H. apply in_map_iff in H. destruct H as [e [E He]]. exists e. split; [exact He|]. subst. apply path_eqb_refl.
Qed.

Lemma fs_set_keys_absent : forall p t fs, ~ In p (map fst fs) -> fs_set p t fs = fs ++ [(p, t)].
Proof.
  intros p t fs. induction fs as [|[q u] r IH]; intro H; [reflexivity|].
  cbn [fs_set]. destruct (path_eqb p q) eqn:E.
  - apply path_eqb_eq in E. subst. exfalso. apply H. left. reflexivity.
  - cbn [app]. rewrite IH; [reflexivity|]. intro Hin. apply H. right. exact Hin.
Qed.

Lemma fs_set_keys : forall p t fs, map fst (fs_set p t fs) = if fs_mem p fs then map fst fs else map fst fs ++ [p].
Proof.
  intros p t fs. induction fs as [|[q u] r IH]; [reflexivity|].
  cbn [fs_set]. unfold fs_mem. cbn [existsb fst]. destruct (path_eqb p q) eqn:E.
  - cbn. apply path_eqb_eq in E. subst. reflexivity.
  - cbn [orb map fst]. rewrite IH. unfold fs_mem. destruct (existsb _ r); reflexivity.
Qed.


Lemma NoDup_snoc {A : Type} (l : list A) (x : A) : NoDup l -> ~ In x l -> NoDup (l ++ [x]).
Proof.
  intros H Hx. induction H as [|y l Hy Hl IH]; cbn.
  - constructor; [intros []|constructor].
  - constructor.
    + intro Hin. apply in_app_or in Hin. destruct Hin as [Hin|[E|[]]]; [contradiction|]. subst. apply Hx. left. reflexivity.
    + apply IH. intro Hin. apply Hx. right. exact Hin.
Qed.

Lemma fs_set_wf : forall p t fs, fs_wf fs -> fs_wf (fs_set p t fs).
Proof.
  intros p t fs H. unfold fs_wf in *. rewrite fs_set_keys. destruct (fs_mem p fs) eqn:E; [exact H|].
  apply NoDup_snoc; [exact H|]. intro Hin. apply fs_mem_in in Hin. rewrite Hin in E. discriminate.
Qed.

Lemma filter_wf : forall (f : path * str -> bool) fs, fs_wf fs -> fs_wf (filter f fs).
Proof.
  intros f fs. unfold fs_wf. induction fs as [|e r IH]; intro H; [constructor|].
  cbn [filter]. inversion H as [|? ? Hn Hr]; subst. destruct (f e); [|apply IH; exact Hr].
  cbn. constructor; [|apply IH; exact Hr]. intro Hin. apply Hn. apply in_map_iff in Hin.
  destruct Hin as [e' [E He']]. apply filter_In in He'. rewrite <- E. apply in_map. apply He'.
Qed.

Lemma fs_append_set : forall p u t fs, fs_append p t (fs_set p u fs) = fs_set p (u ++ t) fs.
Proof.
  intros p u t fs. induction fs as [|[q v] r IH].
  - cbn. rewrite path_eqb_refl. reflexivity.
  - cbn [fs_set]. destruct (path_eqb p q) eqn:E.
    + cbn [fs_append]. rewrite path_eqb_refl. reflexivity.
    + cbn [fs_append]. rewrite E. rewrite IH. reflexivity.
Qed.

(* ---------------------------------------------------------------- stateful loops *)

Lemma for_eachS_ext {R X St : Type} (b1 b2 : X -> St -> SM R St) :
  forall (l : list X) (s : St) (fs : fsys),
    (forall x st fs', In x l -> b1 x st fs' = b2 x st fs') -> for_eachS l b1 s fs = for_eachS l b2 s fs.
Proof.
  induction l as [|x r IH]; intros s fs H; [reflexivity|].
  cbn [for_eachS]. unfold bindS. rewrite (H x s fs (or_introl eq_refl)). destruct (b2 x s fs) as [[a|v|e] fs']; try reflexivity.
  apply IH. intros y st fs'' Hy. apply H. right. exact Hy.
Qed.

Lemma for_eachS_map {R X Y St : Type} (f : X -> Y) (body : Y -> St -> SM R St) :
  forall (l : list X) (s : St) (fs : fsys),
    for_eachS (map f l) body s fs = for_eachS l (fun x => body (f x)) s fs.
Proof.
  induction l as [|x r IH]; intros s fs; [reflexivity|].
  cbn [map for_eachS]. unfold bindS. destruct (body (f x) s fs) as [[a|v|e] fs']; try reflexivity. apply IH.
Qed.

(* the lines of a list written one by one to an open file: all of them when the codec encodes
   every line, else the lines before the first one it refuses, and UnicodeEncodeError *)
Lemma write_loop {R : Type} {O : numops} (repr : num O -> str) (encb : str -> N -> bool) (enc : str) (p : path)
      (body : str * num O -> unit -> SM R unit) :
  (forall it u fs, body it u fs =
     if forallb (encb enc) (write_item repr it) then (Norm tt, fs_append p (write_item repr it) fs)
     else (Exc UnicodeEncodeError, fs)) ->
  forall (l : counter O) (t : str) (fs : fsys),
    for_eachS l body tt (fs_set p t fs) =
    if encodable repr encb enc l then (Norm tt, fs_set p (t ++ write_text repr l) fs)
    else (Exc UnicodeEncodeError, fs_set p (t ++ write_text repr (encodable_prefix repr encb enc l)) fs).
Proof.
  intros Hb. induction l as [|it r IH]; intros t fs.
  - cbn. rewrite app_nil_r. reflexivity.
  - cbn [for_eachS encodable forallb encodable_prefix]. unfold bindS. rewrite Hb.
    destruct (forallb (encb enc) (write_item repr it)) eqn:E.
    + cbn [andb]. rewrite fs_append_set. rewrite IH. fold (encodable repr encb enc r).
      unfold write_text. cbn [flat_map]. rewrite !app_assoc. reflexivity.
    + cbn [andb]. cbn. rewrite app_nil_r. reflexivity.
Qed.

(* ---------------------------------------------------------------- unlinking what os.walk lists *)

Lemma filter_true {A : Type} (l : list A) : filter (fun _ => true) l = l.
Proof. induction l as [|x r IH]; [reflexivity|]. cbn. rewrite IH. reflexivity. Qed.

Lemma filter_filter {A : Type} (f g : A -> bool) (l : list A) :
  filter f (filter g l) = filter (fun x => g x && f x) l.
Proof.
  induction l as [|x r IH]; [reflexivity|]. cbn [filter]. destruct (g x); cbn [andb filter]; [destruct (f x)|]; rewrite IH; reflexivity.
Qed.

Lemma existsb_path_in : forall p l, existsb (path_eqb p) l = true <-> In p l.
Proof.
  intros p l. rewrite existsb_exists. split.
  - intros [x [Hx E]]. apply path_eqb_eq in E. subst. exact Hx.
  - intro H. exists p. split; [exact H|apply path_eqb_refl].
Qed.

Lemma nodup_paths_in : forall l x, In x (nodup_paths l) <-> In x l.
Proof.
  induction l as [|y r IH]; intro x; [reflexivity|]. cbn [nodup_paths]. split.
  - intros [E|H]; [left; exact E|]. apply filter_In in H. right. apply IH. apply H.
  - intros [E|H]; [left; exact E|]. destruct (path_eqb y x) eqn:Eq.
    + left. apply path_eqb_eq. exact Eq.
    + right. apply filter_In. split; [apply IH; exact H|]. rewrite Eq. reflexivity.
Qed.

Lemma nodup_paths_nodup : forall l, NoDup (nodup_paths l).
Proof.
  induction l as [|y r IH]; [constructor|]. cbn [nodup_paths]. constructor.
  - intro H. apply filter_In in H. destruct H as [_ H]. rewrite path_eqb_refl in H. discriminate.
  - apply NoDup_filter. exact IH.
Qed.

Definition unlink_paths {R : Type} (P : list path) : SM R unit :=
  for_eachS P (fun p (_ : unit) => bindS (os_unlink p) (fun _ => NormS tt)) tt.

Lemma unlink_paths_cons {R : Type} (p : path) (P : list path) (fs : fsys) :
  @unlink_paths R (p :: P) fs =
  if fs_mem p fs then unlink_paths P (fs_remove p fs) else (Exc OSError, fs).
Proof.
  unfold unlink_paths. cbn [for_eachS]. unfold bindS, os_unlink. destruct (fs_mem p fs); reflexivity.
Qed.

Lemma unlink_paths_ok {R : Type} : forall (P : list path) (fs : fsys),
  NoDup P -> (forall p, In p P -> In p (map fst fs)) ->
  @unlink_paths R P fs = (Norm tt, filter (fun e => negb (existsb (path_eqb (fst e)) P)) fs).
Proof.
  induction P as [|p P IH]; intros fs Hn Hm.
  - cbn. rewrite filter_true. reflexivity.
  - rewrite unlink_paths_cons.
    assert (Hp : fs_mem p fs = true) by (apply fs_mem_in; apply Hm; left; reflexivity).
    rewrite Hp. inversion Hn as [|? ? Hnp HnP]; subst.
    rewrite IH.
    + unfold fs_remove. rewrite filter_filter. f_equal. apply filter_ext. intro e. cbn [existsb].
      rewrite negb_orb. rewrite (path_eqb_sym p (fst e)). reflexivity.
    + exact HnP.
    + intros q Hq. unfold fs_remove. specialize (Hm q (or_intror Hq)). apply in_map_iff in Hm.
      destruct Hm as [e [E He]]. apply in_map_iff. exists e. split; [exact E|]. apply filter_In. split; [exact He|].
      rewrite E. apply negb_true_iff. apply path_eqb_neq. intro Epq. rewrite <- Epq in Hq. contradiction.
Qed.

Definition unlink_files {R : Type} (root : path) (files : list str) : SM R unit :=
  for_eachS files (fun filename (_ : unit) => bindS (os_unlink (path_join root filename)) (fun _ => NormS tt)) tt.

Lemma unlink_files_paths {R : Type} (root : path) (files : list str) (fs : fsys) :
  @unlink_files R root files fs = unlink_paths (map (path_join root) files) fs.
Proof. unfold unlink_files, unlink_paths. rewrite for_eachS_map. reflexivity. Qed.

Section Walk.
Context {R : Type} (folder : path) (fs0 : fsys) (Hwf : fs_wf fs0).
Let ps := filter (is_under folder) (map fst fs0).
Let P_ (d : path) := filter (fun p => path_eqb (parent p) d) ps.

Lemma ps_nodup : NoDup ps.
Proof. subst ps. apply NoDup_filter. exact Hwf. Qed.

Lemma ps_nonempty : forall p, In p ps -> p <> [].
Proof.
  intros p H. subst ps. apply filter_In in H. destruct H as [_ H]. apply is_under_iff in H.
  destruct H as [r [Hr E]]. subst p. intro E. apply app_eq_nil in E. destruct E. contradiction.
Qed.

Lemma P_join : forall d, map (path_join d) (map basename (P_ d)) = P_ d.
Proof.
  intro d. rewrite map_map. rewrite <- (map_id (P_ d)) at 2. apply map_ext_in.
  intros p Hp. subst P_. cbv beta in Hp. apply filter_In in Hp. destruct Hp as [Hp E].
  apply path_eqb_eq in E. rewrite <- E. apply join_parent_basename. apply ps_nonempty. exact Hp.
Qed.

Lemma walk_loop (body : path * list str * list str -> unit -> SM R unit) :
  (forall root dirs files u fs, body (root, dirs, files) u fs = bindS (unlink_files root files) (fun _ => NormS tt) fs) ->
  forall (D : list path) (dirs_of : path -> list str) (fs : fsys),
    NoDup D -> fs_wf fs ->
    (forall d p, In d D -> In p (P_ d) -> In p (map fst fs)) ->
    for_eachS (map (fun d => (d, dirs_of d, map basename (P_ d))) D) body tt fs =
    (Norm tt, filter (fun e => negb (existsb (path_eqb (fst e)) (flat_map P_ D))) fs).
Proof.
  intros Hb. induction D as [|d D IH]; intros dirs_of fs Hn Hw Hm.
  - cbn. rewrite filter_true. reflexivity.
  - cbn [map for_eachS]. unfold bindS at 1. rewrite Hb. unfold bindS at 1.
    rewrite unlink_files_paths, P_join. rewrite unlink_paths_ok.
    + unfold NormS at 1. inversion Hn as [|? ? Hd HD]; subst. rewrite IH.
      * rewrite filter_filter. f_equal. apply filter_ext. intro e. cbn [flat_map]. rewrite existsb_app, negb_orb. reflexivity.
      * exact HD.
      * apply filter_wf. exact Hw.
      * intros d' p Hd' Hp. specialize (Hm d' p (or_intror Hd') Hp). apply in_map_iff in Hm.
        destruct Hm as [e [E He]]. apply in_map_iff. exists e. split; [exact E|]. apply filter_In. split; [exact He|].
        rewrite E. apply negb_true_iff. destruct (existsb (path_eqb p) (P_ d)) eqn:Ex; [|reflexivity].
        apply existsb_path_in in Ex. exfalso. subst P_. cbv beta in Hp, Ex.
        apply filter_In in Hp. apply filter_In in Ex. destruct Hp as [_ E1]. destruct Ex as [_ E2].
        apply path_eqb_eq in E1. apply path_eqb_eq in E2. apply Hd. rewrite <- E2, E1. exact Hd'.
    + subst P_. cbv beta. apply NoDup_filter. apply ps_nodup.
    + intros p Hp. apply (Hm d p (or_introl eq_refl) Hp).
Qed.

Lemma unlink_walk (body : path * list str * list str -> unit -> SM R unit) :
  (forall root dirs files u fs, body (root, dirs, files) u fs = bindS (unlink_files root files) (fun _ => NormS tt) fs) ->
  for_eachS (walk fs0 folder) body tt fs0 = (Norm tt, fs_clean folder fs0).
Proof.
  intro Hb. unfold walk.
  etransitivity.
  { apply (walk_loop body Hb (nodup_paths (map parent ps))
             (fun d => nodup_strs (map (fun p => nth (length d) p []) (filter (fun p => is_under d (parent p)) ps))) fs0).
    - apply nodup_paths_nodup.
    - exact Hwf.
    - intros d p _ Hp. subst P_ ps. cbv beta in Hp. apply filter_In in Hp. destruct Hp as [Hp _].
      apply filter_In in Hp. apply Hp. }
  f_equal. unfold fs_clean. apply filter_ext_in. intros e He. f_equal.
  destruct (is_under folder (fst e)) eqn:Eu.
  - apply existsb_path_in. apply in_flat_map. exists (parent (fst e)).
    assert (Hp : In (fst e) ps) by (subst ps; apply filter_In; split; [apply in_map; exact He|exact Eu]).
    split.
    + apply nodup_paths_in. apply in_map. exact Hp.
    + subst P_. cbv beta. apply filter_In. split; [exact Hp|apply path_eqb_refl].
  - destruct (existsb (path_eqb (fst e)) (flat_map P_ (nodup_paths (map parent ps)))) eqn:Ex; [|reflexivity].
    apply existsb_path_in in Ex. apply in_flat_map in Ex. destruct Ex as [d [_ Hp]].
    subst P_ ps. cbv beta in Hp. apply filter_In in Hp. destruct Hp as [Hp _]. apply filter_In in Hp.
    destruct Hp as [_ Hp]. rewrite Hp in Eu. discriminate.
Qed.
End Walk.

(* ---------------------------------------------------------------- installing a folder *)

Lemma fs_write_all_wf : forall folder files fs, fs_wf fs -> fs_wf (fs_write_all folder files fs).
Proof.
  intros folder files. unfold fs_write_all. induction files as [|[n t] r IH]; intros fs H; [exact H|].
  cbn [fold_left]. apply IH. apply fs_set_wf. exact H.
Qed.

Lemma fs_install_wf : forall folder files fs, fs_wf fs -> fs_wf (fs_install folder files fs).
Proof. intros. unfold fs_install. apply fs_write_all_wf. apply filter_wf. assumption. Qed.

Lemma str_keys_klkeys {O : numops} (d : list (N * list (str * N))) : str_keys (@klkeys O d) = lkeys d.
Proof. unfold str_keys, klkeys, lkeys. rewrite map_map. reflexivity. Qed.

(* ---------------------------------------------------------------- listing a folder *)

Definition in_folder (folder : path) (e : path * str) : bool := nonempty (fst e) && path_eqb (parent (fst e)) folder.

Lemma fs_list_app folder a b : fs_list folder (a ++ b) = fs_list folder a ++ fs_list folder b.
Proof. unfold fs_list. rewrite filter_app, map_app. reflexivity. Qed.

Lemma in_folder_under folder e : in_folder folder e = true -> is_under folder (fst e) = true.
Proof.
  unfold in_folder. intro H. apply andb_true_iff in H. destruct H as [H1 H2]. apply path_eqb_eq in H2.
  apply child_is_under; [|exact H2]. destruct (fst e); [discriminate|discriminate].
Qed.

Lemma fs_list_clean_same folder fs : fs_list folder (fs_clean folder fs) = [].
Proof.
  unfold fs_list, fs_clean. rewrite filter_filter.
  rewrite (filter_ext_in _ (fun _ => false)); [induction fs; [reflexivity|assumption]|].
  intros [p u] _. cbv beta. cbn [fst]. destruct (is_under folder p) eqn:E; [reflexivity|]. cbn [negb andb].
  destruct (nonempty p && path_eqb (parent p) folder) eqn:E2; [|reflexivity].
  apply (in_folder_under folder (p, u)) in E2. cbn [fst] in E2. rewrite E2 in E. discriminate.
Qed.

Lemma clean_not_under folder fs p : In p (map fst (fs_clean folder fs)) -> is_under folder p = false.
Proof.
  intro H. apply in_map_iff in H. destruct H as [e [E He]]. unfold fs_clean in He. apply filter_In in He.
  destruct He as [_ He]. subst p. apply negb_true_iff. exact He.
Qed.

Lemma fs_write_all_fresh folder : forall (files : list (str * str)) (fs : fsys),
  NoDup (map fst files) ->
  (forall n, In n (map fst files) -> ~ In (path_join folder n) (map fst fs)) ->
  fs_write_all folder files fs = fs ++ map (fun nt => (path_join folder (fst nt), snd nt)) files.
Proof.
  induction files as [|[n t] r IH]; intros fs Hn Hf.
  - cbn. rewrite app_nil_r. reflexivity.
  - unfold fs_write_all in *. cbn [fold_left map fst snd]. inversion Hn as [|? ? Hnr Hr]; subst.
    rewrite fs_set_keys_absent by (apply Hf; left; reflexivity).
    rewrite IH.
    + rewrite <- app_assoc. reflexivity.
    + exact Hr.
    + intros m Hm Hin. rewrite map_app in Hin. apply in_app_or in Hin. destruct Hin as [Hin|[E|[]]].
      * apply (Hf m (or_intror Hm) Hin).
      * cbn [fst] in E. apply path_join_inj in E. subst m. apply Hnr. exact Hm.
Qed.

Lemma fs_list_new folder : forall files : list (str * str),
  fs_list folder (map (fun nt => (path_join folder (fst nt), snd nt)) files) = files.
Proof.
  induction files as [|[n t] r IH]; [reflexivity|].
  unfold fs_list in *. cbn [map filter fst snd]. rewrite parent_join, path_eqb_refl.
  assert (E : nonempty (path_join folder n) = true) by (unfold path_join; destruct folder; reflexivity).
  rewrite E. cbn [andb map fst snd]. rewrite basename_join, IH. reflexivity.
Qed.

(* after a folder has been installed it holds exactly the files written, in order *)
Theorem fs_list_install folder files fs :
  NoDup (map fst files) -> fs_list folder (fs_install folder files fs) = files.
Proof.
  intro Hn. unfold fs_install. rewrite fs_write_all_fresh.
  - rewrite fs_list_app, fs_list_clean_same, fs_list_new. reflexivity.
  - exact Hn.
  - intros n _ Hin. apply clean_not_under in Hin. rewrite is_under_join in Hin. discriminate.
Qed.

Lemma fs_list_set_other folder q t : parent q <> folder ->
  forall fs, fs_list folder (fs_set q t fs) = fs_list folder fs.
Proof.
  intros Hq. assert (Hf : path_eqb (parent q) folder = false) by (apply path_eqb_neq; exact Hq).
  induction fs as [|[p u] r IH].
  - unfold fs_list. cbn [fs_set filter fst]. rewrite Hf, andb_false_r. reflexivity.
  - cbn [fs_set]. destruct (path_eqb q p) eqn:E.
    + apply path_eqb_eq in E. subst p. unfold fs_list. cbn [filter fst]. rewrite Hf, andb_false_r. reflexivity.
    + unfold fs_list in *. cbn [filter fst]. destruct (nonempty p && path_eqb (parent p) folder);
        cbn [map]; rewrite IH; reflexivity.
Qed.

Lemma sibling_not_under base a b n : a <> b -> is_under (path_join base b) (path_join (path_join base a) n) = false.
Proof.
  intro Hab. destruct (is_under (path_join base b) (path_join (path_join base a) n)) eqn:E; [|reflexivity].
  apply is_under_iff in E. destruct E as [r [_ E]]. unfold path_join in E. rewrite <- !app_assoc in E.
  apply app_inv_head in E. cbn in E. inversion E. contradiction.
Qed.

(* installing a sibling folder does not change the listing of this one *)
Theorem fs_list_install_sibling base a b files fs : a <> b ->
  fs_list (path_join base a) (fs_install (path_join base b) files fs) = fs_list (path_join base a) fs.
Proof.
  intro Hab. unfold fs_install.
  assert (Hw : forall fs', fs_list (path_join base a) (fs_write_all (path_join base b) files fs') = fs_list (path_join base a) fs').
  { unfold fs_write_all. induction files as [|[n t] r IH]; intro fs'; [reflexivity|].
    cbn [fold_left fst snd]. rewrite IH. apply fs_list_set_other. rewrite parent_join.
    intro E. unfold path_join in E. apply app_inv_head in E. inversion E. apply Hab. symmetry. assumption. }
  rewrite Hw. unfold fs_list, fs_clean. rewrite filter_filter. f_equal. apply filter_ext. intros [p u]. cbn [fst].
  destruct (nonempty p && path_eqb (parent p) (path_join base a)) eqn:E; [|apply andb_false_r].
  rewrite andb_true_r. apply negb_true_iff. apply andb_true_iff in E. destruct E as [E1 E2].
  apply path_eqb_eq in E2. assert (Hp : p <> []) by (destruct p; [discriminate|discriminate]).
  rewrite <- (join_parent_basename _ Hp), E2. apply sibling_not_under. exact Hab.
Qed.

Lemma install_all_wf {O : numops} (repr : num O -> str) base : forall dirs fs, fs_wf fs -> fs_wf (install_all repr base dirs fs).
Proof.
  unfold install_all. induction dirs as [|[d f] r IH]; intros fs H; [exact H|]. cbn [fold_left]. apply IH. apply fs_install_wf. exact H.
Qed.

Lemma fs_list_install_all_other {O : numops} (repr : num O -> str) base d : forall (dirs : list (str * folder O)) fs,
  ~ In d (map fst dirs) -> fs_list (path_join base d) (install_all repr base dirs fs) = fs_list (path_join base d) fs.
Proof.
  unfold install_all. induction dirs as [|[d0 f0] r IH]; intros fs Hd; [reflexivity|].
  cbn [fold_left fst snd]. rewrite IH by (intro H; apply Hd; right; exact H).
  apply fs_list_install_sibling. intro E. apply Hd. left. symmetry. exact E.
Qed.

(* after the whole ruleset has been installed, every folder of the model holds exactly its files *)
Theorem fs_list_install_all {O : numops} (repr : num O -> str) base : forall (dirs : list (str * folder O)) fs d files,
  NoDup (map fst dirs) -> In (d, files) dirs -> NoDup (map fst files) ->
  fs_list (path_join base d) (install_all repr base dirs fs) = folder_texts repr files.
Proof.
  induction dirs as [|[d0 f0] r IH]; intros fs d files Hn Hin Hf; [contradiction|].
  inversion Hn as [|? ? Hd0 Hr]; subst. unfold install_all. cbn [fold_left fst snd].
  fold (install_all repr base r (fs_install (path_join base d0) (folder_texts repr f0) fs)).
  destruct Hin as [E|Hin].
  - inversion E; subst. rewrite fs_list_install_all_other by exact Hd0.
    apply fs_list_install. unfold folder_texts. rewrite map_map. exact Hf.
  - apply IH; assumption.
Qed.

(* ---------------------------------------------------------------- the in-place enumerate loop *)

Lemma set_nth_app {X : Type} (pre : list X) (x v : X) (r : list X) : set_nth (pre ++ x :: r) (length pre) v = pre ++ v :: r.
Proof. induction pre as [|y pre IH]; [reflexivity|]. cbn. rewrite IH. reflexivity. Qed.

Lemma nth_app_here {X : Type} (pre : list X) (x d : X) (r : list X) : nth (length pre) (pre ++ x :: r) d = x.
Proof. induction pre as [|y pre IH]; [reflexivity|]. cbn. exact IH. Qed.

(* for i, x in enumerate(l): l[i] = f(x)   is   l = [f(x) for x in l] *)
Lemma for_enum_cur_map {R X : Type} (d : X) (f : X -> X) (body : N -> X -> list X -> out R (list X)) :
  (forall i x l, body i x l = bind (list_store l i (f x)) (fun l' => Norm l')) ->
  forall l : list X, for_enum_cur d l (fun l' => l') body l = Norm (map f l).
Proof.
  intro Hb. unfold for_enum_cur.
  assert (G : forall (l pre : list X),
             for_each (map N.of_nat (seq (length pre) (length l)))
                      (fun i s' => body i (nth (N.to_nat i) s' d) s') (pre ++ l) = Norm (pre ++ map f l)).
  { induction l as [|x r IH]; intro pre; [reflexivity|].
    cbn [length seq map for_each]. rewrite Hb, Nat2N.id, nth_app_here. unfold list_store. rewrite Nat2N.id.
    assert (Hlt : Nat.ltb (length pre) (length (pre ++ x :: r)) = true)
      by (apply Nat.ltb_lt; rewrite app_length; cbn; lia).
    rewrite Hlt. cbn [bind]. rewrite set_nth_app.
    replace (pre ++ f x :: r) with ((pre ++ [f x]) ++ r) by (rewrite <- app_assoc; reflexivity).
    replace (S (length pre)) with (length (pre ++ [f x])) by (rewrite app_length; cbn; lia).
    rewrite IH. rewrite <- app_assoc. reflexivity. }
  intro l. exact (G l []).
Qed.
