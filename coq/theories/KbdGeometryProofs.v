(* C05, keyboard segments: the adjacency of the model on the layouts regenerated from the
   source is PHYSICAL adjacency (KbdGeometry.v).

   The model (Detect.v) and the code decide adjacency by a key's index in the row lists of
   the source and a fixed stagger between the rows; DetectProofsSeg.walk_on is stated over
   the same lists.  [geometry_contains_code_adjacency]: every adjacency the model accepts
   on the layouts of the source (SegCorr.c_kbs) holds between physical keys - by computation
   over all pairs of keys; hence [keyboard_segments_are_physical_walks]: a sound K segment
   is a walk over physically adjacent keys of one keyboard.  A source table whose rows are
   shifted against each other (a key put in front of one row) breaks both. *)
From Coq Require Import List ZArith NArith Bool Lia.
From Pcfg Require Import Str Multiword Detect Segment SegCorr DetectProofsSeg DetectProofsInst KbdGeometry.
Import ListNotations.
Open Scope Z_scope.

(* ---- the model's adjacency on a layout of the source *)

Definition model_adjacent (b : board) (c d : N) : bool :=
  match find_row c b 0, find_row d b 0 with
  | Some p, Some q => adjacent p q
  | _, _ => false
  end.

Definition within (b : board) (pl : phys_layout) : bool :=
  forallb (fun c => forallb (fun d => implb (model_adjacent b c d) (phys_adjacent pl c d)) (concat b)) (concat b).

Definition pairing (kbs : list board) (pls : list phys_layout) : bool :=
  Nat.eqb (length kbs) (length pls) && forallb (fun p => within (fst p) (snd p)) (combine kbs pls).

Notation pairing_ok := (pairing c_kbs phys_layouts).

(* all pairs of keys of both layouts of the source *)
Lemma geometry_contains_code_adjacency : pairing_ok = true.
Proof. vm_compute. reflexivity. Qed.

Lemma index_of_in c : forall r k p, index_of c r k = Some p -> In c r.
Proof.
  induction r as [|x r IH]; simpl; intros k p H; [discriminate|].
  destruct (N.eqb x c) eqn:E.
  - left. now apply N.eqb_eq.
  - right. eauto.
Qed.

Lemma find_row_in c : forall b j p, find_row c b j = Some p -> In c (concat b).
Proof.
  induction b as [|r b IH]; simpl; intros j p H; [discriminate|].
  apply in_or_app. destruct (index_of c r 0) eqn:E.
  - left. eapply index_of_in; eauto.
  - right. eauto.
Qed.

Lemma within_key_adjacent b pl c d :
  within b pl = true -> key_adjacent b c d -> phys_adjacent pl c d = true.
Proof.
  intros W (pc & pd & Hc & Hd & A).
  unfold within in W. rewrite forallb_forall in W.
  specialize (W c (find_row_in _ _ _ _ Hc)). rewrite forallb_forall in W.
  specialize (W d (find_row_in _ _ _ _ Hd)).
  unfold model_adjacent in W. rewrite Hc, Hd, A in W. exact W.
Qed.

Lemma existsb_nonempty {X} (f : X -> bool) l : existsb f l = true -> nonempty l = true.
Proof. destruct l; [discriminate|reflexivity]. Qed.

Lemma phys_adjacent_keys pl c d : phys_adjacent pl c d = true -> is_key pl c = true /\ is_key pl d = true.
Proof.
  unfold phys_adjacent, is_key. intro H. split; [eapply existsb_nonempty; eauto|].
  apply existsb_exists in H. destruct H as (a & _ & H). eapply existsb_nonempty; eauto.
Qed.

Lemma within_walk_from b pl : within b pl = true ->
  forall t c, is_key pl c = true -> walk_on b (c :: t) -> phys_walk pl (c :: t) = true.
Proof.
  intros W. induction t as [|d r IH]; intros c K H.
  - exact K.
  - destruct H as [A H]. pose proof (within_key_adjacent _ _ _ _ W A) as P.
    change (phys_adjacent pl c d && phys_walk pl (d :: r) = true).
    rewrite P. simpl. apply IH; [|exact H]. now destruct (phys_adjacent_keys _ _ _ P).
Qed.

Lemma within_walk b pl t : within b pl = true -> (2 <= length t)%nat -> walk_on b t -> phys_walk pl t = true.
Proof.
  intros W L H. destruct t as [|c [|d r]]; simpl in L; try lia.
  apply within_walk_from with (b := b); [exact W| |exact H].
  destruct H as [A _]. now destruct (phys_adjacent_keys _ _ _ (within_key_adjacent _ _ _ _ W A)).
Qed.

Lemma in_combine_l {X Y} (x : X) : forall (l : list X) (m : list Y),
  length l = length m -> In x l -> exists y, In (x, y) (combine l m).
Proof.
  induction l as [|a l IH]; intros [|b m] E H; simpl in *; try contradiction; try discriminate.
  destruct H as [->|H].
  - exists b. now left.
  - injection E as E. destruct (IH m E H) as (y & Hy). exists y. now right.
Qed.

Lemma walks_are_physical (kbs : list board) (pls : list phys_layout) :
  pairing kbs pls = true ->
  forall b t, In b kbs -> (2 <= length t)%nat -> walk_on b t -> exists pl, In pl pls /\ phys_walk pl t = true.
Proof.
  intros G b t Hb L Hw. unfold pairing in G.
  apply andb_true_iff in G. destruct G as [GL GW]. apply Nat.eqb_eq in GL.
  destruct (in_combine_l b _ _ GL Hb) as (pl & Hp).
  rewrite forallb_forall in GW. pose proof (GW _ Hp) as W. cbn [fst snd] in W.
  exists pl. split; [eapply in_combine_r; eauto|].
  now apply within_walk with (b := b).
Qed.

Lemma sound_K_walk isalpha isdigit kbs min_run yp cs x n :
  2 <= min_run -> sound isalpha isdigit kbs min_run yp cs x -> snd x = Some (LK n) ->
  exists b, In b kbs /\ walk_on b (fst x) /\ (2 <= length (fst x))%nat.
Proof.
  intros M (_ & S) E. rewrite E in S. destruct S as (_ & Lmin & (b & Hb & Hw) & _).
  exists b. repeat split; auto. unfold len in Lmin. lia.
Qed.

(* a sound keyboard segment walks over physically adjacent keys of one of the keyboards *)
Theorem keyboard_segments_are_physical_walks : forall x n,
  c_sound x -> snd x = Some (LK n) ->
  exists pl, In pl phys_layouts /\ phys_walk pl (fst x) = true.
Proof.
  intros x n S E.
  assert (M : 2 <= c_min_run) by (pose proof side_min_run; lia).
  destruct (sound_K_walk _ _ _ _ _ _ _ _ M S E) as (b & Hb & Hw & L).
  exact (walks_are_physical c_kbs phys_layouts geometry_contains_code_adjacency b (fst x) Hb L Hw).
Qed.

(* the stagger of is_next_on_keyboard (a key in row r, position p touches positions p and
   p - 1 of row r + 1) presupposes which key every row list begins with: the 1 key, the key
   right of Tab, of Caps Lock, of the left Shift *)
Definition row_starts (b : board) : list (option N) := map (@hd_error N) b.

Lemma layout_rows_start_at_the_staggered_column :
  map row_starts c_kbs =
  [ [Some 49; Some 33; Some 113; Some 81; Some 97; Some 65; Some 122; Some 90]%N;
    [Some 49; Some 33; Some 1081; Some 1049; Some 1092; Some 1060; Some 1103; Some 1071]%N ].
Proof. vm_compute. reflexivity. Qed.

