(* What the loop forms of SmallRt.v compute: lemmas shared by the equality proofs
   of the three generated small kernels (SmallGenProofsWalk.v, ...Probs.v,
   ...Edit.v).  Nothing here depends on a generated file. *)
From Coq Require Import List Arith Bool Lia.
From Pcfg Require Import KernelRt SmallRt.
Import ListNotations.

Section Runtime.
Context {X R St : Type}.

(* bodies that agree on the elements of the list give the same loop *)
Lemma loop_from_ext (l : list X) : forall i (b1 b2 : nat -> X -> St -> ctl3 R St) s kelse kbrk,
  (forall j x s, nth_error l j = Some x -> b1 (i + j) x s = b2 (i + j) x s) ->
  loop_from i l b1 s kelse kbrk = loop_from i l b2 s kelse kbrk.
Proof.
  induction l as [|a r IH]; intros i b1 b2 s kelse kbrk H; simpl; [reflexivity|].
  generalize (H 0 a s eq_refl). rewrite Nat.add_0_r. intros ->.
  destruct (b2 i a s); try reflexivity.
  apply IH. intros j x s' Hx. rewrite Nat.add_succ_comm. now apply H.
Qed.

(* a loop without break / return whose body is a step function: a fold *)
Lemma loop_from_fold (l : list X) : forall i (body : nat -> X -> St -> ctl3 R St) (f : St -> X -> St) s kelse kbrk,
  (forall j x s, In x l -> body j x s = Cont (f s x)) ->
  loop_from i l body s kelse kbrk = kelse (fold_left f l s).
Proof.
  induction l as [|a r IH]; intros i body f s kelse kbrk H; simpl; [reflexivity|].
  rewrite (H i a s (or_introl eq_refl)). apply IH. intros j x s' Hx. apply H. now right.
Qed.

Lemma for_each_fold (l : list X) (body : X -> St -> ctl3 R St) (f : St -> X -> St) s orelse k :
  (forall x s, In x l -> body x s = Cont (f s x)) ->
  for_each l body s orelse k = k (orelse (fold_left f l s)).
Proof. intros H. unfold for_each. now rewrite (loop_from_fold l 0 _ f). Qed.

(* an index loop over the positions of a list that is not touched is the loop
   over the enumerated list *)
Lemma loop_seq_as_enum (d : X) (suf : list X) : forall (pre : list X) j (body : nat -> St -> ctl3 R St)
    (F : nat -> X -> St -> ctl3 R St) s kelse kbrk,
  (forall i st, i < length (pre ++ suf) -> body i st = F i (nth i (pre ++ suf) d) st) ->
  loop_from j (seq (length pre) (length suf)) (fun _ => body) s kelse kbrk
  = loop_from (length pre) suf F s kelse kbrk.
Proof.
  induction suf as [|a r IH]; intros pre j body F s kelse kbrk H; simpl; [reflexivity|].
  rewrite (H (length pre) s) by (rewrite app_length; simpl; lia).
  rewrite app_nth2 by lia. rewrite Nat.sub_diag. simpl.
  destruct (F (length pre) a s); try reflexivity.
  specialize (IH (pre ++ [a]) (S j) body F s0 kelse kbrk).
  replace (length (pre ++ [a])) with (S (length pre)) in IH by (rewrite app_length; simpl; lia).
  apply IH.
  intros i st Hi. rewrite <- app_assoc. simpl. apply H. rewrite <- app_assoc in Hi. exact Hi.
Qed.

Lemma for_range_as_enum (d : X) (l : list X) (body : nat -> St -> ctl3 R St)
    (F : nat -> X -> St -> ctl3 R St) s orelse k :
  (forall i st, i < length l -> body i st = F i (nth i l d) st) ->
  for_range 0 (length l) body s orelse k = for_enum l F s orelse k.
Proof.
  intros H. unfold for_range, for_each, for_enum. rewrite Nat.sub_0_r.
  apply (loop_seq_as_enum d l [] 0 body F). exact H.
Qed.

End Runtime.

(* a loop that appends one value per element: a map *)
Lemma for_each_append_map {X Y R : Type} (l : list X) (body : X -> list Y -> ctl3 R (list Y)) (g : X -> Y) s orelse k :
  (forall x s, In x l -> body x s = Cont (append s (g x))) ->
  for_each l body s orelse k = k (orelse (s ++ map g l)).
Proof.
  intros H. rewrite (for_each_fold l body (fun a x => append a (g x))) by exact H.
  f_equal. f_equal. clear H. revert s. induction l as [|a r IH]; intros s; simpl.
  - now rewrite app_nil_r.
  - rewrite IH. unfold append. now rewrite <- app_assoc.
Qed.

(* ---------------------------------------------------------------- set_nth *)
Lemma set_nth_length {X : Type} (l : list X) : forall i x, length (set_nth l i x) = length l.
Proof. induction l as [|a r IH]; intros [|i] x; simpl; auto. Qed.

Lemma set_nth_app_mid {X : Type} (pre : list X) : forall a suf x,
  set_nth (pre ++ a :: suf) (length pre) x = pre ++ x :: suf.
Proof. induction pre as [|b r IH]; intros a suf x; simpl; [reflexivity|]. now rewrite IH. Qed.

Lemma nth_app_mid {X : Type} (pre : list X) a suf (d : X) : nth (length pre) (pre ++ a :: suf) d = a.
Proof. rewrite app_nth2 by lia. now rewrite Nat.sub_diag. Qed.

(* for i, x in enumerate(l): l[i] = f(x)   is   l = map f l *)
Lemma for_enum_cur_map {X R : Type} (d : X) (f : X -> X) (suf : list X) :
  forall (pre : list X) j (body : nat -> list X -> ctl3 R (list X)) kelse kbrk,
  (forall i l, body i l = Cont (set_nth l i (f (sub d l i)))) ->
  loop_from j (seq (length pre) (length suf)) (fun _ => body) (pre ++ suf) kelse kbrk
  = kelse (pre ++ map f suf).
Proof.
  induction suf as [|a r IH]; intros pre j body kelse kbrk H; simpl; [reflexivity|].
  rewrite H. unfold sub. rewrite nth_app_mid, set_nth_app_mid.
  specialize (IH (pre ++ [f a]) (S j) body kelse kbrk H).
  replace (length (pre ++ [f a])) with (S (length pre)) in IH by (rewrite app_length; simpl; lia).
  rewrite <- !app_assoc in IH. exact IH.
Qed.
