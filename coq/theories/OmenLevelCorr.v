(* OmenLevelCorr.v -- helpers of the C11 / C18 correspondence checks: the
   harness writes the trainer's tables and what the implementation returned as
   Gallina literals; these functions compare them with what the models of
   OmenLevel.v / OmenKeyspace.v compute (evaluated by vm_compute). *)
From Coq Require Import List Arith Bool NArith ZArith Floats.
From Pcfg Require Import OmenSpec OmenLevel OmenKeyspace.
Import ListNotations.

Fixpoint leqb {X} (e : X -> X -> bool) (a b : list X) : bool :=
  match a, b with
  | [], [] => true
  | x :: a', y :: b' => e x y && leqb e a' b'
  | _, _ => false
  end.

Definition line_eqb (a b : nat * ostr) : bool := Nat.eqb (fst a) (fst b) && ostr_eqb (snd a) (snd b).

Definition failing {X} (f : X -> bool) (l : list X) : list nat :=
  map fst (filter (fun kx => negb (f (snd kx))) (combine (seq 0 (length l)) l)).

(* ---------------- C11 ---------------- *)

(* what was observed for one string: trainer, scorer (None = scorer not loaded),
   guesser level as far as the enumeration decided it (None = undecided) *)
Inductive gobs :=
| GHit (l : nat)        (* MarkovCracker emitted the string at target level l *)
| GNotUpto (l : nat)    (* levels 0..l were enumerated completely, the string is in none *)
| GUnknown.

Record sobs := mk_sobs {
  so_str : ostr;
  so_trainer : option nat;
  so_scorer : option (option nat);
  so_guesser : gobs
}.

Record c11case := mk_c11case {
  c_tab : ttab;
  c_ip : list (nat * ostr);        (* the files as written by the real writer *)
  c_ep : list (nat * ostr);
  c_cp : list (nat * ostr);
  c_ln : list nat;
  c_strings : list sobs;
  c_levels : list (nat * list ostr);   (* complete MarkovCracker output of some levels, in order *)
  c_pws : list ostr;               (* the valid training passwords in file order *)
  c_counts : list (option nat * N);    (* omen_levels_count of pass 3 *)
  c_decoded_ok : bool;             (* the scorer's codec gives back the written text *)
  c_sbreaks : list N;              (* line ends of the scorer's reader *)
  c_breaks : list N;               (* str.splitlines characters (Consts_gen.guesser_linebreaks) *)
  c_scorer_loaded : bool;          (* OmenScorer(...) did not raise *)
  c_guesser_loaded : bool          (* load_rules returned True *)
}.

Definition check_string (T : ttab) (Sc : option scorer) (G : option omen) (o : sobs) : bool :=
  olevel_eqb (trainer_level T (so_str o)) (so_trainer o) &&
  match so_scorer o, Sc with
  | Some v, Some sc => olevel_eqb (scorer_level sc (so_str o)) v
  | Some _, None => false
  | None, _ => true
  end &&
  match so_guesser o, G with
  | GHit l, Some g => olevel_eqb (level_of g (so_str o)) (Some l)
  | GNotUpto l, Some g => match level_of g (so_str o) with Some l' => Nat.ltb l l' | None => true end
  | GUnknown, _ => true
  | _, None => false
  end.

(* the training passwords are written run-length encoded (a list of 100k
   repetitions is not written out); expansion gives the list in file order *)
Definition expand_pws (l : list (ostr * N)) : list ostr :=
  flat_map (fun pn => N.iter (snd pn) (cons (fst pn)) []) l.

Definition check_counts (T : ttab) (pws : list ostr) (obs : list (option nat * N)) : bool :=
  let m := levels_count T pws in
  Nat.eqb (length m) (length obs) &&
  forallb (fun e => N.eqb (N.of_nat (count_at m (fst e))) (snd e)) obs.

(* 0 = all good; otherwise the number of the first failing sub-check *)
Definition check_c11 (c : c11case) : nat :=
  let T := c_tab c in
  let F := write T in
  if negb (wf_ttabb T && closedb T && levels_leb guesser_max_level T) then 1 else
  if negb (leqb line_eqb (f_ip F) (c_ip c)) then 2 else
  if negb (leqb line_eqb (f_ep F) (c_ep c)) then 3 else
  if negb (leqb line_eqb (f_cp F) (c_cp c)) then 4 else
  if negb (leqb Nat.eqb (f_ln F) (c_ln c)) then 5 else
  let Sc := read_s (c_decoded_ok c) (c_sbreaks c) F in
  let G := read_g (c_breaks c) F in
  if negb (forallb (check_string T Sc G) (c_strings c)) then 6 else
  if negb (match G with
           | Some g => wf_tablesb g &&
                       forallb (fun le => leqb ostr_eqb (level_strings g (Z.of_nat (fst le))) (snd le)) (c_levels c)
           | None => is_nil (c_levels c) end) then 7 else
  if negb (check_counts T (c_pws c) (c_counts c)) then 8 else
  if negb (Bool.eqb (match Sc with Some _ => true | None => false end) (c_scorer_loaded c) &&
           Bool.eqb (match G with Some _ => true | None => false end) (c_guesser_loaded c)) then 9 else 0.

Definition failing_codes {X} (f : X -> nat) (l : list X) : list nat :=
  map (fun kx => fst kx * 10 + f (snd kx))
      (filter (fun kx => negb (Nat.eqb (f (snd kx)) 0)) (combine (seq 0 (length l)) l)).

(* ---------------- C18 ---------------- *)

Definition ks_eqb (a b : nat * N) : bool := Nat.eqb (fst a) (fst b) && N.eqb (snd a) (snd b).

Definition prob_agree (m f : list (nat * float)) : bool :=
  Nat.eqb (length m) (length f) &&
  forallb (fun lp => match find (fun e => Nat.eqb (fst e) (fst lp)) f with
                     | Some e => PrimFloat.eqb (snd e) (snd lp)
                     | None => false end) m.

Record c18case := mk_c18case {
  k_tab : ttab;
  k_strict : bool;
  k_le : bool;
  k_maxlevel : nat;
  k_max : N;                            (* default max_keyspace *)
  k_full : list (nat * N);              (* calc_omen_keyspace(trainer) *)
  k_small_max : N;
  k_small_warm : list (nat * N);        (* second call on the warm cache, small cut-off *)
  k_small_cold : list (nat * N);        (* small cut-off on a cold cache *)
  k_pws : list ostr;
  k_nvalid : nat;
  k_prob : list (nat * float)           (* pcfg_omen_prob.txt *)
}.

Definition check_c18 (c : c18case) : nat :=
  let T := k_tab c in
  if negb (wf_ttabb T && closedb T && levels_leb guesser_max_level T) then 1 else
  let st := calc_keyspace T (k_maxlevel c) (k_max c) (k_strict c) (k_le c) [] in
  if negb (leqb ks_eqb (ks_done st) (k_full c)) then 2 else
  let st2 := calc_keyspace T (k_maxlevel c) (k_small_max c) (k_strict c) (k_le c) (ks_cache st) in
  if negb (leqb ks_eqb (ks_done st2) (k_small_warm c)) then 3 else
  let st3 := calc_keyspace T (k_maxlevel c) (k_small_max c) (k_strict c) (k_le c) [] in
  if negb (leqb ks_eqb (ks_done st3) (k_small_cold c)) then 4 else
  let cnt := levels_count T (k_pws c) in
  if negb (prob_agree (omen_prob (fun l => count_at cnt (Some l)) (k_nvalid c) (ks_done st)) (k_prob c)) then 5 else 0.
