(* ReaderGenFacts.v - the theorems of C19 / C07 restated over the reader translated
   from the Python text (gen/Reader_gen.v): transported along the equalities of
   ReaderGenProofs.v (source_reader_is_model, py_check_valid_is_model). *)
From Coq Require Import List NArith ZArith Bool Lia.
From Pcfg Require Import TextFile Reader TextFileProofs ReaderProofs IoCorr IoFacts ReaderRt ReaderGenProofs.
From PcfgGen Require Import Consts_gen Reader_gen.
Import ListNotations.
Open Scope N_scope.

(* ---------------------------------------------------------------- the theorems of C19 / C07 over the translated source *)

Definition py_accepted (p : str) : bool := py_check_valid p.

Lemma py_accepted_is p : py_check_valid p = accepted p.
Proof. apply py_check_valid_is_model. Qed.

Theorem source_hex : forall cd (enc : str -> list N) p,
  cd_dec cd (enc p) = Some p -> forallb is_byte (enc p) = true ->
  forallb (cd_encb cd) p = true -> py_check_valid p = true ->
  source_reader cd false (hex_line enc p) = Some (result [p] 1).
Proof.
  intros cd enc p Hd Hb He Hv. rewrite source_reader_is_model. f_equal.
  apply hex_inst; try assumption. rewrite <- py_accepted_is. exact Hv.
Qed.

Theorem source_plain : reader_linebreaks_rejected = true -> forall cd p,
  py_check_valid p = true -> is_hex_shaped p = false -> forallb (cd_encb cd) p = true ->
  source_reader cd false (plain_line p) = Some (result [p] 1).
Proof.
  intros HR cd p Hv Hh He. rewrite source_reader_is_model. f_equal.
  apply (plain_inst HR); try assumption. rewrite <- py_accepted_is. exact Hv.
Qed.

Theorem source_prefix : reader_linebreaks_rejected = true -> forall cd pad ds p,
  blanks pad -> ds <> [] -> forallb ascii_digit ds = true ->
  py_check_valid p = true -> is_hex_shaped p = false -> forallb (cd_encb cd) p = true ->
  source_reader cd true (count_line pad ds p ++ [LF]) =
    Some (result (repeat p (N.to_nat (digits_value ds))) (Z.of_N (digits_value ds))).
Proof.
  intros HR cd pad ds p Hp Hne Hd Hv Hh He. rewrite source_reader_is_model. f_equal.
  apply (prefix_plain_inst HR); try assumption. rewrite <- py_accepted_is. exact Hv.
Qed.

Theorem source_prefix_hex : forall cd (enc : str -> list N) pad ds p,
  blanks pad -> ds <> [] -> forallb ascii_digit ds = true ->
  cd_dec cd (enc p) = Some p -> forallb is_byte (enc p) = true -> forallb (cd_encb cd) p = true ->
  py_check_valid p = true ->
  source_reader cd true (count_line pad ds (hex_body (enc p)) ++ [LF]) =
    Some (result (repeat p (N.to_nat (digits_value ds))) (Z.of_N (digits_value ds))).
Proof.
  intros cd enc pad ds p Hp Hne Hd Hdec Hb He Hv. rewrite source_reader_is_model. f_equal.
  apply prefix_hex_inst; try assumption. rewrite <- py_accepted_is. exact Hv.
Qed.

(* one line, as the whole file *)
Lemma LBR_is_crlf c : LBR c = is_crlf c.
Proof. rewrite is_crlf_mem. unfold LBR. apply memN_same. vm_compute. reflexivity. Qed.

Lemma none_of_LBR body : none_of is_crlf body = true -> none_of LBR body = true.
Proof.
  unfold none_of. rewrite !forallb_forall. intros H c Hc. rewrite LBR_is_crlf. apply H. exact Hc.
Qed.

Definition line_result (r : lres) : rout :=
  {| out := line_out r; npw := line_count r; nerr := line_err r |}.

Lemma read_text_one_line C body : r_lb C = LBR -> none_of is_crlf body = true ->
  read_text C (body ++ [LF]) = line_result (read_line C (body ++ [LF])).
Proof.
  intros HC Hb. unfold read_text. rewrite HC.
  pose proof (lines_keep_lines LBR LBR_LF [body]) as E. cbn [flat_map map] in E. rewrite app_nil_r in E.
  rewrite E by (constructor; [apply none_of_LBR; exact Hb | constructor]).
  cbn [read_lines]. destruct (read_line C (body ++ [LF])) as [p n|n|]; unfold line_result; cbn;
    rewrite ?app_nil_r, ?Z.add_0_r; reflexivity.
Qed.

(* what is skipped and what is counted, by the translated reader *)
Theorem source_skips : forall cd,
  let C := cfgR (cd_dec cd) (cd_encb cd) false in
  (* whatever the file holds: the generator ends normally, what it yields and counts is the line-wise sum over the lines
     ending at CR / LF / CR LF - no state survives a line *)
  (forall prefix text, let C' := cfgR (cd_dec cd) (cd_encb cd) prefix in
     source_reader cd prefix text =
     Some {| out := flat_map (fun l => line_out (read_line C' l)) (lines_keep LBR text);
             npw := zsum (map (fun l => line_count (read_line C' l)) (lines_keep LBR text));
             nerr := zsum (map (fun l => line_err (read_line C' l)) (lines_keep LBR text)) |}) /\
  (* nothing the translated check_valid refuses or the codec cannot encode is ever yielded *)
  (forall prefix text o p, source_reader cd prefix text = Some o -> In p (out o) ->
     py_check_valid p = true /\ forallb (cd_encb cd) p = true) /\
  (* blank lines *)
  (py_check_valid [] = false -> source_reader cd false [LF] = Some (result [] 0) /\
                                source_reader cd false [CR; LF] = Some (result [] 0)) /\
  (* a rejected character (TAB, control characters, ...) anywhere in the line *)
  (forall body c, none_of is_crlf body = true -> is_hex_shaped body = false -> In c body -> py_check_valid [c] = false ->
     source_reader cd false (body ++ [LF]) =
     Some {| out := []; npw := 0; nerr := if forallb (cd_encb cd) body then 0 else 1 |}) /\
  (* undecodable bytes (lone surrogates) *)
  (forall body, none_of is_crlf body = true -> is_hex_shaped body = false -> forallb (cd_encb cd) body = false ->
     source_reader cd false (body ++ [LF]) = Some {| out := []; npw := 0; nerr := 1 |}) /\
  (* $HEX payload that is not hex or does not decode *)
  (forall body, none_of is_crlf body = true -> is_hex_shaped body = true ->
     (fromhex (hex_payload body) = None \/ exists b, fromhex (hex_payload body) = Some b /\ cd_dec cd b = None) ->
     source_reader cd false (body ++ [LF]) = Some {| out := []; npw := 0; nerr := 1 |}).
Proof.
  intros cd C.
  destruct (skips_inst (cd_dec cd) (cd_encb cd)) as (S1 & S2 & S3 & S4 & S5 & S6). fold C in S1, S2, S3, S4, S5, S6.
  split; [|split; [|split; [|split; [|split]]]].
  - intros prefix text C'. rewrite source_reader_is_model. f_equal. unfold read_text.
    change (r_lb (cfgR (cd_dec cd) (cd_encb cd) prefix)) with LBR.
    destruct (read_lines_spec C' (lines_keep LBR text)) as (E1 & E2 & E3).
    apply rout_ext; cbn [out npw nerr]; assumption.
  - intros prefix text o p Ho Hin. rewrite source_reader_is_model in Ho. inversion Ho; subst o; clear Ho.
    set (C' := cfgR (cd_dec cd) (cd_encb cd) prefix) in *. unfold read_text in Hin.
    destruct (read_lines_spec C' (lines_keep (r_lb C') text)) as (E1 & _ & _). rewrite E1 in Hin.
    apply in_flat_map in Hin. destruct Hin as [l [_ Hl]].
    destruct (read_line C' l) as [q n|n|] eqn:El; cbn [line_out] in Hl; try contradiction.
    apply repeat_spec in Hl. subst q.
    destruct (yielded_is_valid C' l p n El) as [Hv He]. split; [rewrite py_accepted_is; exact Hv | exact He].
  - intro Hr. assert (Hre : check_valid_rejects_empty = true).
    { rewrite py_check_valid_is_model in Hr. unfold check_valid in Hr.
      destruct check_valid_rejects_empty; [reflexivity | cbn in Hr; discriminate]. }
    destruct (S2 Hre) as [B1 B2]. rewrite !source_reader_is_model. fold C. split; apply f_equal.
    + pose proof (read_text_one_line C [] eq_refl eq_refl) as E. cbn [app] in E. rewrite E, B1. reflexivity.
    + unfold read_text. change (r_lb C) with LBR.
      replace (lines_keep LBR [CR; LF]) with [[CR; LF]] by (vm_compute; reflexivity).
      cbn [read_lines]. rewrite B2. reflexivity.
  - intros body c Hb Hh Hin Hr. rewrite source_reader_is_model. fold C. f_equal.
    rewrite (read_text_one_line C body eq_refl Hb).
    assert (Hm : memN c check_valid_rejected = true).
    { rewrite py_check_valid_is_model in Hr. unfold check_valid in Hr. cbn [is_nil forallb] in Hr.
      rewrite andb_false_r, andb_true_r in Hr. cbn [negb andb] in Hr.
      destruct (memN c check_valid_rejected); [reflexivity | discriminate]. }
    rewrite (S3 body c Hb Hh Hin Hm). destruct (forallb (cd_encb cd) body); reflexivity.
  - intros body Hb Hh Hn. rewrite source_reader_is_model. fold C. f_equal.
    rewrite (read_text_one_line C body eq_refl Hb), (S4 body Hb Hh Hn). reflexivity.
  - intros body Hb Hh Hbad. rewrite source_reader_is_model. fold C. f_equal.
    rewrite (read_text_one_line C body eq_refl Hb), (S5 body Hb Hh Hbad). reflexivity.
Qed.

(* files whose lines denote the same (password, count) sequence are read alike by the translated reader *)
Theorem source_same_sequence : forall cd prefix (ls : list (str * (str * Z))),
  let C := cfgR (cd_dec cd) (cd_encb cd) prefix in
  Forall (fun e => none_of LBR (fst e) = true /\ read_line C (fst e ++ [LF]) = Yield (fst (snd e)) (snd (snd e))) ls ->
  source_reader cd prefix (flat_map (fun e => fst e ++ [LF]) ls) =
    Some {| out := flat_map (fun e => repeat (fst (snd e)) (Z.to_nat (snd (snd e)))) ls;
            npw := zsum (map (fun e => snd (snd e)) ls); nerr := 0 |}.
Proof.
  intros cd prefix ls C H. rewrite source_reader_is_model. fold C. f_equal.
  destruct (read_text_denotes C LBR_LF ls H) as (E1 & E2 & E3). apply rout_ext; cbn [out npw nerr]; assumption.
Qed.

(* C07: no password the translated check_valid accepts holds TAB or a code point
   str.splitlines / the codecs line iteration split on *)
Theorem source_linebreaks_rejected : linebreaks_rejected = true ->
  forall c, In c (TAB :: py_linebreaks) -> forall p, In c p -> py_check_valid p = false.
Proof.
  intros HR c Hc p Hp. rewrite py_check_valid_is_model. unfold linebreaks_rejected in HR. rewrite forallb_forall in HR.
  apply (cv_reject _ _ p c); [apply memN_In; exact Hp | apply HR; exact Hc].
Qed.

Theorem source_accepted_values_safe : linebreaks_rejected = true ->
  forall p pre s post, py_check_valid p = true -> p = pre ++ s ++ post -> safe s = true.
Proof.
  intros HR p pre s post Hv Hp. apply (accepted_values_safe HR p pre s post); [|exact Hp].
  rewrite <- py_accepted_is. exact Hv.
Qed.

(* hypotheses satisfiable / the translated text runs: a count-prefixed $HEX line, a blank
   line, a line with a TAB and a plain line glued over a vertical tab, read by the translated reader *)
Definition codec_id : codec := {| cd_dec := fun b => Some b; cd_encb := fun _ => true; cd_reason := fun _ => [] |}.

Example source_reader_example :
  source_reader codec_id true
    (count_line [32; 32] [48; 51] (hex_body [32; 112; 32]) ++ [LF] ++ [LF] ++ [49; 32; 97; 9; 98; LF] ++ [50; 32; 120; 11; 121; CR; LF])
  = Some {| out := [[32; 112; 32]; [32; 112; 32]; [32; 112; 32]]; npw := 3; nerr := 0 |}.
Proof. vm_compute. reflexivity. Qed.
