(* PipelineCount.v - every pre-terminal of the loaded ruleset expands without
   error to exactly as many guesses as the product of the sizes of the groups
   it selects (QSum.count_pt_nat over Pipeline.sizes_of): the weight each
   pre-terminal carries in "the probabilities of all guesses sum to 1" is the
   number of lines the guesser really prints for it.  Generic arithmetic,
   ideal disk. *)
From Coq Require Import String List NArith ZArith QArith Bool Lia Sorting.Permutation.
From Pcfg Require Import ProbAlg QProb Str Detect Segment TextFile TextFileProofs Counters CountersProofs LtallyProofs
     Loader Next NextSpec NextProofs QSum Expand ExpandProofs DetectProofsSeg DetectProofsPipe
     Pipeline PipelineStr PipelineTrain PipelineLoad PipelineProofs.
Import ListNotations.
Local Open Scope nat_scope.

Section Groups.
Context {A : palg}.
Variable R : parith A.

Lemma ggroups_vals_nonempty : forall l p v vs g, In g (ggroups R p (v :: vs) l) -> fst g <> [].
Proof.
  induction l as [|[w q] r IH]; intros p v vs g Hg; simpl in Hg.
  - destruct Hg as [<-|[]]. simpl. intros H. apply (f_equal (@length _)) in H. rewrite app_length in H. simpl in H. lia.
  - destruct (a_eqb R q p).
    + eapply IH; eassumption.
    + destruct Hg as [<-|Hg]; [|eapply IH; eassumption].
      simpl. intros H. apply (f_equal (@length _)) in H. rewrite app_length in H. simpl in H. lia.
Qed.

Lemma ggroup_vals_nonempty l g : In g (ggroup R l) -> fst g <> [].
Proof. destruct l as [|[v p] r]; [intros []|]. apply ggroups_vals_nonempty. Qed.

Lemma groups_of_nth_nonempty (c : list (TextFile.str * N)) i d :
  i < length (groups_of R c) -> fst (nth i (groups_of R c) d) <> [].
Proof. intros Hi. apply (ggroup_vals_nonempty (calc_probs (@of_counts (ops_of R) c))). now apply nth_In. Qed.
End Groups.

Section Count.
Context {A : palg}.
Variable R : parith A.
Variable E : env.
Hypothesis HE : env_ok E.
Notation L1 := (lower1 (e_lower E)).
Notation e_sound := (sound (e_isalpha E) (e_isdigit E) (e_kbs E) (e_min_run E) (e_year_prefixes E) (e_context E)).

Variable rs : list parsed.
Hypothesis Hrs : Forall (parsed_ok E) rs.
(* a parsed accepted password has at least one section *)
Hypothesis Hsecs : Forall (fun r => p_sections r <> []) rs.
Notation g := (grammar_of R (counters_of rs)).
Notation T := (map (fun e : TextFile.str * list (list TextFile.str * P A) => map snd (snd e)) g).
Notation sizes := (sizes_of g).

Definition idx_ok (v i : nat) : Prop := i < length (nth v T []).

Lemma resolved_tables var name cnt :
  nth_error g var = Some (name, groups_of R cnt) ->
  nth var T [] = map snd (groups_of R cnt) /\ nth var sizes [] = map (fun gr => length (fst gr)) (groups_of R cnt).
Proof.
  intros Hn. unfold sizes_of. split.
  - now rewrite (nth_error_map_nth _ _ _ _ [] Hn).
  - now rewrite (nth_error_map_nth _ _ _ _ [] Hn).
Qed.

Lemma gsize_resolved var name cnt i :
  nth_error g var = Some (name, groups_of R cnt) -> i < length (groups_of R cnt) ->
  gsize sizes (var, i) = length (fst (nth i (groups_of R cnt) (gdef R))).
Proof.
  intros Hn Hi. unfold gsize. cbn [fst snd]. destruct (resolved_tables var name cnt Hn) as (_ & ->).
  rewrite (nth_indep _ 0 (length (fst (gdef R)))) by (now rewrite map_length).
  now rewrite (map_nth (fun gr : list TextFile.str * P A => length (fst gr))).
Qed.

(* one section, ANY in-range indices *)
Lemma section_counts r x l vs idxs :
  In r rs -> In x (p_sections r) -> snd x = Some l -> supported_label' l = true ->
  vars_of g (names_of_label l) = Some vs -> Forall2 idx_ok vs idxs ->
  exists sx, map (slot_of R g) (combine vs idxs) = slots_of sx /\ seg_ok' sx /\
             length (seg_choices (e_upper E) sx) = count_pt_nat sizes (combine vs idxs).
Proof.
  intros Hr Hx El Hsup Hv Hidx. rewrite Forall_forall in Hrs. pose proof (Hrs r Hr) as Hok.
  assert (Hs : e_sound x) by (destruct Hok as (Hs & _); rewrite Forall_forall in Hs; now apply Hs).
  pose proof (sec_names E x l Hs El Hsup) as Hnames.
  assert (Hplain : forall name, sec_entries E x = [(name, fst x)] -> names_of_label l = [name] -> cat_of_name name = CatPlain ->
            exists sx, map (slot_of R g) (combine vs idxs) = slots_of sx /\ seg_ok' sx /\
                       length (seg_choices (e_upper E) sx) = count_pt_nat sizes (combine vs idxs)).
  { intros name He Hn Hcat. rewrite Hn in Hv. simpl in Hv.
    destruct (entry_resolved R E rs r x name (fst x) Hr Hok Hx ltac:(rewrite He; now left))
      as (var & _ & cnt & Hvar & Hnth & _). rewrite Hvar in Hv. injection Hv as <-.
    inversion Hidx as [|? i ? is' Hi Hrest]; subst. inversion Hrest; subst. unfold idx_ok in Hi.
    destruct (resolved_tables var name cnt Hnth) as (HT & _). rewrite HT, map_length in Hi.
    exists (SegPlain (fst (nth i (groups_of R cnt) (gdef R)))). split; [|split].
    - simpl. rewrite (slot_of_resolved R _ _ _ _ _ Hnth), Hcat. reflexivity.
    - simpl. now apply groups_of_nth_nonempty.
    - simpl. rewrite (gsize_resolved var name cnt i Hnth Hi). rewrite Nat.mul_1_r. reflexivity. }
  destruct l as [n| | | | |n|n|n]; try discriminate;
    try (unfold sec_entries in Hnames; rewrite El in Hnames; cbn [map fst] in Hnames;
         eapply Hplain; [unfold sec_entries; rewrite El; reflexivity|symmetry; exact Hnames|reflexivity]).
  (* alpha *)
  destruct x as [t lx]. simpl in El. subst lx. destruct Hs as (Hne & Hn & Halpha). cbn [fst snd] in *.
  unfold sec_entries in Hnames. cbn [fst snd map] in Hnames. rewrite <- Hnames in Hv. simpl in Hv.
  destruct (entry_resolved R E rs r (t, Some (LA n)) (65%N :: dec_of_N (slen t)) (map L1 t) Hr Hok Hx ltac:(simpl; tauto))
    as (va & _ & ca & Hva & Hna & _ & _ & _ & Hla).
  destruct (entry_resolved R E rs r (t, Some (LA n)) (67%N :: dec_of_N (slen t)) (case_mask (e_isupper E) t) Hr Hok Hx ltac:(simpl; tauto))
    as (vc & _ & cc & Hvc & Hnc & _ & _ & _ & Hlc).
  rewrite Hva, Hvc in Hv. injection Hv as <-.
  inversion Hidx as [|? i ? is1 Hi Hrest]; subst. inversion Hrest as [|? j ? is2 Hj Hrest2]; subst. inversion Hrest2; subst.
  unfold idx_ok in Hi, Hj.
  destruct (resolved_tables va _ ca Hna) as (HTa & _). rewrite HTa, map_length in Hi.
  destruct (resolved_tables vc _ cc Hnc) as (HTc & _). rewrite HTc, map_length in Hj.
  exists (SegAlpha (fst (nth i (groups_of R ca) (gdef R))) (fst (nth j (groups_of R cc) (gdef R)))). split; [|split].
  - simpl. rewrite (slot_of_resolved R _ _ _ _ _ Hna), (slot_of_resolved R _ _ _ _ _ Hnc). reflexivity.
  - split; [now apply groups_of_nth_nonempty|]. split; [now apply groups_of_nth_nonempty|].
    exists (length t). split; [destruct t; [congruence|simpl; lia]|]. split; apply Forall_forall; intros w Hw.
    + apply slen_length. rewrite (Hla eq_refl w (groups_of_member R ca i (gdef R) w Hi Hw)). unfold slen. now rewrite map_length.
    + apply slen_length. rewrite (Hlc eq_refl w (groups_of_member R cc j (gdef R) w Hj Hw)). unfold slen, case_mask. now rewrite map_length.
  - rewrite C04_alpha_choices. simpl.
    rewrite (gsize_resolved va _ ca i Hna Hi), (gsize_resolved vc _ cc j Hnc Hj). rewrite Nat.mul_1_r. reflexivity.
Qed.

Lemma vars_of_app_inv (a b : list TextFile.str) vs :
  vars_of g (a ++ b) = Some vs -> exists va vb, vs = va ++ vb /\ vars_of g a = Some va /\ vars_of g b = Some vb.
Proof.
  revert vs. induction a as [|n a IH]; intros vs H; simpl in *.
  - exists [], vs. auto.
  - destruct (var_of g n) as [v|]; [|discriminate]. destruct (vars_of g (a ++ b)) as [vs'|] eqn:Ev; [|discriminate].
    injection H as <-. destruct (IH vs' eq_refl) as (va & vb & -> & Ha & Hb). exists (v :: va), vb. rewrite Ha. auto.
Qed.

Lemma Forall2_app_inv_l' {X Y} (P : X -> Y -> Prop) a b l :
  Forall2 P (a ++ b) l -> exists la lb, l = la ++ lb /\ Forall2 P a la /\ Forall2 P b lb.
Proof. intros H. apply Forall2_app_inv_l in H. destruct H as (la & lb & Ha & Hb & ->). eauto. Qed.

Lemma F2_length {X Y} (P : X -> Y -> Prop) l l' : Forall2 P l l' -> length l = length l'.
Proof. induction 1; simpl; auto. Qed.

Lemma combine_app {X Y} (a a' : list X) (b b' : list Y) : length a = length b ->
  combine (a ++ a') (b ++ b') = combine a b ++ combine a' b'.
Proof.
  revert b. induction a as [|x a IH]; intros [|y b] H; simpl in *; try discriminate; [reflexivity|].
  f_equal. apply IH. now injection H.
Qed.

Lemma count_pt_nat_app sz a b : count_pt_nat sz (a ++ b) = count_pt_nat sz a * count_pt_nat sz b.
Proof. induction a as [|vi a IH]; simpl; [lia|]. rewrite IH. lia. Qed.

(* all sections of a supported password, ANY in-range indices *)
Lemma sections_count r : In r rs ->
  forall sl ls, (forall x, In x sl -> In x (p_sections r)) -> Forall2 (fun x l => snd x = Some l) sl ls ->
  forallb supported_label' ls = true ->
  forall vs idxs, vars_of g (flat_map names_of_label ls) = Some vs -> Forall2 idx_ok vs idxs ->
  exists segs, map (slot_of R g) (combine vs idxs) = flat_map slots_of segs /\ Forall seg_ok' segs /\
               length segs = length sl /\
               length (denote (e_upper E) segs) = count_pt_nat sizes (combine vs idxs).
Proof.
  intros Hr sl ls Hsub HF. induction HF as [|x l sl ls Hx _ IH]; intros Hsup vs idxs Hv Hidx.
  - simpl in Hv. injection Hv as <-. inversion Hidx; subst. exists []. repeat split; constructor.
  - simpl in Hsup. apply andb_true_iff in Hsup. destruct Hsup as (Hl & Hls). simpl in Hv.
    destruct (vars_of_app_inv _ _ _ Hv) as (va & vb & -> & Hva & Hvb).
    destruct (Forall2_app_inv_l' _ _ _ _ Hidx) as (ia & ib & -> & Hia & Hib).
    destruct (section_counts r x l va ia Hr (Hsub x (or_introl eq_refl)) Hx Hl Hva Hia) as (sx & S1 & O1 & C1).
    destruct (IH (fun y Hy => Hsub y (or_intror Hy)) Hls vb ib Hvb Hib) as (segs & S2 & O2 & Len & C2).
    assert (Hlen : length va = length ia) by (eapply F2_length; eassumption).
    exists (sx :: segs). split; [|split; [|split]].
    + rewrite combine_app by assumption. rewrite map_app.
      change (flat_map slots_of (sx :: segs)) with (slots_of sx ++ flat_map slots_of segs).
      apply (f_equal2 (@app _)); [exact S1|exact S2].
    + now constructor.
    + simpl. now rewrite Len.
    + rewrite combine_app by assumption. rewrite count_pt_nat_app, <- C1, <- C2.
      rewrite !C04_each_once. reflexivity.
Qed.

(* the number of guesses a pre-terminal really prints *)
Definition nguesses (L : loaded A) (it : item A) : nat :=
  match guesses_of R E L it with Some (out, _) => length out | None => 0 end.

Variables (o : options A) (raw : list Str.str).

Lemma loaded_base_origin lb : In lb (loaded_bases R E (trained_of E o raw rs)) ->
  exists r, In r rs /\ r_supported r = true /\ snd lb = flat_map names_of_label (p_base r).
Proof.
  intros Hb. unfold loaded_bases in Hb. apply in_map_iff in Hb.
  destruct Hb as ([k p] & <- & Hl). apply filter_In in Hl. destruct Hl as (Hl & HnM). cbn [fst snd].
  assert (Hk : In k (map fst (base_file R (trained_of E o raw rs)))) by (apply in_map_iff; now exists (k, p)).
  destruct (base_file_keys R E o raw rs k Hk) as [->|(r & Hr & Hsup & ->)].
  - unfold nonM in HnM. cbn [fst] in HnM. rewrite (toks_M E HE) in HnM. discriminate.
  - rewrite Forall_forall in Hrs. exists r. split; [assumption|]. split; [assumption|].
    now rewrite (toks_structure E HE r (Hrs r Hr)), insert_caps_labels.
Qed.

(* every pre-terminal of the loaded ruleset prints exactly count_pt_nat guesses *)
Theorem preterminal_count bl it :
  Forall2 (fun b x => bprob x = fst b /\ vars_of g (snd b) = Some (brepl x)) (loaded_bases R E (trained_of E o raw rs)) bl ->
  In it (all_preterminals {| tbl := T; bases := bl |}) ->
  exists out, guesses_of R E {| l_grammar := g; l_rs := {| tbl := T; bases := bl |} |} it = Some (out, length out) /\
              length out = count_pt_nat sizes (ipt it).
Proof.
  intros HF Hit. unfold all_preterminals in Hit. apply in_flat_map in Hit. destruct Hit as ([k x] & Hkx & Hit).
  apply in_combine_r in Hkx. unfold preterminals_of in Hit. cbn [fst snd] in Hit. apply in_map_iff in Hit.
  destruct Hit as (vec & <- & Hvec). apply In_vectors in Hvec.
  (* the base structure x comes from a supported password *)
  assert (Hx : exists lb, In lb (loaded_bases R E (trained_of E o raw rs)) /\ vars_of g (snd lb) = Some (brepl x)).
  { clear -HF Hkx. induction HF as [|b y bs bl' (_ & Hv) _ IH]; [contradiction|].
    destruct Hkx as [<-|Hkx]; [exists b; split; [now left|assumption]|].
    destruct (IH Hkx) as (lb & Hlb & Hv'). exists lb. split; [now right|assumption]. }
  destruct Hx as (lb & Hlb & Hv). destruct (loaded_base_origin lb Hlb) as (r & Hr & Hsup & Hnames). rewrite Hnames in Hv.
  pose proof Hrs as Hrs'. rewrite Forall_forall in Hrs'. pose proof (Hrs' r Hr) as Hok.
  assert (Hidx : Forall2 idx_ok (brepl x) vec).
  { clear -Hvec. revert vec Hvec. induction (brepl x) as [|v vs IH]; intros vec Hvec; simpl in Hvec; inversion Hvec; subst; constructor.
    - unfold idx_ok. assumption.
    - now apply IH. }
  destruct (sections_count r Hr (p_sections r) (p_base r) (fun y H => H) (sections_labels E r Hok) Hsup (brepl x) vec Hv Hidx)
    as (segs & Hslots & Hsegok & Hlen & Hcount).
  assert (Hne : segs <> []).
  { intros ->. simpl in Hlen. rewrite Forall_forall in Hsecs. apply (Hsecs r Hr).
    destruct (p_sections r); [reflexivity|discriminate]. }
  exists (denote (e_upper E) segs). split.
  - unfold guesses_of. cbn [l_grammar ipt mk].
    replace (map (slot_of R g) (combine (brepl x) vec)) with (flat_map slots_of segs) by (symmetry; exact Hslots).
    rewrite (C04_expand_is_product_cur (e_upper E) (e_omen E) segs [] Hne Hsegok). now rewrite map_app_nil.
  - cbn [ipt mk]. exact Hcount.
Qed.

End Count.

(* the hypothesis on sections holds for every training run *)
Lemma train_sections_nonempty {A : palg} (E : env) (HE : env_ok E) (o : options A) raw tr :
  train E o raw = Some tr ->
  exists rs, tr = trained_of E o raw rs /\ Forall (parsed_ok E) rs /\ Forall (fun r => p_sections r <> []) rs.
Proof.
  intros H. destruct (train_inv E o raw tr H) as (rs & HF & _ & ->). exists rs. split; [reflexivity|].
  assert (Hall : Forall (fun pw => pw <> []) (train_pws E raw)).
  { apply Forall_forall. intros pw Hpw. apply filter_In in Hpw. apply (accepted_nonempty E pw (ok_rej_empty E HE)). tauto. }
  clear H. induction HF as [|pw r pws rs Hpr _ IH]; [split; constructor|]. inversion Hall as [|? ? Hne Hall']; subst.
  destruct (IH Hall') as (I1 & I2).
  destruct (parse_pw_facts E HE (train_map E o raw) pw Hne) as (r' & Er' & Ht & Hok).
  assert (r' = r) by congruence. subst r'. split; constructor; try assumption.
  intros Hnil. rewrite Hnil in Ht. apply DetectProofsDrive.tiles_nil_inv in Ht. contradiction.
Qed.
