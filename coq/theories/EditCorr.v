(* Correspondence helpers for C20. *)
From Coq Require Import List Arith Bool NArith.
From Pcfg Require Import EditRules.
Import ListNotations.

Fixpoint leqb {X} (e : X -> X -> bool) (a b : list X) : bool :=
  match a, b with
  | [], [] => true
  | x :: a', y :: b' => e x y && leqb e a' b'
  | _, _ => false
  end.
Definition str_eqb : str -> str -> bool := leqb N.eqb.

(* re.search results for the (regex, structure) pairs of a case, computed by Python *)
Definition re_table (tbl : list (str * str * bool)) (r s : str) : bool :=
  match find (fun e => str_eqb (fst (fst e)) r && str_eqb (snd (fst e)) s) tbl with
  | Some e => snd e
  | None => false
  end.

Definition gl_eqb (a b : gline) : bool := str_eqb (gstruct a) (gstruct b) && str_eqb (gprob a) (gprob b).

Definition mk_lines (l : list (str * str)) : list gline := map (fun p => {| gstruct := fst p; gprob := snd p |}) l.

(* case: regex table, config, input lines, what edit_rules.py left in grammar.txt (None = it raised) *)
Definition check_edit (x : list (str * str * bool) * config * list (str * str) * option (list (str * str))) : bool :=
  match x with (tbl, cfg, ls, impl) =>
    match edit (re_table tbl) cfg (mk_lines ls), impl with
    | Raise, None => true
    | Ok m, Some i => leqb gl_eqb m (mk_lines i)
    | _, _ => false
    end
  end.

Definition failing {X} (f : X -> bool) (l : list X) : list nat :=
  map fst (filter (fun kx => negb (f (snd kx))) (combine (seq 0 (length l)) l)).

(* ---- the hypotheses of C20_filter as a computable test, run on the lines of every
   grammar.txt the REAL trainer wrote during the check (stage "trainer -> edit_rules -> guesser") ---- *)
Definition wf_b (l : gline) : bool :=
  match tokens (whole l) with [] => false | _ => true end
  && str_eqb (concat (tokens (whole l))) (gstruct l)
  && leqb str_eqb (tokens (whole l)) (tokens (gstruct l))
  && match total_len (tokens (gstruct l)) with Some _ => true | None => false end.

Definition check_wf_line (p : str * str) : bool := wf_b {| gstruct := fst p; gprob := snd p |}.
Definition check_wf (ls : list (str * str)) : bool := forallb check_wf_line ls.

Lemma leqb_eq {X} (e : X -> X -> bool) :
  (forall x y, e x y = true -> x = y) -> forall a b, leqb e a b = true -> a = b.
Proof.
  intros He a. induction a as [|x a IH]; intros [|y b] H; simpl in H; try discriminate; auto.
  apply andb_true_iff in H. destruct H as [H1 H2]. f_equal; auto.
Qed.

Lemma str_eqb_eq a b : str_eqb a b = true -> a = b.
Proof. apply leqb_eq. intros x y H. now apply N.eqb_eq. Qed.

Lemma wf_b_sound l : wf_b l = true -> well_formed l /\ total_len (tokens (gstruct l)) <> None.
Proof.
  unfold wf_b, well_formed. intros H.
  apply andb_true_iff in H. destruct H as [H H4].
  apply andb_true_iff in H. destruct H as [H H3].
  apply andb_true_iff in H. destruct H as [H1 H2].
  repeat split.
  - destruct (tokens (whole l)); [discriminate|intro; discriminate].
  - now apply str_eqb_eq.
  - apply (leqb_eq str_eqb); [exact str_eqb_eq|exact H3].
  - destruct (total_len (tokens (gstruct l))); [intro; discriminate|discriminate].
Qed.

Lemma check_wf_sound ls :
  check_wf ls = true ->
  Forall well_formed (mk_lines ls) /\ Forall (fun l => total_len (tokens (gstruct l)) <> None) (mk_lines ls).
Proof.
  unfold check_wf, mk_lines. induction ls as [|p r IH]; simpl; intros H; [split; constructor|].
  apply andb_true_iff in H. destruct H as [Hp Hr]. destruct (IH Hr) as [A B].
  destruct (wf_b_sound _ Hp) as [W T]. split; constructor; auto.
Qed.

(* C20_filter for every grammar.txt that passes the test *)
Theorem edit_is_filter_checked (re_search : str -> str -> bool) c ls :
  check_wf ls = true ->
  edit re_search c (mk_lines ls) = Ok (filter (keep re_search c) (mk_lines ls)).
Proof. intros H. destruct (check_wf_sound _ H) as [A B]. now apply edit_is_filter. Qed.

Example check_wf_example :
  check_wf [([65;56;68;49], [48;46;53]); ([77], [48;46;52]); ([65;55;68;51], [57;46;57;57;56;101;45;48;53])]%N = true
  /\ check_wf [([65;55;68;51], [57;46;57;57;56;69;45;48;53])]%N = false.
Proof. vm_compute. split; reflexivity. Qed.
