(* Correspondence helpers for C20. *)
From Coq Require Import List Arith Bool NArith.
From Pcfg Require Import EditRules.
Import ListNotations.

Fixpoint leqb {X} (e : X -> X -> bool) (a b : list X) : bool :=
  match a, b with
  | [], [] => true
  | x :: a', y :: b' => e x y && leqb e a' b'
  | _, _ => false
  end.
Definition str_eqb : str -> str -> bool := leqb N.eqb.

(* re.search results for the (regex, structure) pairs of a case, computed by Python *)
Definition re_table (tbl : list (str * str * bool)) (r s : str) : bool :=
  match find (fun e => str_eqb (fst (fst e)) r && str_eqb (snd (fst e)) s) tbl with
  | Some e => snd e
  | None => false
  end.

Definition gl_eqb (a b : gline) : bool := str_eqb (gstruct a) (gstruct b) && str_eqb (gprob a) (gprob b).

Definition mk_lines (l : list (str * str)) : list gline := map (fun p => {| gstruct := fst p; gprob := snd p |}) l.

(* case: regex table, config, input lines, what edit_rules.py left in grammar.txt (None = it raised) *)
Definition check_edit (x : list (str * str * bool) * config * list (str * str) * option (list (str * str))) : bool :=
  match x with (tbl, cfg, ls, impl) =>
    match edit (re_table tbl) cfg (mk_lines ls), impl with
    | Raise, None => true
    | Ok m, Some i => leqb gl_eqb m (mk_lines i)
    | _, _ => false
    end
  end.

Definition failing {X} (f : X -> bool) (l : list X) : list nat :=
  map fst (filter (fun kx => negb (f (snd kx))) (combine (seq 0 (length l)) l)).
