(* The generated OMEN level code (gen/OmenLevel_gen.v: the translation of the Python
   text of find_omen_level and OmenScorer.parse, redone on every run) equals the
   hand-written models of OmenLevel.v that the theorems of C11 are about
   (the keyspace functions of C18: OmenKeyspaceGenProofs.v).

   The equalities are stated for all inputs, under boolean well-formedness
   predicates on the tables ([lvl_wfb], [wf_scorerb]) that say where Python would
   do something else than raise the KeyError the code catches (an IndexError of
   ln_lookup, a slice bound that turns negative) and that the tables of the C11
   theorems and the loader's output satisfy ([wf_ttab_lvl_wfb], [wf_ttabb_lvl_wfb],
   [load_s_wf_scorerb]); and for every fuel above the length of the password
   (fuel has no counterpart in Python: it bounds the while loop).

   These proofs are meant to break when one of the Python functions changes its
   meaning, and to keep checking when it is only written differently: the loop
   lemmas ([level_while], [level_for]) take the translated loop test and body as
   they are generated (matched from the goal), for the counting `while` as well as
   for `for end_pos in range(ngram, len + 1)`, over any tuple of loop-carried
   variables (the invariant is stated through the continuation of the loop, so the
   number, names and order of the variables do not matter; in the `while` shape
   end_pos must be the last of them); renamed locals, introduced temporaries and
   local names for the read-only tables are lets that the proofs reduce away. *)
From Coq Require Import List Arith Bool NArith ZArith Lia.
From Pcfg Require Import KernelRt OmenSpec OmenLevel OmenRt OmenRtProofs OmenLevelProofs.
From PcfgGen Require Import OmenLevel_gen.
Import ListNotations.

(* ------------------------------------------------------------------ *)
(* find_omen_level = trainer_level                                     *)
(* ------------------------------------------------------------------ *)

(* where find_omen_level would leave the KeyError-or-level behaviour of the model:
   ngram = 0 (the slice bound ngram - 1 is negative), min_length = 0 (ln_lookup[-1] is
   the LAST length), max_length beyond ln_lookup (IndexError, not caught) *)
Definition lvl_wfb (T : ttab) : bool :=
  Nat.leb 1 (tt_ngram T) && Nat.leb 1 (tt_min_len T) && Nat.leb (tt_max_len T) (length (tt_ln T)).

Lemma wf_ttabb_lvl_wfb T : wf_ttabb T = true -> lvl_wfb T = true.
Proof.
  unfold wf_ttabb, lvl_wfb. intro H.
  repeat (apply andb_prop in H; destruct H as [H ?]).
  apply Nat.leb_le in H. repeat match goal with E : Nat.eqb _ _ = true |- _ => apply Nat.eqb_eq in E end.
  repeat (apply andb_true_intro; split); apply Nat.leb_le; lia.
Qed.

Lemma wf_ttab_lvl_wfb T : wf_ttab T -> lvl_wfb T = true.
Proof.
  intros (H1 & H2 & H3 & _). unfold lvl_wfb. repeat (apply andb_true_intro; split); apply Nat.leb_le; lia.
Qed.

Section LevelLoop.
(* the cost of the window of S n1 characters at the front of a suffix; None = KeyError *)
Variable cost : ostr -> option nat.
Variable n1 : nat.

Fixpoint trans_gen (s : ostr) : option nat :=
  match s with
  | [] => Some 0
  | _ :: r => if Nat.leb (length s) n1 then Some 0 else oadd (cost (firstn (S n1) s)) (trans_gen r)
  end.

(* The transition loop of find_omen_level / OmenScorer.parse, in either of its two shapes,
   over ANY tuple St of loop-carried variables.  What the loop has accumulated is read off the
   continuation: the invariant is "what follows the loop, run from this state, is k0 v" (k0 v =
   `return ln_level + v`), so that neither the number nor the order of the loop-carried
   variables matters. *)
Context {St : Type}.
Variable s : ostr.
Variable k : St -> res Z.
Variable k0 : Z -> res Z.

(* end_pos = ngram; while end_pos <= len: ...; end_pos += 1      (pos: the end_pos component) *)
Lemma level_while (cond : St -> bool) (body : St -> res (ctl Z St)) (pos : St -> Z) :
  (forall st, cond st = (pos st <=? zlen s)%Z) ->
  (forall st v j, S n1 + j <= length s -> k st = k0 v -> pos st = Z.of_nat (S n1 + j) ->
     match cost (firstn (S n1) (skipn j s)) with
     | Some a => exists st', body st = Ok (Continue st') /\ k st' = k0 (v + Z.of_nat a)%Z /\ pos st' = (pos st + 1)%Z
     | None => body st = Raise KeyError
     end) ->
  forall r j fuel st v, r = skipn j s -> j <= length s -> length r < fuel ->
  k st = k0 v -> pos st = Z.of_nat (S n1 + j) ->
  mwhile fuel cond body st k =
  match trans_gen r with
  | Some x => k0 (v + Z.of_nat x)%Z
  | None => Raise KeyError
  end.
Proof.
  intros Hc Hb. induction r as [|c r IH]; intros j fuel st v Hr Hj Hf HK HP.
  - destruct fuel as [|fuel]; [cbn in Hf; lia|]. cbn [mwhile trans_gen]. rewrite Hc, HP.
    assert (length s <= j) by (apply (f_equal (@length N)) in Hr; rewrite skipn_length in Hr; cbn in Hr; lia).
    replace (Z.of_nat (S n1 + j) <=? zlen s)%Z with false by (symmetry; apply Z.leb_gt; unfold zlen; lia).
    rewrite HK. f_equal. lia.
  - destruct fuel as [|fuel]; [cbn in Hf; lia|]. cbn [mwhile trans_gen]. rewrite Hc, HP.
    assert (Hlen : length (c :: r) = length s - j) by (rewrite Hr; apply skipn_length).
    destruct (Nat.leb (length (c :: r)) n1) eqn:E.
    + apply Nat.leb_le in E.
      replace (Z.of_nat (S n1 + j) <=? zlen s)%Z with false by (symmetry; apply Z.leb_gt; unfold zlen; lia).
      rewrite HK. f_equal. lia.
    + apply Nat.leb_gt in E.
      replace (Z.of_nat (S n1 + j) <=? zlen s)%Z with true by (symmetry; apply Z.leb_le; unfold zlen; lia).
      specialize (Hb st v j ltac:(lia) HK HP). rewrite <- Hr in Hb.
      assert (Hr' : r = skipn (S j) s) by (apply (skipn_S_cons s j c r Hr)).
      destruct (cost (firstn (S n1) (c :: r))) as [a|]; [|now rewrite Hb].
      destruct Hb as (st' & Eb & HK' & HP'). rewrite Eb.
      rewrite (IH (S j) fuel st' (v + Z.of_nat a)%Z Hr') by (cbn [length] in *; first [exact HK' | lia]).
      destruct (trans_gen r) as [x|]; cbn [oadd]; [|reflexivity]. f_equal. lia.
Qed.

(* for end_pos in range(ngram, len + 1): ... *)
Lemma level_for (body : Z -> St -> res (ctl Z St)) :
  (forall st v j, S n1 + j <= length s -> k st = k0 v ->
     match cost (firstn (S n1) (skipn j s)) with
     | Some a => exists st', body (Z.of_nat (S n1 + j)) st = Ok (Continue st') /\ k st' = k0 (v + Z.of_nat a)%Z
     | None => body (Z.of_nat (S n1 + j)) st = Raise KeyError
     end) ->
  forall r j a st v, r = skipn j s -> j <= length s -> a = Z.of_nat (S n1 + j) -> k st = k0 v ->
  mfor (zrange a (zlen s + 1)) body st k =
  match trans_gen r with
  | Some x => k0 (v + Z.of_nat x)%Z
  | None => Raise KeyError
  end.
Proof.
  intros Hb. induction r as [|c r IH]; intros j a st v Hr Hj -> HK.
  - assert (length s <= j) by (apply (f_equal (@length N)) in Hr; rewrite skipn_length in Hr; cbn in Hr; lia).
    rewrite zrange_nil by (unfold zlen; lia). cbn [mfor trans_gen]. rewrite HK. f_equal. lia.
  - cbn [trans_gen].
    assert (Hlen : length (c :: r) = length s - j) by (rewrite Hr; apply skipn_length).
    destruct (Nat.leb (length (c :: r)) n1) eqn:E.
    + apply Nat.leb_le in E. rewrite zrange_nil by (unfold zlen; lia). cbn [mfor]. rewrite HK. f_equal. lia.
    + apply Nat.leb_gt in E. rewrite zrange_cons by (unfold zlen; lia). cbn [mfor].
      specialize (Hb st v j ltac:(lia) HK). rewrite <- Hr in Hb.
      assert (Hr' : r = skipn (S j) s) by (apply (skipn_S_cons s j c r Hr)).
      destruct (cost (firstn (S n1) (c :: r))) as [x|]; [|now rewrite Hb].
      destruct Hb as (st' & Eb & HK'). rewrite Eb.
      rewrite (IH (S j) (Z.of_nat (S n1 + j) + 1)%Z st' (v + Z.of_nat x)%Z Hr') by (cbn [length] in *; first [exact HK' | lia]).
      destruct (trans_gen r) as [y|]; cbn [oadd]; [|reflexivity]. f_equal. lia.
Qed.
End LevelLoop.

(* the loop-carried variables as the components of the state tuple *)
Ltac split_state := repeat match goal with x : (_ * _)%type |- _ => destruct x end.

(* the conclusion of one iteration: the new state continues with the accumulated level (and, in the
   while shape, end_pos has advanced) *)
Ltac close_step :=
  eexists; split; [reflexivity|];
  lazymatch goal with
  | |- _ /\ _ => split; [cbn; f_equal; lia | cbn; lia]
  | |- _ => cbn; f_equal; lia
  end.

(* the premises of a loop iteration, in either shape: the state tuple is taken apart, "the continuation
   returns ln_level + v" becomes an equation on the chain_level component, end_pos becomes S n1 + j *)
Ltac open_step :=
  split_state;
  repeat match goal with H : snd _ = _ |- _ => cbn [fst snd] in H; subst end;
  repeat match goal with H : ?l = Ok _ |- _ => cbn beta iota zeta in H; injection H as H end;
  cbn beta iota zeta.


Lemma t_trans_gen T n1 s : t_trans T n1 s = trans_gen (t_cp T) n1 s.
Proof. induction s as [|c r IH]; [reflexivity|]. cbn [t_trans trans_gen]. now rewrite IH. Qed.

Lemma s_trans_gen Sc n1 s : s_trans Sc n1 s = trans_gen (fun w => first_level w (sc_cp Sc)) n1 s.
Proof. induction s as [|c r IH]; [reflexivity|]. cbn [s_trans trans_gen]. now rewrite IH. Qed.

(* the n-gram window password[end_pos - ngram : end_pos] *)
Lemma window_slice (s : ostr) n1 j : S n1 + j <= length s ->
  pyslice s (Some (Z.of_nat (S n1 + j) - Z.of_nat (S n1))%Z) (Some (Z.of_nat (S n1 + j))) =
  firstn (S n1) (skipn j s).
Proof.
  intro H. rewrite pyslice_window by (unfold zlen; lia). f_equal; [lia | f_equal; lia].
Qed.

Lemma window_nonempty (s : ostr) n1 j : S n1 + j <= length s -> firstn (S n1) (skipn j s) <> [].
Proof.
  intros H E. apply (f_equal (@length N)) in E. rewrite firstn_length, skipn_length in E. cbn [length] in E. lia.
Qed.

Theorem gen_find_omen_level_eq T s fuel : lvl_wfb T = true -> length s < fuel ->
  py_find_omen_level fuel T s = Ok (levelZ (trainer_level T s)).
Proof.
  intros WF Hf. unfold lvl_wfb in WF. apply andb_prop in WF. destruct WF as [WF W3].
  apply andb_prop in WF. destruct WF as [W1 W2]. apply Nat.leb_le in W1, W2, W3.
  unfold py_find_omen_level, trainer_level. cbv zeta.
  replace (zlen s <? Z.of_nat (tt_min_len T))%Z with (Nat.ltb (length s) (tt_min_len T))
    by (unfold zlen; destruct (Nat.ltb_spec (length s) (tt_min_len T)); symmetry; [apply Z.ltb_lt | apply Z.ltb_ge]; lia).
  replace (Z.of_nat (tt_max_len T) <? zlen s)%Z with (Nat.ltb (tt_max_len T) (length s))
    by (unfold zlen; destruct (Nat.ltb_spec (tt_max_len T) (length s)); symmetry; [apply Z.ltb_lt | apply Z.ltb_ge]; lia).
  destruct (Nat.ltb (length s) (tt_min_len T) || Nat.ltb (tt_max_len T) (length s)) eqn:EG; [reflexivity|].
  apply orb_false_elim in EG. destruct EG as [G1 G2]. apply Nat.ltb_ge in G1, G2.
  destruct (tt_ngram T) as [|n1] eqn:ENG; [lia|].
  replace (S n1 - 1) with n1 by lia.
  (* ln_lookup[pw_len - 1] is in range *)
  destruct (nth_error (tt_ln T) (length s - 1)) as [ll|] eqn:ELN.
  2:{ apply nth_error_None in ELN. lia. }
  rewrite (pyindex_in (tt_ln T) (zlen s - 1) ll);
    [| unfold zlen; lia | unfold zlen; replace (Z.to_nat (Z.of_nat (length s) - 1)) with (length s - 1) by lia; exact ELN].
  cbn [bind].
  rewrite ?pyslice_no_lower. rewrite pyslice_prefix by lia. replace (Z.to_nat (Z.of_nat (S n1) - 1)) with n1 by lia.
  unfold t_ip. destruct (find_entry (firstn n1 s) (tt_grammar T)) as [e|] eqn:EIP; cbn [dict_get bind option_map catch exn_eqb oadd levelZ]; [|reflexivity].
  (* the loop, as a while or as a for over range(ngram, pw_len + 1) *)
  assert (STEP : forall w : ostr, w <> [] -> forall (X : Type) (kk : nat -> res X) (v : Z),
            (tmp3 <- dict_get (find_entry (pyslice w None (Some (-1)%Z)) (tt_grammar T)) ;;
             tmp4 <- pyindex w (-1)%Z ;;
             tmp5 <- dict_get (find_letter tmp4 (te_next tmp3)) ;; kk tmp5) =
            match t_cp T w with Some a => kk a | None => Raise KeyError end).
  { intros w Hw X kk v. rewrite pyslice_removelast. unfold t_cp.
    destruct (find_entry (removelast w) (tt_grammar T)) as [e1|]; cbn [dict_get bind]; [|reflexivity].
    rewrite (pyindex_last _ 0%N) by exact Hw. cbn [bind].
    destruct (find_letter (last w 0%N) (te_next e1)); reflexivity. }
  first
  [ match goal with |- context [mwhile fuel ?c ?b ?i ?k] =>
      rewrite (level_while (t_cp T) n1 s k (fun cl => Ok (Z.of_nat ll + cl)%Z) c b snd)
        with (r := s) (j := 0) (v := Z.of_nat (te_ip e));
      [ | intro st; split_state; cbn beta iota zeta; reflexivity
        | intros st v j Hj HK HP; open_step; rewrite window_slice by exact Hj;
          rewrite (STEP _ (window_nonempty s n1 j Hj) _ _ v);
          destruct (t_cp T (firstn (S n1) (skipn j s))); [close_step | reflexivity]
        | reflexivity | lia | exact Hf | reflexivity | cbn; lia ] end
  | match goal with |- context [mfor (zrange ?a ?hi) ?b ?i ?k] =>
      rewrite (level_for (t_cp T) n1 s k (fun cl => Ok (Z.of_nat ll + cl)%Z) b)
        with (r := s) (j := 0) (v := Z.of_nat (te_ip e));
      [ | intros st v j Hj HK; open_step; rewrite window_slice by exact Hj;
          rewrite (STEP _ (window_nonempty s n1 j Hj) _ _ v);
          destruct (t_cp T (firstn (S n1) (skipn j s))); [close_step | reflexivity]
        | reflexivity | lia | lia | reflexivity ] end ].
  rewrite <- t_trans_gen. destruct (t_trans T n1 s) as [x|]; cbn [catch exn_eqb oadd levelZ]; [|reflexivity].
  f_equal. lia.
Qed.

Theorem gen_find_omen_level_eq_wf T s fuel : wf_ttab T -> length s < fuel ->
  py_find_omen_level fuel T s = Ok (levelZ (trainer_level T s)).
Proof. intros WF. apply gen_find_omen_level_eq. now apply wf_ttab_lvl_wfb. Qed.

(* ------------------------------------------------------------------ *)
(* OmenScorer.parse = scorer_level                                     *)
(* ------------------------------------------------------------------ *)

(* what OmenScorer._load_omen guarantees: ngram is the length of the first CP string
   (>= 1 here: with ngram = 0 the slice bound -1 would count from the end), or it is
   still -1 and then no CP line was read at all *)
Definition wf_scorerb (Sc : scorer) : bool :=
  match sc_ngram Sc with
  | Some ng => Nat.leb 1 ng
  | None => is_nil (sc_cp Sc)
  end.

Theorem gen_scorer_parse_eq Sc s fuel : wf_scorerb Sc = true -> length s < fuel ->
  py_scorer_parse fuel Sc s = Ok (levelZ (scorer_level Sc s)).
Proof.
  intros WF Hf. unfold wf_scorerb in WF. unfold py_scorer_parse, scorer_level, sc_ngramZ. cbv zeta.
  destruct (sc_ngram Sc) as [ng|] eqn:ENG; cbn [levelZ].
  - apply Nat.leb_le in WF. destruct ng as [|n1]; [lia|].
    (* the length test: `len < ngram or len > max_len`, or `not ngram <= len <= max_len`, ... *)
    match goal with |- (if ?c then _ else _) = _ =>
      replace c with (Nat.ltb (length s) (S n1) || Nat.ltb (length (sc_ln Sc) - 1) (length s)) end.
    2:{ unfold zlen. destruct (Nat.ltb_spec (length s) (S n1)); destruct (Nat.ltb_spec (length (sc_ln Sc) - 1) (length s)); cbn [orb];
        repeat match goal with
               | |- context [(?a <? ?b)%Z] => destruct (Z.ltb_spec a b)
               | |- context [(?a <=? ?b)%Z] => destruct (Z.leb_spec a b)
               end; cbn [negb andb orb]; try reflexivity; lia. }
    destruct (Nat.ltb (length s) (S n1) || Nat.ltb (length (sc_ln Sc) - 1) (length s)) eqn:EG; [reflexivity|].
    apply orb_false_elim in EG. destruct EG as [G1 G2]. apply Nat.ltb_ge in G1, G2.
    replace (S n1 - 1) with n1 by lia.
    destruct (nth_error (sc_ln Sc) (length s)) as [ll|] eqn:ELN.
    2:{ apply nth_error_None in ELN. lia. }
    rewrite (pyindex_in (sc_ln Sc) (zlen s) ll);
      [| unfold zlen; lia | unfold zlen; rewrite Nat2Z.id; exact ELN].
    cbn [bind].
    rewrite ?pyslice_no_lower. rewrite pyslice_prefix by lia. replace (Z.to_nat (Z.of_nat (S n1) - 1)) with n1 by lia.
    destruct (first_level (firstn n1 s) (sc_ip Sc)) as [li|] eqn:EIP; cbn [dict_get bind catch exn_eqb oadd levelZ]; [|reflexivity].
    first
    [ match goal with |- context [mwhile fuel ?c ?b ?i ?k] =>
        rewrite (level_while (fun w => first_level w (sc_cp Sc)) n1 s k (fun cl => Ok (Z.of_nat ll + cl)%Z) c b snd)
          with (r := s) (j := 0) (v := Z.of_nat li);
        [ | intro st; split_state; cbn beta iota zeta; reflexivity
          | intros st v j Hj HK HP; open_step; rewrite window_slice by exact Hj;
            destruct (first_level (firstn (S n1) (skipn j s)) (sc_cp Sc)); cbn [dict_get bind]; [close_step | reflexivity]
          | reflexivity | lia | exact Hf | reflexivity | cbn; lia ] end
    | match goal with |- context [mfor (zrange ?a ?hi) ?b ?i ?k] =>
        rewrite (level_for (fun w => first_level w (sc_cp Sc)) n1 s k (fun cl => Ok (Z.of_nat ll + cl)%Z) b)
          with (r := s) (j := 0) (v := Z.of_nat li);
        [ | intros st v j Hj HK; open_step; rewrite window_slice by exact Hj;
            destruct (first_level (firstn (S n1) (skipn j s)) (sc_cp Sc)); cbn [dict_get bind]; [close_step | reflexivity]
          | reflexivity | lia | lia | reflexivity ] end ].
    rewrite <- s_trans_gen. destruct (s_trans Sc n1 s) as [x|]; cbn [catch exn_eqb oadd levelZ]; [|reflexivity].
    f_equal. lia.
  - (* ngram = -1: no CP line, the first self.cp[...] raises KeyError whatever the string *)
    destruct (sc_cp Sc) as [|x r] eqn:ECP; [|discriminate].
    match goal with |- (if ?c then _ else _) = _ => destruct c eqn:EG0 end; [reflexivity|].
    assert (EG : (Z.of_nat (length s) <= Z.of_nat (length (sc_ln Sc)) - 1)%Z).
    { unfold zlen in EG0. revert EG0.
      repeat match goal with
             | |- context [(?a <? ?b)%Z] => destruct (Z.ltb_spec a b)
             | |- context [(?a <=? ?b)%Z] => destruct (Z.leb_spec a b)
             end; cbn [negb andb orb]; intro; try discriminate; lia. }
    clear EG0.
    destruct (nth_error (sc_ln Sc) (length s)) as [ll|] eqn:ELN.
    2:{ apply nth_error_None in ELN. lia. }
    rewrite (pyindex_in (sc_ln Sc) (zlen s) ll);
      [| unfold zlen; lia | unfold zlen; rewrite Nat2Z.id; exact ELN].
    cbn [bind].
    match goal with |- context [dict_get ?o] => destruct o end; cbn [dict_get bind catch exn_eqb]; [|reflexivity].
    first
    [ destruct fuel as [|fuel]; [lia|]; cbn [mwhile];
      replace (-1 <=? zlen s)%Z with true by (symmetry; apply Z.leb_le; unfold zlen; lia);
      cbn [first_level dict_get bind catch exn_eqb]; reflexivity
    | rewrite zrange_cons by (unfold zlen; lia); cbn [mfor first_level dict_get bind catch exn_eqb]; reflexivity ].
Qed.

(* the scorer as OmenScorer._load_omen builds it from the files the trainer writes *)
Lemma load_s_wf_scorerb T : wf_ttab T -> wf_scorerb (load_s (write T)) = true.
Proof.
  intros (H1 & _ & _ & _ & H5). unfold wf_scorerb, load_s, write. cbn [sc_ngram sc_cp f_cp].
  destruct (write_cp T) as [|[l w] r] eqn:E; [reflexivity|]. cbn [snd].
  assert (Hin : In (l, w) (write_cp T)) by (rewrite E; now left).
  unfold write_cp in Hin. apply in_flat_map in Hin. destruct Hin as (e & He & Hin).
  unfold entry_cp_lines in Hin. apply in_map_iff in Hin. destruct Hin as (cl & Hcl & _).
  inversion Hcl; subst. rewrite app_length. cbn [length]. apply Nat.leb_le. lia.
Qed.

(* C11 over the translated functions: the translated scorer on the files the trainer
   writes returns what the translated find_omen_level returns, for every string *)
Theorem gen_scorer_eq_trainer T s fuel : wf_ttab T -> length s < fuel ->
  py_scorer_parse fuel (load_s (write T)) s = py_find_omen_level fuel T s.
Proof.
  intros WF Hf. rewrite gen_scorer_parse_eq by (try apply load_s_wf_scorerb; assumption).
  rewrite gen_find_omen_level_eq_wf by assumption. now rewrite ol_scorer_eq_trainer.
Qed.

(* the hypotheses are satisfiable and the translated functions run: the witness table of C11 *)
Example gen_level_example :
  wf_ttab T_r9 /\ lvl_wfb T_r9 = true /\ wf_scorerb (load_s (write T_r9)) = true /\
  py_find_omen_level 5 T_r9 [97%N; 98%N] = Ok 1%Z /\
  py_scorer_parse 5 (load_s (write T_r9)) [97%N; 98%N] = Ok 1%Z /\
  py_find_omen_level 5 T_r9 [98%N; 97%N; 98%N; 97%N] = Ok 10%Z /\
  py_scorer_parse 5 (load_s (write T_r9)) [98%N; 97%N; 98%N; 97%N] = Ok 10%Z /\
  py_find_omen_level 5 T_r9 [97%N] = Ok (-1)%Z /\ py_find_omen_level 5 T_r9 [97%N; 97%N] = Ok (-1)%Z /\
  py_scorer_parse 5 (load_s (write T_r9)) [97%N; 97%N] = Ok (-1)%Z /\
  (* a scorer that read an empty CP.level (ngram still -1) parses nothing *)
  py_scorer_parse 5 (mk_scorer None [(0, [])] [] [10; 3; 4]) [97%N] = Ok (-1)%Z.
Proof.
  split; [apply T_r9_wf|]. repeat split; vm_compute; reflexivity.
Qed.

(* the guesser side of C11 over the translated find_omen_level *)
Theorem gen_guesser_iff T : wf_ttab T -> levels_le guesser_max_level T ->
  exists G, load_g (write T) = Some G /\ wf_tables G /\
  forall s L fuel, length s < fuel ->
    (In s (level_strings G (Z.of_nat L)) <-> py_find_omen_level fuel T s = Ok (Z.of_nat L)).
Proof.
  intros WF HL. destruct (ol_guesser_iff T WF HL) as (G & E & W & H). exists G. split; [exact E|]. split; [exact W|].
  intros s L fuel Hf. rewrite gen_find_omen_level_eq_wf by assumption. rewrite H. split.
  - intros ->. reflexivity.
  - intro E'. inversion E' as [E'']. destruct (trainer_level T s) as [x|]; cbn [levelZ] in E''; [f_equal; lia | lia].
Qed.
