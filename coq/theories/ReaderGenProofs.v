(* ReaderGenProofs.v - the training-file reader translated from the Python text
   (gen/Reader_gen.v, regenerated on every run by harness/translate_reader.py)
   equals the hand-written model of Reader.v:

     py_check_valid p = check_valid check_valid_rejected check_valid_rejects_empty p
     run_reader (py_read_password ENV fuel) (py_init name cd prefix <the codecs lines of text>)
       = Some (read_text (cfgR (cd_dec cd) (cd_encb cd) prefix) text)

   for every text, codec oracle, --prefixcount setting and every fuel above the
   number of lines: the generator ends normally, never out of fuel, having
   yielded exactly the model's passwords and with the model's two counters.
   The proofs run the generated text symbolically (case analysis on whatever
   condition is next, normalised to the form the model tests), capture the loop
   conditions and bodies from the goal, and find the local that holds the line
   being read / the value yielded by what the code does with it (with_proj)
   rather than by its name or its position among the locals: they do not depend
   on the names, number or order of the locals, on comments or formatting, on
   `x += e` vs `x = x + e`, `not s` vs `s == ''`, merged or nested ifs, or on the
   order of independent tests.

   Parts: runtime facts - check_valid - re-joining the pieces of a line (glue,
   pure lists) - the line-level meaning of one run (Rd) and the two loops for
   any frame (glue_loop, read_loop) - read_password_spec (the symbolic run) -
   the instantiation at the file a text decodes to. *)
From Coq Require Import List NArith ZArith Bool Lia.
From Pcfg Require Import TextFile Reader TextFileProofs ReaderProofs IoCorr IoFacts ReaderRt.
From PcfgGen Require Import Consts_gen Reader_gen.
Import ListNotations.
Open Scope N_scope.

(* ================================================================ runtime facts *)

Lemma substr_single c : forall p, substr [c] p = memN c p.
Proof.
  induction p as [|y p IH]; [reflexivity|].
  cbn [substr starts_with memN existsb]. rewrite IH. unfold memN.
  destruct (N.eqb c y); reflexivity.
Qed.

Lemma memN_In c l : memN c l = true <-> In c l.
Proof.
  unfold memN. rewrite existsb_exists. split.
  - intros [x [Hx E]]. apply N.eqb_eq in E. subst. exact Hx.
  - intro H. exists c. split; [exact H | apply N.eqb_refl].
Qed.

(* two literal code point sets are the same class *)
Lemma memN_same l1 l2 : forallb (fun c => memN c l2) l1 && forallb (fun c => memN c l1) l2 = true ->
  forall c, memN c l1 = memN c l2.
Proof.
  intros H c. apply andb_true_iff in H. destruct H as [H1 H2]. rewrite forallb_forall in H1, H2.
  destruct (memN c l1) eqn:E1, (memN c l2) eqn:E2; try reflexivity.
  - apply memN_In in E1. rewrite (H1 c E1) in E2. discriminate.
  - apply memN_In in E2. rewrite (H2 c E2) in E1. discriminate.
Qed.

Lemma dropwhile_ext f g : (forall c, f c = g c) -> forall s, dropwhile f s = dropwhile g s.
Proof. intros H s. induction s as [|c s IH]; [reflexivity|]. simpl. rewrite H, IH. reflexivity. Qed.

Lemma rstrip_ext f g : (forall c, f c = g c) -> forall s, rstrip f s = rstrip g s.
Proof. intros H s. unfold rstrip. rewrite (dropwhile_ext f g H). reflexivity. Qed.

Lemma is_crlf_mem c : is_crlf c = memN c [CR; LF].
Proof. unfold is_crlf, memN. simpl. rewrite orb_false_r, (N.eqb_sym c CR), (N.eqb_sym c LF). reflexivity. Qed.

Lemma str_eqb_nil_r s : str_eqb s [] = is_nil s.
Proof. destruct s; reflexivity. Qed.

Lemma nonempty_is_nil {X} (l : list X) : nonempty l = negb (is_nil l).
Proof. destruct l; reflexivity. Qed.

Lemma zlen_app1 {X} (l : list X) (x : X) : zlen (l ++ [x]) = (zlen l + 1)%Z.
Proof. unfold zlen. rewrite app_length. simpl. lia. Qed.

Lemma pyindex_last {X} (l : list X) (x : X) : pyindex (l ++ [x]) (-1)%Z = Val x.
Proof.
  unfold pyindex. rewrite zlen_app1. change ((-1 <? 0)%Z) with true. cbv iota.
  assert (H0 : (0 <= zlen l)%Z) by (unfold zlen; lia).
  replace ((-1 + (zlen l + 1) <? 0)%Z) with false by (symmetry; apply Z.ltb_ge; lia).
  replace ((zlen l + 1 <=? -1 + (zlen l + 1))%Z) with false by (symmetry; apply Z.leb_gt; lia).
  simpl orb. cbv iota.
  replace (Z.to_nat (-1 + (zlen l + 1))) with (length l) by (unfold zlen; lia).
  rewrite nth_error_app2 by lia. rewrite Nat.sub_diag. reflexivity.
Qed.

Lemma pystr_index_last l c : pystr_index (l ++ [c]) (-1)%Z = Val [c].
Proof. unfold pystr_index. rewrite pyindex_last. reflexivity. Qed.

Lemma pyindex_0_cons {X} (x : X) l : pyindex (x :: l) 0%Z = Val x.
Proof.
  unfold pyindex. change ((0 <? 0)%Z) with false. cbv iota.
  replace ((zlen (x :: l) <=? 0)%Z) with false; [reflexivity|].
  symmetry. apply Z.leb_gt. unfold zlen. simpl length. lia.
Qed.

Lemma pyslice_1_cons {X} (x : X) l : pyslice (x :: l) (Some 1%Z) None = l.
Proof.
  unfold pyslice, slice_bound. change ((1 <? 0)%Z) with false. cbv iota.
  assert (H : (1 <= zlen (x :: l))%Z) by (unfold zlen; simpl length; lia).
  rewrite Z.min_l by exact H. change (Z.to_nat 1) with 1%nat. cbn [skipn].
  replace (Z.to_nat (zlen (x :: l) - 1)) with (length l) by (unfold zlen; simpl length; lia).
  apply firstn_all.
Qed.

Lemma removelast_firstn_len {X} (l : list X) : removelast l = firstn (length l - 1) l.
Proof.
  destruct l as [|x l] using rev_ind; [reflexivity|].
  rewrite removelast_last, app_length. simpl. replace (length l + 1 - 1)%nat with (length l) by lia.
  rewrite firstn_app, Nat.sub_diag, firstn_all. simpl. rewrite app_nil_r. reflexivity.
Qed.

(* s[5:-1] *)
Lemma pyslice_5_m1 (s : str) : pyslice s (Some 5%Z) (Some (-1)%Z) = hex_payload s.
Proof.
  unfold pyslice, slice_bound, hex_payload. change ((5 <? 0)%Z) with false. change ((-1 <? 0)%Z) with true. cbv iota.
  rewrite removelast_firstn_len, skipn_length.
  assert (H0 : (0 <= zlen s)%Z) by (unfold zlen; lia).
  destruct (Z_le_gt_dec 5 (zlen s)) as [H|H].
  - rewrite Z.min_l by exact H. change (Z.to_nat 5) with 5%nat. f_equal. unfold zlen in *. lia.
  - rewrite Z.min_r by lia. rewrite (skipn_all2 (n := 5) s) by (unfold zlen in *; lia).
    rewrite (skipn_all2 (n := Z.to_nat (zlen s)) s) by (unfold zlen in *; lia). rewrite !firstn_nil. reflexivity.
Qed.

Lemma zrange_length a b : length (zrange a b) = Z.to_nat (b - a).
Proof. unfold zrange. rewrite map_length, seq_length. reflexivity. Qed.

(* ================================================================ check_valid *)

Lemma cv_reject rej re p c : memN c p = true -> memN c rej = true -> check_valid rej re p = false.
Proof.
  intros Hp Hr. unfold check_valid. apply andb_false_iff. right.
  destruct (forallb (fun c0 => negb (memN c0 rej)) p) eqn:E; [|reflexivity].
  rewrite forallb_forall in E. apply memN_In in Hp. specialize (E c Hp). rewrite Hr in E. discriminate.
Qed.

Lemma cv_accept rej re p : negb (re && is_nil p) = true -> (forall c, In c rej -> memN c p = false) ->
  check_valid rej re p = true.
Proof.
  intros H0 H. unfold check_valid. rewrite H0. simpl. apply forallb_forall. intros c Hc.
  destruct (memN c rej) eqn:E; [|reflexivity]. apply memN_In in E. specialize (H c E).
  apply memN_In in Hc. rewrite Hc in H. discriminate.
Qed.

(* constant ranges become literal lists *)
Ltac eval_ranges :=
  repeat match goal with
         | |- context [zrange ?a ?b] => let l := eval vm_compute in (zrange a b) in change (zrange a b) with l
         end.

(* one test of the cascade: on the characters of p *)
Ltac cv_step p R :=
  cbn [orb andb negb]; cbv iota;
  match goal with
  | |- context [memN ?c p] =>
      let E := fresh "E" in
      destruct (memN c p) eqn:E;
      [ cbn [orb andb negb]; cbv iota; try (subst R; symmetry; apply (cv_reject _ _ p c E); vm_compute; reflexivity) | ]
  end.

(* the translated check_valid is the model's check_valid on the rejected code
   points the constants plugin extracts from the same source *)
Theorem py_check_valid_is_model : forall p,
  py_check_valid p = check_valid check_valid_rejected check_valid_rejects_empty p.
Proof.
  intro p. destruct p as [|c0 p0]; [vm_compute; reflexivity|].
  unfold py_check_valid. eval_ranges.
  cbv [py_chr]. cbn [pfor existsb forallb Z.to_N]. rewrite ?substr_single.
  replace (Z.eqb (zlen (c0 :: p0)) 0) with false by (symmetry; apply Z.eqb_neq; unfold zlen; simpl length; lia).
  cbn [nonempty negb].
  set (p := c0 :: p0). set (R := check_valid check_valid_rejected check_valid_rejects_empty p).
  repeat cv_step p R.
  cbn [orb andb negb]; cbv iota.
  subst R. symmetry. apply cv_accept.
  - subst p. rewrite andb_false_r. reflexivity.
  - intros c Hc. unfold check_valid_rejected in Hc. cbn [In] in Hc.
    repeat (destruct Hc as [Hc|Hc]; [subst c; assumption|]). contradiction.
Qed.

(* ================================================================ re-joining the pieces of a line *)

(* read_password re-joins what codecs readline split at a code point other than
   a line end of the class [ec] ('\r\n' in the source).  [glue] is that on the
   list of pieces; applied to the codecs lines of a text (split at the class lb
   of every str.splitlines break) it gives the lines that end at [ec] only. *)
Section Glue.
  Variable ec : N -> bool.

  Definition ends_ec (l : str) : bool := match rev l with c :: _ => ec c | [] => false end.

  Fixpoint glue (ls : list str) : list str :=
    match ls with
    | [] => []
    | l :: r => if ends_ec l then l :: glue r
                else match glue r with [] => [l] | g :: gs => (l ++ g) :: gs end
    end.

  (* what the re-joining loop does to the password [l] with the pieces [r] still in the file *)
  Fixpoint absorb_l (l : str) (r : list str) : str * list str :=
    if ends_ec l then (l, r)
    else match r with
         | [] => (l, [])
         | m :: r' => absorb_l (l ++ m) r'
         end.

  Lemma ends_ec_last (l : str) c : ends_ec (l ++ [c]) = ec c.
  Proof. unfold ends_ec. rewrite rev_unit. reflexivity. Qed.

  Lemma ends_ec_app (l m : str) : m <> [] -> ends_ec (l ++ m) = ends_ec m.
  Proof.
    intro H. destruct m as [|x m] using rev_ind; [contradiction|].
    rewrite app_assoc, !ends_ec_last. reflexivity.
  Qed.

  Lemma ends_ec_cons c (l : str) : l <> [] -> ends_ec (c :: l) = ends_ec l.
  Proof. intro H. apply (ends_ec_app [c] l H). Qed.

  Lemma glue_nil_iff (ls : list str) : glue ls = [] <-> ls = [].
  Proof.
    split; [|intro; subst; reflexivity]. destruct ls as [|l r]; [reflexivity|]. simpl.
    destruct (ends_ec l); [discriminate|]. destruct (glue r); discriminate.
  Qed.

  Lemma glue_merge (l m : str) (r : list str) : ends_ec l = false -> m <> [] -> glue (l :: m :: r) = glue ((l ++ m) :: r).
  Proof.
    intros Hl Hm. cbn [glue]. rewrite Hl, (ends_ec_app l m Hm).
    destruct (ends_ec m); [reflexivity|]. destruct (glue r); [reflexivity|]. rewrite app_assoc. reflexivity.
  Qed.

  Lemma glue_absorb : forall (r : list str) (l : str), Forall (fun m : str => m <> []) r ->
    glue (l :: r) = fst (absorb_l l r) :: glue (snd (absorb_l l r)) /\ (length (snd (absorb_l l r)) <= length r)%nat.
  Proof.
    induction r as [|m r IH]; intros l Hr.
    - cbn [absorb_l glue]. destruct (ends_ec l); cbn [fst snd glue]; split; (reflexivity || (simpl; lia)).
    - destruct (ends_ec l) eqn:El.
      + cbn [absorb_l]. rewrite El. cbn [fst snd]. split; [|apply le_n]. cbn [glue]. rewrite El. reflexivity.
      + pose proof (Forall_inv Hr) as Hm. pose proof (Forall_inv_tail Hr) as Hr'. cbv beta in Hm.
        rewrite (glue_merge l m r El Hm).
        cbn [absorb_l]. rewrite El. destruct (IH (l ++ m) Hr') as [E L]. split; [exact E | simpl; apply le_S; exact L].
  Qed.

  (* the pieces codecs readline delivers *)
  Variable lb : N -> bool.
  Hypothesis ec_lb : forall c, ec c = true -> lb c = true.

  Lemma lines_keep_nil_iff (f : N -> bool) (s : str) : lines_keep f s = [] <-> s = [].
  Proof.
    split; [|intro; subst; reflexivity]. destruct s as [|c r]; [reflexivity|]. simpl.
    destruct (ends_line f c r); [discriminate|]. destruct (lines_keep f r); discriminate.
  Qed.

  Lemma lines_keep_pieces_nonempty (f : N -> bool) : forall s : str, Forall (fun m : str => m <> []) (lines_keep f s).
  Proof.
    induction s as [|c r IH]; [constructor|]. simpl. destruct (ends_line f c r).
    - constructor; [discriminate | exact IH].
    - destruct (lines_keep f r) as [|l ls]; simpl.
      + constructor; [discriminate | constructor].
      + inversion IH; subst. constructor; [discriminate | assumption].
  Qed.

  Lemma lines_keep_length (f : N -> bool) : forall s : str, (length (lines_keep f s) <= length s)%nat.
  Proof.
    induction s as [|c r IH]; [reflexivity|]. simpl. destruct (ends_line f c r); simpl; [lia|].
    destruct (lines_keep f r); simpl in *; lia.
  Qed.

  Theorem glue_lines_keep : forall s : str, glue (lines_keep lb s) = lines_keep ec s.
  Proof.
    induction s as [|c r IH]; [reflexivity|]. cbn [lines_keep].
    destruct (ends_line ec c r) eqn:Eec.
    - (* a line end of the reader: also a break of the codec *)
      assert (Hc : ec c = true) by (unfold ends_line in Eec; apply andb_true_iff in Eec; tauto).
      assert (Elb : ends_line lb c r = true).
      { unfold ends_line in *. rewrite (ec_lb c Hc). rewrite Hc in Eec. exact Eec. }
      rewrite Elb. cbn [glue]. change (ends_ec [c]) with (ec c). rewrite Hc, IH. reflexivity.
    - destruct (ends_line lb c r) eqn:Elb.
      + (* the codec breaks here, the reader does not: the piece [c] is glued to what follows *)
        assert (Hc : ec c = false).
        { unfold ends_line in *. destruct (ec c); [|reflexivity]. destruct (lb c); [|discriminate].
          simpl in *. rewrite Eec in Elb. discriminate. }
        cbn [glue]. change (ends_ec [c]) with (ec c). rewrite Hc, IH.
        destruct (lines_keep ec r); reflexivity.
      + (* no break *)
        destruct (lines_keep lb r) as [|l ls] eqn:EL.
        * apply lines_keep_nil_iff in EL. subst r. cbn [cons_first glue lines_keep].
          change (ends_ec [c]) with (ec c). destruct (ec c); reflexivity.
        * assert (Hl : l <> []).
          { pose proof (lines_keep_pieces_nonempty lb r) as HF. rewrite EL in HF. inversion HF; assumption. }
          cbn [cons_first]. rewrite <- IH. cbn [glue]. rewrite (ends_ec_cons c l Hl).
          destruct (ends_ec l); [reflexivity|]. destruct (glue ls); reflexivity.
  Qed.
End Glue.

(* ================================================================ what one run of the generator does, line by line *)

Definition proj (s : robj) : rout :=
  {| out := o_yielded s; npw := o_num_passwords s; nerr := o_num_encoding_errors s |}.

(* the generator appends to what was yielded and adds to the counters *)
Definition app_line (o : rout) (r : lres) : rout :=
  match r with
  | Yield p n => {| out := out o ++ repeat p (Z.to_nat n); npw := (npw o + n)%Z; nerr := nerr o |}
  | SkipErr n => {| out := out o; npw := npw o; nerr := (nerr o + n)%Z |}
  | Skip => o
  end.

Definition add_err (o : rout) (n : Z) : rout := {| out := out o; npw := npw o; nerr := (nerr o + n)%Z |}.

Definition app_rout (a b : rout) : rout :=
  {| out := out a ++ out b; npw := (npw a + npw b)%Z; nerr := (nerr a + nerr b)%Z |}.

Lemma rout_ext (a b : rout) : out a = out b -> npw a = npw b -> nerr a = nerr b -> a = b.
Proof. destruct a, b. simpl. intros; subst; reflexivity. Qed.

Lemma set_file_id s : set_file (o_file s) s = s.
Proof. destruct s; reflexivity. Qed.

Section Spec.
  Variable ec : N -> bool.     (* where the reader ends a line *)
  Variable C : rcfg.

  (* the re-joining loop on the file object: the password so far, the calls of
     readline still to come -> the password after the loop, what is left *)
  Fixpoint absorb (l : str) (r : list rline) : str * list rline :=
    if is_nil l || ends_ec ec l then (l, r)
    else match r with
         | [] => (l, [])
         | RErr :: r' => (l, r')
         | RLine m :: r' => if is_nil m then (l, r') else absorb (l ++ m) r'
         end.

  Lemma absorb_length : forall r l, (length (snd (absorb l r)) <= length r)%nat.
  Proof.
    induction r as [|x r IH]; intro l; cbn [absorb].
    - destruct (is_nil l || ends_ec ec l); apply le_n.
    - destruct (is_nil l || ends_ec ec l); [apply le_n|].
      destruct x as [m|]; [|simpl; apply le_S, le_n].
      destruct (is_nil m); [simpl; apply le_S, le_n|]. simpl. apply le_S. apply IH.
  Qed.

  (* [Rd file acc fin]: reading the calls [file] of readline from the totals
     [acc] ends with the totals [fin] *)
  Inductive Rd : list rline -> rout -> rout -> Prop :=
  | Rd_eof acc : Rd [] acc acc
  | Rd_err r acc fin : Rd r (add_err acc 1) fin -> Rd (RErr :: r) acc fin
  | Rd_empty l r acc : is_nil (fst (absorb l r)) = true -> Rd (RLine l :: r) acc acc
  | Rd_line l r acc fin : is_nil (fst (absorb l r)) = false ->
      Rd (snd (absorb l r)) (app_line acc (read_line C (fst (absorb l r)))) fin -> Rd (RLine l :: r) acc fin.

  (* ---------------------------------------------------------------- the two loops, for any frame layout *)

  Lemma glue_loop {F} (getp : F -> str) (cond : F -> M bool) (body : F -> M (ctl F unit)) :
    (forall f s, cond f s = Ok (nonempty (getp f) && negb (ends_ec ec (getp f))) s) ->
    (forall f s, match o_file s with
                 | [] => exists f', body f s = Ok (Break f') s /\ getp f' = getp f
                 | RErr :: r => exists f', body f s = Ok (Break f') (set_file r s) /\ getp f' = getp f
                 | RLine m :: r =>
                     if is_nil m then exists f', body f s = Ok (Break f') (set_file r s) /\ getp f' = getp f
                     else exists f', body f s = Ok (Normal f') (set_file r s) /\ getp f' = getp f ++ m
                 end) ->
    forall fuel f s, (length (o_file s) < fuel)%nat ->
      exists f', rwhile fuel cond body f s = Ok (Normal f') (set_file (snd (absorb (getp f) (o_file s))) s)
                 /\ getp f' = fst (absorb (getp f) (o_file s)).
  Proof.
    intros Hc Hb. induction fuel as [|k IH]; intros f s Hlen; [inversion Hlen|].
    cbn [rwhile]. unfold bind at 1. rewrite Hc.
    destruct (nonempty (getp f) && negb (ends_ec ec (getp f))) eqn:Ec.
    - assert (Ea : is_nil (getp f) || ends_ec ec (getp f) = false).
      { rewrite nonempty_is_nil in Ec. destruct (is_nil (getp f)), (ends_ec ec (getp f)); simpl in *; congruence. }
      unfold bind at 1. specialize (Hb f s).
      destruct (o_file s) as [|[m|] r] eqn:Ef; cbn [absorb]; rewrite Ea.
      + destruct Hb as (f' & Eb & Eg). rewrite Eb. exists f'. cbn [snd fst ret]. rewrite <- Ef, set_file_id.
        split; [reflexivity | exact Eg].
      + destruct (is_nil m) eqn:Em.
        * destruct Hb as (f' & Eb & Eg). rewrite Eb. exists f'. cbn [snd fst ret]. split; [reflexivity | exact Eg].
        * destruct Hb as (f1 & Eb & Eg). rewrite Eb.
          destruct (IH f1 (set_file r s)) as [f' [E1 E2]].
          { cbn [o_file set_file]. simpl in Hlen. apply Nat.succ_lt_mono. exact Hlen. }
          exists f'. rewrite Eg in E1, E2. cbn [o_file set_file] in E1, E2. split; [exact E1 | exact E2].
      + destruct Hb as (f' & Eb & Eg). rewrite Eb. exists f'. cbn [snd fst ret]. split; [reflexivity | exact Eg].
    - assert (Ea : is_nil (getp f) || ends_ec ec (getp f) = true).
      { rewrite nonempty_is_nil in Ec. destruct (is_nil (getp f)), (ends_ec ec (getp f)); simpl in *; congruence. }
      exists f. destruct (o_file s) as [|x r] eqn:Ef; cbn [absorb]; rewrite Ea; cbn [snd fst ret];
        rewrite <- Ef, set_file_id; split; reflexivity.
  Qed.

  Definition step_done {F} (r : res (ctl F unit)) (P : robj -> Prop) : Prop :=
    match r with Ok (Normal _) s' | Ok (Continue _) s' => P s' | _ => False end.
  Definition step_ret {F} (r : res (ctl F unit)) (P : robj -> Prop) : Prop :=
    match r with Ok (Return _) s' => P s' | _ => False end.

  Lemma read_loop {F} (I : robj -> Prop) (cond : F -> M bool) (body : F -> M (ctl F unit)) :
    (forall f s, cond f s = Ok true s) ->
    (forall f s, I s -> o_file s = [] -> step_ret (body f s) (fun s' => proj s' = proj s)) ->
    (forall f s r, I s -> o_file s = RErr :: r ->
        step_done (body f s) (fun s' => I s' /\ o_file s' = r /\ proj s' = add_err (proj s) 1)) ->
    (forall f s l r, I s -> o_file s = RLine l :: r ->
        if is_nil (fst (absorb l r)) then step_ret (body f s) (fun s' => proj s' = proj s)
        else step_done (body f s) (fun s' => I s' /\ o_file s' = snd (absorb l r) /\
                                             proj s' = app_line (proj s) (read_line C (fst (absorb l r))))) ->
    forall fuel f s fin, I s -> (length (o_file s) < fuel)%nat -> Rd (o_file s) (proj s) fin ->
      exists s', rwhile fuel cond body f s = Ok (Return tt) s' /\ proj s' = fin.
  Proof.
    intros Hc Heof Herr Hline. induction fuel as [|k IH]; intros f s fin HI Hlen HR; [inversion Hlen|].
    cbn [rwhile]. unfold bind at 1. rewrite Hc. unfold bind at 1.
    inversion HR as [acc E1 E2 | r acc fin' HR' E1 E2 | l r acc Hn E1 E2 | l r acc fin' Hn HR' E1 E2]; subst.
    - specialize (Heof f s HI (eq_sym E1)). unfold step_ret in Heof.
      destruct (body f s) as [[?|?|?|v] s'|]; try contradiction. destruct v. exists s'. split; [reflexivity | exact Heof].
    - specialize (Herr f s r HI (eq_sym E1)). unfold step_done in Herr.
      destruct (body f s) as [[f'|f'|?|?] s'|]; try contradiction; destruct Herr as (HI' & Ef & Ep);
        (apply IH; [exact HI' | rewrite Ef; rewrite <- E1 in Hlen; simpl in Hlen; apply Nat.succ_lt_mono; exact Hlen
                   | rewrite Ef, Ep; exact HR']).
    - specialize (Hline f s l r HI (eq_sym E1)). rewrite Hn in Hline. unfold step_ret in Hline.
      destruct (body f s) as [[?|?|?|v] s'|]; try contradiction. destruct v. exists s'. split; [reflexivity | exact Hline].
    - specialize (Hline f s l r HI (eq_sym E1)). rewrite Hn in Hline. unfold step_done in Hline.
      pose proof (absorb_length r l) as Hal.
      destruct (body f s) as [[f'|f'|?|?] s'|]; try contradiction; destruct Hline as (HI' & Ef & Ep);
        (apply IH; [exact HI'
                   | rewrite Ef; rewrite <- E1 in Hlen; simpl in Hlen; eapply Nat.le_lt_trans; [exact Hal | apply Nat.succ_lt_mono; exact Hlen]
                   | rewrite Ef, Ep; exact HR']).
  Qed.

  (* ---------------------------------------------------------------- a file without decoding errors *)

  Lemma absorb_l_nonempty : forall (r : list str) (l : str), l <> [] -> fst (absorb_l ec l r) <> [].
  Proof.
    induction r as [|m r IH]; intros l Hl; cbn [absorb_l]; destruct (ends_ec ec l); cbn [fst]; try exact Hl.
    apply IH. destruct l; [contradiction | discriminate].
  Qed.

  Lemma absorb_l_forall (P : str -> Prop) : forall (r : list str) (l : str), Forall P r -> Forall P (snd (absorb_l ec l r)).
  Proof.
    induction r as [|m r IH]; intros l H; cbn [absorb_l]; destruct (ends_ec ec l); cbn [snd]; try exact H.
    apply IH. exact (Forall_inv_tail H).
  Qed.

  Lemma absorb_map : forall (r : list str) (l : str), l <> [] -> Forall (fun m : str => m <> []) r ->
    absorb l (map RLine r) = (fst (absorb_l ec l r), map RLine (snd (absorb_l ec l r))).
  Proof.
    induction r as [|m r IH]; intros l Hl Hr; cbn [absorb absorb_l map].
    - destruct l as [|c l]; [contradiction|]. cbn [is_nil orb]. destruct (ends_ec ec (c :: l)); reflexivity.
    - destruct l as [|c l]; [contradiction|]. cbn [is_nil orb]. destruct (ends_ec ec (c :: l)); [reflexivity|].
      pose proof (Forall_inv Hr) as Hm. cbv beta in Hm. destruct m as [|d m]; [contradiction|]. cbn [is_nil].
      apply IH; [discriminate | exact (Forall_inv_tail Hr)].
  Qed.

  Lemma app_rout_line acc ρ rest :
    app_rout (app_line acc ρ) rest =
    app_rout acc match ρ with
                 | Yield p n => {| out := repeat p (Z.to_nat n) ++ out rest; npw := (n + npw rest)%Z; nerr := nerr rest |}
                 | SkipErr n => {| out := out rest; npw := npw rest; nerr := (n + nerr rest)%Z |}
                 | Skip => rest
                 end.
  Proof.
    destruct ρ as [p n|n|]; unfold app_rout, app_line; cbn [out npw nerr]; try reflexivity;
      apply rout_ext; cbn [out npw nerr]; rewrite <- ?app_assoc, ?Z.add_assoc; reflexivity.
  Qed.

  Lemma Rd_pieces : forall n (ps : list str), (length ps <= n)%nat -> Forall (fun m : str => m <> []) ps ->
    forall acc, Rd (map RLine ps) acc (app_rout acc (read_lines C (glue ec ps))).
  Proof.
    induction n as [|n IH]; intros ps Hn Hps acc.
    - destruct ps; [|inversion Hn]. cbn. replace (app_rout acc _) with acc; [constructor|].
      apply rout_ext; cbn; rewrite ?app_nil_r, ?Z.add_0_r; reflexivity.
    - destruct ps as [|l r].
      + cbn. replace (app_rout acc _) with acc; [constructor|].
        apply rout_ext; cbn; rewrite ?app_nil_r, ?Z.add_0_r; reflexivity.
      + pose proof (Forall_inv Hps) as Hl. cbv beta in Hl. pose proof (Forall_inv_tail Hps) as Hr.
        destruct (glue_absorb ec r l Hr) as [Eg Hlen]. rewrite Eg. cbn [map].
        pose proof (absorb_map r l Hl Hr) as Ea.
        apply Rd_line.
        * rewrite Ea. cbn [fst]. pose proof (absorb_l_nonempty r l Hl) as Hne.
          destruct (fst (absorb_l ec l r)); [contradiction | reflexivity].
        * rewrite Ea. cbn [fst snd]. cbn [read_lines]. rewrite <- app_rout_line.
          apply IH; [simpl in Hn; lia | apply absorb_l_forall; exact Hr].
  Qed.
End Spec.

(* ================================================================ read_password *)

(* the interpreter's code point classes, probed on every run (gen/Consts_gen.v) *)
Definition ENV : pyenv := {| e_ws := WS; e_iws := IWS; e_dz := DZ |}.

Definition rinv (cd : codec) (prefix : bool) (fuel : nat) (s : robj) : Prop :=
  o_prefixcount s = prefix /\ o_encoding s = cd /\ (length (o_file s) < fuel)%nat.

Ltac rt_unfold :=
  cbv beta iota zeta delta
    [bind ret raise lift getf modf try_catch on_normal fn_end file_readline file_close yield_ exn_is exn_reason
     o_encoding o_filename o_file o_num_encoding_errors o_num_passwords o_duplicates_found o_duplicate_detection
     o_num_to_look_for_duplicates o_prefixcount o_yielded
     set_encoding set_filename set_file set_num_encoding_errors set_num_passwords set_duplicates_found
     set_duplicate_detection set_num_to_look_for_duplicates set_prefixcount set_yielded
     py_int py_fromhex py_decode py_encode_check Bool.eqb negb].

Ltac destruct_scrut :=
  match goal with
  | |- context [match ?x with _ => _ end] =>
      lazymatch x with
      | context [match _ with _ => _ end] => fail
      | _ => let E := fresh "E" in destruct x eqn:E; try discriminate E
      end
  end.

Ltac rt_unfold_in H :=
  cbv beta iota zeta delta
    [bind ret raise lift getf modf try_catch on_normal fn_end file_readline file_close yield_ exn_is exn_reason
     o_encoding o_filename o_file o_num_encoding_errors o_num_passwords o_duplicates_found o_duplicate_detection
     o_num_to_look_for_duplicates o_prefixcount o_yielded
     set_encoding set_filename set_file set_num_encoding_errors set_num_passwords set_duplicates_found
     set_duplicate_detection set_num_to_look_for_duplicates set_prefixcount set_yielded
     py_int py_fromhex py_decode py_encode_check Bool.eqb negb] in H.

(* the locals of a function travel as one tuple: split every tuple in the context into its components *)
Ltac destruct_pairs := repeat match goal with x : (_ * _)%type |- _ => destruct x end.

(* [with_proj F T proj tac]: runs [tac] on the projections F -> _ to the components of the tuple type T
   (reached from F by [proj]), rightmost first, until one succeeds - the proofs find the local that plays a
   given role (the line being read, the value yielded) by what the code does with it, not by its position *)
Ltac with_proj F T proj tac :=
  lazymatch T with
  | (?A * ?B)%type =>
      first [ tac constr:(fun f : F => snd (proj f)) | with_proj F A constr:(fun f : F => fst (proj f)) tac ]
  | _ => tac proj
  end.

Ltac use_inner INNER IL :=
  match goal with
  | |- context [IL ?f ?st] =>
      let f' := fresh "f'" in
      let E1 := fresh "E1" in
      let E2 := fresh "E2" in
      destruct (INNER f st) as (f' & E1 & E2);
      [ simpl; simpl in *; lia
      | rewrite E1; clear E1; destruct_pairs; rt_unfold; cbn [fst snd]; rt_unfold_in E2; cbn [fst snd] in E2 ]
  end.

Lemma split_on_cons sep s : exists a b, split_on sep s = a :: b.
Proof. destruct (split_on sep s) eqn:E; [exfalso; exact (split_on_nonempty sep s E) | eauto]. Qed.

Lemma set_yielded_id s : set_yielded (o_yielded s) s = s.
Proof. destruct s; reflexivity. Qed.

Lemma rfor_yield_done {X F} (body : X -> F -> M (ctl F unit)) (gety : F -> str) :
  (forall x f s, match body x f s with
                 | Ok (Normal f') s' => s' = set_yielded (o_yielded s ++ [gety f]) s /\ gety f' = gety f
                 | _ => False
                 end) ->
  forall (l : list X) f s (P : robj -> Prop), P (set_yielded (o_yielded s ++ repeat (gety f) (length l)) s) ->
  step_done (rfor l body f s) P.
Proof.
  intros Hb. induction l as [|x l IH]; intros f s P HP.
  - cbn in *. rewrite app_nil_r, set_yielded_id in HP. exact HP.
  - cbn [rfor]. unfold bind at 1. specialize (Hb x f s).
    destruct (body x f s) as [[f'|?|?|?] s1|]; try contradiction. destruct Hb as [Hs Hg]. subst s1.
    apply IH. rewrite Hg. cbn [length repeat] in HP. cbn [o_yielded set_yielded]. rewrite <- app_assoc. exact HP.
Qed.

Lemma bind_ok {A B} (m : M A) (f : A -> M B) s a s' : m s = Ok a s' -> bind m f s = f a s'.
Proof. intro H. unfold bind. rewrite H. reflexivity. Qed.

Lemma try_catch_ok {A} (m : M A) c h s a s' : m s = Ok a s' -> try_catch m c h s = Ok a s'.
Proof. intro H. unfold try_catch. rewrite H. reflexivity. Qed.

(* s[-1] not in '<the reader's line ends>' *)
Ltac to_LBR :=
  match goal with
  | |- context [memN ?y ?L] =>
      replace (memN y L) with (LBR y) by (unfold LBR; apply memN_same; vm_compute; reflexivity)
  end.

Ltac normalise := rewrite ?pyslice_5_m1, ?py_check_valid_is_model, ?str_eqb_nil_r, ?nonempty_is_nil.

(* the generator, run on any object whose file yields the calls [o_file s] of readline *)
Theorem read_password_spec : forall cd prefix s fin fuel,
  rinv cd prefix fuel s ->
  Rd LBR (cfgR (cd_dec cd) (cd_encb cd) prefix) (o_file s) (proj s) fin ->
  run_reader (py_read_password ENV fuel) s = Some fin.
Proof.
  intros cd prefix s fin fuel HI HR.
  unfold run_reader, py_read_password.
  (* the re-joining loop: the loop without a loop inside *)
  match goal with
  | |- context [@rwhile ?F ?R ?fu ?cnd ?bdy] =>
      lazymatch bdy with context [@rwhile] => fail | _ => idtac end;
      with_proj F F constr:(fun f : F => f) ltac:(fun getp =>
        assert (INNER : forall f s, (length (o_file s) < fu)%nat ->
                  exists f', rwhile fu cnd bdy f s = Ok (Normal f') (set_file (snd (absorb LBR (getp f) (o_file s))) s)
                             /\ getp f' = fst (absorb LBR (getp f) (o_file s)));
        [ apply (glue_loop LBR getp cnd bdy);
          [ intros f0 s0; destruct_pairs; rt_unfold; cbn [fst snd];
            match goal with
            | |- context [nonempty ?p] =>
                destruct p as [|y p'] using rev_ind;
                [ reflexivity
                | clear IHp'; rewrite ?pystr_index_last, ?substr_single, ?ends_ec_last; to_LBR;
                  destruct (p' ++ [y]) eqn:Ep; [destruct p'; discriminate | reflexivity] ]
            end
          | intros f0 s0; destruct_pairs; destruct s0; rt_unfold; cbn [fst snd];
            repeat (normalise; destruct_scrut; rt_unfold);
            eexists; split; reflexivity ]
        | ]);
      set (IL := @rwhile F R fu cnd bdy) in *; clearbody IL
  end.
  set (C := cfgR (cd_dec cd) (cd_encb cd) prefix) in *.
  (* the reading loop *)
  match goal with
  | |- context [@rwhile ?F ?R ?fu ?cnd ?bdy ?f0] =>
      assert (OUTER := read_loop LBR C (rinv cd prefix fuel) cnd bdy)
  end.
  match type of OUTER with (?A -> ?B -> ?D -> ?G -> _) =>
    assert (H1 : A); [ intros f0 s0; destruct_pairs; reflexivity | ];
    assert (H2 : B);
    [ intros f0 s0 (Hp & He & Hl) Hf; destruct_pairs; destruct s0; cbn in Hp, He, Hl, Hf; subst; rt_unfold;
      use_inner INNER IL; cbn [absorb is_nil orb fst snd] in E2; subst; cbn [str_eqb]; rt_unfold; reflexivity
    | ];
    assert (H3 : D);
    [ intros f0 s0 r (Hp & He & Hl) Hf; destruct_pairs; destruct s0; cbn in Hp, He, Hl, Hf; subst; rt_unfold;
      repeat split; simpl; simpl in Hl; lia
    | ];
    assert (H4 : G);
    [ intros f0 s0 l r (Hp & He & Hl) Hf; destruct_pairs; destruct s0; cbn in Hp, He, Hl, Hf; subst;
      assert (Hr' : (length (snd (absorb LBR l r)) < fuel)%nat)
        by (eapply Nat.le_lt_trans; [apply absorb_length | simpl in Hl; lia]);
      remember (fst (absorb LBR l r)) as g eqn:Eg; remember (snd (absorb LBR l r)) as r' eqn:Er';
      rt_unfold; use_inner INNER IL; rewrite <- Eg in E2; rewrite <- ?Er'; clear INNER OUTER H1 H2 H3 HR HI;
      match type of E2 with ?v = _ => subst v end;
      destruct (is_nil g) eqn:Hg;
      [ destruct g; [|discriminate]; cbn [str_eqb]; rt_unfold; reflexivity
      | rewrite ?str_eqb_nil_r, ?nonempty_is_nil, Hg; rt_unfold;
        unfold read_line, take_count, unhex, C;
        cbv beta iota delta [cfgR r_prefix r_ws r_iws r_dz r_dec r_encb r_rej r_rej_empty r_lb];
        match goal with
        | |- context [py_rstrip_chars ?s ?L] =>
            replace (py_rstrip_chars s L) with (rstrip is_crlf s)
              by (unfold py_rstrip_chars; apply rstrip_ext; intro; rewrite is_crlf_mem; apply memN_same; vm_compute; reflexivity)
        end;
        unfold py_lstrip, py_split_char, py_join_char, py_startswith, py_endswith, is_hex_shaped, hex_prefix, SP;
        cbv beta iota delta [ENV e_ws e_iws e_dz];
        normalise;
        match goal with
        | |- context [split_on ?c ?t] =>
            let a := fresh "a" in let b := fresh "b" in let Hs := fresh "Hs" in
            destruct (split_on_cons c t) as (a & b & Hs); rewrite ?Hs
        end;
        rewrite ?pyindex_0_cons, ?pyslice_1_cons; cbn [hd tl];
        destruct prefix; rt_unfold;
        repeat (normalise; rewrite ?pyindex_0_cons, ?pyslice_1_cons; destruct_scrut; rt_unfold);
        tryif (lazymatch goal with |- step_done (rfor _ _ _ _) _ => idtac end) then
          (lazymatch goal with
           | |- step_done (@rfor ?X ?F ?R ?l ?body ?fr0 ?st) ?P =>
               with_proj F F constr:(fun f : F => f) ltac:(fun gety =>
                 apply (rfor_yield_done body gety);
                 [ intros ? ? ?; destruct_pairs; rt_unfold; cbn [fst snd]; split; reflexivity | ])
           end)
        else idtac;
        cbv beta iota delta [step_done]; unfold rinv, proj, app_line; rt_unfold; cbn [fst snd out npw nerr];
        rewrite ?zrange_length, ?Z.sub_0_r;
        (split; [repeat split; assumption | split; reflexivity])
      ]
    | ]
  end.
  match goal with
  | |- context [@rwhile ?F ?R ?fu ?cnd ?bdy ?f0] =>
      destruct (OUTER H1 H2 H3 H4 fuel f0 s fin HI (proj2 (proj2 HI)) HR) as (s' & E & Ep)
  end.
  erewrite bind_ok; [| apply try_catch_ok; exact E]. unfold fn_end, ret. rewrite <- Ep. reflexivity.
Qed.

(* ================================================================ the generated reader = the model *)

(* what codecs readline delivers for a decoded text: the lines of
   str.splitlines(keepends=True), no decoding error (errors='surrogateescape') *)
Definition codecs_lines (text : str) : list rline := map RLine (lines_keep LB text).

Lemma LBR_sub_LB : forall c, LBR c = true -> LB c = true.
Proof.
  assert (A : forallb LB reader_linebreaks = true) by (vm_compute; reflexivity).
  rewrite forallb_forall in A. intros c H. apply A. apply memN_In. exact H.
Qed.

Lemma app_rout_empty o : app_rout {| out := []; npw := 0; nerr := 0 |} o = o.
Proof. apply rout_ext; reflexivity. Qed.

(* read_password, translated from the source, run to exhaustion on the object
   __init__ (translated from the source) builds: the model's read_text *)
Theorem source_read_password_is_model : forall name cd prefix text fuel,
  (length (lines_keep LB text) < fuel)%nat ->
  run_reader (py_read_password ENV fuel) (py_init name cd prefix (codecs_lines text)) =
  Some (read_text (cfgR (cd_dec cd) (cd_encb cd) prefix) text).
Proof.
  intros name cd prefix text fuel Hf.
  apply (read_password_spec cd prefix).
  - unfold rinv, py_init, codecs_open_r_surrogateescape, codecs_lines. cbn. rewrite map_length. auto.
  - unfold read_text. change (r_lb (cfgR (cd_dec cd) (cd_encb cd) prefix)) with LBR.
    rewrite <- (glue_lines_keep LBR LB LBR_sub_LB text).
    replace (proj (py_init name cd prefix (codecs_lines text))) with {| out := []; npw := 0%Z; nerr := 0%Z |}
      by (unfold py_init, proj; reflexivity).
    rewrite <- (app_rout_empty (read_lines _ (glue LBR (lines_keep LB text)))).
    replace (o_file (py_init name cd prefix (codecs_lines text))) with (map RLine (lines_keep LB text))
      by (unfold py_init, codecs_open_r_surrogateescape; reflexivity).
    apply (Rd_pieces LBR _ (length (lines_keep LB text))); [apply le_n | apply lines_keep_pieces_nonempty].
Qed.

(* the fuel the statements below give the translated loop: more than the number of lines *)
Definition source_reader (cd : codec) (prefix : bool) (text : str) : option rout :=
  run_reader (py_read_password ENV (S (length text))) (py_init [] cd prefix (codecs_lines text)).

Theorem source_reader_is_model : forall cd prefix text,
  source_reader cd prefix text = Some (read_text (cfgR (cd_dec cd) (cd_encb cd) prefix) text).
Proof.
  intros. apply source_read_password_is_model. apply Nat.lt_succ_r. apply lines_keep_length.
Qed.

(* never out of fuel, no exception escapes, whatever the file contains *)
Theorem source_reader_total : forall cd prefix text, source_reader cd prefix text <> None.
Proof. intros. rewrite source_reader_is_model. discriminate. Qed.

