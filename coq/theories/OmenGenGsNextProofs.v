(* The generated GuessStructure._format_guess and next_guess
   (gen/OmenGen_gs_gen.v) compute what Omen.format_guess and Omen.gs_next
   compute.  See OmenGenGsProofs.v for the conventions.

   The Python code mutates the parse tree in place through `last_item`, an alias
   of self.parse_tree[-1]; the translation reads and writes the last row of
   self.parse_tree instead.  The model walks the REVERSED tree by structural
   recursion ([gs_backtrack]) and enumerates the later choices of one position
   as a list ([later_choices]); the three nested Python loops (depths / levels of
   one depth / indices of one level) are compared with it by three loop
   lemmas that take the translated loop tests and bodies as they are generated. *)
From Coq Require Import List Arith Bool NArith ZArith Lia.
From Pcfg Require Import OmenSpec Omen OmenProofs OmenProofs2 OmenProofs3 OmenGenRt OmenGenRtProofs OmenGenOptProofs
     OmenGenGsProofs.
From PcfgGen Require Import OmenGen_opt_gen OmenGen_gs_gen.
Import ListNotations.

Ltac feed H := match type of H with ?A -> _ => let Hx := fresh in assert A as Hx; [ | specialize (H Hx); clear Hx ] end.

(* ------------------------------------------------------------------ *)
(* parse trees as Python sees them                                      *)

Lemma tree_py_app a b : tree_py (a ++ b) = tree_py a ++ tree_py b.
Proof. apply map_app. Qed.

Lemma truthy_tree_py T : truthy (Some (tree_py T)) = negb (is_nil T).
Proof. destruct T; reflexivity. Qed.

Lemma pt_last_py T r : pt_last (Some (tree_py (T ++ [r]))) = Ok (row_py r).
Proof. unfold pt_last. cbn [not_none bind]. rewrite tree_py_app. apply pyindex_snoc. Qed.

Lemma pt_set_last_py T r r' : pt_set_last (Some (tree_py (T ++ [r]))) (row_py r') = Ok (Some (tree_py (T ++ [r']))).
Proof.
  unfold pt_set_last. cbn [not_none bind]. rewrite !tree_py_app. cbn [tree_py map].
  now rewrite pysetindex_last.
Qed.

Lemma pt_pop_snoc (l : pytree) (x : pyrow) : pt_pop (Some (l ++ [x])) = Ok (x, Some l).
Proof.
  unfold pt_pop. cbn [not_none bind]. rewrite last_last, removelast_last.
  destruct l; reflexivity.
Qed.

Lemma pt_pop_py T r : pt_pop (Some (tree_py (T ++ [r]))) = Ok (row_py r, Some (tree_py T)).
Proof. rewrite tree_py_app. apply pt_pop_snoc. Qed.

Lemma pt_extend_py T N : pt_extend (Some (tree_py T)) (tree_py N) = Ok (Some (tree_py (T ++ N))).
Proof. unfold pt_extend. cbn [not_none bind]. now rewrite tree_py_app. Qed.

Lemma row_set_idx_py p L i j : row_set_idx (row_py (p, L, i)) (Z.of_nat j) = row_py (p, L, j).
Proof. reflexivity. Qed.

Lemma row_set_lvl_py p L i L' : row_set_lvl (row_py (p, L, i)) (Z.of_nat L') = row_py (p, L', i).
Proof. reflexivity. Qed.

(* self with another parse tree *)
Definition with_pt (self : pygs) (T : tree) : pygs := set_gs_parse_tree self (Some (tree_py T)).

Section GSN.
  Variable cp : cp_index.
  Variable maxl optmax : nat.
  Hypothesis cp_ne : cp_nonempty cp.

  Notation cpf := (cpf_of cp).
  Notation fill := (Omen.fill cpf maxl optmax).
  Notation compl := (completions_f cpf maxl).

  (* a row the generator can have produced: its level is one the generator uses
     and its index points into the list of that level *)
  Definition row_valid (r : row) : Prop :=
    row_level r <= maxl /\ row_index r < length (cpf (row_prefix r) (row_level r)).
  Definition tree_valid (t : tree) : Prop := Forall row_valid t.

  (* what is threaded through the generator: the Optimizer object is the model's
     cache, and the cache only holds first completions *)
  Definition inv (o : pyopt) (c : cache) : Prop := crel optmax o c /\ cache_ok cpf maxl c.

  Lemma compl_valid : forall k p lvl t, In t (compl k p lvl) -> tree_valid t.
  Proof.
    induction k as [|k IH]; intros p lvl t H.
    - apply in_compl_0 in H. destruct H as [-> _]. constructor.
    - apply in_compl_S in H. destruct H as (L & i & c & t' & -> & Hc & Ht).
      apply in_choices in Hc. destruct Hc as [HL Hn]. constructor; [|exact (IH _ _ _ Ht)].
      split; cbn [row_level row_index row_prefix fst snd].
      + apply in_levels_down in HL. lia.
      + apply nth_error_Some. congruence.
  Qed.

  Lemma cp_get_row p L i : i < length (cpf p L) ->
    exists m, dfind ostr_eqb p cp = Some m /\ lvl_find m (Z.of_nat L) = Some (cpf p L).
  Proof.
    intro H. destruct (dfind ostr_eqb p cp) as [m|] eqn:E.
    - exists m. split; [reflexivity|]. rewrite (cp_level_find cp p m L cp_ne E).
      destruct (cpf p L); [cbn in H; lia | reflexivity].
    - exfalso. unfold cpf_of in H. rewrite dfind_idx_lookup, E in H. cbn in H. lia.
  Qed.

  (* ---------------------------------------------------------------- *)
  (* _format_guess                                                     *)

  Lemma format_loop (l : list row) (g : ostr) (body : pyrow -> ostr -> res (lctl ostr ostr)) :
    tree_valid l ->
    (forall r g, row_valid r -> body (row_py r) g = Ok (Continue (g ++ [row_char cpf r]))) ->
    mfor (tree_py l) body g (fun g => Ok g) = Ok (g ++ tree_chars cpf l).
  Proof.
    intros Hv Hb. revert g. induction l as [|r l IH]; intro g; cbn [tree_py map mfor tree_chars].
    - now rewrite app_nil_r.
    - inversion Hv; subst. rewrite Hb by assumption. fold (tree_py l). rewrite IH by assumption.
      fold (tree_chars cpf l). now rewrite <- app_assoc.
  Qed.

  Theorem gen_format_guess fuel self T : gs_cp self = cp -> tree_valid T ->
    py_gs_format_guess fuel (with_pt self T) = Ok (format_guess cpf (gs_ip self) T).
  Proof.
    intros Hcp Hv. unfold py_gs_format_guess, with_pt. cbn [set_gs_parse_tree gs_parse_tree gs_ip gs_cp not_none bind].
    rewrite Hcp. unfold format_guess. apply format_loop; [exact Hv|].
    intros [[p L] i] g [_ Hi]. cbn [row_prefix row_level row_index fst snd] in Hi.
    destruct (cp_get_row p L i Hi) as (m & E1 & E2).
    unfold row_py. cbn [row_ip row_lvl row_idx row_prefix row_level row_index fst snd].
    rewrite E1. cbn [dict_get bind]. rewrite E2. cbn [dict_get bind].
    destruct (nth_error (cpf p L) i) as [ch|] eqn:En; [|apply nth_error_None in En; lia].
    rewrite (pyindex_nat _ _ _ En). cbn [bind]. unfold row_char. cbn [row_prefix row_level row_index fst snd].
    now rewrite (nth_error_nth _ _ 0%N En).
  Qed.

  (* ---------------------------------------------------------------- *)
  (* _fill_out_parse_tree from an invariant state                      *)

  Lemma fill_inv self fuel o c p m B : gs_ok cp maxl self -> inv o c -> 1 <= m -> fuel >= fill_fuel cp maxl m ->
    exists o', py_gs_fill_out_parse_tree fuel self o p (Z.of_nat m) B = Ok (otree_py (fst (fill m c p B)), o') /\
               inv o' (snd (fill m c p B)) /\
               (forall t, fst (fill m c p B) = Some t -> tree_valid t /\ length t = m).
  Proof.
    intros Hok [Hrel Hc] Hm Hf.
    destruct (gen_fill cp maxl optmax cp_ne self Hok m fuel o c p B Hm Hrel Hf) as (o' & E & Hrel').
    destruct (fill_is_first cpf maxl optmax m c p B Hm Hc) as [H1 H2].
    exists o'. split; [exact E|]. split; [split; assumption|].
    intros t Ht. rewrite Ht in H1. symmetry in H1.
    assert (In t (compl m p B)) as Hin by (destruct (compl m p B); [discriminate | injection H1 as ->; now left]).
    split; [exact (compl_valid _ _ _ _ Hin) | exact (compl_length cpf maxl _ _ _ _ Hin)].
  Qed.
  (* ---------------------------------------------------------------- *)
  (* next_guess: the three nested loops                                *)

  Variable self : pygs.
  Hypothesis Hok : gs_ok cp maxl self.
  Notation TC := (try_choice cpf maxl optmax).
  Notation find_cp := (Omen.find_cp cpf maxl).

  (* the choices left at one depth: the rest of level D from index j, then every lower level *)
  Definition LC (p : ostr) (D j : nat) : list (nat * (nat * N)) :=
    map (pair D) (skipn j (indexed (cpf p D))) ++
    flat_map (fun L' => map (pair L') (indexed (cpf p L'))) (lower D).

  Lemma later_choices_LC p L i : later_choices cpf p L i = LC p L (S i).
  Proof. reflexivity. Qed.

  Lemma flat_map_down_from_skip {Y} (g : nat -> list Y) n L : L <= n ->
    (forall L', L < L' <= n -> g L' = []) ->
    flat_map g (down_from n) = flat_map g (L :: lower L).
  Proof.
    intros HL Hskip. induction n as [|n IH].
    - replace L with 0 by lia. reflexivity.
    - destruct (Nat.eq_dec L (S n)) as [->|Hne]; [now rewrite down_from_lower|].
      cbn [down_from flat_map]. rewrite Hskip by lia. cbn [app]. apply IH; [lia|]. intros L' HL'. apply Hskip. lia.
  Qed.

  (* `while last_item[2] < len(self.cp[last_item[0]][depth_level])` *)
  Lemma next_inner_loop {R : Type} (found : tree -> pyopt -> R) rest p D elem_p m B
        (cond : pyopt * pygs -> res bool) (body : pyopt * pygs -> res (lctl R (pyopt * pygs)))
        (kont : pyopt * pygs -> res R) :
    (forall o j, cond (o, with_pt self (rev rest ++ [(p, D, j)])) = Ok (Z.of_nat j <? zlen (cpf p D))%Z) ->
    (forall o c j ch, inv o c -> nth_error (cpf p D) j = Some ch ->
       exists o', inv o' (snd (TC rest p elem_p m B c (D, (j, ch)))) /\
         body (o, with_pt self (rev rest ++ [(p, D, j)])) =
         Ok (match fst (TC rest p elem_p m B c (D, (j, ch))) with
             | Some t => Return (found t o')
             | None => Continue (o', with_pt self (rev rest ++ [(p, D, S j)])) end)) ->
    forall fuel j o c, fuel > length (cpf p D) - j -> j <= length (cpf p D) -> inv o c ->
      exists o', inv o' (snd (first_st (TC rest p elem_p m B) c (map (pair D) (skipn j (indexed (cpf p D)))))) /\
        mwhile fuel cond body (o, with_pt self (rev rest ++ [(p, D, j)])) kont =
        match fst (first_st (TC rest p elem_p m B) c (map (pair D) (skipn j (indexed (cpf p D))))) with
        | Some t => Ok (found t o')
        | None => kont (o', with_pt self (rev rest ++ [(p, D, length (cpf p D))]))
        end.
  Proof.
    intros Hcond Hbody. induction fuel as [|f IH]; intros j o c Hf Hj Hinv; [lia|].
    cbn [mwhile]. rewrite Hcond. unfold zlen.
    destruct (Z.of_nat j <? Z.of_nat (length (cpf p D)))%Z eqn:E.
    - apply Z.ltb_lt in E. assert (j < length (cpf p D)) as Hlt by lia.
      destruct (nth_error (cpf p D) j) as [ch|] eqn:En; [|apply nth_error_None in En; lia].
      rewrite (skipn_indexed_cons _ _ _ En). cbn [map first_st].
      destruct (Hbody o c j ch Hinv En) as (o1 & Hinv1 & Hb). rewrite Hb.
      destruct (TC rest p elem_p m B c (D, (j, ch))) as [[t|] c3]; cbn [fst snd] in *.
      + exists o1. split; [exact Hinv1 | reflexivity].
      + apply IH; [lia | lia | exact Hinv1].
    - apply Z.ltb_ge in E. assert (j = length (cpf p D)) as -> by lia.
      rewrite skipn_indexed_all. cbn [map first_st fst snd]. exists o. split; [exact Hinv | reflexivity].
  Qed.

  (* `while True:` over the levels of one depth *)
  Lemma next_level_loop {R : Type} (found : tree -> pyopt -> R) rest p elem_p m B
        (cond : pygs * pyopt * Z -> res bool) (body : pygs * pyopt * Z -> res (lctl R (pygs * pyopt * Z)))
        (kont : pygs * pyopt * Z -> res R) :
    (forall s, cond s = Ok true) ->
    (forall o c D j, inv o c -> D <= maxl -> cpf p D <> [] -> j <= length (cpf p D) ->
       exists o', inv o' (snd (first_st (TC rest p elem_p m B) c (map (pair D) (skipn j (indexed (cpf p D)))))) /\
         body (with_pt self (rev rest ++ [(p, D, j)]), o, Z.of_nat D) =
         match fst (first_st (TC rest p elem_p m B) c (map (pair D) (skipn j (indexed (cpf p D))))) with
         | Some t => Ok (Return (found t o'))
         | None =>
             match D with
             | 0 => Ok (Break (with_pt self (rev rest ++ [(p, D, length (cpf p D))]), o', Z.of_nat D))
             | S _ =>
                 match find_cp p (Z.of_nat D - 1) 0 with
                 | None => Ok (Break (with_pt self (rev rest ++ [(p, D, length (cpf p D))]), o', Z.of_nat D))
                 | Some D' => Ok (Continue (with_pt self (rev rest ++ [(p, D', 0)]), o', Z.of_nat D'))
                 end
             end
         end) ->
    forall fuel D j o c, fuel > D -> inv o c -> D <= maxl -> cpf p D <> [] -> j <= length (cpf p D) ->
      exists o', inv o' (snd (first_st (TC rest p elem_p m B) c (LC p D j))) /\
        match fst (first_st (TC rest p elem_p m B) c (LC p D j)) with
        | Some t => mwhile fuel cond body (with_pt self (rev rest ++ [(p, D, j)]), o, Z.of_nat D) kont = Ok (found t o')
        | None => exists D' j' dz,
            mwhile fuel cond body (with_pt self (rev rest ++ [(p, D, j)]), o, Z.of_nat D) kont =
            kont (with_pt self (rev rest ++ [(p, D', j')]), o', dz)
        end.
  Proof.
    intros Hcond Hbody. induction fuel as [|f IH]; intros D j o c Hf Hinv HD Hne Hj; [lia|].
    cbn [mwhile]. rewrite Hcond.
    destruct (Hbody o c D j Hinv HD Hne Hj) as (o1 & Hinv1 & Hb). rewrite Hb.
    unfold LC. rewrite first_st_app.
    destruct (first_st (TC rest p elem_p m B) c (map (pair D) (skipn j (indexed (cpf p D))))) as [[t|] c1];
      cbn [fst snd] in *.
    - exists o1. split; [exact Hinv1 | reflexivity].
    - destruct D as [|D1].
      + cbn [lower flat_map first_st fst snd]. exists o1. split; [exact Hinv1 | eauto].
      + destruct (find_cp p (Z.of_nat (S D1) - 1) 0) as [D'|] eqn:Efc.
        * apply find_cp_spec in Efc. destruct Efc as (H1 & H2 & H3 & H4 & H5).
          cbn [lower].
          rewrite (flat_map_down_from_skip (fun L' => map (pair L') (indexed (cpf p L'))) D1 D') by
            (try lia; intros L' HL'; rewrite H5 by lia; reflexivity).
          change (flat_map (fun L' => map (pair L') (indexed (cpf p L'))) (D' :: lower D')) with (LC p D' 0).
          apply IH; [lia | exact Hinv1 | exact H2 | exact H4 | lia].
        * assert (flat_map (fun L' => map (pair L') (indexed (cpf p L'))) (lower (S D1)) = []) as ->.
          { apply flat_map_nil_all. intros L HL. rewrite <- (levels_down_pred maxl (S D1) HD) in HL.
            now rewrite (find_cp_none_levels cp maxl _ _ Efc L HL). }
          cbn [first_st fst snd]. exists o1. split; [exact Hinv1 | eauto].
  Qed.

  (* `while self.parse_tree:` over the depths *)
  Lemma next_depth_loop (Mx : nat)
        (cond : pygs * pyopt * pyrow * Z * Z -> res bool)
        (body : pygs * pyopt * pyrow * Z * Z -> res (lctl (option ostr * pygs * pyopt) (pygs * pyopt * pyrow * Z * Z)))
        (kont : pygs * pyopt * pyrow * Z * Z -> res (option ostr * pygs * pyopt)) :
    (forall T o e m B, cond (with_pt self T, o, e, m, B) = Ok (negb (is_nil T))) ->
    (forall o e m B, kont (with_pt self [], o, e, m, B) = Ok (None, with_pt self [], o)) ->
    (forall o c rest p L i e m B T, inv o c -> row_valid (p, L, i) -> tree_valid rest -> 1 <= m -> m <= Mx ->
       T = rev rest ++ [(p, L, i)] ->
       exists o' e', row_ip e' = p /\
         inv o' (snd (first_st (TC rest p (row_ip e) m B) c (later_choices cpf p L i))) /\
         body (with_pt self T, o, e, Z.of_nat m, B) =
         Ok (match fst (first_st (TC rest p (row_ip e) m B) c (later_choices cpf p L i)) with
             | Some t => Return (Some (format_guess cpf (gs_ip self) t), with_pt self t, o')
             | None => Continue (with_pt self (rev rest), o', e', Z.of_nat (S m),
                                 match rest with [] => B | r :: _ => (B + Z.of_nat (row_level r))%Z end)
             end)) ->
    forall fuel st o c e elem m B T, fuel > length st -> inv o c -> tree_valid st -> 1 <= m -> m + length st <= Mx + 1 ->
      row_ip e = row_prefix elem -> T = rev st ->
      exists o', inv o' (snd (gs_backtrack cpf maxl optmax c st elem m B)) /\
        mwhile fuel cond body (with_pt self T, o, e, Z.of_nat m, B) kont =
        Ok (match fst (gs_backtrack cpf maxl optmax c st elem m B) with
            | Some t => (Some (format_guess cpf (gs_ip self) t), with_pt self t, o')
            | None => (None, with_pt self [], o')
            end).
  Proof.
    intros Hcond Hkont Hbody. induction fuel as [|f IH]; intros st o c e elem m B T Hf Hinv Hv Hm HMx He HT; [lia|].
    cbn [mwhile]. rewrite Hcond. destruct st as [|[[p L] i] rest].
    - subst T. cbn [rev is_nil negb gs_backtrack fst snd]. rewrite Hkont. exists o. split; [exact Hinv | reflexivity].
    - assert (negb (is_nil T) = true) as -> by (subst T; cbn [rev]; destruct (rev rest); reflexivity).
      inversion Hv as [|? ? Hr Hrest]; subst x l. cbn [gs_backtrack].
      destruct (Hbody o c rest p L i e m B T Hinv Hr Hrest Hm ltac:(cbn [length] in HMx; lia) HT) as (o1 & e1 & He1 & Hinv1 & Hb). rewrite Hb.
      rewrite <- He.
      destruct (first_st (TC rest p (row_ip e) m B) c (later_choices cpf p L i)) as [[t|] c1]; cbn [fst snd] in *.
      + exists o1. split; [exact Hinv1 | reflexivity].
      + apply IH; [cbn [length] in Hf; lia | exact Hinv1 | exact Hrest | lia | cbn [length] in HMx; lia | exact He1 | reflexivity].
  Qed.

  (* ---------------------------------------------------------------- *)
  (* next_guess                                                        *)

  Definition gs_fuel (k : nat) (t : tree) : nat := fill_fuel cp maxl (Nat.max k (length t)) + 1.

  Lemma exists_last_or_nil {X} (l : list X) : l = [] \/ exists l' x, l = l' ++ [x].
  Proof.
    destruct l as [|y r]; [now left|]. right.
    destruct (@exists_last _ (y :: r) ltac:(discriminate)) as (l' & x & E). eauto.
  Qed.

  Lemma gs_ok_with_pt T : gs_ok cp maxl (with_pt self T).
  Proof. exact Hok. Qed.

  Lemma gs_ok_set v : gs_ok cp maxl (set_gs_parse_tree self v).
  Proof. exact Hok. Qed.

  Lemma format_with_pt fuel T : tree_valid T ->
    py_gs_format_guess fuel (with_pt self T) = Ok (format_guess cpf (gs_ip self) T).
  Proof. intro H. apply (gen_format_guess fuel self T (proj1 Hok) H). Qed.

  Lemma tree_valid_app a b : tree_valid (a ++ b) <-> tree_valid a /\ tree_valid b.
  Proof. apply Forall_app. Qed.

  Lemma tree_valid_rev a : tree_valid (rev a) <-> tree_valid a.
  Proof.
    unfold tree_valid. rewrite !Forall_forall. split; intros H x Hx; apply H.
    - apply (proj1 (in_rev a x)). exact Hx.
    - apply (proj2 (in_rev a x)). exact Hx.
  Qed.

  (* the value of try_choice when the fill succeeds is a valid tree *)
  Lemma try_choice_valid rest p elem_p m B c D j ch t : cache_ok cpf maxl c -> 1 <= m ->
    tree_valid rest -> D <= maxl -> nth_error (cpf p D) j = Some ch ->
    fst (TC rest p elem_p m B c (D, (j, ch))) = Some t -> tree_valid t.
  Proof.
    intros Hc Hm Hrest HD Hn. unfold try_choice. cbn [fst snd].
    destruct (fill_is_first cpf maxl optmax m c (removelast elem_p ++ [ch]) (B - Z.of_nat D)%Z Hm Hc) as [H1 _].
    destruct (Omen.fill cpf maxl optmax m c (removelast elem_p ++ [ch]) (B - Z.of_nat D)) as [[new|] c']; cbn [fst snd option_map] in *;
      [|discriminate].
    intro E. injection E as <-.
    apply tree_valid_app. split; [now apply tree_valid_rev|]. constructor.
    - split; cbn [row_level row_index row_prefix fst snd]; [exact HD | apply nth_error_Some; congruence].
    - symmetry in H1.
      assert (In new (compl m (removelast elem_p ++ [ch]) (B - Z.of_nat D))) as Hin
          by (destruct (compl m _ _); [discriminate | injection H1 as ->; now left]).
      exact (compl_valid _ _ _ _ Hin).
  Qed.

  Lemma is_nil_snoc {X} (l : list X) x : is_nil (l ++ [x]) = false.
  Proof. destruct l; reflexivity. Qed.
  Lemma row_ip_py r : row_ip (row_py r) = row_prefix r.
  Proof. reflexivity. Qed.
  Lemma row_lvl_py r : row_lvl (row_py r) = Z.of_nat (row_level r).
  Proof. reflexivity. Qed.
  Lemma row_idx_py r : row_idx (row_py r) = Z.of_nat (row_index r).
  Proof. reflexivity. Qed.
  Lemma fold_with_pt T : set_gs_parse_tree self (Some (tree_py T)) = with_pt self T.
  Proof. reflexivity. Qed.
  Lemma pt_with_pt T : gs_parse_tree (with_pt self T) = Some (tree_py T).
  Proof. reflexivity. Qed.
  Lemma set_with_pt T v : set_gs_parse_tree (with_pt self T) v = set_gs_parse_tree self v.
  Proof. reflexivity. Qed.
  Lemma cp_with_pt T : gs_cp (with_pt self T) = cp.
  Proof. exact (proj1 Hok). Qed.

  Ltac gsn :=
    repeat first [rewrite pt_with_pt | rewrite set_with_pt | rewrite fold_with_pt | rewrite cp_with_pt
                 | rewrite pt_last_py | rewrite row_ip_py | rewrite row_lvl_py | rewrite row_idx_py
                 | progress cbn [bind dict_get row_prefix row_level row_index fst snd]].

  Ltac rew_conv E :=
    match type of E with _ = ?R =>
      match goal with |- context[mwhile ?a ?b ?c ?d ?e] =>
        replace (mwhile a b c d e) with R by (symmetry; exact E) end end.

  Notation ip0 := (gs_ip self).
  Notation tg0 := (gs_target_level self).

  Theorem gen_gs_next fuel s o c k t :
    inv o c -> 1 <= k ->
    (t = [] \/ In t (compl k ip0 tg0)) ->
    gs_cp_length self = Z.of_nat k ->
    (s = with_pt self t \/ (t = [] /\ s = set_gs_parse_tree self None)) ->
    fuel >= gs_fuel k t ->
    exists o' pt',
      py_gs_next_guess fuel s o =
        Ok (option_map (format_guess cpf ip0) (fst (gs_next cpf maxl optmax c ip0 k tg0 t)),
            set_gs_parse_tree self pt', o') /\
      inv o' (snd (gs_next cpf maxl optmax c ip0 k tg0 t)) /\
      match fst (gs_next cpf maxl optmax c ip0 k tg0 t) with
      | Some t' => pt' = Some (tree_py t') /\ In t' (compl k ip0 tg0)
      | None => pt' = Some [] \/ pt' = None
      end.
  Proof.
    intros Hinv Hk Hin Hlen Hs Hfuel. unfold gs_fuel in Hfuel.
    (* what the model returns is again a completion *)
    assert (Hout : forall t', fst (gs_next cpf maxl optmax c ip0 k tg0 t) = Some t' -> In t' (compl k ip0 tg0)).
    { intros t' E. destruct t as [|r0 t0].
      - destruct (gs_first_spec cpf maxl optmax c ip0 k tg0 Hk (proj2 Hinv)) as [G1 _]. rewrite E in G1.
        symmetry in G1. destruct (compl k ip0 tg0); [discriminate | injection G1 as ->; now left].
      - destruct Hin as [Hin | Hin]; [discriminate|].
        destruct (gs_next_spec cpf maxl optmax c ip0 k tg0 (r0 :: t0) (proj2 Hinv) Hin ltac:(discriminate)) as [G1 _].
        rewrite E in G1. symmetry in G1.
        destruct (rem cpf maxl k tg0 (r0 :: t0)) as [|x ys] eqn:Er; [discriminate|]. injection G1 as ->.
        exact (proj1 (rem_next cpf maxl _ _ _ _ _ _ Hin Er)). }
    assert (Hv : tree_valid t).
    { destruct Hin as [-> | Hin]; [constructor | exact (compl_valid _ _ _ _ Hin)]. }
    clear Hin.
    destruct (exists_last_or_nil t) as [-> | (T0 & [[p L] i] & ->)].
    - (* the first guess *)
      assert (truthy (gs_parse_tree s) = false /\ gs_ok cp maxl s /\ gs_ip s = gs_ip self /\
              gs_cp_length s = gs_cp_length self /\ gs_target_level s = gs_target_level self /\
              forall v, set_gs_parse_tree s v = set_gs_parse_tree self v) as (Ht & Hoks & E1 & E2 & E3 & E4).
      { destruct Hs as [-> | [_ ->]]; (split; [reflexivity|]); (split; [exact Hok|]); repeat split; reflexivity. }
      unfold py_gs_next_guess. rewrite Ht. cbn [negb]. rewrite E1, E2, E3, Hlen.
      destruct (fill_inv s fuel o c (gs_ip self) k (gs_target_level self) Hoks Hinv Hk) as (o1 & Ef & Hinv1 & Hval).
      { unfold fill_fuel in *. lia. }
      rewrite Ef. cbn [bind]. rewrite E4.
      assert (Hg : gs_next cpf maxl optmax c ip0 k tg0 [] = Omen.fill cpf maxl optmax k c ip0 tg0) by reflexivity.
      rewrite Hg in *.
      destruct (fst (Omen.fill cpf maxl optmax k c (gs_ip self) (gs_target_level self))) as [t'|] eqn:Efill;
        cbn [otree_py option_map].
      + destruct (Hval t' eq_refl) as [Hv' Hl'].
        change (set_gs_parse_tree self (Some (tree_py t'))) with (with_pt self t').
        assert (truthy (gs_parse_tree (with_pt self t')) = true) as ->.
        { cbn [with_pt set_gs_parse_tree gs_parse_tree]. destruct t'; [cbn in Hl'; lia | reflexivity]. }
        cbn [negb]. rewrite (format_with_pt fuel t' Hv'). cbn [bind].
        exists o1, (Some (tree_py t')). split; [reflexivity|]. split; [exact Hinv1|]. split; [reflexivity | now apply Hout].
      + exists o1, None. cbn [set_gs_parse_tree gs_parse_tree truthy negb].
        split; [reflexivity|]. split; [exact Hinv1 | now right].
    - (* every guess after the first *)
      destruct Hs as [-> | [Hnil _]]; [|destruct T0; discriminate].
      apply tree_valid_app in Hv. destruct Hv as [Hv0 Hvr]. inversion Hvr as [|? ? Hrow _]; subst.
      pose proof Hrow as [HLm Hi]. cbn [row_level row_index row_prefix fst snd] in HLm, Hi.
      destruct (cp_get_row p L i Hi) as (mlv & Em1 & Em2).
      unfold py_gs_next_guess. rewrite pt_with_pt, truthy_tree_py, is_nil_snoc. cbn [negb].
      gsn. rewrite Em1. cbn [dict_get bind]. rewrite Em2. cbn [dict_get bind].
      match goal with |- context[gs_next cpf maxl optmax c ip0 k tg0 ?tt] =>
        assert (Hg : gs_next cpf maxl optmax c ip0 k tg0 tt =
                   if Nat.ltb (S i) (length (cpf p L)) then (Some (rev ((p, L, S i) :: rev T0)), c)
                   else match rev T0 with
                        | [] => (None, c)
                        | r :: _ => gs_backtrack cpf maxl optmax c (rev T0) (p, L, i) 1 (Z.of_nat L + Z.of_nat (row_level r))%Z
                        end) end.
      { unfold gs_next. now rewrite rev_unit. }
      rewrite Hg in *. clear Hg.
      destruct (Nat.ltb (S i) (length (cpf p L))) eqn:Elt.
      + apply Nat.ltb_lt in Elt.
        replace (Z.of_nat i + 1 <? zlen (cpf p L))%Z with true by (symmetry; apply Z.ltb_lt; unfold zlen; lia).
        gsn. replace (Z.of_nat i + 1)%Z with (Z.of_nat (S i)) by lia.
        rewrite row_set_idx_py, pt_set_last_py. cbn [bind]. gsn.
        rewrite format_with_pt.
        2:{ apply tree_valid_app. split; [exact Hv0|]. constructor; [|constructor]. split; [exact HLm | exact Elt]. }
        cbn [bind fst snd option_map rev] in *. rewrite rev_involutive in *.
        exists o, (Some (tree_py (T0 ++ [(p, L, S i)]))).
        split; [reflexivity|]. split; [exact Hinv|]. split; [reflexivity | now apply Hout].
      + apply Nat.ltb_ge in Elt.
        replace (Z.of_nat i + 1 <? zlen (cpf p L))%Z with false by (symmetry; apply Z.ltb_ge; unfold zlen; lia).
        rewrite ?pt_with_pt, pt_pop_py. cbn [bind]. gsn. rewrite truthy_tree_py.
        destruct (exists_last_or_nil T0) as [-> | (T1 & r1 & ->)].
        * cbn [is_nil negb rev fst snd option_map]. exists o, (Some []).
          split; [reflexivity|]. split; [exact Hinv | now left].
        * rewrite is_nil_snoc. cbn [negb]. gsn. rewrite rev_unit in *.
          rewrite !app_length in Hfuel. cbn [length] in Hfuel.
          apply tree_valid_app in Hv0. destruct Hv0 as [Hv1 Hvr1].
          (* the loop over the depths *)
          match goal with |- context[mwhile ?fu ?cond ?body ?st ?kont] =>
            pose proof (next_depth_loop (Nat.max k (length T1 + 2)) cond body kont) as HD end.
          feed HD.
          { intros T o0 e0 m0 B0. cbv beta iota. now rewrite pt_with_pt, truthy_tree_py. }
          feed HD.
          { intros o0 e0 m0 B0. reflexivity. }
          feed HD.
          { (* one depth *)
            intros o1 c1 rest p' L' i' e m B T Hinv1 Hrow1 Hrest Hm HmMx ->.
            pose proof Hrow1 as [HL1 Hi1]. cbn [row_level row_index row_prefix fst snd] in HL1, Hi1.
            cbv beta iota. gsn.
            replace (Z.of_nat i' + 1)%Z with (Z.of_nat (S i')) by lia.
            rewrite row_set_idx_py, pt_set_last_py. cbn [bind]. gsn.
            (* the loop over the levels of this depth *)
            match goal with |- context[mwhile ?fu ?cond ?body ?st ?kont] =>
              pose proof (next_level_loop
                            (fun t0 o0 => @Return (option ostr * pygs * pyopt) (pygs * pyopt * pyrow * Z * Z)
                                                  (Some (format_guess cpf ip0 t0), with_pt self t0, o0))
                            rest p' (row_ip e) m B cond body kont) as HLv end.
            feed HLv.
            { intros [[s0 o0] d0]. reflexivity. }
            feed HLv.
            { (* one level *)
              intros o2 c2 D j Hinv2 HD1 Hne Hj.
              assert (0 < length (cpf p' D)) as HposD by (destruct (cpf p' D); [congruence | cbn; lia]).
              destruct (cp_get_row p' D 0 HposD) as (mD & EmD1 & EmD2).
              cbv beta iota.
              match goal with |- context[mwhile ?fu ?cond ?body ?st ?kont] =>
                pose proof (next_inner_loop
                              (fun t0 o0 => @Return (lctl (option ostr * pygs * pyopt) (pygs * pyopt * pyrow * Z * Z)) (pygs * pyopt * Z)
                                 (@Return (option ostr * pygs * pyopt) (pygs * pyopt * pyrow * Z * Z)
                                          (Some (format_guess cpf ip0 t0), with_pt self t0, o0)))
                              rest p' D (row_ip e) m B cond body kont) as HIn end.
              feed HIn.
              { intros o3 j3. cbv beta iota. gsn. rewrite EmD1. cbn [dict_get bind]. rewrite EmD2. cbn [dict_get bind].
                reflexivity. }
              feed HIn.
              { (* one index *)
                intros o3 c3 j3 ch Hinv3 Hnth. cbv beta iota. gsn. rewrite EmD1. cbn [dict_get bind]. rewrite EmD2.
                cbn [dict_get bind]. rewrite (pyindex_nat _ _ _ Hnth). cbn [bind]. rewrite pyslice_removelast0.
                match goal with |- context[py_gs_fill_out_parse_tree fuel ?sx o3 ?ipx (Z.of_nat m) ?Bx] =>
                  destruct (fill_inv sx fuel o3 c3 ipx m Bx (gs_ok_with_pt _) Hinv3 Hm) as (o4 & Ef & Hinv4 & Hval4) end.
                { unfold fill_fuel in *. lia. }
                rewrite Ef. cbn [bind]. unfold try_choice. cbn [fst snd].
                destruct (Omen.fill cpf maxl optmax m c3 (removelast (row_ip e) ++ [ch]) (B - Z.of_nat D)) as [[new|] c4];
                  cbn [fst snd otree_py option_map] in *.
                - destruct (Hval4 new eq_refl) as [Hvnew _].
                  gsn. rewrite pt_extend_py. cbn [bind]. gsn.
                  rewrite <- app_assoc. cbn [app].
                  rewrite format_with_pt.
                  2:{ apply tree_valid_app. split; [now apply tree_valid_rev|]. constructor; [|exact Hvnew].
                      split; cbn [row_level row_index row_prefix fst snd]; [exact HD1 | apply nth_error_Some; congruence]. }
                  cbn [bind]. exists o4. split; [exact Hinv4 | reflexivity].
                - gsn. replace (Z.of_nat j3 + 1)%Z with (Z.of_nat (S j3)) by lia.
                  rewrite row_set_idx_py, pt_set_last_py. cbn [bind]. gsn.
                  exists o4. split; [exact Hinv4 | reflexivity]. }
              destruct (HIn fuel j o2 c2) as (o3 & Hinv3 & EIn).
              { pose proof (cpf_of_length cp p' D). unfold fill_fuel in *. lia. }
              { exact Hj. }
              { exact Hinv2. }
              exists o3. split; [exact Hinv3|]. rew_conv EIn.
              destruct (fst (first_st (TC rest p' (row_ip e) m B) c2 (map (pair D) (skipn j (indexed (cpf p' D)))))) as [t0|].
              - reflexivity.
              - cbv beta iota. destruct D as [|D1].
                + reflexivity.
                + assert (Hz1 : (Z.of_nat (S D1) =? 0)%Z = false) by (apply Z.eqb_neq; lia).
                  assert (Hz2 : (0 =? Z.of_nat (S D1))%Z = false) by (apply Z.eqb_neq; lia).
                  rewrite ?Hz1, ?Hz2. clear Hz1 Hz2.
                  gsn.
                  rewrite (gen_find_cp cp maxl cp_ne fuel _ p' (Z.of_nat (S D1) - 1) 0 (gs_ok_with_pt _))
                    by (unfold fill_fuel in *; lia).
                  destruct (find_cp p' (Z.of_nat (S D1) - 1) 0) as [D'|]; cbn [fcp_py option_map bind].
                  * gsn. rewrite row_set_lvl_py, pt_set_last_py. cbn [bind]. gsn.
                    change (row_set_idx (row_py (p', D', length (cpf p' (S D1)))) 0%Z) with (row_py (p', D', 0)).
                    rewrite pt_set_last_py. cbn [bind]. gsn. reflexivity.
                  * reflexivity. }
            destruct (HLv fuel L' (S i') o1 c1) as (o2 & Hinv2 & Hres).
            { unfold fill_fuel in *. lia. }
            { exact Hinv1. }
            { exact HL1. }
            { destruct (cpf p' L'); [cbn in Hi1; lia | discriminate]. }
            { lia. }
            rewrite later_choices_LC.
            destruct (fst (first_st (TC rest p' (row_ip e) m B) c1 (LC p' L' (S i')))) as [t0|].
            - exists o2, (row_py (p', 0, 0)). split; [reflexivity|]. split; [exact Hinv2|].
              rew_conv Hres. reflexivity.
            - destruct Hres as (D' & j' & dz & Hres). exists o2, (row_py (p', D', j')).
              split; [reflexivity|]. split; [exact Hinv2|].
              rew_conv Hres. cbv beta iota. rewrite ?pt_with_pt, pt_pop_py. cbn [bind]. gsn. rewrite truthy_tree_py.
              replace (Z.of_nat m + 1)%Z with (Z.of_nat (S m)) by lia.
              destruct rest as [|r rest']; cbn [rev is_nil negb].
              + reflexivity.
              + rewrite is_nil_snoc. cbn [negb]. gsn. reflexivity. }
          destruct (HD fuel (r1 :: rev T1) o c (row_py (p, L, i)) (p, L, i) 1 (Z.of_nat L + Z.of_nat (row_level r1))%Z (T1 ++ [r1]))
            as (o' & Hinv' & E).
          { cbn [length]. rewrite rev_length. unfold fill_fuel in Hfuel. lia. }
          { exact Hinv. }
          { constructor; [inversion Hvr1; assumption | now apply tree_valid_rev]. }
          { lia. }
          { cbn [length]. rewrite rev_length. lia. }
          { reflexivity. }
          { cbn [rev]. now rewrite rev_involutive. }
          rew_conv E.
          destruct (fst (gs_backtrack cpf maxl optmax c (r1 :: rev T1) (p, L, i) 1 (Z.of_nat L + Z.of_nat (row_level r1))%Z))
            as [t'|] eqn:Eb; cbn [option_map fst snd] in *.
          -- exists o', (Some (tree_py t')). split; [reflexivity|]. split; [exact Hinv'|]. split; [reflexivity | now apply Hout].
          -- exists o', (Some []). split; [reflexivity|]. split; [exact Hinv' | now left].
  Qed.

End GSN.
